import RactorModel.Lemmas.GenAdmission
import RactorModel.Extracted
import RactorModel.Lemmas.AdmissionCore
import RactorModel.Lemmas.AdmissionLate
import RactorModel.Lemmas.AdmissionIds
import RactorModel.Lemmas.AdmissionQueue
import RactorModel.Lemmas.AdmissionOracle
import RactorModel.Lemmas.AdmissionBack
import RactorModel.Lemmas.AdmissionShut
import RactorModel.Lemmas.AdmissionProgress
import RactorModel.Lemmas.Early
import RactorModel.Lemmas.EarlyStep
import RactorModel.Lemmas.StopPortsRun

/-!
# C07 — drain processes everything accepted and admits nothing afterwards

Property theorems only, about the small-step model `Model/Admission.lean` (one step = one atomic
operation of `actor_properties.rs`), for **all** thread programs (any number of senders,
messages, drainers, nested re-entrant sends/drains) and **all** schedules.
Helper lemmas: `Lemmas/Admission*.lean`.
-/

namespace C07
open Admission

/-- (1) *Nothing is admitted after the close.* A send whose first step (`send.status`) is executed
when the drainer's `fetch_or(CLOSED)` has already happened (`late`, recorded by that first step,
see `first_step_records_closed`) returns `Err(SendErr(m))`, and `m` is never enqueued. -/
theorem send_after_close_rejected (progs : List (List Op)) (sched : List Tid) :
    ∀ r ∈ (run (init progs) sched).sh.rets, r.kind = .send → r.late = true →
      r.res = .sendErr r.id ∧ (run (init progs) sched).sh.enq.count (.msg r.id) = 0 := by
  intro r hr hk hl
  have hL := (lateInv_run _ sched (lateInv_init progs)).late_log
  have hI := idInv_run r.id _ sched (idInv_init r.id progs)
  have hnb : Ret.lateBad r = false := by
    have := List.countP_eq_zero.mp hL r hr
    simpa using this
  have hB := (backInv_run _ sched (backInv_init progs)).own r hr hk
  have hres : r.res = .sendErr r.id := by
    cases hres : r.res with
    | sendErr b => rw [hB b hres]
    | _ => simp [Ret.lateBad, hk, hl, hres] at hnb
  refine ⟨hres, ?_⟩
  have hpos : 0 < (run (init progs) sched).sh.rets.countP (Ret.errFor r.id) :=
    List.countP_pos_iff.mpr ⟨r, hr, by simp [Ret.errFor, hk, hres]⟩
  have := hI.one
  omega

/-- (1, schedule form) *After the close nothing is admitted.* If in some reachable state admission
is closed (a drainer's `fetch_or` has been executed) and the send of message `m` has not performed
its first step yet — its id is not even allocated, or its frame is still parked at `send.status` —
then whatever happens afterwards, `m` is never enqueued and the send can only return
`Err(SendErr(m))`: the message is handed back. -/
theorem send_started_after_close_is_rejected (progs : List (List Op)) (sched₁ sched₂ : List Tid) (m : Nat)
    (hc : (run (init progs) sched₁).sh.word.closed = true)
    (hnot : (run (init progs) sched₁).sh.nextId ≤ m ∨
      ∃ stack ∈ (run (init progs) sched₁).threads, ∃ f ∈ stack, f.pc = .sStatus ∧ f.id = m) :
    (run (run (init progs) sched₁) sched₂).sh.enq.count (.msg m) = 0 ∧
    ∀ r ∈ (run (run (init progs) sched₁) sched₂).sh.rets, r.kind = .send → r.id = m → r.res = .sendErr m := by
  have hI := idInv_run m _ sched₁ (idInv_init m progs)
  have hS := shutInv_run m _ sched₂ (shutInv_of_closed m _ hI hc hnot)
  refine ⟨hS.not_enq, fun r hr hk hid => ?_⟩
  have := List.countP_eq_zero.mp hS.rets_ok r hr
  simp only [Ret.notHandedBack, hid, beq_self_eq_true, hk, Bool.true_and, Bool.not_eq_true] at this
  have hB := (backInv_run _ (sched₁ ++ sched₂) (backInv_init progs)).own r
    (by simpa only [run, List.foldl_append] using hr) hk
  cases hres : r.res with
  | sendErr b => rw [hB b hres, hid]
  | _ => simp_all

/-- What `late` records: the first step of a send reads `closed` into the ghost flag (together with the ids of the sends that have already returned `Ok`; the
send either returns `SendErr` at once because of the status, or goes on to `admit.load`). -/
theorem first_step_records_closed (s : Shared) (id : Nat) (late bf : Bool) (ops : List Op)
    (sk : List Nat) (rest : List Frame) :
    stepThread s (⟨.sStatus, id, late, ops, bf, sk⟩ :: rest) =
      if s.status ≥ stDraining then
        some ({ s with rets := s.rets ++ [⟨.send, id, .sendErr id, s.word.closed, okIds s.rets⟩] }, rest)
      else some (s, ⟨.aLoad, id, s.word.closed, ops, bf, okIds s.rets⟩ :: rest) := by
  simp only [stepThread, finish, kindOf]

/-- (2) The admission count is exactly the number of tickets held: frames between a successful
`admit.cas` and their `fetch_sub`. -/
theorem count_is_tickets (progs : List (List Op)) (sched : List Tid) :
    (run (init progs) sched).sh.word.count = cnt Frame.holds (run (init progs) sched) :=
  (inv_run _ sched (inv_init progs)).count_eq

/-- (3) The drain marker is enqueued at most once — counting the marker in the channel history,
marker enqueues still pending, and marker enqueues that failed because the receiver was gone. -/
theorem marker_at_most_once (progs : List (List Op)) (sched : List Tid) :
    cnt Frame.atMEnq (run (init progs) sched) + (run (init progs) sched).sh.enq.count .drain
      + (run (init progs) sched).sh.markerDropped ≤ 1 := by
  have := (inv_run _ sched (inv_init progs)).marker_one
  split at this <;> omega

/-- (3') Consequently the receiver leaves its loop with reason "Drained" at most once. -/
theorem drained_exit_at_most_once (progs : List (List Op)) (sched : List Tid) :
    (run (init progs) sched).sh.drainedExits ≤ 1 := by
  have h := marker_at_most_once progs sched
  have q := qinv_run _ sched (qinv_init progs)
  have hc := congrArg (List.count Item.drain) q.conserve
  simp only [List.count_append] at hc
  rw [q.drained_eq]
  omega

/-- (4) Every enqueued message precedes the marker: nothing follows the marker in the channel. -/
theorem messages_precede_marker (progs : List (List Op)) (sched : List Tid) (a b : List Item)
    (h : (run (init progs) sched).sh.enq = a ++ .drain :: b) : b = [] :=
  markerLast_split _ a b (inv_run _ sched (inv_init progs)).marker_last h

/-- The marker bit implies admission is closed and no ticket is outstanding. -/
theorem marker_implies_closed_and_idle (progs : List (List Op)) (sched : List Tid)
    (h : (run (init progs) sched).sh.word.marker = true) :
    (run (init progs) sched).sh.word.closed = true ∧ (run (init progs) sched).sh.word.count = 0 :=
  (inv_run _ sched (inv_init progs)).marker_imp h

/-- (5) *A drain never leaves the actor running forever.* In every reachable state where admission
is closed and no send/drain is in flight, the marker bit is set, and — unless the receiver has
already closed the channel — the marker is in the channel or was already dequeued (in which case
the receiver has left its loop). -/
theorem drain_completes (progs : List (List Op)) (sched : List Tid)
    (hc : (run (init progs) sched).sh.word.closed = true)
    (hq : quiescent (run (init progs) sched) = true) :
    (run (init progs) sched).sh.word.marker = true ∧
    ((run (init progs) sched).sh.rxOpen = true →
      (run (init progs) sched).sh.enq.count .drain = 1 ∧
      (.drain ∈ (run (init progs) sched).sh.queue ∨
        (.drain ∈ (run (init progs) sched).sh.deqd ∧ (run (init progs) sched).sh.rxStopped = true))) := by
  have I := inv_run _ sched (inv_init progs)
  have Q := qinv_run _ sched (qinv_init progs)
  generalize run (init progs) sched = g at *
  simp only [quiescent, beq_iff_eq] at hq
  have hA : cnt Frame.holds g = 0 := by
    have := cnt_le_of_imp Frame.holds Frame.active
      (fun f h => by unfold Frame.holds at h; unfold Frame.active; split <;> simp_all) g
    omega
  have hC : cnt Frame.obliged g = 0 := by
    have := cnt_le_of_imp Frame.obliged Frame.active
      (fun f h => by unfold Frame.obliged at h; unfold Frame.active; split <;> simp_all) g
    omega
  have hB : cnt Frame.atMEnq g = 0 := by
    have := cnt_le_of_imp Frame.atMEnq Frame.active
      (fun f h => by unfold Frame.atMEnq at h; unfold Frame.active; split <;> simp_all) g
    omega
  have hm : g.sh.word.marker = true := by
    cases hm : g.sh.word.marker
    · have := I.oblig hc hm
      have := I.count_eq
      omega
    · rfl
  refine ⟨hm, fun hopen => ?_⟩
  have h1 := I.marker_one
  rw [hm, hB] at h1
  have hd : g.sh.markerDropped = 0 := by
    cases hd : g.sh.markerDropped with
    | zero => rfl
    | succ n => have := I.dropped (by omega); simp [hopen] at this
  have hcount : g.sh.enq.count .drain = 1 := by simp only [↓reduceIte] at h1; omega
  refine ⟨hcount, ?_⟩
  have hmem : Item.drain ∈ g.sh.enq := List.count_pos_iff.mp (by omega)
  rw [Q.conserve, Q.flushed_closed hopen] at hmem
  simp only [List.append_nil, List.mem_append] at hmem
  rcases hmem with h | h
  · exact Or.inr ⟨h, Q.stopped h⟩
  · exact Or.inl h

/-- Every message accepted before the drain completed is handled before the actor exits with
"Drained": when the receiver has dequeued the marker, everything that was ever enqueued has been
dequeued — nothing is left in the channel and nothing was flushed. -/
theorem drained_exit_handled_everything (progs : List (List Op)) (sched : List Tid)
    (h : Item.drain ∈ (run (init progs) sched).sh.deqd) :
    (run (init progs) sched).sh.handled = msgIds (run (init progs) sched).sh.enq ∧
    (run (init progs) sched).sh.queue = [] ∧ (run (init progs) sched).sh.flushed = [] := by
  have I := inv_run _ sched (inv_init progs)
  have Q := qinv_run _ sched (qinv_init progs)
  generalize run (init progs) sched = g at *
  have hl := I.marker_last
  rw [Q.conserve, List.append_assoc] at hl
  have hb := markerLast_prefix_all _ _ hl h
  have hq : g.sh.queue = [] := (List.append_eq_nil_iff.mp hb).2
  have hf : g.sh.flushed = [] := (List.append_eq_nil_iff.mp hb).1
  refine ⟨?_, hq, hf⟩
  have ht : g.sh.taken = none := by
    cases ht : g.sh.taken with
    | none => rfl
    | some i => have := Q.taken_live (by simp [ht]); simp [Q.stopped h] at this
  have he := Q.handled_eq
  rw [Q.marker_no_drop h, ht] at he
  rw [Q.conserve, hq, hf]; simpa using he.symm

/-- (6) *A repeated drain is harmless*: once the marker bit is set (some drain completed) and the
status is at least `Draining`, a whole further `drain()` — its three atomic steps, run from any
state in any thread — changes nothing of the shared state except logging its `Ok` return.
(Concurrent drains are covered by (3): any number of drain programs, one marker.) -/
theorem repeated_drain_changes_nothing (s : Shared) (parent : Frame) (rest : List Frame)
    (hm : s.word.marker = true) (hc : s.word.closed = true) (hst : stDraining ≤ s.status) :
    ∃ s1 st1 s2 st2,
      stepThread s (⟨.dClose, 0, false, [], false, []⟩ :: parent :: rest) = some (s1, st1) ∧
      stepThread s1 st1 = some (s2, st2) ∧
      stepThread s2 st2 = some ({ s with rets := s.rets ++ [⟨.drain, 0, .ok, false, []⟩] }, parent :: rest) := by
  obtain ⟨⟨wc, wm, wn⟩, status, queue, rxOpen, rxStopped, sbo, enq, deqd, handled, flushed, dex, mdrop,
    nextId, rets⟩ := s
  simp only at hm hc hst
  subst hm hc
  refine ⟨_, _, _, _, rfl, rfl, ?_⟩
  by_cases h : status < stStopping
  · have : status = stDraining := by simp only [stDraining, stStopping] at *; omega
    subst this
    simp [stepThread, finish, kindOf, mRet, markerCond, stDraining, stStopping]
  · simp [stepThread, finish, kindOf, mRet, markerCond, h]

/-- (6, round 4) **A repeated drain is harmless under ANY interleaving.** Once some drain has
completed (marker bit set, hence closed) and the status is at least `Draining` — facts that no step
of anybody can undo (`completed_drain_is_stable`) — EVERY single step of a further `drain()`
(`drain.close`, `drain.status`, `marker.load`), taken at any moment between any other threads'
steps, leaves the whole shared state untouched except for the log of returned ops; its last step
logs `Ok`. No hypothesis on the frame's thread, its parent frames or what the other threads do. -/
theorem repeated_drain_step_changes_nothing (s : Shared) (f : Frame) (rest : List Frame)
    (hm : s.word.marker = true) (hc : s.word.closed = true) (hst : stDraining ≤ s.status)
    (hpc : f.pc = .dClose ∨ f.pc = .dStatus ∨ f.pc = .mLoad none) :
    ∃ s' st', stepThread s (f :: rest) = some (s', st') ∧ s' = { s with rets := s'.rets } ∧
      (f.pc = .mLoad none → s'.rets = s.rets ++ [⟨.drain, f.id, .ok, f.late, f.seenOk⟩] ∧ st' = rest) ∧
      (f.pc ≠ .mLoad none → s'.rets = s.rets) := by
  obtain ⟨pc, id, late, ops, bf, sk⟩ := f
  simp only at hpc
  rcases hpc with rfl | rfl | rfl
  · refine ⟨_, _, rfl, ?_, by simp, by simp⟩
    obtain ⟨⟨wc, wm, wn⟩, status, queue, rxOpen, rxStopped, sbo, enq, deqd, handled, flushed, dex, mdrop,
      nextId, rets, taken, dropped⟩ := s
    simp only at hc; subst hc; rfl
  · obtain ⟨⟨wc, wm, wn⟩, status, queue, rxOpen, rxStopped, sbo, enq, deqd, handled, flushed, dex, mdrop,
      nextId, rets, taken, dropped⟩ := s
    simp only at hst
    by_cases h : status < stStopping
    · have : status = stDraining := by simp only [stDraining, stStopping] at *; omega
      subst this
      exact ⟨_, _, rfl, by simp [stDraining, stStopping], by simp, by simp [stDraining, stStopping]⟩
    · refine ⟨_, _, rfl, ?_, by simp, ?_⟩ <;> simp [h]
  · have hcond : markerCond s.word = false := by simp [markerCond, hm]
    refine ⟨(finish s ⟨.mLoad none, id, late, ops, bf, sk⟩ .ok rest).1,
      (finish s ⟨.mLoad none, id, late, ops, bf, sk⟩ .ok rest).2, ?_, ?_, ?_, by simp⟩
    · simp [stepThread, hcond, mRet]
    · simp [finish]
    · intro _; simp [finish, kindOf]

/-- … and the premise is stable: a completed drain stays completed along every continuation. -/
theorem completed_drain_is_stable (g : G) (sched : List Tid)
    (hm : g.sh.word.marker = true) (hc : g.sh.word.closed = true) (hst : stDraining ≤ g.sh.status) :
    (run g sched).sh.word.marker = true ∧ (run g sched).sh.word.closed = true ∧
    stDraining ≤ (run g sched).sh.status := by
  have m := mono_run g sched
  exact ⟨m.marker hm, m.closed hc, Nat.le_trans hst m.status⟩

/-- **A drain that is not interleaved with anything** (API level): admission is closed, the status
becomes `Draining` unless the actor is already stopping, and — if no send holds a ticket and the
marker was not emitted before — the marker is emitted (or reported lost if the receiver is gone). -/
theorem uninterleaved_drain (g : G) (i : Nat) (h : g.threads[i]? = some [{ pc := .run, ops := [.drain] }]) :
    (run g (List.replicate 6 (.t i))).sh =
      (let st := if g.sh.status < stStopping then stDraining else g.sh.status
       if g.sh.word.count = 0 ∧ g.sh.word.marker = false then
         if g.sh.rxOpen = true then
           { g.sh with word := ⟨true, true, 0⟩, status := st,
                       queue := g.sh.queue ++ [.drain], enq := g.sh.enq ++ [.drain],
                       rets := g.sh.rets ++ [⟨.drain, 0, .ok, false, []⟩] }
         else
           { g.sh with word := ⟨true, true, 0⟩, status := st, markerDropped := g.sh.markerDropped + 1,
                       rets := g.sh.rets ++ [⟨.drain, 0, .drainErr, false, []⟩] }
       else
         { g.sh with word := { g.sh.word with closed := true }, status := st,
                     rets := g.sh.rets ++ [⟨.drain, 0, .ok, false, []⟩] }) := by
  rw [run_replicate 6 h]
  obtain ⟨sh, threads⟩ := g
  obtain ⟨⟨wc, wm, wn⟩, status, queue, rxOpen, rxStopped, sbo, enq, deqd, handled, flushed, dex, mdrop,
    nextId, rets⟩ := sh
  simp only
  by_cases h1 : status < stStopping <;> cases wm <;> cases rxOpen <;> by_cases h2 : wn = 0 <;>
    simp [runThread, stepThread, startOp, finish, kindOf, mRet, markerCond, h1, h2]


/-- **The run-time oracle is a theorem of the model.** `Obs.violations` — the very function the
driver evaluates on the implementation's end-of-case observations (handled at most once and only
if Ok, every Ok handled unless stopped, nothing admitted after the close, count 0 and closed ⇒
marker at quiescence, exactly one "Drained" exit after a drain, none without) — is empty for every
end state of the model: all programs, all schedules, no op in flight, receiver ran until it blocked. -/
theorem oracle_holds_of_model (progs : List (List Op)) (sched : List Tid)
    (he : endState (run (init progs) sched) = true) :
    (obsOf (run (init progs) sched)).violations = [] :=
  violations_nil (reach_run progs sched) he

/-! ### The end-state clauses of the oracle as standalone theorems (round 4)

`endState`: no op in flight, the channel is empty, nothing is taken, and the receiver — if it left
its loop — has closed the channel: the actor task ran until it blocked. -/

/-- (5) **A drain ends the actor exactly once with "Drained"** unless a stop / kill / failure
intervened: in every end state with admission closed and no other exit, the marker was emitted, the
receiver has taken exactly one "Drained" exit and is gone. (Never two, in any state:
`drained_exit_at_most_once`.) -/
theorem drain_ends_the_actor_exactly_once (progs : List (List Op)) (sched : List Tid)
    (he : endState (run (init progs) sched) = true)
    (hc : (run (init progs) sched).sh.word.closed = true)
    (hso : (run (init progs) sched).sh.stoppedByOther = false) :
    (run (init progs) sched).sh.word.marker = true ∧ (run (init progs) sched).sh.word.count = 0 ∧
    (run (init progs) sched).sh.drainedExits = 1 ∧ (run (init progs) sched).sh.rxOpen = false := by
  have h := violations_nil_clauses _ (oracle_holds_of_model progs sched he)
  simp only [obsOf] at h
  obtain ⟨-, -, -, -, -, h6, h7, -, h9, -⟩ := h
  simp_all

/-- (3) **Every send that returned Ok is handled** (its handler was started, not merely dequeued)
in every end state that was not reached through a stop / kill / failure — with or without a drain;
and nothing else is handled. -/
theorem every_ok_send_is_handled_at_the_end (progs : List (List Op)) (sched : List Tid)
    (he : endState (run (init progs) sched) = true)
    (hso : (run (init progs) sched).sh.stoppedByOther = false) (i : Nat) :
    i ∈ (run (init progs) sched).sh.handled ↔
      ∃ r ∈ (run (init progs) sched).sh.rets, r.kind = .send ∧ r.res = .ok ∧ r.id = i := by
  have h := violations_nil_clauses _ (oracle_holds_of_model progs sched he)
  simp only [obsOf, hso, Bool.false_or] at h
  obtain ⟨-, h2, h3, -⟩ := h
  rw [List.all_eq_true] at h2 h3
  constructor
  · intro hi
    obtain ⟨r, hr, hp⟩ := List.any_eq_true.mp (h2 i hi)
    refine ⟨r, hr, ?_⟩
    simp only [Ret.isOkSend, Ret.isSend, Bool.and_eq_true, beq_iff_eq] at hp
    obtain ⟨⟨hk, hres⟩, hid⟩ := hp
    refine ⟨?_, ?_, hid⟩
    · cases hkk : r.kind <;> simp_all
    · cases hrr : r.res <;> simp_all
  · rintro ⟨r, hr, hk, hres, rfl⟩
    have := h3 r hr
    simp only [Ret.isOkSend, Ret.isSend, hk, hres, Bool.and_self, Bool.not_true, Bool.false_or,
      List.contains_eq_mem, decide_eq_true_eq] at this
    exact this

/-- (1)+(3) at the end of a drained actor: the handled messages are exactly those whose send
returned Ok, each once, and every send that started after the close was handed back. -/
theorem drained_actor_handled_exactly_the_accepted (progs : List (List Op)) (sched : List Tid)
    (he : endState (run (init progs) sched) = true)
    (hso : (run (init progs) sched).sh.stoppedByOther = false) :
    (∀ i, (run (init progs) sched).sh.handled.count i ≤ 1) ∧
    (∀ r ∈ (run (init progs) sched).sh.rets, r.kind = .send → r.late = true → r.res = .sendErr r.id) ∧
    (∀ r ∈ (run (init progs) sched).sh.rets, r.kind = .send → r.res = .ok →
      r.id ∈ (run (init progs) sched).sh.handled) := by
  refine ⟨?_, ?_, ?_⟩
  · intro i
    have q := qinv_run _ sched (qinv_init progs)
    have h1 := (idInv_run i _ sched (idInv_init i progs)).one
    have hc := congrArg (List.count (Item.msg i)) q.conserve
    have hh := congrArg (List.count i) q.handled_eq
    simp only [List.count_append, count_msgIds] at hc hh
    omega
  · intro r hr hk hl
    exact (send_after_close_rejected progs sched r hr hk hl).1
  · intro r hr hk hres
    exact (every_ok_send_is_handled_at_the_end progs sched he hso r.id).mpr ⟨r, hr, hk, hres, rfl⟩

/-! ### Source guards (E-SRC): the tables the model depends on, re-extracted from the sources on
every run -/

/-- `ActorStatus` discriminants used by the status gate of `send` and by `drain`. -/
theorem src_status_discriminants :
    (Extracted.statusDiscriminants.lookup "Draining", Extracted.statusDiscriminants.lookup "Stopping",
      Extracted.statusDiscriminants.lookup "Stopped") = (some stDraining, some stStopping, some stStopped) := by
  decide

/-- Layout of the admission word: closed = top bit, marker = next bit, count = the bits below. -/
theorem src_admission_word_layout :
    (Extracted.admissionClosedIsTopBit && Extracted.admissionMarkerIsNextBit
      && Extracted.admissionCountMaskBelowMarker) = true := by decide

/-- `drain()` = close admission, then publish `Draining`, then try to emit the marker. -/
theorem src_drain_steps :
    Extracted.drainSteps = ["close_message_admission()", "fetch_update", "send_drain_marker()"] := by
  decide

/-! ### Non-vacuity: concrete programs and schedules -/

/-- sender 0 is admitted, the drainer (thread 1) closes while the ticket is held and finds
`count = 1`, so the sender's ticket drop emits the marker; a second sender (thread 2) starting
afterwards is rejected. -/
def exampleSched : List Tid :=
  [.t 0, .t 0, .t 0, .t 0,            -- op.start, send.status, admit.load, admit.cas (ticket)
   .t 1, .t 1, .t 1, .t 1,            -- op.start, drain.close, drain.status, marker.load (count=1: returns)
   .t 2, .t 2,                         -- op.start, send.status: status is Draining → SendErr
   .t 0, .t 0, .t 0, .t 0,            -- send.box, box.end, send.enqueue, ticket.release (closed ∧ count=1)
   .t 0, .t 0, .t 0]                  -- marker.load, marker.cas, marker.enqueue

def exampleProgs : List (List Op) := [[.send [] false], [.drain], [.send [] false]]

example : (run (init exampleProgs) exampleSched).sh.enq = [.msg 0, .drain] := by decide
example : (run (init exampleProgs) exampleSched).sh.rets =
    [⟨.drain, 0, .ok, false, []⟩, ⟨.send, 1, .sendErr 1, true, []⟩, ⟨.send, 0, .ok, false, []⟩] := by decide
example : (run (init exampleProgs) exampleSched).sh.word = ⟨true, true, 0⟩ ∧
    quiescent (run (init exampleProgs) exampleSched) = true := by decide
/-- the re-entrant shape of `drain_defers_marker_for_reentrant_admitted_send`: the drain runs
inside `box_message` while the ticket is held, returns `Ok` without marker, and the marker is
emitted by the ticket drop after the enqueue. -/
example : (run (init [[.send [.drain] false]]) (List.replicate 15 (.t 0))).sh.enq = [.msg 0, .drain]
    ∧ (run (init [[.send [.drain] false]]) (List.replicate 15 (.t 0))).sh.rets =
      [⟨.drain, 0, .ok, false, []⟩, ⟨.send, 0, .ok, false, []⟩] := by decide

/-- the hypothesis of `oracle_holds_of_model` is satisfiable: the example, after the receiver ran -/
example : endState (run (init exampleProgs) (exampleSched ++ [.recv, .recv, .recv, .setStatus 5, .rxClose, .rxFlush])) = true := by
  decide

/-- hypotheses of `send_started_after_close_is_rejected` are satisfiable: after the drainer's close
(thread 1, two steps) thread 2's send is parked at `send.status` with id 0 … and is rejected -/
example : (run (init exampleProgs) [.t 1, .t 1, .t 2]).sh.word.closed = true
    ∧ (∃ stack ∈ (run (init exampleProgs) [.t 1, .t 1, .t 2]).threads, ∃ f ∈ stack, f.pc = .sStatus ∧ f.id = 0)
    ∧ (run (init exampleProgs) [.t 1, .t 1, .t 2, .t 2, .t 2]).sh.rets = [⟨.send, 0, .sendErr 0, true, []⟩] := by
  refine ⟨by decide, ⟨_, List.mem_of_getElem? (i := 2) rfl, _, List.mem_cons_self, rfl, rfl⟩, by decide⟩


/-! ### requests that arrive before the actor has started (`Model/Early.lean`) -/

/-- **A drain that arrives before the actor has started still drains.** `spawn_instant` hands out
the `ActorRef` while the cell is `Unstarted`. For EVERY sequence of casts and drains issued
before and after the start task runs (nothing else intervening: no stop, kill or failing
pre_start): if a drain was called and the start task has run, every message whose send returned
Ok was handled, in order, the actor has stopped and its supervisor saw the reason "Drained". -/
theorem drain_before_start_still_drains (ops : List Early.Op) (hu : Early.undisturbed ops = true)
    (ok : Bool) (hpoll : Early.Op.poll ok ∈ ops) (hd : (Early.run ops).drainCalled = true) :
    (Early.run ops).handled = (Early.run ops).accepted ∧ (Early.run ops).phase = .stopped ∧
    (Early.run ops).reason = some "T:Drained" := by
  have hI := Early.uinv_fold ops ((Early.undisturbed_iff ops).mp hu) {} Early.uinv_init
  have hph := Early.polled_fold ops ok hpoll {}
  change Early.UInv (Early.run ops) at hI
  change Early.started (Early.run ops) at hph
  rcases hph with hp | hp
  · have := (hI.ru hp).2.2.2; rw [hd] at this; exact absurd this (by simp)
  · have h3 := hI.st hp
    have h4 := hI.split
    rw [h3.1, List.append_nil] at h4
    exact ⟨h4, hp, h3.2.1⟩

/-- … and whatever else happens (stops, kills, failing starts, any order): once a drain has
returned, no later cast is accepted. -/
theorem no_send_accepted_after_early_drain (ops : List Early.Op) :
    (Early.run ops).refusedAfterDrain = true :=
  Early.refused_fold ops {} (by simp)

/-- Non-vacuity, and the witness of finding F8: two casts and a drain before the start task runs,
then the start: both messages are handled and the actor ends "Drained". -/
example :
    let s := Early.run [.cast, .cast, .drain, .cast, .poll true]
    s.handled = [0, 1] ∧ s.accepted = [0, 1] ∧ s.reason = some "T:Drained" ∧ s.startResult = some "ok" := by
  decide

/-! ### the start of an actor racing with `drain()` at single-step granularity (`Model/EarlyStep.lean`)

Start thread: check `Unstarted` → publish `Starting` → [link]ₜₗ → `pre_start` → [link] → mark running →
`post_start` → publish `Running` → loop; any number of other threads issuing casts, three-step
drains, stops and kills; EVERY interleaving (`sched : List Tid`), every configuration `c`
(linked / thread-local / supervisor accepting or not / `pre_start` ok or err / code before or
after fix ee38a9c). -/

/-- While the actor lives nothing whose send returned Ok is lost: handled, then the messages still
queued, are exactly the accepted ones, in order. -/
theorem start_race_nothing_lost_while_alive (c : EarlyStep.Cfg) (progs : List (List EarlyStep.Req))
    (sched : List EarlyStep.Tid) (hal : (EarlyStep.run c (EarlyStep.init progs) sched).sh.pc.alive = true) :
    (EarlyStep.run c (EarlyStep.init progs) sched).sh.handled ++
      EarlyStep.msgs (EarlyStep.run c (EarlyStep.init progs) sched).sh.queue =
    (EarlyStep.run c (EarlyStep.init progs) sched).sh.accepted :=
  (EarlyStep.inv_reach c progs sched).split hal

/-- **Every send that returned Ok is handled before a "Drained" exit** — wherever the drains, casts,
stops and kills fell relative to the steps of the start. -/
theorem start_race_drained_exit_handled_everything (c : EarlyStep.Cfg) (progs : List (List EarlyStep.Req))
    (sched : List EarlyStep.Tid)
    (hx : (EarlyStep.run c (EarlyStep.init progs) sched).sh.pc = .exited .drained) :
    (EarlyStep.run c (EarlyStep.init progs) sched).sh.handled =
    (EarlyStep.run c (EarlyStep.init progs) sched).sh.accepted :=
  (EarlyStep.inv_reach c progs sched).drained hx

/-- `drain()` never makes `start` refuse the actor as already started (finding F8, all schedules):
the status is still `Unstarted` whenever the start thread reads or overwrites it. -/
theorem start_race_never_already_started (c : EarlyStep.Cfg) (progs : List (List EarlyStep.Req))
    (sched : List EarlyStep.Tid) :
    (EarlyStep.run c (EarlyStep.init progs) sched).sh.pc ≠ .failed .already :=
  (EarlyStep.inv_reach c progs sched).noAlready

/-- **A drain never fails a start** (the code after fix ee38a9c, finding F9): if no stop and no kill
was requested, `pre_start` succeeds and the supervisor accepts, then — whatever drains and casts
were interleaved with the start — the start has not failed, and if the actor has ended it ended
with "Drained" having handled every accepted message. -/
theorem start_race_only_drained_exit (c : EarlyStep.Cfg) (hf : c.fixed = true)
    (progs : List (List EarlyStep.Req)) (sched : List EarlyStep.Tid)
    (hu : EarlyStep.undisturbed c (EarlyStep.run c (EarlyStep.init progs) sched).sh = true)
    (hd : (EarlyStep.run c (EarlyStep.init progs) sched).sh.pc.alive = false) :
    (EarlyStep.run c (EarlyStep.init progs) sched).sh.pc = .exited .drained ∧
    (EarlyStep.run c (EarlyStep.init progs) sched).sh.handled =
      (EarlyStep.run c (EarlyStep.init progs) sched).sh.accepted := by
  have hI := EarlyStep.inv_reach c progs sched
  have hx := EarlyStep.undisturbed_terminal c _ hI hf hu hd
  exact ⟨hx, hI.drained hx⟩

/-- **A drain never leaves the actor running forever, wherever it fell in the start**: from every
reachable state in which the marker has been emitted and nothing intervened, the actor's own task
— no other thread has to move — ends within `measure` steps, with a "Drained" exit, having handled
everything that was accepted. -/
theorem start_race_drain_completes (c : EarlyStep.Cfg) (hf : c.fixed = true)
    (progs : List (List EarlyStep.Req)) (sched : List EarlyStep.Tid)
    (hm : (EarlyStep.run c (EarlyStep.init progs) sched).sh.markerSent = true)
    (hu : EarlyStep.undisturbed c (EarlyStep.run c (EarlyStep.init progs) sched).sh = true) :
    let s := (EarlyStep.run c (EarlyStep.init progs) sched).sh
    let s' := EarlyStep.startN c (EarlyStep.measure s) s
    s'.pc = .exited .drained ∧ s'.handled = s.accepted := by
  intro s s'
  have hI := EarlyStep.inv_reach c progs sched
  have hI' := EarlyStep.inv_startN c (EarlyStep.measure s) s hI
  have hend := EarlyStep.startN_ends c (EarlyStep.measure s) s hI hm (Nat.le_refl _)
  have hfr := EarlyStep.startN_frame c (EarlyStep.measure s) s
  have hu' : EarlyStep.undisturbed c s' = true := by
    simp only [EarlyStep.undisturbed] at hu ⊢
    rw [show s'.stopReq = s.stopReq from hfr.2.1, show s'.killReq = s.killReq from hfr.2.2.1]
    exact hu
  have hx := EarlyStep.undisturbed_terminal c s' hI' hf hu' hend
  exact ⟨hx, (hI'.drained hx).trans hfr.2.2.2⟩

/-- **… under ANY fair continuation.** Once the marker has been emitted, every continuation `sched₂`
of the schedule that gives the actor's own task at least `measure` steps — with the other threads'
steps (more casts, drains, stops, kills) interleaved in any way — ends the actor's task; and if
at that point still nothing has intervened, it ended "Drained" having handled every accepted
message. (The fairness assumption is only "the actor's task is polled `measure` more times".) -/
theorem start_race_drain_completes_fair (c : EarlyStep.Cfg) (progs : List (List EarlyStep.Req))
    (sched₁ sched₂ : List EarlyStep.Tid)
    (hm : (EarlyStep.run c (EarlyStep.init progs) sched₁).sh.markerSent = true)
    (hfair : EarlyStep.measure (EarlyStep.run c (EarlyStep.init progs) sched₁).sh ≤ sched₂.count .start) :
    (EarlyStep.run c (EarlyStep.init progs) (sched₁ ++ sched₂)).sh.pc.alive = false ∧
    (c.fixed = true → EarlyStep.undisturbed c (EarlyStep.run c (EarlyStep.init progs) (sched₁ ++ sched₂)).sh = true →
      (EarlyStep.run c (EarlyStep.init progs) (sched₁ ++ sched₂)).sh.pc = .exited .drained ∧
      (EarlyStep.run c (EarlyStep.init progs) (sched₁ ++ sched₂)).sh.handled =
        (EarlyStep.run c (EarlyStep.init progs) (sched₁ ++ sched₂)).sh.accepted) := by
  have hI := EarlyStep.inv_reach c progs sched₁
  have hend : (EarlyStep.run c (EarlyStep.init progs) (sched₁ ++ sched₂)).sh.pc.alive = false := by
    rw [EarlyStep.run_append]
    exact EarlyStep.sealed_run_ends c sched₂ _ hI (hI.sentClosed hm) hm hfair
  exact ⟨hend, fun hf hu => start_race_only_drained_exit c hf progs (sched₁ ++ sched₂) hu hend⟩

/-- Once a drain's first step has closed admission no send is accepted any more, whatever the
start thread and the other threads do afterwards. -/
theorem start_race_nothing_accepted_after_close (c : EarlyStep.Cfg) (progs : List (List EarlyStep.Req))
    (sched₁ sched₂ : List EarlyStep.Tid)
    (hc : (EarlyStep.run c (EarlyStep.init progs) sched₁).sh.closed = true) :
    (EarlyStep.run c (EarlyStep.init progs) (sched₁ ++ sched₂)).sh.accepted =
    (EarlyStep.run c (EarlyStep.init progs) sched₁).sh.accepted := by
  rw [EarlyStep.run_append]
  exact (EarlyStep.closed_run c sched₂ _ hc).2

/-- The witness of finding F9 in the model of the code BEFORE the fix (`fixed := false`, link gate
`child >= Draining`): a linked Send actor, one thread `cast; drain` run while `pre_start` is
suspended; nothing intervenes, yet the start fails at the link and the accepted cast is lost. -/
theorem unfixed_link_gate_drops_accepted_casts :
    let c : EarlyStep.Cfg := { fixed := false, linked := true }
    let s := (EarlyStep.run c (EarlyStep.init [[.cast, .drain]])
      [.start, .start, .t 0, .t 0, .t 0, .t 0, .start, .start]).sh
    EarlyStep.undisturbed c s = true ∧ s.pc = .failed .nolink ∧ s.accepted = [0] ∧ s.handled = [] := by
  decide

/-- … the same schedule in the model of the fixed code: the link succeeds; the actor's task then
handles the cast and ends "Drained" (non-vacuity of the theorems above: marker emitted, undisturbed). -/
example :
    let c : EarlyStep.Cfg := { fixed := true, linked := true }
    let s := (EarlyStep.run c (EarlyStep.init [[.cast, .drain]])
      [.start, .start, .t 0, .t 0, .t 0, .t 0, .start, .start]).sh
    EarlyStep.undisturbed c s = true ∧ s.markerSent = true ∧ s.pc = .markRunning ∧ s.status = 4 ∧
    (EarlyStep.startN c (EarlyStep.measure s) s).pc = .exited .drained ∧
    (EarlyStep.startN c (EarlyStep.measure s) s).handled = [0] := by
  decide

/-- thread-local flavour, the drain's status step between `set_status(Starting)` and the early
link: refused before the fix, accepted after. -/
example :
    (EarlyStep.run { fixed := false, linked := true, tl := true } (EarlyStep.init [[.drain]])
      [.start, .start, .t 0, .t 0, .start]).sh.pc = .failed .nolink ∧
    (EarlyStep.run { fixed := true, linked := true, tl := true } (EarlyStep.init [[.drain]])
      [.start, .start, .t 0, .t 0, .start]).sh.pc = .preStart := by
  decide

/-- E-SRC: the gates `Model/EarlyStep.lean` runs with `Cfg.fixed = true` are the ones in the source —
`drain()` lifts every status except `Unstarted` that is below `Stopping` to `Draining`; `start` (Send and
thread-local) links through `try_link_starting` → `link_starting`, whose child bound is `Stopping`
(the public `link()`: `Draining`); `link_below` refuses `child >= bound || supervisor >= Draining`.
Reverting fix ee38a9c breaks this obligation (besides the oracle). -/
theorem src_start_drain_gates :
    Extracted.drainLiftGuard = "f != (ActorStatus::Unstarted as u8) && f < (ActorStatus::Stopping as u8)" ∧
    Extracted.drainLiftsTo = "Draining" ∧
    Extracted.sendStartLinkCall = "try_link_starting" ∧ Extracted.localStartLinkCall = "try_link_starting" ∧
    Extracted.tryLinkStartingCalls = "link_starting" ∧ Extracted.linkStartingChildBound = "Stopping" ∧
    Extracted.linkChildBound = "Draining" ∧ Extracted.linkBelowGate = true := by decide

/-- the status constants of the model are the discriminants in the source -/
theorem src_status_discriminants_start :
    (Extracted.statusDiscriminants.lookup "Unstarted", Extracted.statusDiscriminants.lookup "Starting",
      Extracted.statusDiscriminants.lookup "Running", Extracted.statusDiscriminants.lookup "Draining",
      Extracted.statusDiscriminants.lookup "Stopping", Extracted.statusDiscriminants.lookup "Stopped") =
    (some EarlyStep.stUnstarted, some EarlyStep.stStarting, some EarlyStep.stRunning,
      some EarlyStep.stDraining, some EarlyStep.stStopping, some EarlyStep.stStopped) := by
  decide


/-! ### Translator tie (rs2lean): kernel-checked equivalence between the definitions that
`extract/rs2lean.py` regenerates from the CURRENT Rust source on every run
(`RactorModel/Generated/*.lean`) and the hand-written model functions the theorems above are
about. A semantic change of the Rust function changes the generated text and these stop checking. -/

section XlateTie
open Generated.Admission GenAdmission

/-- `try_admit_message`, one iteration on the word `enc w` (pcs `aLoad`/`aCas` of the model):
closed ⇒ `None`; else exchange `w` for `w` with one more ticket. -/
theorem generated_try_admit_eq_model (enq : Except MessagingErr Unit) (w : Admission.Word)
    (h : w.count + 1 < 2 ^ 62) :
    ActorProperties.try_admit_message enq (st w)
      = if w.closed then .done none
        else .cas (enc w) (enc { w with count := w.count + 1 }) (some ()) := by
  have hc := closed_bit w (by omega)
  unfold ActorProperties.try_admit_message
  simp only [st, hc]
  rcases w with ⟨c, m, n⟩
  cases c
  · have : Rust.wAdd 64 (enc ⟨false, m, n⟩) 1 = enc ⟨false, m, n + 1⟩ := by
      unfold Rust.wAdd enc; cases m <;> simp at h ⊢ <;> omega
    simp [this]
  · simp

/-- `close_message_admission` (pc `dClose`): `fetch_or(CLOSED)` sets `closed`. -/
theorem generated_close_admission_eq_model (enq : Except MessagingErr Unit) (w : Admission.Word)
    (h : w.count < 2 ^ 62) :
    ActorProperties.close_message_admission enq (st w) = st { w with closed := true } := by
  simp [ActorProperties.close_message_admission, st, or_closed w h]

/-- `send_drain_marker`, one iteration (pcs `mLoad`/`mCas`/`mEnq`): the exchange is attempted
exactly under `Admission.markerCond`, sets `marker`, and the value returned on success is the
outcome of the enqueue with its error mapped to `SendErr(())`. -/
theorem generated_send_drain_marker_eq_model (enq : Except MessagingErr Unit) (w : Admission.Word)
    (h : w.count < 2 ^ 62) :
    ActorProperties.send_drain_marker enq (st w)
      = if Admission.markerCond w then
          .cas (enc w) (enc { w with marker := true }) (enq.mapError fun _ => MessagingErr.SendErr ())
        else .done (.ok ()) := by
  unfold ActorProperties.send_drain_marker Admission.markerCond
  simp only [st, closed_bit w h, marker_bit w h, count_bits w h]
  rcases w with ⟨c, m, n⟩
  cases c <;> cases m <;> simp
  by_cases hn : n = 0
  · subst hn
    simp [enc, consts.2.1, Rust.bor]
  · simp [hn]

/-- `MessageAdmission::drop` (pc `rel`): one ticket fewer, and the marker program is entered
iff the word seen was closed with exactly this ticket outstanding. -/
theorem generated_ticket_release_eq_model (enq : Except MessagingErr Unit) (w : Admission.Word)
    (h : w.count < 2 ^ 62) (hpos : 0 < w.count) :
    MessageAdmission.drop enq (st w)
      = (st { w with count := w.count - 1 }, w.closed && w.count == 1) := by
  unfold MessageAdmission.drop
  simp only [st, closed_bit w h, count_bits w h]
  rcases w with ⟨c, m, n⟩
  simp only at h hpos
  have hlt : enc ⟨c, m, n⟩ < 2 ^ 64 := by unfold enc; cases c <;> cases m <;> simp <;> omega
  have hge : 0 < enc ⟨c, m, n⟩ := by unfold enc; simp only; omega
  have h1 : Rust.wSub 64 (enc ⟨c, m, n⟩) 1 = enc ⟨c, m, n⟩ - 1 := by unfold Rust.wSub; omega
  have h2 : enc ⟨c, m, n⟩ - 1 = enc ⟨c, m, n - 1⟩ := by unfold enc; simp only; omega
  rw [h1, h2]
  cases c <;> cases hd : decide (n = 1) <;> simp_all

/-- the closure `drain` passes to `status.fetch_update` (pc `dStatus`): for a started actor
(`status ≠ Unstarted`) exactly the model's `if status < stStopping then stDraining`. -/
theorem generated_drain_status_update_eq_model (enq : Except MessagingErr Unit) (status : Nat) (hs : status ≠ 0) :
    (ActorProperties.drain_status_update enq status).getD status
      = if status < Admission.stStopping then Admission.stDraining else status := by
  unfold ActorProperties.drain_status_update
  simp only [ActorStatus.toNat, Admission.stStopping, Admission.stDraining, ne_eq, hs, not_false_eq_true,
    decide_true, Bool.true_and]
  by_cases h : status < 5 <;> simp [h]

/-- the status test at the head of `send_message_unchecked` (pc `sStatus`) -/
theorem generated_send_status_check_eq_model (enq : Except MessagingErr Unit) (status : ActorStatus) :
    ActorProperties.send_rejects_status enq status = decide (status.toNat ≥ Admission.stDraining) := by
  cases status <;> rfl

theorem generated_status_discriminants :
    (ActorStatus.toNat .Draining, ActorStatus.toNat .Stopping, ActorStatus.toNat .Stopped)
      = (Admission.stDraining, Admission.stStopping, Admission.stStopped) := by decide

/-- the bit layout `GenAdmission.enc` assumes is the one of the three source constants -/
theorem generated_admission_constants :
    MESSAGE_ADMISSION_CLOSED = 2 ^ 63 ∧ DRAIN_MARKER_SENT = 2 ^ 62 ∧ MESSAGE_ADMISSION_COUNT_MASK = 2 ^ 62 - 1 :=
  GenAdmission.consts

/-! the hand-written small-step model performs, at the pcs named, exactly the generated word operations -/
section
open Admission

/-- pc `aLoad` of the model takes exactly the branch the generated `try_admit_message` takes on
the encoded word. -/
theorem model_admit_load_follows_generated (enq : Except MessagingErr Unit) (s : Shared) (f : Frame)
    (rest : List Frame) (hpc : f.pc = .aLoad) (h : s.word.count + 1 < 2 ^ 62) :
    stepThread s (f :: rest) =
      match ActorProperties.try_admit_message enq (st s.word) with
      | .done _ => some (finish s f (.sendErr f.id) rest)
      | .cas _ _ _ => some (s, { f with pc := .aCas s.word } :: rest) := by
  rw [generated_try_admit_eq_model enq s.word h]
  unfold stepThread
  simp only [hpc]
  cases s.word.closed <;> rfl

/-- pc `aCas seen`, exchange succeeding: the word the model installs is the `new` word of the
generated iteration (through `enc`). -/
theorem model_admit_cas_installs_generated (enq : Except MessagingErr Unit) (s : Shared) (f : Frame)
    (rest : List Frame) (hpc : f.pc = .aCas s.word) (hopen : s.word.closed = false)
    (h : s.word.count + 1 < 2 ^ 62) :
    ∃ s' st', stepThread s (f :: rest) = some (s', st') ∧
      ActorProperties.try_admit_message enq (st s.word) = .cas (enc s.word) (enc s'.word) (some ()) := by
  refine ⟨{ s with word := { s.word with count := s.word.count + 1 } }, { f with pc := .box } :: rest, ?_, ?_⟩
  · unfold stepThread
    simp only [hpc, ↓reduceIte]
  · rw [generated_try_admit_eq_model enq s.word h]
    simp [hopen]

/-- pc `dClose`: the word the model installs is the one `close_message_admission` computes. -/
theorem model_close_installs_generated (enq : Except MessagingErr Unit) (s : Shared) (f : Frame)
    (rest : List Frame) (hpc : f.pc = .dClose) (h : s.word.count < 2 ^ 62) :
    ∃ s' st', stepThread s (f :: rest) = some (s', st') ∧
      ActorProperties.close_message_admission enq (st s.word) = st s'.word := by
  refine ⟨{ s with word := { s.word with closed := true } }, { f with pc := .dStatus } :: rest, ?_, ?_⟩
  · unfold stepThread
    simp only [hpc]
  · exact generated_close_admission_eq_model enq s.word h

/-- pc `mLoad`: the marker program goes on to its exchange exactly when the generated
`send_drain_marker` iteration does. -/
theorem model_marker_load_follows_generated (enq : Except MessagingErr Unit) (s : Shared) (f : Frame)
    (rest : List Frame) (ret : Option Res) (hpc : f.pc = .mLoad ret) (h : s.word.count < 2 ^ 62) :
    stepThread s (f :: rest) =
      match ActorProperties.send_drain_marker enq (st s.word) with
      | .done _ => some (finish s f (mRet ret) rest)
      | .cas _ _ _ => some (s, { f with pc := .mCas s.word ret } :: rest) := by
  rw [generated_send_drain_marker_eq_model enq s.word h]
  unfold stepThread
  simp only [hpc]
  cases markerCond s.word <;> rfl

/-- pc `rel r` (ticket release): the word the model installs and its decision to enter the
marker program are the generated `MessageAdmission::drop`'s. -/
theorem model_release_follows_generated (enq : Except MessagingErr Unit) (s : Shared) (f : Frame)
    (rest : List Frame) (r : Res) (hpc : f.pc = .rel r) (h : s.word.count < 2 ^ 62) (hpos : 0 < s.word.count) :
    (MessageAdmission.drop enq (st s.word)).1 = st { s.word with count := s.word.count - 1 } ∧
    stepThread s (f :: rest) =
      (let s' := { s with word := { s.word with count := s.word.count - 1 } }
       if (MessageAdmission.drop enq (st s.word)).2 then some (s', { f with pc := .mLoad (some r) } :: rest)
       else some (finish s' f r rest)) := by
  rw [generated_ticket_release_eq_model enq s.word h hpos]
  refine ⟨rfl, ?_⟩
  unfold stepThread
  simp only [hpc]
end
end XlateTie
/-! ## Round 4 — the one-shot stop / signal ports racing with drain and the actor's loop

Model `Model/StopPorts.lean`: any number of threads, each running any program of `stop(reason)`,
`kill()`, `drain()` (two atomic steps) and sends; the actor task polled at any moments (`poll fin`:
one poll; `fin` = the handler / `post_stop` future completes in it) and `ActorPortSet::drop`.
All theorems are for ALL thread programs and ALL schedules. -/

section ports
open StopPorts

/-- **At most one stop request is ever accepted by the stop port** (`send_stop` takes the one-shot
sender out of the `Option`: the first caller wins). -/
theorem at_most_one_stop_accepted (progs : List (List StopPorts.Op)) (sched : List StopPorts.Tid) :
    (StopPorts.run (StopPorts.init progs) sched).s.calls.countP Call.stopAcc ≤ 1 := by
  have := (inv_reach progs sched).stop_one; omega

/-- … and at most one signal by the signal port. -/
theorem at_most_one_kill_accepted (progs : List (List StopPorts.Op)) (sched : List StopPorts.Tid) :
    (StopPorts.run (StopPorts.init progs) sched).s.calls.countP Call.killAcc ≤ 1 := by
  have := (inv_reach progs sched).kill_one; omega

/-- **Every other caller observed a refusal, and the first one did not:** the first stop (kill)
request is accepted unless the actor had already dropped its ports, and nothing is accepted after
the ports were dropped. -/
theorem first_request_wins (progs : List (List StopPorts.Op)) (sched : List StopPorts.Tid) :
    let s := (StopPorts.run (StopPorts.init progs) sched).s
    (∀ c, s.calls.find? (fun c => !c.kill) = some c → c.accepted = true ∨ c.epoch = 3) ∧
    (∀ c, s.calls.find? (fun c => c.kill) = some c → c.accepted = true ∨ c.epoch = 3) ∧
    (∀ c ∈ s.calls, c.epoch = 3 → c.accepted = false) := by
  have h := inv_reach progs sched
  exact ⟨h.first_stop, h.first_kill, h.no_acc_gone⟩

/-- **Exactly one stop reason wins, by the priority rule.** Whenever the actor has fixed its exit
reason `r` (what the supervisor is told):
`r = killed` iff a kill was accepted before the loop's decisive poll (the last poll of `post_stop`);
otherwise `r = stop x` iff a stop with reason `x` was accepted before the loop chose its exit;
otherwise `r = Drained` (and then a drain marker had been sent). -/
theorem exit_reason_is_the_priority_winner (progs : List (List StopPorts.Op)) (sched : List StopPorts.Tid)
    (r : Reason) (he : (StopPorts.run (StopPorts.init progs) sched).s.phase.exit? = some r) :
    let s := (StopPorts.run (StopPorts.init progs) sched).s
    (r = .killed ↔ killInTime s) ∧
    (∀ x, r = .stop x ↔ ¬ killInTime s ∧ ∃ c ∈ s.calls, c.stopAcc = true ∧ c.epoch = 0 ∧ c.reason = x) ∧
    (r = .drained ↔ ¬ killInTime s ∧ ¬ ∃ c ∈ s.calls, c.stopAcc = true ∧ c.epoch = 0) ∧
    (r = .drained → s.marker = true) := by
  have h := inv_reach progs sched
  refine ⟨exit_killed_iff h he, exit_stop_iff h he, exit_drained_iff h he, ?_⟩
  rintro rfl
  exact (h.exit_drained (Phase.exit_chosen _ _ he)).1

/-- **The fate of a `stop()` that returned Ok, exactly.** If it was accepted before the loop chose
its exit, its reason is the exit reason unless a kill pre-empted it; if it slipped in later (the
loop had already taken the drain marker or a signal, ports not yet dropped) the exit reason is
"Drained" or "killed" and the request is flushed with the ports. -/
theorem accepted_stop_wins_or_is_preempted (progs : List (List StopPorts.Op)) (sched : List StopPorts.Tid)
    (r : Reason) (he : (StopPorts.run (StopPorts.init progs) sched).s.phase.exit? = some r)
    (c : Call) (hc : c ∈ (StopPorts.run (StopPorts.init progs) sched).s.calls) (hs : c.stopAcc = true) :
    (c.epoch = 0 → r = .stop c.reason ∨ r = .killed) ∧ (1 ≤ c.epoch → r = .drained ∨ r = .killed) :=
  accepted_stop_fate (inv_reach progs sched) he hc hs

/-- **No message overtakes a pending stop or signal**, and **a request accepted in time ends the
actor**: the run-time oracle `StopPorts.Obs.violations` — the function the driver evaluates on the
implementation's observations (every caller's result, the exit reason the supervisor saw) — is empty
in every reachable state of the model; with `final` (the actor task ran until it blocked) this
includes: a stop / kill accepted before the decisive poll ⇒ the actor has exited. -/
theorem stop_port_oracle_holds_of_model (progs : List (List StopPorts.Op)) (sched : List StopPorts.Tid)
    (final : Bool) (hf : final = true → blocked (StopPorts.run (StopPorts.init progs) sched).s = true) :
    (obsOf (StopPorts.run (StopPorts.init progs) sched).s final).violations = [] :=
  violations_nil (inv_reach progs sched) final hf

/-- The epoch-free part of that oracle (`Obs.freeViolations`: at most one accepted request per port,
the exit reason is an accepted request or the marker, an accepted request ends the actor) — what the
free-running stress cases (real threads, no schedule points, multi-threaded runtime, where requests
DO land while `post_stop` runs or after the loop chose its exit) are judged by. -/
theorem stop_port_free_oracle_holds_of_model (progs : List (List StopPorts.Op)) (sched : List StopPorts.Tid)
    (final : Bool) (hf : final = true → blocked (StopPorts.run (StopPorts.init progs) sched).s = true) :
    (obsOf (StopPorts.run (StopPorts.init progs) sched).s final).freeViolations = [] :=
  freeViolations_nil (inv_reach progs sched) final hf

/-- E-SRC: the arm order the model's `pick` and `poll` follow is the one in the source. -/
theorem src_port_priority :
    Extracted.selectArmVariants = [StopPorts.pickOrder, StopPorts.pickOrder] ∧
    Extracted.runWithSignalArms = StopPorts.runWithSignalOrder ++ StopPorts.runWithSignalOrder := by
  decide

/-- Non-vacuity: three stoppers with distinct reasons, a killer and a drainer on one actor. Stop 2
is accepted first, 1 and 3 are refused; the loop takes the stop, the kill lands while `post_stop`
runs: the supervisor is told "killed". Without the kill the reason is stop 2. -/
example :
    let g := StopPorts.run (StopPorts.init [[.stop (some 1)], [.stop (some 2)], [.stop (some 3)], [.kill], [.drain]])
      [.t 4, .t 1, .t 0, .t 4, .poll true, .t 2, .t 3, .poll true, .dropPorts]
    g.s.phase = .gone .killed ∧ g.s.calls.map (·.accepted) = [true, false, false, true] ∧
    g.s.calls.map (·.epoch) = [0, 0, 1, 1] := by decide

example :
    let g := StopPorts.run (StopPorts.init [[.stop (some 1)], [.stop (some 2)], [.send, .drain]])
      [.t 2, .t 1, .t 0, .t 2, .poll true, .poll true, .dropPorts, .t 2]
    g.s.phase = .gone (.stop (some 2)) ∧ g.s.handled = 0 ∧ blocked g.s = true := by decide

/-- a stop that returned Ok and lost to "Drained": accepted after the loop took the marker -/
example :
    let g := StopPorts.run (StopPorts.init [[.drain], [.stop (some 7)]])
      [.t 0, .t 0, .poll true, .t 1, .poll true, .dropPorts]
    g.s.phase = .gone .drained ∧ g.s.calls = [⟨false, some 7, true, 1⟩] := by decide

end ports

/-! ### Round 4, wave 2: a rejected send hands back exactly its own message

`Res.sendErr b` carries the id `b` of the message inside `Err(MessagingErr::SendErr(m))`. Every
rejection path of `send_message_unchecked` (status gate, closed admission at `admit.load` /
`admit.cas`, closed channel at `send.enqueue` — the latter returning through the ticket drop and
possibly through the marker program) moves the caller's own message into the error. The driver
compares the id the real code hands back with the model's and evaluates the oracle clause
`handed-back-other-message` (`Ret.backBad`) on the implementation's records. -/
section handedBack
open Admission

/-- (2) **A rejected send hands back exactly its own message**: whenever a send returns
`Err(SendErr(m'))`, `m'` is the message that was passed to that send — for all programs and all
schedules (invariant `BackInv`, `Lemmas/AdmissionBack.lean`). -/
theorem rejected_send_hands_back_its_own_message (progs : List (List Op)) (sched : List Tid) :
    ∀ r ∈ (run (init progs) sched).sh.rets, r.kind = .send → ∀ b, r.res = .sendErr b → b = r.id :=
  (backInv_run _ sched (backInv_init progs)).own

/-- non-vacuity: in the example the send of message 1 (thread 2, started after the close) returns
`sendErr` carrying id 1, while message 0 is accepted -/
example : ⟨.send, 1, .sendErr 1, true, []⟩ ∈ (run (init exampleProgs) exampleSched).sh.rets := by decide
/-- non-vacuity, the late path: a send that holds a ticket and finds the channel closed at
`send.enqueue` returns its own message through `ticket.release` -/
example : (run (init [[.send [] false], [.send [] false]])
    [.t 0, .t 0, .t 1, .t 1, .t 1, .t 1, .t 1, .t 1, .rxStop, .rxClose, .t 1, .t 1]).sh.rets
      = [⟨.send, 1, .sendErr 1, false, []⟩] := by decide
/-- the oracle clause is not vacuous: an observation whose send hands back another id violates it -/
example : (Obs.mk [⟨.send, 3, .sendErr 4, false, []⟩] [] ⟨false, false, 0⟩ 0 false true).violations
    = ["handed-back-other-message"] := by decide

end handedBack

/-! ### Progress of the fine-grained model (round 4, wave 2): ranking measure, CAS loops, fair schedules

`Lemmas/AdmissionProgress.lean`. `phi g` = remaining work of all workers (every frame: its program
counter + the ops it still has to start, an enqueue counting 3) + remaining work of the receiver
(`rho`: two steps per queued item, one for a taken message, close + flush). `stale g` = number of
workers parked at a CAS whose remembered word is not the current word. `mu g = (T+1)·phi g + stale g`
(`T` threads) is the lexicographic order (`phi`, `stale`) packed into one natural number. -/

/-- **Ranking, one atomic worker step.** Every atomic step of a worker — `send.status`, both loads,
both CAS, `send.box`, nested op starts, `send.enqueue`, `ticket.release`, `drain.close`, `drain.status`,
`marker.enqueue`, … — either strictly decreases `phi`, or it is a FAILED, RETRYING CAS (`admit.cas`
with the word changed but not closed, `marker.cas` with the word changed but the marker still due):
then the whole shared state and the thread's work are unchanged, the remembered word differed from the
current word before the step and equals it afterwards. -/
theorem step_is_progress_or_a_failed_cas (g : G) (i : Nat) (stack stack' : List Frame) (s' : Shared)
    (hi : g.threads[i]? = some stack) (hs : stepThread g.sh stack = some (s', stack')) :
    phi (step g (.t i)) < phi g ∨
    ((step g (.t i)).sh = g.sh ∧ phi (step g (.t i)) = phi g ∧
      staleTop g.sh.word stack = 1 ∧ staleTop g.sh.word stack' = 0) := by
  rw [step_t hi hs]
  have hW := sum_map_set stackW g.threads i stack' stack hi
  rcases thread_rank hs with h | ⟨rfl, hw, h1, h0⟩
  · left; simp only [phi, totalW]; omega
  · right; refine ⟨rfl, ?_, h1, h0⟩; simp only [phi, totalW]; omega

/-- **A CAS fails only because another thread made progress**, part 1: right after ANY step of its
own (in particular the load in front of a CAS, and a failed CAS itself) a thread remembers the current
word — it is not parked at a CAS that is bound to fail. -/
theorem after_its_own_step_a_thread_remembers_the_current_word (progs : List (List Op)) (sched : List Tid)
    (i : Nat) (stack stack' : List Frame) (s' : Shared)
    (hi : (run (init progs) sched).threads[i]? = some stack)
    (hs : stepThread (run (init progs) sched).sh stack = some (s', stack')) :
    staleTop s'.word stack' = 0 :=
  own_step_fresh hs (tailOk_run _ sched (tailOk_init progs) stack (List.mem_of_getElem? hi))

/-- … part 2: whenever the admission word differs after a stretch of schedule, that stretch contains
a step of a worker thread that strictly decreased `phi` (only `admit.cas`/`ticket.release`/
`drain.close`/`marker.cas` successes write the word). So between a thread's load and its failing CAS
(the thread itself not scheduled in between) some OTHER thread made progress: retries are paid for. -/
theorem the_word_changes_only_by_progress (g : G) (sched : List Tid)
    (h : (run g sched).sh.word ≠ g.sh.word) :
    ∃ a i b, sched = a ++ .t i :: b ∧ phi (step (run g a) (.t i)) < phi (run g a) := by
  induction sched generalizing g with
  | nil => exact absurd rfl h
  | cons u l ih =>
    by_cases hw : (step g u).sh.word = g.sh.word
    · have : (run (step g u) l).sh.word ≠ (step g u).sh.word := by rw [hw]; exact h
      obtain ⟨a, i, b, e, hp⟩ := ih (step g u) this
      exact ⟨u :: a, i, b, by rw [e]; rfl, hp⟩
    · obtain ⟨i, rfl, hp⟩ := word_change_is_progress g u hw
      exact ⟨[], i, l, rfl, hp⟩

/-- **Ranking, whole system.** No step of anybody (workers, receiver, stop/kill, status writers)
increases the well-founded measure `mu`, and every step of somebody who has something to do — a worker
whose program is not finished (INCLUDING a failed CAS), `recv` with a message to take or to handle,
`rxClose`/`rxFlush` with a channel to close / to empty — strictly decreases it. -/
theorem every_step_that_does_something_decreases_the_measure (g : G) (u : Tid) :
    mu (step g u) ≤ mu g ∧ (en g u = true → mu (step g u) < mu g) :=
  ⟨mu_step_le g u, mu_step_lt g u⟩

/-- **Progress: every weakly fair schedule finishes.** From every reachable state `g`, every
continuation made of `N ≥ mu g` *fair rounds* — a round schedules every worker thread that was not finished in `g` and each of
the receiver's actions (`recv`, `rxClose`, `rxFlush`) at least once, in any order, any number of
times, interleaved with any `setStatus`; no stop / kill from outside — reaches `endState`: every
program has returned (all CAS loops have terminated), the channel is empty, nothing is taken, and
the receiver, if it left its loop, has closed the channel. `N = mu g` is computed from the state. -/
theorem fair_schedule_reaches_the_end_state (progs : List (List Op)) (sched₁ : List Tid)
    (rounds : List (List Tid))
    (hfair : ∀ r ∈ rounds, fairRound (run (init progs) sched₁) r)
    (hn : mu (run (init progs) sched₁) ≤ rounds.length) :
    endState (run (init progs) (sched₁ ++ rounds.flatten)) = true :=
  fair_reaches_endState progs sched₁ rounds hfair hn

/-- **A drain completes under every weakly fair schedule** (C07 "never leaves the actor running
forever", liveness form for the fine-grained model: ticket holders inside `box_message`, CAS retry
loops, any number of senders and drainers). If admission is closed in a reachable state and no stop /
kill has happened or happens, then after `mu g` fair rounds: all ops have returned, the marker bit is
set and no ticket is outstanding, the marker was enqueued and dequeued, the receiver left its loop with
reason "Drained" exactly once and closed the channel, nothing was flushed, and the handled messages
are exactly the enqueued ones = exactly the ids of the sends that RETURNED `Ok`. -/
theorem drain_completes_under_every_fair_schedule (progs : List (List Op)) (sched₁ : List Tid)
    (rounds : List (List Tid))
    (hc : (run (init progs) sched₁).sh.word.closed = true)
    (hso : (run (init progs) sched₁).sh.stoppedByOther = false)
    (hfair : ∀ r ∈ rounds, fairRound (run (init progs) sched₁) r)
    (hn : mu (run (init progs) sched₁) ≤ rounds.length) :
    let f := run (init progs) (sched₁ ++ rounds.flatten)
    endState f = true ∧ f.sh.word.marker = true ∧ f.sh.word.count = 0 ∧
    f.sh.drainedExits = 1 ∧ f.sh.rxOpen = false ∧ f.sh.stoppedByOther = false ∧
    Item.drain ∈ f.sh.deqd ∧ f.sh.flushed = [] ∧ f.sh.handled = msgIds f.sh.enq ∧
    (∀ i, i ∈ f.sh.handled ↔ ∃ r ∈ f.sh.rets, r.kind = .send ∧ r.res = .ok ∧ r.id = i) := by
  intro f
  have he : endState f = true := fair_schedule_reaches_the_end_state progs sched₁ rounds hfair hn
  have e : f = run (run (init progs) sched₁) rounds.flatten := run_append _ _ _
  have hc' : f.sh.word.closed = true := by rw [e]; exact (mono_run _ _).closed hc
  have hso' : f.sh.stoppedByOther = false := by
    rw [e, sbo_fair _ _ rounds hfair]
    exact hso
  obtain ⟨hm, hcnt, hd, ho⟩ := drain_ends_the_actor_exactly_once progs _ he hc' hso'
  have Q := qinv_run _ (sched₁ ++ rounds.flatten) (qinv_init progs)
  have hmem : Item.drain ∈ f.sh.deqd := by
    apply List.count_pos_iff.mp
    have := Q.drained_eq
    simp only [f] at hd ⊢
    omega
  obtain ⟨hh, -, hf⟩ := drained_exit_handled_everything progs _ hmem
  exact ⟨he, hm, hcnt, hd, ho, hso', hmem, hf, hh,
    every_ok_send_is_handled_at_the_end progs _ he hso'⟩

/-- Non-vacuity: a sender parked at `ticket.release` (its message is in the channel) and a drainer
parked at `drain.status` (admission closed, one ticket outstanding): `mu = 48`; 48 rounds
`[recv, t1, rxFlush, t0, rxClose]` are fair, and the theorem's conclusion is what the model computes. -/
example :
    let progs : List (List Op) := [[.send [] false], [.drain]]
    let sched₁ : List Tid := [.t 0, .t 0, .t 0, .t 0, .t 0, .t 0, .t 0, .t 1, .t 1]
    let round : List Tid := [.recv, .t 1, .rxFlush, .t 0, .rxClose]
    (run (init progs) sched₁).sh.word.closed = true ∧
    (run (init progs) sched₁).sh.word.count = 1 ∧
    mu (run (init progs) sched₁) = 48 ∧
    endState (run (init progs) (sched₁ ++ (List.replicate 48 round).flatten)) = true ∧
    (run (init progs) (sched₁ ++ (List.replicate 48 round).flatten)).sh.drainedExits = 1 ∧
    (run (init progs) (sched₁ ++ (List.replicate 48 round).flatten)).sh.handled = [0] := by
  decide +kernel

example : fairRound (run (init [[.send [] false], [.drain]])
    [.t 0, .t 0, .t 0, .t 0, .t 0, .t 0, .t 0, .t 1, .t 1]) [.recv, .t 1, .rxFlush, .t 0, .rxClose] := by
  refine ⟨by decide, fun t ht => ?_⟩
  cases t with
  | t i =>
    have hi : i < 2 := by
      apply Classical.byContradiction
      intro hge
      have : ¬ i < 2 := hge
      simp only [mustRun, en] at ht
      have hnone : (run (init [[Op.send [] false], [Op.drain]])
        [.t 0, .t 0, .t 0, .t 0, .t 0, .t 0, .t 0, .t 1, .t 1]).threads[i]? = none := by
        apply List.getElem?_eq_none
        rw [length_run]; simp [init]; omega
      rw [hnone] at ht; cases ht
    have : i = 0 ∨ i = 1 := by omega
    rcases this with rfl | rfl <;> simp
  | recv => simp
  | rxClose => simp
  | rxFlush => simp
  | rxStop => exact absurd ht (by simp [mustRun])
  | setStatus st => exact absurd ht (by simp [mustRun])

/-- (6, schedule form) **A repeated drain is invisible under ANY interleaving.** Let some drain have
completed in `g` (marker bit set, closed, status ≥ Draining). Run ANY schedule from `g` — other
senders, other drainers, the receiver, stop/kill, the repeated drain's own earlier steps, in any
order — and then let thread `i`, whose top frame is a step of a (further) `drain()`, move: the shared
state is untouched except for the log of returned ops, and the drain's last step logs `Ok`.
(`repeated_drain_step_changes_nothing` + `completed_drain_is_stable` composed along the schedule; the
case of drains racing BEFORE the first one completed is `marker_at_most_once` and, for the outcome,
`drain_completes_under_every_fair_schedule`: any number of drainers, one "Drained" exit.) -/
theorem repeated_drain_is_invisible_under_any_interleaving (g : G) (sched : List Tid) (i : Nat)
    (hm : g.sh.word.marker = true) (hc : g.sh.word.closed = true) (hst : stDraining ≤ g.sh.status)
    (f : Frame) (rest : List Frame)
    (hi : (run g sched).threads[i]? = some (f :: rest))
    (hpc : f.pc = .dClose ∨ f.pc = .dStatus ∨ f.pc = .mLoad none) :
    (step (run g sched) (.t i)).sh =
      { (run g sched).sh with rets := (step (run g sched) (.t i)).sh.rets } ∧
    (f.pc = .mLoad none → (step (run g sched) (.t i)).sh.rets =
      (run g sched).sh.rets ++ [⟨.drain, f.id, .ok, f.late, f.seenOk⟩] ∧
      (step (run g sched) (.t i)).threads[i]? = some rest) ∧
    (f.pc ≠ .mLoad none → (step (run g sched) (.t i)).sh.rets = (run g sched).sh.rets) := by
  obtain ⟨hm', hc', hst'⟩ := completed_drain_is_stable g sched hm hc hst
  obtain ⟨s', st', hs, h1, h2, h3⟩ := repeated_drain_step_changes_nothing _ f rest hm' hc' hst' hpc
  rw [step_t hi hs]
  refine ⟨h1, fun hp => ⟨(h2 hp).1, ?_⟩, h3⟩
  rw [get_set_self s' hi, (h2 hp).2]

/-- **No livelock under ANY schedule** (lock-freedom of the protocol, no fairness needed): along every
schedule whatsoever — including `rxStop`, unfair ones, ones that starve threads — the number of steps
that do something (worker steps of unfinished programs, FAILED CAS ATTEMPTS INCLUDED, and effective
receiver steps) is at most `mu g`. In particular the two CAS loops cannot spin forever. -/
theorem no_livelock_under_any_schedule (g : G) (sched : List Tid) :
    effSteps g sched + mu (run g sched) ≤ mu g :=
  effSteps_le g sched

/-- **Every op returns under plain count-fairness** (the form "each unfinished thread is scheduled at
least `N` more times", `N = mu g` computed from the state): after any prefix `sched₁`, let `sched₂` be
ANY schedule — receiver steps, stop, kill, status writes, other threads, in any order — in which every
worker whose program is unfinished occurs at least `mu g` times. Then after `sched₂` no send, drain or
wrong-type send is in flight: every call has returned, all CAS loops have terminated. (For the receiver
this form of fairness is not enough — `recv^N` before the senders leaves the queue full — hence the
rounds of `fair_schedule_reaches_the_end_state`.) -/
theorem every_op_returns_when_its_thread_is_scheduled_often_enough (progs : List (List Op))
    (sched₁ sched₂ : List Tid)
    (h : ∀ i, en (run (init progs) sched₁) (.t i) = true → mu (run (init progs) sched₁) ≤ sched₂.count (.t i)) :
    quiescent (run (init progs) (sched₁ ++ sched₂)) = true := by
  have K := stackOk_run _ (sched₁ ++ sched₂) (stackOk_init progs)
  rw [run_append] at K ⊢
  exact quiescent_of_workers_done K (workers_done _ sched₂ h)

/-- **A drain never leaves the actor running forever — liveness under count-fairness of the workers
only.** If admission is closed in a reachable state and every unfinished worker is scheduled `mu g`
more times (the receiver, stop and kill arbitrary), then the marker bit is set, and — unless the
receiver has already closed the channel — the marker is in the channel or was already dequeued (and the
receiver has left its loop). This discharges the quiescence hypothesis of `drain_completes`. -/
theorem marker_is_emitted_when_threads_are_scheduled_often_enough (progs : List (List Op))
    (sched₁ sched₂ : List Tid)
    (hc : (run (init progs) sched₁).sh.word.closed = true)
    (h : ∀ i, en (run (init progs) sched₁) (.t i) = true → mu (run (init progs) sched₁) ≤ sched₂.count (.t i)) :
    let f := run (init progs) (sched₁ ++ sched₂)
    f.sh.word.marker = true ∧
    (f.sh.rxOpen = true → f.sh.enq.count .drain = 1 ∧
      (.drain ∈ f.sh.queue ∨ (.drain ∈ f.sh.deqd ∧ f.sh.rxStopped = true))) := by
  intro f
  have hq := every_op_returns_when_its_thread_is_scheduled_often_enough progs sched₁ sched₂ h
  have hc' : f.sh.word.closed = true := by
    simp only [f]; rw [run_append]; exact (mono_run _ _).closed hc
  exact drain_completes progs (sched₁ ++ sched₂) hc' hq

/-- Non-vacuity of the count form: the state of the example above (`mu = 48`), then thread 1 48 times,
then thread 0 48 times — no receiver step at all: the hypothesis holds, every op has returned. -/
example :
    let g := run (init [[.send [] false], [.drain]]) [.t 0, .t 0, .t 0, .t 0, .t 0, .t 0, .t 0, .t 1, .t 1]
    let sched₂ := List.replicate 48 (Tid.t 1) ++ List.replicate 48 (Tid.t 0)
    (∀ i, en g (.t i) = true → mu g ≤ sched₂.count (.t i)) ∧ quiescent (run g sched₂) = true ∧
      (run g sched₂).sh.queue = [.msg 0, .drain] := by
  refine ⟨fun i hi => ?_, by decide +kernel, by decide +kernel⟩
  have hlt : i < 2 := by
    apply Classical.byContradiction
    intro hge
    simp only [en] at hi
    have hnone : (run (init [[Op.send [] false], [Op.drain]])
      [.t 0, .t 0, .t 0, .t 0, .t 0, .t 0, .t 0, .t 1, .t 1]).threads[i]? = none := by
      apply List.getElem?_eq_none
      rw [length_run]; simp [init]; omega
    rw [hnone] at hi; cases hi
  have : i = 0 ∨ i = 1 := by omega
  rcases this with rfl | rfl <;> decide +kernel

/-- **The bound at the start in closed form.** `mu (init progs) = (T+1)·(W+2)` with `T` threads and
`W` = 15 per send (nested sends counted), 8 per drain, 2 per wrong-type send: every case of `T` thread
programs has returned all its calls and reached `endState` after that many fair rounds, and performs
at most that many effective steps (failed CAS attempts included) under any schedule at all. -/
theorem every_case_finishes_within_the_explicit_bound (progs : List (List Op)) (rounds : List (List Tid))
    (hfair : ∀ r ∈ rounds, fairRound (init progs) r)
    (hn : (progs.length + 1) * ((progs.map opsW).sum + 2) ≤ rounds.length) :
    endState (run (init progs) rounds.flatten) = true ∧
    ∀ sched, effSteps (init progs) sched ≤ (progs.length + 1) * ((progs.map opsW).sum + 2) := by
  refine ⟨?_, fun sched => ?_⟩
  · have := fair_schedule_reaches_the_end_state progs [] rounds hfair (by rw [← mu_init] at hn; exact hn)
    simpa using this
  · have := effSteps_le (init progs) sched
    rw [mu_init] at this
    omega

end C07

#print axioms C07.at_most_one_stop_accepted
#print axioms C07.at_most_one_kill_accepted
#print axioms C07.first_request_wins
#print axioms C07.exit_reason_is_the_priority_winner
#print axioms C07.accepted_stop_wins_or_is_preempted
#print axioms C07.stop_port_oracle_holds_of_model
#print axioms C07.stop_port_free_oracle_holds_of_model
#print axioms C07.src_port_priority
#print axioms C07.send_after_close_rejected
#print axioms C07.send_started_after_close_is_rejected
#print axioms C07.first_step_records_closed
#print axioms C07.count_is_tickets
#print axioms C07.marker_at_most_once
#print axioms C07.drained_exit_at_most_once
#print axioms C07.messages_precede_marker
#print axioms C07.marker_implies_closed_and_idle
#print axioms C07.drain_completes
#print axioms C07.drained_exit_handled_everything
#print axioms C07.repeated_drain_changes_nothing
#print axioms C07.repeated_drain_step_changes_nothing
#print axioms C07.completed_drain_is_stable
#print axioms C07.uninterleaved_drain
#print axioms C07.oracle_holds_of_model
#print axioms C07.drain_ends_the_actor_exactly_once
#print axioms C07.every_ok_send_is_handled_at_the_end
#print axioms C07.drained_actor_handled_exactly_the_accepted
#print axioms C07.src_status_discriminants
#print axioms C07.src_admission_word_layout
#print axioms C07.src_drain_steps
#print axioms C07.drain_before_start_still_drains
#print axioms C07.no_send_accepted_after_early_drain
#print axioms C07.start_race_nothing_lost_while_alive
#print axioms C07.start_race_drained_exit_handled_everything
#print axioms C07.start_race_never_already_started
#print axioms C07.start_race_only_drained_exit
#print axioms C07.start_race_drain_completes
#print axioms C07.start_race_drain_completes_fair
#print axioms C07.start_race_nothing_accepted_after_close
#print axioms C07.unfixed_link_gate_drops_accepted_casts
#print axioms C07.src_start_drain_gates
#print axioms C07.src_status_discriminants_start
-- rs2lean tie
#print axioms C07.generated_try_admit_eq_model
#print axioms C07.generated_close_admission_eq_model
#print axioms C07.generated_send_drain_marker_eq_model
#print axioms C07.generated_ticket_release_eq_model
#print axioms C07.generated_drain_status_update_eq_model
#print axioms C07.generated_send_status_check_eq_model
#print axioms C07.generated_status_discriminants
#print axioms C07.generated_admission_constants
#print axioms C07.model_admit_load_follows_generated
#print axioms C07.model_admit_cas_installs_generated
#print axioms C07.model_close_installs_generated
#print axioms C07.model_marker_load_follows_generated
#print axioms C07.model_release_follows_generated
-- round 4, wave 2
#print axioms C07.rejected_send_hands_back_its_own_message
#print axioms C07.step_is_progress_or_a_failed_cas
#print axioms C07.after_its_own_step_a_thread_remembers_the_current_word
#print axioms C07.the_word_changes_only_by_progress
#print axioms C07.every_step_that_does_something_decreases_the_measure
#print axioms C07.fair_schedule_reaches_the_end_state
#print axioms C07.drain_completes_under_every_fair_schedule
#print axioms C07.repeated_drain_is_invisible_under_any_interleaving
#print axioms C07.no_livelock_under_any_schedule
#print axioms C07.every_op_returns_when_its_thread_is_scheduled_often_enough
#print axioms C07.marker_is_emitted_when_threads_are_scheduled_often_enough
#print axioms C07.every_case_finishes_within_the_explicit_bound
