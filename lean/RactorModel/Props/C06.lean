import RactorModel.Lemmas.GenAdmission
import RactorModel.Extracted
import RactorModel.Lemmas.ExitRaceLive

/-!
# C06 — shutdown waits are accurate and never miss the wake-up

Property theorems only, about the small-step model `Model/ExitRace.lean` (one step = one schedule
point of `set_status` / `notify_stop_listener` / `ActorLifecycleGuard::cleanup` / `wait`), for
**any number of waiters**, any other `set_status` callers, late repeated calls, waiters abandoned
at any step, and **all schedules**. Helper lemmas: `Lemmas/ExitRace*.lean`.
-/

namespace C06
open ExitRace

/-- (safety) A waiter that has returned recorded `ok = true` at its return (status was `Stopped`
and every cleanup step preceding `publish(Stopped)` was done: pid and name unregistered, group
monitors and memberships gone, children terminated, supervisor notified, unlinked, `post_stop`
returned on a graceful exit) — and this is still true in the current state, so the snapshot it
takes afterwards shows a fully stopped actor. For any number of waiters, any schedule. -/
theorem waiter_returns_only_after_full_stop (g0 : G) (h0 : Initial g0) (sched : List Tid) :
    ∀ w ∈ (run g0 sched).waiters, ∀ ok, w.pc = .returned ok →
      ok = true ∧ (run g0 sched).sh.status = stStopped ∧
      (run g0 sched).sh.flags.complete g0.exiter.hasPostStop = true := by
  intro w hw ok hok
  have I := inv_run _ sched (inv_initial g0 h0)
  obtain ⟨h1, h12⟩ := (I.ws w hw).ret ok hok
  have hok' := okNow_of_stage I.toInvCore h12
  simp only [okNow, snapshotOk, Bool.and_eq_true, beq_iff_eq, hasPostStop_run] at hok'
  exact ⟨h1, hok'.1, hok'.2⟩

/-- What `ok` records: a waiter that returns in this step stores `okNow g`, the observation of the
state it returns in. -/
theorem return_records_current_state (sh : Sh) (fl : Bool) (w : Waiter) (ok : Bool)
    (hnot : ∀ o, w.pc ≠ .returned o) (h : (stepWaiter sh fl w).2.pc = .returned ok) : ok = fl := by
  obtain ⟨pc, wk⟩ := w
  cases pc <;> simp only [stepWaiter] at h <;> (repeat' split at h) <;> simp_all

/-- (no lost wake-up, enabledness) Once the exiter has finished, a step of any waiter that has not
returned — whether it started before, during or after the exit — makes progress: no waiter is
ever left blocked. -/
theorem no_lost_wakeup_progress (g0 : G) (h0 : Initial g0) (sched : List Tid) (i : Nat)
    (hf : (run g0 sched).exiter.finished = true) (hr : 0 < remaining (run g0 sched) i) :
    remaining (step (run g0 sched) (.w i)) i < remaining (run g0 sched) i :=
  waiter_progress _ i (inv_run _ sched (inv_initial g0 h0)).toInvCore hf hr

/-- (no lost wake-up, fairness form) After the exiter has finished, every waiter that is scheduled
three more times — whatever else runs in between — and is not abandoned has returned. -/
theorem no_lost_wakeup (g0 : G) (h0 : Initial g0) (sched more : List Tid) (i : Nat)
    (hi : i < g0.waiters.length) (hf : (run g0 sched).exiter.finished = true)
    (ha : isAbandoned (run g0 sched) i = false)
    (hcount : 3 ≤ more.count (.w i)) (hna : Tid.abandon i ∉ more) :
    isReturned (run (run g0 sched) more) i = true := by
  have I := inv_run _ sched (inv_initial g0 h0)
  refine returns_when_scheduled _ i more I hf (by rw [length_run]; exact hi) ha ?_ hna
  have : remaining (run g0 sched) i ≤ 3 := by
    unfold remaining
    split
    · rename_i pc _; cases pc <;> simp [WPc.rank]
    · omega
  omega

/-- (they do complete) The exit sequence itself is never blocked — not even when one statement of
`ActorLifecycleGuard::cleanup` panics (`Tid.unwind`): the guard is still armed, so its `Drop` runs
`cleanup` again from the top. After 19 steps of the exiter, whatever else is scheduled in between
(waiters, drainers, a successor taking the freed name, one such panic), it has finished — so together
with `no_lost_wakeup` every fair schedule lets every waiter that is not abandoned return. -/
theorem exiter_always_finishes (g0 : G) (h0 : Initial g0) (sched : List Tid)
    (hcount : 19 ≤ sched.count .e) : (run g0 sched).exiter.finished = true := by
  apply exiter_finishes g0 sched (inv_initial g0 h0)
  have : g0.exiter.pc.stage = 0 := by rw [h0.exiter]; rfl
  simp only [exiterDebt, this]
  split <;> omega

/-- The lifecycle guard stays armed until the exit sequence has finished: a panic inside `cleanup`
always finds it armed (this is what makes the re-run, and hence the release of the waiters, happen). -/
theorem guard_armed_until_finished (g0 : G) (h0 : Initial g0) (sched : List Tid)
    (h : (run g0 sched).exiter.finished = false) : (run g0 sched).exiter.armed = true := by
  have I := inv_run _ sched (inv_initial g0 h0)
  apply I.armed
  have := stage_le (run g0 sched).exiter.pc
  by_cases h15 : (run g0 sched).exiter.pc.stage = 15
  · rw [stage_finished h15] at h; cases h
  · omega

/-- (cleanup once, seen from outside) A successor that registered the freed name while the old
actor was still exiting keeps it: no later step of the old actor's exit — whatever drains, panics
or late `set_status` calls happen — unregisters the name a second time. -/
theorem successor_keeps_name (g0 : G) (h0 : Initial g0) (sched more : List Tid)
    (hs : (run g0 sched).sh.name = .succ) : (run (run g0 sched) more).sh.name = .succ := by
  have I := inv_run _ sched (inv_initial g0 h0)
  generalize run g0 sched = g at *
  induction more generalizing g with
  | nil => exact hs
  | cons t l ih =>
    simp only [run, List.foldl_cons]
    exact ih _ (successor_keeps_name_step g t I hs) (inv_step g t I)

/-- (monotone) The status word never decreases — for any `set_status` callers and values, and for
`drain()` issued at any position of the exit sequence (its `fetch_update` lifts only a status below
`Stopping`). -/
theorem status_monotone (g : G) (sched : List Tid) (h : OnceInv g.sh) :
    g.sh.status ≤ (run g sched).sh.status :=
  (run_once g sched h).2

/-- (once) The cleanup block and the notify block of `set_status` are each elected at most once,
whatever `set_status` calls are made by whichever threads (any values, any interleaving), also
with drains at any position and with `cleanup` re-run after a panic. -/
theorem cleanup_elected_once (g0 : G) (h0 : g0.sh.cleanupRuns = 0 ∧ g0.sh.notifyRuns = 0)
    (sched : List Tid) :
    (run g0 sched).sh.cleanupRuns ≤ 1 ∧ (run g0 sched).sh.notifyRuns ≤ 1 := by
  have hi : OnceInv g0.sh := by
    constructor
    · rw [h0.1]; exact Nat.zero_le _
    · rw [h0.2]; exact Nat.zero_le _
  have := (run_once _ sched hi).1
  have h1 := this.cleanup
  have h2 := this.notify
  constructor
  · split at h1 <;> omega
  · split at h2 <;> omega

/-- (timeout) Abandoning a waiter changes no shared state of the actor — status, cleanup flags,
generation, the exiter, the other callers — and no other waiter's program counter; only the
`Notify` bookkeeping of the abandoned waiter (a wake-up it received from `notify_one` is passed
on). That the remaining waiters still all return is `no_lost_wakeup` (its schedules may contain
abandonments of other waiters). -/
theorem abandon_changes_nothing (g : G) (i : Nat) :
    (step g (.abandon i)).sh.status = g.sh.status ∧ (step g (.abandon i)).sh.flags = g.sh.flags ∧
    (step g (.abandon i)).sh.gen = g.sh.gen ∧ (step g (.abandon i)).exiter = g.exiter ∧
    (step g (.abandon i)).setters = g.setters ∧
    ∀ j, j ≠ i → pcOf (step g (.abandon i)) j = pcOf g j := by
  refine ⟨?_, ?_, ?_, ?_, ?_, fun j hj => other_steps_keep_pc g (.abandon i) j (by simp) (by simp; omega)⟩ <;>
  · simp only [step]
    split
    · rfl
    · split
      · rfl
      · rfl
      · split
        · first | rfl | (simp only [notifyOne]; split <;> rfl)
        · rfl

/-! ### Source guards (E-SRC) -/

/-- statement order of `ActorLifecycleGuard::cleanup` -/
theorem src_cleanup_order :
    Extracted.cleanupOrder = ["set_status:Stopping", "terminate", "notify_supervisor", "unlink", "set_status:Stopped"] := by
  decide

/-- statement order and the two elections of `ActorCell::set_status` -/
theorem src_set_status_order :
    Extracted.setStatusOrder = ["inner.set_status", "demonitor", "unregister_pid", "unregister", "demonitor_all",
      "leave_all", "notify_stop_listener"]
    ∧ Extracted.setStatusCleanupElectedOnce = true ∧ Extracted.setStatusNotifyElectedOnce = true := by
  decide

/-- `wait()` creates the `Notified` before reading the status; `notify_waiters` precedes `notify_one` -/
theorem src_wait_and_notify :
    Extracted.waitCreatesNotifiedBeforeStatusCheck = true ∧ Extracted.notifyOrder = ["notify_waiters", "notify_one"] := by
  decide

theorem src_status_discriminants :
    (Extracted.statusDiscriminants.lookup "Stopping", Extracted.statusDiscriminants.lookup "Stopped")
      = (some stStopping, some stStopped) := by decide

/-! ### Non-vacuity -/

/-- waiter 0 registers before the exit starts, waiter 1 creates its `Notified` during the exit and
polls after `notify_waiters`, waiter 2 starts after the exit: all three return, all with `ok`. -/
def exampleSched : List Tid :=
  [.w 0, .w 0] ++ List.replicate 12 .e ++ [.w 1] ++ List.replicate 3 .e ++ [.w 1, .e, .w 0, .w 2, .w 2]

example : (run (init true [] [[1, 2]] 3) exampleSched).waiters.map (·.pc)
    = [.returned true, .returned true, .returned true] := by decide
example : (run (init true [] [[1, 2]] 3) exampleSched).exiter.finished = true := by decide
example : (run (init true [] [[1, 2]] 3) [.w 0, .w 0]).waiters.map (·.pc) = [.registered, .start, .start] := by
  decide
/-- a timed-out waiter -/
example : (run (init false [6] [] 2) ([.w 0, .w 0, .abandon 0] ++ List.replicate 20 .e ++ [.w 1, .w 1])).waiters.map (·.pc)
    = [.abandoned, .returned true] := by decide

/-- the hypotheses of the theorems also cover an exit after `drain()` (status `Draining`) and after
a kill signal (children already terminated) -/
example : Initial { (init false [] [] 2) with sh := { status := 4, flags := { terminated := true } } } := by
  refine ⟨rfl, rfl, rfl, by decide, rfl, rfl, ⟨rfl, rfl⟩, ?_, rfl⟩
  intro w hw
  simp only [init, List.mem_replicate] at hw
  exact hw.2

/-- a drain arriving while the actor is parked in `post_stop` (status `Stopping`) changes nothing;
a successor takes the freed name and keeps it; `cleanup.notify` panics, `cleanup` is re-run, and
both waiters are released -/
example :
    let g := run (init true [] [] 2 1)
      ([.w 0, .w 0] ++ List.replicate 5 .e ++ [.d 0, .succ] ++ List.replicate 4 .e ++ [.unwind]
        ++ List.replicate 10 .e ++ [.w 0, .w 1, .w 1])
    g.sh.status = 6 ∧ g.sh.name = .succ ∧ g.sh.cleanupRuns = 1 ∧ g.exiter.finished = true
      ∧ g.waiters.map (·.pc) = [.returned true, .returned true] := by decide

/-! ### Translator tie (rs2lean): kernel-checked equivalence between the definitions that
`extract/rs2lean.py` regenerates from the CURRENT Rust source on every run
(`RactorModel/Generated/*.lean`) and the hand-written model functions the theorems above are
about. A semantic change of the Rust function changes the generated text and these stop checking. -/

section XlateTie
open Generated.Admission

/-- the condition under which `ActorCell::set_status` runs the registry/pg cleanup
(model: the election at pc `publish`). -/
theorem generated_set_status_cleanup_condition_eq_model (enq : Except MessagingErr Unit) (s prev : ActorStatus) :
    ActorCell.set_status_runs_cleanup enq s prev
      = (decide (s.toNat ≥ ExitRace.stStopping) && decide (prev.toNat < ExitRace.stStopping)) := by
  cases s <;> cases prev <;> rfl

/-- the condition under which `ActorCell::set_status` notifies the stop listeners. -/
theorem generated_set_status_notify_condition_eq_model (enq : Except MessagingErr Unit) (s prev : ActorStatus) :
    ActorCell.set_status_notifies enq s prev
      = (s.toNat == ExitRace.stStopped && decide (prev.toNat < ExitRace.stStopped)) := by
  cases s <;> cases prev <;> rfl
end XlateTie

/-! ### E-SRC, async-std backend (round 4)

`wait(Some(d))`, `stop_and_wait`, `kill_and_wait`, `drain_and_wait` go through `concurrency::timeout`; with
`--features async-std` it forwards duration and future unchanged to `async_std::future::timeout` and maps its error
to `Timeout`. The children waits (`stop_children_and_wait`, `drain_children_and_wait`) use the backend's `JoinSet`,
which polls the futures inline in the caller (`FuturesUnordered`) and never reports a join error. -/
theorem src_async_std_timeout :
    Extracted.asyncStdTimeoutBody = "async_std::future::timeout(dur,future).await.map_err(|_|super::Timeout)" := by decide
theorem src_async_std_joinset :
    Extracted.asyncStdJoinSetSpawnBody = "self.set.push(f.boxed());"
    ∧ Extracted.asyncStdJoinSetJoinNextBody = "self.set.next().await.map(|item|Ok(item))" := by decide

end C06

#print axioms C06.waiter_returns_only_after_full_stop
#print axioms C06.return_records_current_state
#print axioms C06.no_lost_wakeup_progress
#print axioms C06.no_lost_wakeup
#print axioms C06.exiter_always_finishes
#print axioms C06.guard_armed_until_finished
#print axioms C06.successor_keeps_name
#print axioms C06.status_monotone
#print axioms C06.cleanup_elected_once
#print axioms C06.abandon_changes_nothing
#print axioms C06.src_cleanup_order
#print axioms C06.src_set_status_order
#print axioms C06.src_wait_and_notify
#print axioms C06.src_status_discriminants
-- rs2lean tie
#print axioms C06.generated_set_status_cleanup_condition_eq_model
#print axioms C06.generated_set_status_notify_condition_eq_model
#print axioms C06.src_async_std_timeout
#print axioms C06.src_async_std_joinset
