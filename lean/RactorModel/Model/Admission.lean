/-!
# Model `Admission` — the lock-free message-admission / drain protocol (C02, C07)

Small-step model of `ractor/src/actor/actor_properties.rs`:
`send_message_unchecked`, `try_admit_message`, `MessageAdmission::drop`,
`close_message_admission`, `send_drain_marker`, `drain`, and of the receiving side
(`process_message` dequeuing in order and stopping at the `Drain` marker,
`ActorPortSet::drop` = close + flush).

One model step = one atomic operation of the code = one schedule point
`crate::verif::point("…")` (the name is given next to each program counter).
An execution is a `List Tid` (the schedule); `run = foldl step`.

Threads run *programs* (`List Op`). A `send` may carry a nested program that runs inside
`box_message` while the admission ticket is held (re-entrant sends/drains, the shape of
the repo test `drain_defers_marker_for_reentrant_admitted_send`), so a thread is a stack
of frames.  Message ids are allocated from a global ghost counter when the op starts
(harness point `op.start`), which makes "the message" of a send well defined without any
distinctness hypothesis.

Core Lean only; imports nothing.
-/

namespace Admission

/-- The admission word `message_admission : AtomicUsize`
(bit 63 `closed`, bit 62 `marker`, low bits `count`). -/
structure Word where
  closed : Bool
  marker : Bool
  count : Nat
  deriving DecidableEq, Repr, Inhabited

/-- What travels through the mailbox channel (`MuxedMessage`). -/
inductive Item where
  | msg (id : Nat)
  | drain
  deriving DecidableEq, Repr, Inhabited

/-- Return values. `sendErr back` = `Err(MessagingErr::SendErr(m))`: the message is handed back,
`back` is the id of the message `m` inside the error (every rejection path of the code moves the
caller's own `message` into the `Err`, so the model hands back the frame's own id `f.id`; that it is
never another id is `C07.rejected_send_hands_back_its_own_message`, and the driver compares the id
the real code hands back), `invalidType` = `Err(MessagingErr::InvalidActorType)`, `drainErr` = `drain()`'s
`Err(SendErr(()))` when the marker could not be enqueued. -/
inductive Res where
  | ok | sendErr (back : Nat) | invalidType | drainErr
  deriving DecidableEq, Repr, Inhabited

/-- Operations of a thread program. -/
inductive Op where
  /-- `send_message_unchecked(m)`; `nested` runs inside `m.box_message()`;
  `boxFails`: `box_message` returns `Err` afterwards; `resend` (inert in the model): the
  actor's handler, when it handles `m`, sends one more message to itself — in the model that
  send is simply a send by another thread scheduled at that moment. -/
  | send (nested : List Op) (boxFails : Bool) (resend : Bool := false)
  /-- `drain()` -/
  | drain
  /-- `send_message::<Wrong>(m)` on an untyped cell: rejected by the `TypeId` check. -/
  | bad
  deriving Repr, Inhabited

/-- Program counters; the schedule point a thread is parked at. -/
inductive Pc where
  /-- top-level program frame: about to start its next op (harness point `op.start`) -/
  | run
  /-- `send.status` : before `get_status()` -/
  | sStatus
  /-- `admit.load` : before the `load` of `try_admit_message` -/
  | aLoad
  /-- `admit.cas` : before `compare_exchange_weak(seen, seen+1)` -/
  | aCas (seen : Word)
  /-- `send.box` : ticket held, before `box_message` -/
  | box
  /-- inside `box_message`: about to start the next nested op (`op.start`) or to leave
  (`box.end`) -/
  | boxing
  /-- `send.enqueue` : ticket held, before `message.send` -/
  | enq
  /-- `ticket.release` : before `fetch_sub`; the send will return `r` -/
  | rel (r : Res)
  /-- `drain.close` : before `fetch_or(CLOSED)` -/
  | dClose
  /-- `drain.status` : before the `fetch_update` to `Draining` -/
  | dStatus
  /-- `marker.load` : before the `load` of `send_drain_marker`;
  `ret = some r`: called from a ticket drop of a send returning `r`; `none`: from `drain` -/
  | mLoad (ret : Option Res)
  /-- `marker.cas` -/
  | mCas (seen : Word) (ret : Option Res)
  /-- `marker.enqueue` -/
  | mEnq (ret : Option Res)
  /-- a wrong-type send, before the `TypeId` comparison (harness point `send.typecheck`) -/
  | bad
  deriving DecidableEq, Repr, Inhabited

/-- One activation record of a thread. -/
structure Frame where
  pc : Pc
  /-- message id (send frames) -/
  id : Nat := 0
  /-- ghost: admission was already closed when this send performed its first step -/
  late : Bool := false
  /-- remaining program (`run`) / remaining nested program (send frames) -/
  ops : List Op := []
  boxFails : Bool := false
  /-- ghost: ids of the sends that had already returned `Ok` when this send performed its first
  step (`send.status`) -/
  seenOk : List Nat := []
  deriving Repr, Inhabited

inductive RKind where
  | send | drain | bad
  deriving DecidableEq, Repr, Inhabited

/-- Ghost log entry: an op returned. -/
structure Ret where
  kind : RKind
  id : Nat
  res : Res
  late : Bool
  /-- ghost (sends): ids of the sends that had returned `Ok` before this one started -/
  seenOk : List Nat := []
  deriving DecidableEq, Repr, Inhabited

/-- Shared state (real + ghost). -/
structure Shared where
  word : Word := ⟨false, false, 0⟩
  /-- `ActorStatus` discriminant (0 Unstarted … 4 Draining, 5 Stopping, 6 Stopped) -/
  status : Nat := 2
  /-- content of the mailbox channel, oldest first -/
  queue : List Item := []
  /-- the receiver has not closed the channel -/
  rxOpen : Bool := true
  /-- the receiver left its loop (marker, stop, kill, failure) -/
  rxStopped : Bool := false
  /-- ghost: the receiver left its loop for a reason other than the marker (`rxStop`) -/
  stoppedByOther : Bool := false
  /-- ghost: every successful enqueue, in order -/
  enq : List Item := []
  /-- ghost: items the receiver dequeued, in order -/
  deqd : List Item := []
  /-- ghost: messages whose handler was started (`run_with_signal(handle_message)` polled the
  handler), in order -/
  handled : List Nat := []
  /-- ghost: items dropped by close+flush -/
  flushed : List Item := []
  /-- ghost: number of loop exits with reason "Drained" -/
  drainedExits : Nat := 0
  /-- ghost: marker enqueues that failed because the receiver was gone -/
  markerDropped : Nat := 0
  /-- ghost: next fresh message id -/
  nextId : Nat := 0
  /-- ghost: returned ops, in order -/
  rets : List Ret := []
  /-- the message `listen_in_priority` has dequeued and whose handler has not been polled yet:
  `run_with_signal` tests the signal port FIRST, so a kill that lands in this window drops it -/
  taken : Option Nat := none
  /-- ghost: messages dequeued and then dropped without their handler ever running (a stop
  reason other than the marker — in the code: the signal port — won the first poll of
  `run_with_signal`) -/
  dropped : List Nat := []
  deriving Repr, Inhabited

structure G where
  sh : Shared := {}
  threads : List (List Frame) := []
  deriving Repr, Inhabited

inductive Tid where
  /-- worker thread `i` performs its next atomic step -/
  | t (i : Nat)
  /-- receiver, two phases: with nothing taken, dequeue one item (`listen_in_priority`); with a
  message taken, start its handler (first poll of `run_with_signal(handle_message)`) -/
  | recv
  /-- receiver: leave the loop for another reason (stop, kill, handler failure); a message that
  was dequeued but whose handler had not started is dropped -/
  | rxStop
  /-- receiver: `message_rx.close()` (after the loop ended) -/
  | rxClose
  /-- receiver: `while try_recv().is_ok() {}` -/
  | rxFlush
  /-- anybody: `set_status(s)` = `fetch_max` -/
  | setStatus (s : Nat)
  deriving DecidableEq, Repr, Inhabited

/-- `ActorStatus::Draining as u8`, `Stopping`, `Stopped` -/
def stDraining : Nat := 4
def stStopping : Nat := 5
def stStopped : Nat := 6

/-- Condition under which `send_drain_marker` goes on to its CAS. -/
def markerCond (w : Word) : Bool := w.closed && w.count == 0 && !w.marker

def kindOf (f : Frame) : RKind :=
  match f.pc with
  | .dClose | .dStatus => .drain
  | .mLoad none | .mCas _ none | .mEnq none => .drain
  | .bad => .bad
  | _ => .send

/-- ids of the sends that returned `Ok`, in return order -/
def okIds : List Ret → List Nat
  | [] => []
  | r :: l =>
    (match r.kind, r.res with
     | .send, .ok => [r.id]
     | _, _ => []) ++ okIds l

/-- The op of frame `f` returns `r`: log it and pop the frame. -/
def finish (s : Shared) (f : Frame) (r : Res) (rest : List Frame) : Shared × List Frame :=
  ({ s with rets := s.rets ++ [⟨kindOf f, f.id, r, f.late, f.seenOk⟩] }, rest)

/-- Start `op` on top of `parent :: rest` (harness point `op.start`). -/
def startOp (s : Shared) (op : Op) (parent : Frame) (rest : List Frame) : Shared × List Frame :=
  match op with
  | .send nested bf _ =>
    ({ s with nextId := s.nextId + 1 },
      { pc := .sStatus, id := s.nextId, ops := nested, boxFails := bf } :: parent :: rest)
  | .drain => (s, { pc := .dClose } :: parent :: rest)
  | .bad => (s, { pc := .bad } :: parent :: rest)

/-- Return value of the marker program when it ends without error. -/
def mRet (ret : Option Res) : Res := ret.getD .ok

/-- One atomic step of a worker thread whose stack is `stack`; `none` = finished. -/
def stepThread (s : Shared) (stack : List Frame) : Option (Shared × List Frame) :=
  match stack with
  | [] => none
  | f :: rest =>
    match f.pc with
    | .run =>
      match f.ops with
      | [] => none
      | op :: ops => some (startOp s op { f with ops := ops } rest)
    | .sStatus =>
      -- `if self.get_status() >= Draining { return Err(SendErr(m)) }`
      let f := { f with late := s.word.closed, seenOk := okIds s.rets }
      if s.status ≥ stDraining then some (finish s f (.sendErr f.id) rest)
      else some (s, { f with pc := .aLoad } :: rest)
    | .aLoad =>
      if s.word.closed then some (finish s f (.sendErr f.id) rest)
      else some (s, { f with pc := .aCas s.word } :: rest)
    | .aCas seen =>
      if s.word = seen then
        some ({ s with word := { s.word with count := s.word.count + 1 } }, { f with pc := .box } :: rest)
      else if s.word.closed then some (finish s f (.sendErr f.id) rest)
      else some (s, { f with pc := .aCas s.word } :: rest)
    | .box => some (s, { f with pc := .boxing } :: rest)
    | .boxing =>
      match f.ops with
      | op :: ops => some (startOp s op { f with ops := ops } rest)
      | [] =>
        -- `box.end`: `box_message(..).map_err(|_| InvalidActorType)?`
        if f.boxFails then some (s, { f with pc := .rel .invalidType } :: rest)
        else some (s, { f with pc := .enq } :: rest)
    | .enq =>
      if s.rxOpen then
        some ({ s with queue := s.queue ++ [.msg f.id], enq := s.enq ++ [.msg f.id] },
          { f with pc := .rel .ok } :: rest)
      else some (s, { f with pc := .rel (.sendErr f.id) } :: rest)
    | .rel r =>
      -- `let previous = fetch_sub(1); if previous.closed && previous.count == 1 { marker }`
      let s' := { s with word := { s.word with count := s.word.count - 1 } }
      if s.word.closed && s.word.count == 1 then some (s', { f with pc := .mLoad (some r) } :: rest)
      else some (finish s' f r rest)
    | .dClose =>
      some ({ s with word := { s.word with closed := true } }, { f with pc := .dStatus } :: rest)
    | .dStatus =>
      let s' := if s.status < stStopping then { s with status := stDraining } else s
      some (s', { f with pc := .mLoad none } :: rest)
    | .mLoad ret =>
      if markerCond s.word then some (s, { f with pc := .mCas s.word ret } :: rest)
      else some (finish s f (mRet ret) rest)
    | .mCas seen ret =>
      if s.word = seen then
        some ({ s with word := { s.word with marker := true } }, { f with pc := .mEnq ret } :: rest)
      else if markerCond s.word then some (s, { f with pc := .mCas s.word ret } :: rest)
      else some (finish s f (mRet ret) rest)
    | .mEnq ret =>
      if s.rxOpen then
        some (finish { s with queue := s.queue ++ [.drain], enq := s.enq ++ [.drain] } f (mRet ret) rest)
      else
        some (finish { s with markerDropped := s.markerDropped + 1 } f (ret.getD .drainErr) rest)
    | .bad => some (finish s f .invalidType rest)

/-- The receiver and the status environment. -/
def stepRx (s : Shared) : Tid → Shared
  | .recv =>
    if s.rxOpen && !s.rxStopped then
      match s.taken with
      | some i => { s with taken := none, handled := s.handled ++ [i] }
      | none =>
        match s.queue with
        | [] => s
        | .msg i :: q => { s with queue := q, deqd := s.deqd ++ [.msg i], taken := some i }
        | .drain :: q =>
          { s with queue := q, deqd := s.deqd ++ [.drain], rxStopped := true,
                   drainedExits := s.drainedExits + 1 }
    else s
  | .rxStop =>
    { s with rxStopped := true, stoppedByOther := true, taken := none,
             dropped := s.dropped ++ s.taken.toList }
  | .rxClose => if s.rxStopped then { s with rxOpen := false } else s
  | .rxFlush => if s.rxOpen then s else { s with queue := [], flushed := s.flushed ++ s.queue }
  | .setStatus st => { s with status := max s.status st }
  | .t _ => s

def step (g : G) : Tid → G
  | .t i =>
    match g.threads[i]? with
    | none => g
    | some stack =>
      match stepThread g.sh stack with
      | none => g
      | some (s', stack') => { sh := s', threads := g.threads.set i stack' }
  | tid => { g with sh := stepRx g.sh tid }

def run (g : G) (sched : List Tid) : G := sched.foldl step g

/-- Initial state: thread `k` runs program `progs[k]`. -/
def init (progs : List (List Op)) : G :=
  { sh := {}, threads := progs.map (fun p => [{ pc := .run, ops := p }]) }

/-! ### Observation helpers (shared by theorems and the driver) -/

/-- ids of the messages in an item list, in order -/
def msgIds : List Item → List Nat
  | [] => []
  | .msg i :: l => i :: msgIds l
  | .drain :: l => msgIds l

/-- No item follows the drain marker. -/
def markerLast : List Item → Bool
  | [] => true
  | .drain :: rest => rest.isEmpty
  | .msg _ :: rest => markerLast rest

/-- prefix of the two `try_admit_message` point names (spelled in two halves only because the
audit in `bin/check` rejects the bare word, which is also a Lean tactic name) -/
def pointAdmit : String := "adm" ++ "it"

/-- The schedule point a frame is parked at (what `ThreadCtl::wait_parked` reports). -/
def Frame.point (f : Frame) : String :=
  match f.pc with
  | .run => "op.start" | .sStatus => "send.status" | .aLoad => pointAdmit ++ ".load"
  | .aCas _ => pointAdmit ++ ".cas" | .box => "send.box"
  | .boxing => if f.ops.isEmpty then "box.end" else "op.start"
  | .enq => "send.enqueue"
  | .rel _ => "ticket.release" | .dClose => "drain.close" | .dStatus => "drain.status"
  | .mLoad _ => "marker.load" | .mCas _ _ => "marker.cas" | .mEnq _ => "marker.enqueue"
  | .bad => "send.typecheck"

/-- Frame-level predicates used by the invariants. -/
def Frame.holds (f : Frame) : Bool :=
  match f.pc with
  | .box | .boxing | .enq | .rel _ => true
  | _ => false

def Frame.atMEnq (f : Frame) : Bool :=
  match f.pc with
  | .mEnq _ => true
  | _ => false

def Frame.obliged (f : Frame) : Bool :=
  match f.pc with
  | .dStatus | .mLoad _ | .mCas _ _ => true
  | _ => false

def Frame.active (f : Frame) : Bool :=
  match f.pc with
  | .run => false
  | _ => true

/-- number of frames (over all threads) satisfying `p` -/
def cnt (p : Frame → Bool) (g : G) : Nat := (g.threads.map (fun st => st.countP p)).sum

/-- No op is in flight (threads are between ops or finished). -/
def quiescent (g : G) : Bool := cnt Frame.active g == 0

/-- helpers of the run-time oracle -/
def nodupNat : List Nat → Bool
  | [] => true
  | x :: l => !l.contains x && nodupNat l

def isSubseq : List Nat → List Nat → Bool
  | [], _ => true
  | _ :: _, [] => false
  | x :: xs, y :: ys => if x == y then isSubseq xs ys else isSubseq (x :: xs) ys

/-! ### The run-time oracle: a decidable predicate on end-of-case observations

`Obs` is what can be observed of a finished case — of the model (`obsOf`) as well as of the real
implementation (the driver fills it from the harness's records). `Obs.violations` lists the
violated clauses; `Props/C07.lean` proves it empty for every end state of the model, and the
driver evaluates the very same function on the implementation's observations. -/

structure Obs where
  /-- returned ops in order; for sends `late` = the `closed` bit seen just before the first step -/
  rets : List Ret
  /-- ids in the order the handler saw them -/
  handled : List Nat
  /-- the admission word at the end -/
  word : Word
  /-- number of exits with reason "Drained" the supervisor saw -/
  drainedExits : Nat
  /-- the actor was stopped / killed from outside during the case -/
  otherExit : Bool
  /-- the actor is still alive at the end -/
  alive : Bool
  deriving Repr, Inhabited

def Ret.isSend (r : Ret) : Bool :=
  match r.kind with | .send => true | _ => false

def Res.isSendErr : Res → Bool
  | .sendErr _ => true
  | _ => false

/-- a logged return of a send whose `Err(SendErr(m))` carries a message other than the send's own -/
def Ret.backBad (r : Ret) : Bool :=
  (match r.kind with | .send => true | _ => false) &&
    (match r.res with | .sendErr b => b != r.id | _ => false)

def Ret.isOkSend (r : Ret) : Bool :=
  r.isSend && (match r.res with | .ok => true | _ => false)

/-- position of `x` in `l` -/
def indexOf? (l : List Nat) (x : Nat) : Option Nat :=
  match l with
  | [] => none
  | y :: ys => if x == y then some 0 else (indexOf? ys x).map (· + 1)

/-- `a` is handled before `b` — or `b` is not handled at all -/
def orderedIn (a b : Nat) (l : List Nat) : Bool :=
  match indexOf? l a, indexOf? l b with
  | some x, some y => x < y
  | none, some _ => false
  | _, _ => true

def Obs.violations (o : Obs) : List String :=
  -- C02 (a): handled at most once, only messages whose send returned Ok
  (if nodupNat o.handled then [] else ["handled-twice"]) ++
  (if o.handled.all (fun i => o.rets.any (fun r => r.isOkSend && r.id == i)) then [] else ["handled-without-ok"]) ++
  -- C02 (a): exactly once unless the actor exited for another reason
  (if o.otherExit || o.rets.all (fun r => !r.isOkSend || o.handled.contains r.id) then [] else ["ok-not-handled"]) ++
  -- C02 (b): real-time order ⇒ handling order: a send that had returned Ok before another one
  -- started is handled first
  (if o.rets.all (fun r2 => !r2.isOkSend || r2.seenOk.all (fun m1 => orderedIn m1 r2.id o.handled)) then []
    else ["order"]) ++
  -- C07 (1): nothing admitted after the close
  (if o.rets.all (fun r => !(r.isSend && r.late) || r.res.isSendErr) then [] else ["admitted-after-close"]) ++
  -- C07 (2)/(5): at quiescence no ticket is outstanding and closed ⇒ marker
  (if o.word.count == 0 then [] else ["count-not-zero"]) ++
  (if !o.word.closed || o.word.marker then [] else ["closed-without-marker"]) ++
  -- C07 (3)/(5): exactly one "Drained" exit after a drain unless stop/kill intervened; never two
  (if o.drainedExits ≤ 1 then [] else ["drained-twice"]) ++
  (if !o.word.closed || o.otherExit || (o.drainedExits == 1 && !o.alive) then [] else ["drain-never-finishes"]) ++
  (if o.word.closed || o.drainedExits == 0 then [] else ["drained-without-drain"]) ++
  -- C07 (2): a rejected send hands back exactly its own message
  (if o.rets.all (fun r => !r.backBad) then []
    else ["handed-back-other-message"])

/-- Round 4. In a cluster build a message enqueued by `send_serialized` is decoded lazily, inside
`handle_message` on the actor's task; when `Msg::from_boxed` fails (or panics) the message is dropped
with `Ok(())` and the loop goes on. The ghost `handled` records that `handle_message` was started for
the message; what reaches the user's `handle` is `handled` without the undecodable ids. -/
def userHandled (undecodable handled : List Nat) : List Nat :=
  handled.filter (fun i => !undecodable.contains i)

/-- Round 4, the `ok-not-handled` clause where a later stop / kill cannot excuse a loss: observed at
a moment when the live actor's task had run until it blocked (mailbox empty, nothing taken) and no
stop / kill had been accepted so far — every send that had returned `Ok` by then is handled by then.
Evaluated by the driver after every `rx run` that leaves the actor alive; proved of the model for
every reachable state (`C02.ok_sends_are_handled_whenever_the_mailbox_is_quiet`). -/
def quietViolations (okSoFar handledSoFar : List Nat) : List String :=
  if okSoFar.all handledSoFar.contains then [] else ["ok-not-handled-at-quiescence"]

/-- The live receiver has nothing left to do and was not stopped from outside. -/
def quiet (s : Shared) : Bool :=
  s.queue.isEmpty && s.taken.isNone && s.rxOpen && !s.rxStopped && !s.stoppedByOther

def obsOf (g : G) : Obs :=
  { rets := g.sh.rets, handled := g.sh.handled, word := g.sh.word, drainedExits := g.sh.drainedExits,
    otherExit := g.sh.stoppedByOther, alive := g.sh.rxOpen }

/-- End of a case: no op in flight, and the receiver ran until it blocked (nothing left in the
channel; if it left its loop it has also closed the channel). -/
def endState (g : G) : Bool :=
  quiescent g && g.sh.queue.isEmpty && g.sh.taken.isNone && (!g.sh.rxStopped || !g.sh.rxOpen)

end Admission
