import RactorModel.Lemmas.PgFine

/-! The fine-grained exit, run without interference, is the atomic `exit` (same lookups in all four
indexes, same dead set). -/

namespace Pg.Fine
open AList Pg

/-- the regions of `a`'s exit in program order, keys in the given order -/
def exitSched (gk : List Key) (wk : List Nat) (mk : List Key) : List FOp :=
  [.mark, .demTake] ++ gk.map .demKey ++ wk.map .demWKey ++ [.demDone, .take] ++ mk.map .lvKey ++ [.finish]

theorem frun_append (a : Nat) (fs : FState) (l1 l2 : List FOp) :
    frun a fs (l1 ++ l2) = frun a (frun a fs l1) l2 := by
  induction l1 generalizing fs with
  | nil => rfl
  | cons op l1 ih => simp only [List.cons_append, frun]; exact ih _

/-- remove a list of keys from a pending list -/
def minus {α : Type} [DecidableEq α] (l ks : List α) : List α := ks.foldl (fun g k => del k g) l

theorem mem_minus {α : Type} [DecidableEq α] (l ks : List α) (x : α) : x ∈ minus l ks ↔ x ∈ l ∧ x ∉ ks := by
  unfold minus
  induction ks generalizing l with
  | nil => simp
  | cons k ks ih =>
    rw [List.foldl_cons, ih, mem_del]
    simp only [List.mem_cons, not_or]
    constructor
    · rintro ⟨⟨h1, h2⟩, h3⟩; exact ⟨h1, h2, h3⟩
    · rintro ⟨h1, h2, h3⟩; exact ⟨⟨h1, h2⟩, h3⟩

theorem minus_self {α : Type} [DecidableEq α] (l : List α) : minus l l = [] := by
  rw [List.eq_nil_iff_forall_not_mem]
  intro x hx
  rw [mem_minus] at hx
  exact hx.2 hx.1

theorem frun_demKeys (a : Nat) (ks : List Key) (hnd : ks.Nodup) (st : State) (gk : List Key) (wk : List Nat)
    (hsub : ∀ k ∈ ks, k ∈ gk) :
    frun a ⟨st, .demon gk wk⟩ (ks.map .demKey) =
      ⟨ks.foldl (fun s k => demonKey s a k) st, .demon (minus gk ks) wk⟩ := by
  induction ks generalizing st gk with
  | nil => rfl
  | cons k ks ih =>
    rw [List.nodup_cons] at hnd
    simp only [List.map_cons, frun, fstep, hsub k (by simp), ↓reduceIte, List.foldl_cons, minus]
    rw [ih hnd.2]
    · rfl
    · intro k' hk'
      exact mem_del.mpr ⟨hsub k' (by simp [hk']), fun e => hnd.1 (e ▸ hk')⟩

theorem frun_demWKeys (a : Nat) (ss : List Nat) (hnd : ss.Nodup) (st : State) (gk : List Key) (wk : List Nat)
    (hsub : ∀ s ∈ ss, s ∈ wk) :
    frun a ⟨st, .demon gk wk⟩ (ss.map .demWKey) =
      ⟨ss.foldl (fun s k => demonWKey s a k) st, .demon gk (minus wk ss)⟩ := by
  induction ss generalizing st wk with
  | nil => rfl
  | cons k ks ih =>
    rw [List.nodup_cons] at hnd
    simp only [List.map_cons, frun, fstep, hsub k (by simp), ↓reduceIte, List.foldl_cons, minus]
    rw [ih hnd.2]
    · rfl
    · intro k' hk'
      exact mem_del.mpr ⟨hsub k' (by simp [hk']), fun e => hnd.1 (e ▸ hk')⟩

theorem frun_lvKeys (a : Nat) (ks : List Key) (hnd : ks.Nodup) (st : State) (mk : List Key)
    (removed : List (Key × List Nat)) (hsub : ∀ k ∈ ks, k ∈ mk) :
    ∃ removed', frun a ⟨st, .leaving mk removed⟩ (ks.map .lvKey) =
      ⟨ks.foldl (fun s k => (leaveKey s a k).1) st, .leaving (minus mk ks) removed'⟩ := by
  induction ks generalizing st mk removed with
  | nil => exact ⟨removed, rfl⟩
  | cons k ks ih =>
    rw [List.nodup_cons] at hnd
    simp only [List.map_cons, frun, fstep, hsub k (by simp), ↓reduceIte, List.foldl_cons, minus]
    obtain ⟨r', hr'⟩ := ih hnd.2 (leaveKey st a k).1 (del k mk) (removed ++ (leaveKey st a k).2.toList)
      (by intro k' hk'; exact mem_del.mpr ⟨hsub k' (by simp [hk']), fun e => hnd.1 (e ▸ hk')⟩)
    exact ⟨r', hr'⟩

end Pg.Fine

namespace Pg.Fine
open AList Pg

theorem foldl_demonKey (a : Nat) (ks : List Key) (st : State) :
    ks.foldl (fun s k => demonKey s a k) st = { st with map := alterMany st.map ks (dropListener a) } := by
  induction ks generalizing st with
  | nil => rfl
  | cons k ks ih => rw [List.foldl_cons, ih]; rfl

theorem foldl_demonWKey (a : Nat) (ss : List Nat) (st : State) :
    ss.foldl (fun s k => demonWKey s a k) st = { st with world := alterMany st.world ss (dropWorldListener a) } := by
  induction ss generalizing st with
  | nil => rfl
  | cons k ks ih => rw [List.foldl_cons, ih]; rfl

theorem dropMember_of_not_mem (a : Nat) (o : Option GS) (h : a ∉ (o.map (·.members)).getD []) :
    dropMember a o = o := by
  cases o with
  | none => rfl
  | some gs =>
    have : a ∉ gs.members := h
    simp [dropMember, this]

theorem leaveKey_map_get (st : State) (a : Nat) (k k' : Key) :
    get (leaveKey st a k).1.map k' = if k' = k then dropMember a (get st.map k) else get st.map k' := by
  unfold leaveKey
  by_cases c : a ∈ membersOf st k
  · rw [if_pos c]; simp only [get_alter]
  · rw [if_neg c]
    by_cases e : k' = k
    · rw [if_pos e, e, dropMember_of_not_mem a _ c]
    · rw [if_neg e]

theorem leaveKey_other (st : State) (a : Nat) (k : Key) :
    (leaveKey st a k).1.world = st.world ∧ (leaveKey st a k).1.rel = st.rel ∧ (leaveKey st a k).1.dead = st.dead ∧
    (leaveKey st a k).1.remote = st.remote := by
  unfold leaveKey
  split <;> exact ⟨rfl, rfl, rfl, rfl⟩

theorem foldl_leaveKey_map_get (a : Nat) (ks : List Key) (hnd : ks.Nodup) (st : State) (k' : Key) :
    get (ks.foldl (fun s k => (leaveKey s a k).1) st).map k' =
      if k' ∈ ks then dropMember a (get st.map k') else get st.map k' := by
  induction ks generalizing st with
  | nil => simp
  | cons k ks ih =>
    rw [List.nodup_cons] at hnd
    rw [List.foldl_cons, ih hnd.2, leaveKey_map_get]
    by_cases e : k' = k
    · subst e
      simp only [hnd.1, ↓reduceIte, List.mem_cons, true_or]
    · simp only [e, ↓reduceIte, List.mem_cons, false_or]

theorem foldl_leaveKey_other (a : Nat) (ks : List Key) (st : State) :
    (ks.foldl (fun s k => (leaveKey s a k).1) st).world = st.world ∧
    (ks.foldl (fun s k => (leaveKey s a k).1) st).rel = st.rel ∧
    (ks.foldl (fun s k => (leaveKey s a k).1) st).dead = st.dead := by
  induction ks generalizing st with
  | nil => exact ⟨rfl, rfl, rfl⟩
  | cons k ks ih =>
    rw [List.foldl_cons]
    obtain ⟨h1, h2, h3⟩ := ih (leaveKey st a k).1
    obtain ⟨g1, g2, g3, _⟩ := leaveKey_other st a k
    exact ⟨h1.trans g1, h2.trans g2, h3.trans g3⟩

/-- the key drops the last member -/
def emptiesKey (a : Nat) (st : State) (k : Key) : Bool :=
  decide (a ∈ membersOf st k) && decide (del a (membersOf st k) = [])

theorem leaveKey_index (st : State) (a : Nat) (k : Key) :
    (leaveKey st a k).1.index = if emptiesKey a st k then removeFromIndex st.index k else st.index := by
  unfold leaveKey emptiesKey
  by_cases c : a ∈ membersOf st k
  · rw [if_pos c]
    by_cases e : del a (membersOf st k) = []
    · simp [c, e]
    · simp [c, e]
  · rw [if_neg c]; simp [c]

theorem foldl_leaveKey_index (a : Nat) (ks : List Key) (hnd : ks.Nodup) (st : State) :
    (ks.foldl (fun s k => (leaveKey s a k).1) st).index =
      (ks.filter (emptiesKey a st)).foldl removeFromIndex st.index := by
  induction ks generalizing st with
  | nil => rfl
  | cons k ks ih =>
    rw [List.nodup_cons] at hnd
    rw [List.foldl_cons, ih hnd.2, leaveKey_index]
    have hcongr : ks.filter (emptiesKey a (leaveKey st a k).1) = ks.filter (emptiesKey a st) := by
      apply List.filter_congr
      intro k' hk'
      have hne : k' ≠ k := fun e => hnd.1 (e ▸ hk')
      unfold emptiesKey
      rw [(leaveKey_acc st a k).1 k', if_neg hne]
    rw [hcongr, List.filter_cons]
    by_cases c : emptiesKey a st k = true
    · rw [if_pos c, if_pos c]; rfl
    · rw [if_neg c, if_neg c]

end Pg.Fine

namespace Pg.Fine
open AList Pg

theorem ins_of_not_mem {α : Type} [DecidableEq α] {x : α} {l : List α} (h : x ∉ l) : ins x l = l ++ [x] := by
  simp [ins, h]

/-- the state the uninterrupted fine-grained exit ends in -/
def fineExitState (st : State) (a : Nat) : State :=
  let s1 := demonTake (markDead st a) a
  let s2 : State := { s1 with map := alterMany s1.map (relGmon st a) (dropListener a) }
  let s3 : State := { s2 with world := alterMany s2.world (relWmon st a) (dropWorldListener a) }
  let s4 := takeMem s3 a
  let s5 := (relMem st a).foldl (fun s k => (leaveKey s a k).1) s4
  { s5 with rel := removeEmptyRel s5.rel a }

theorem frun_exitSched {st : State} (h : Inv st) (a : Nat) :
    frun a ⟨st, .live⟩ (exitSched (relGmon st a) (relWmon st a) (relMem st a)) = ⟨fineExitState st a, .done⟩ := by
  have hnd := h.ndR a
  unfold exitSched
  rw [frun_append, frun_append, frun_append, frun_append, frun_append]
  -- mark, demTake
  have e1 : frun a ⟨st, .live⟩ [.mark, .demTake] =
      ⟨demonTake (markDead st a) a, .demon (relGmon st a) (relWmon st a)⟩ := by
    simp only [frun, fstep, fstep.relGmon', fstep.relWmon', markDead]
    rw [← relGmon_eq, ← relWmon_eq]
  rw [e1, frun_demKeys a _ hnd.2.1 _ _ _ (fun k hk => hk), minus_self, foldl_demonKey,
    frun_demWKeys a _ hnd.2.2 _ _ _ (fun k hk => hk), minus_self, foldl_demonWKey]
  -- demDone, take
  have e2 : ∀ s3 : State, frun a ⟨s3, .demon [] []⟩ [.demDone, .take] =
      ⟨takeMem s3 a, .leaving (((get s3.rel a).map (·.mem)).getD []) []⟩ := by
    intro s3; rfl
  rw [e2]
  have hmem : ((get (demonTake (markDead st a) a).rel a).map (·.mem)).getD [] = relMem st a := by
    simp only [demonTake, markDead, get_alter, ↓reduceIte, relMem, relOf]
    cases get st.rel a <;> rfl
  have hmem' : ((get ({ ({ demonTake (markDead st a) a with
        map := alterMany (demonTake (markDead st a) a).map (relGmon st a) (dropListener a) } : State) with
        world := alterMany (demonTake (markDead st a) a).world (relWmon st a) (dropWorldListener a) } : State).rel a).map
        (·.mem)).getD [] = relMem st a := hmem
  rw [hmem']
  obtain ⟨removed', hr⟩ := frun_lvKeys a (relMem st a) hnd.1
    (takeMem ({ ({ demonTake (markDead st a) a with
        map := alterMany (demonTake (markDead st a) a).map (relGmon st a) (dropListener a) } : State) with
        world := alterMany (demonTake (markDead st a) a).world (relWmon st a) (dropWorldListener a) } : State) a)
    (relMem st a) [] (fun k hk => hk)
  rw [hr, minus_self]
  rfl

end Pg.Fine

namespace Pg.Fine
open AList Pg

theorem fineExit_eq_exit {st : State} (h : Inv st) {a : Nat} (hd : a ∉ st.dead) :
    (∀ k, get (fineExitState st a).map k = get (exit st a).1.map k) ∧
    (fineExitState st a).index = (exit st a).1.index ∧
    (fineExitState st a).world = (exit st a).1.world ∧
    (∀ b, get (fineExitState st a).rel b = get (exit st a).1.rel b) ∧
    (fineExitState st a).dead = (exit st a).1.dead := by
  have hnd := h.ndR a
  obtain ⟨ho1, ho2, ho3⟩ := foldl_leaveKey_other a (relMem st a)
    (takeMem ({ ({ demonTake (markDead st a) a with
        map := alterMany (demonTake (markDead st a) a).map (relGmon st a) (dropListener a) } : State) with
        world := alterMany (demonTake (markDead st a) a).world (relWmon st a) (dropWorldListener a) } : State) a)
  cases hr : get st.rel a with
  | none =>
    have g0 : relGmon st a = [] := by simp [relGmon, relOf, hr, Rel.empty]
    have w0 : relWmon st a = [] := by simp [relWmon, relOf, hr, Rel.empty]
    have m0 : relMem st a = [] := by simp [relMem, relOf, hr, Rel.empty]
    rw [exit_norel st a hd hr]
    unfold fineExitState
    simp only [g0, w0, m0, List.foldl_nil, alterMany]
    refine ⟨fun _ => rfl, rfl, rfl, ?_, ?_⟩
    · intro b
      simp only [removeEmptyRel_get, takeMem, demonTake, markDead, get_alter]
      by_cases e : b = a
      · subst e; simp [hr]
      · simp [e]
    · simp only [takeMem, demonTake, markDead]
      exact ins_of_not_mem hd
  | some r =>
    obtain ⟨f1, f2, f3⟩ := rel_fields h hd hr
    rw [exit_rel st a hd hr]
    unfold leaveAll
    rw [afterDemon_rel_get]
    unfold fineExitState
    simp only [f1, f2, f3] at ho1 ho2 ho3 hnd ⊢
    refine ⟨?_, ?_, ?_, ?_, ?_⟩
    · intro k
      rw [foldl_leaveKey_map_get a r.mem hnd.1, get_alterMany _ _ _ (dropMember_idem a)]
      by_cases c : k ∈ r.mem
      · rw [if_pos c, if_pos c]; rfl
      · rw [if_neg c, if_neg c]; rfl
    · rw [foldl_leaveKey_index a r.mem hnd.1, List.filter_filter]
      have : ∀ k, emptiesKey a (takeMem ({ ({ demonTake (markDead st a) a with
            map := alterMany (demonTake (markDead st a) a).map r.gmon (dropListener a) } : State) with
            world := alterMany (demonTake (markDead st a) a).world r.wmon (dropWorldListener a) } : State) a) k =
          (decide (del a (membersOf (afterDemon st a r) k) = []) && decide (a ∈ membersOf (afterDemon st a r) k)) := by
        intro k
        unfold emptiesKey
        rw [Bool.and_comm]
        rfl
      rw [List.filter_congr (fun k _ => this k)]
      rfl
    · rw [ho1]; rfl
    · intro b
      rw [ho2]
      simp only [removeEmptyRel_get, takeMem, demonTake, markDead, get_alter, get_set, afterDemon]
      by_cases e : b = a
      · subst e; simp [hr, Rel.isEmpty]
      · simp [e]
    · rw [ho3]
      simp only [takeMem, demonTake, markDead, afterDemon]
      exact ins_of_not_mem hd

end Pg.Fine
