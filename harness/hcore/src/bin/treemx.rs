//! C05 harness, round 4 (E-THR, several exits at once): every actor of a small tree lives on ITS OWN OS
//! thread (own current_thread runtime), so a schedule point reached by thread `i` belongs to actor `i`.
//! The controller grants one region at a time to any thread: the root's `terminate` worklist, the exits
//! of the children it killed (each running its own `terminate`), and a racer thread (link of an orphan
//! under any actor / unlink of a child / hand-over of a child to the orphan) interleave freely.
//! After EVERY granted region (all threads parked at points, i.e. outside the tree lock) the whole tree
//! is read with the lock-free readers and compared with the concurrent model (`Model/TreeConc.lean`,
//! driver `Driver/TreeMx.lean`, model `c05-mx`).
//!
//! ops:  `mx shape=<chain|star|deep> n=<k> cause=<kill|stop> racer=<none|link:c:p|unlink:c:p>`
//!       `g <tid> <point the thread was parked at>`     obs: `<point it parked at next|done> |<snapshot>`
//!       `rest`                                          obs: `ok |<snapshot>`
//! snapshot: ` i:Status:sup:kids:0 …` as in treerace.rs, kids = `x` for a CLOSED child set (hook
//! `ActorCell::verif_children_closed`), `-` for an open empty one.

use std::sync::atomic::{AtomicBool, Ordering};
use std::sync::mpsc::{channel, Receiver, Sender};
use std::sync::{Arc, Mutex};
use std::time::Duration;

use hutil::{Args, Log, Rng, Stats};
use ractor::verif::{self, ThreadCtl, ThreadPhase};
use ractor::{Actor, ActorCell, ActorProcessingErr, ActorRef, SupervisionEvent};

#[derive(Default)]
struct Node {
    /// `spawn_linked` racer: the new cell is published here by `pre_start` (before the link is attempted)
    slot: Option<Arc<Mutex<Option<ActorCell>>>>,
}

impl Actor for Node {
    type Msg = ();
    type State = ();
    type Arguments = ();
    async fn pre_start(&self, myself: ActorRef<()>, _: ()) -> Result<(), ActorProcessingErr> {
        if let Some(s) = &self.slot {
            *s.lock().unwrap() = Some(myself.get_cell());
        }
        Ok(())
    }
    // a supervisor that is told about a child's end does nothing (the default would make it fail)
    async fn handle_supervisor_evt(&self, _: ActorRef<()>, _: SupervisionEvent, _: &mut ()) -> Result<(), ActorProcessingErr> {
        Ok(())
    }
}

fn snapshot(cells: &[ActorCell]) -> String {
    let idx = |c: &ActorCell| cells.iter().position(|x| x.get_id() == c.get_id());
    let mut s = String::new();
    for (i, c) in cells.iter().enumerate() {
        let sup = c.try_get_supervisor().map(|p| idx(&p).map(|x| x.to_string()).unwrap_or("?".into())).unwrap_or("-".into());
        let mut kk: Vec<usize> = c.get_children().iter().map(|k| idx(k).unwrap_or(usize::MAX)).collect();
        kk.sort();
        let kids = if c.verif_children_closed() {
            "x".to_string()
        } else if kk.is_empty() {
            "-".to_string()
        } else {
            kk.iter().map(|k| if *k == usize::MAX { "?".to_string() } else { k.to_string() }).collect::<Vec<_>>().join(",")
        };
        s.push_str(&format!(" {i}:{:?}:{sup}:{kids}:0", c.get_status()));
    }
    s
}

#[derive(Clone, Debug)]
enum Racer {
    None,
    Link(usize, usize),
    Unlink(usize, usize),
    /// `Actor::spawn_linked(.., supervisor = p)` on the racer's own runtime; the racer thread then hosts the new actor
    SpawnLinked(usize),
}

#[derive(Clone, Debug)]
struct Case {
    shape: &'static str,
    /// supervisor of actor i (None = root / orphan)
    parent: Vec<Option<usize>>,
    cause: &'static str,
    /// who gets the exit cause (one or two actors at once)
    targets: Vec<usize>,
    racer: Racer,
}

/// One actor thread: spawn the actor (linked to its supervisor) on a private runtime, hand the cell to the
/// controller, wait for `go`, then: park at `h.idle`, run the runtime for a slice, again — until told to stop.
fn actor_thread(sup: Option<ActorCell>, tx: Sender<ActorCell>, go: Receiver<()>, ctl: Arc<ThreadCtl>, stop: Arc<AtomicBool>) {
    let rt = tokio::runtime::Builder::new_current_thread().enable_all().start_paused(true).build().unwrap();
    let cell = rt.block_on(async {
        let r = match sup {
            Some(s) => Actor::spawn_linked(None, Node::default(), (), s).await,
            None => Actor::spawn(None, Node::default(), ()).await,
        };
        let (a, _h) = r.expect("spawn");
        // let the loop task reach its first await
        for _ in 0..4 {
            tokio::task::yield_now().await;
        }
        a.get_cell()
    });
    tx.send(cell).unwrap();
    let _ = go.recv();
    verif::thread_register(ctl.clone());
    loop {
        verif::point("h.idle");
        if stop.load(Ordering::SeqCst) {
            break;
        }
        rt.block_on(async {
            for _ in 0..8 {
                tokio::task::yield_now().await;
            }
        });
    }
    verif::thread_unregister();
    ctl.finish();
    // tear the runtime down only after the controller has logged everything
    drop(rt);
}

/// the `spawn_linked` racer: the whole call runs under the controller (status publications, the start link,
/// on refusal the cleanup of the new cell); afterwards the thread hosts the new actor like an actor thread
fn spawn_racer(
    sup: ActorCell,
    slot: Arc<Mutex<Option<ActorCell>>>,
    go: Receiver<()>,
    ctl: Arc<ThreadCtl>,
    stop: Arc<AtomicBool>,
    res: Sender<bool>,
) {
    let rt = tokio::runtime::Builder::new_current_thread().enable_all().start_paused(true).build().unwrap();
    let _ = go.recv();
    verif::thread_register(ctl.clone());
    let r = rt.block_on(Actor::spawn_linked(None, Node { slot: Some(slot) }, (), sup));
    let _ = res.send(r.is_ok());
    loop {
        verif::point("h.idle");
        if stop.load(Ordering::SeqCst) {
            break;
        }
        rt.block_on(async {
            for _ in 0..8 {
                tokio::task::yield_now().await;
            }
        });
    }
    verif::thread_unregister();
    ctl.finish();
    drop(rt);
}

fn racer_thread(r: Racer, cells: Vec<ActorCell>, go: Receiver<()>, ctl: Arc<ThreadCtl>) {
    let _ = go.recv();
    verif::thread_register(ctl.clone());
    match r {
        Racer::Link(c, p) => {
            let _ = cells[c].verif_try_link(cells[p].clone());
        }
        Racer::Unlink(c, p) => cells[c].unlink(cells[p].clone()),
        Racer::None | Racer::SpawnLinked(_) => {}
    }
    verif::thread_unregister();
    ctl.finish();
}

fn run_case(log: &mut Log, st: &mut Stats, c: &Case, rng: &mut Rng) {
    let n = c.parent.len();
    let mut cells: Vec<ActorCell> = Vec::new();
    let mut ctls: Vec<Arc<ThreadCtl>> = Vec::new();
    let mut gos: Vec<Sender<()>> = Vec::new();
    let mut handles = Vec::new();
    let stop = Arc::new(AtomicBool::new(false));
    for i in 0..n {
        let (tx, rx) = channel();
        let (gtx, grx) = channel();
        let ctl = ThreadCtl::new();
        let sup = c.parent[i].map(|p| cells[p].clone());
        let (ctl2, stop2) = (ctl.clone(), stop.clone());
        handles.push(std::thread::spawn(move || actor_thread(sup, tx, grx, ctl2, stop2)));
        cells.push(rx.recv().unwrap());
        ctls.push(ctl);
        gos.push(gtx);
    }
    let racer_tid = n;
    let slot: Arc<Mutex<Option<ActorCell>>> = Arc::new(Mutex::new(None));
    let (res_tx, res_rx) = channel::<bool>();
    if let Racer::SpawnLinked(p) = &c.racer {
        let (gtx, grx) = channel();
        let ctl = ThreadCtl::new();
        let (sup, slot2, ctl2, stop2) = (cells[*p].clone(), slot.clone(), ctl.clone(), stop.clone());
        handles.push(std::thread::spawn(move || spawn_racer(sup, slot2, grx, ctl2, stop2, res_tx)));
        ctls.push(ctl);
        gos.push(gtx);
    } else if !matches!(c.racer, Racer::None) {
        let (gtx, grx) = channel();
        let ctl = ThreadCtl::new();
        let (r, cs, ctl2) = (c.racer.clone(), cells.clone(), ctl.clone());
        handles.push(std::thread::spawn(move || racer_thread(r, cs, grx, ctl2)));
        ctls.push(ctl);
        gos.push(gtx);
    }
    // the tree as the lock-free readers show it, the racer's new actor included once `pre_start` has published it
    let base = cells.clone();
    let slot_s = slot.clone();
    let snapshot = move |_: &[ActorCell]| -> String {
        let mut all = base.clone();
        if let Some(c) = slot_s.lock().unwrap().clone() {
            all.push(c);
        }
        snapshot(&all)
    };
    let racer_s = match &c.racer {
        Racer::None => "none".to_string(),
        Racer::Link(a, b) => format!("link:{a}:{b}"),
        Racer::Unlink(a, b) => format!("unlink:{a}:{b}"),
        Racer::SpawnLinked(p) => format!("spawnl:{p}"),
    };
    let par: Vec<String> = c.parent.iter().map(|p| p.map(|x| x.to_string()).unwrap_or("-".into())).collect();
    log.rec(
        format!(
            "mx shape={} n={n} parents={} cause={} targets={} racer={racer_s}",
            c.shape,
            par.join(","),
            c.cause,
            c.targets.iter().map(|t| t.to_string()).collect::<Vec<_>>().join(",")
        ),
        format!("ok |{}", snapshot(&cells)),
    );
    st.bump("cases");
    st.bump(&format!("shape.{}", c.shape));
    st.bump(&format!("racer.{}", racer_s.split(':').next().unwrap()));
    // the exit cause of the root, from the (unregistered) controller thread
    for t in &c.targets {
        if c.cause == "kill" {
            cells[*t].kill();
        } else {
            cells[*t].stop(None);
        }
    }
    for g in &gos {
        let _ = g.send(());
    }
    let mut quiet_rounds = 0;
    let mut steps = 0u64;
    let mut hung = false;
    'outer: while steps < 600 {
        // everybody parked?
        let mut parked: Vec<(usize, &'static str)> = Vec::new();
        for (tid, ctl) in ctls.iter().enumerate() {
            match ctl.wait_parked_timeout(Duration::from_secs(20)) {
                Some(ThreadPhase::AtPoint(p)) => parked.push((tid, p)),
                Some(_) => {}
                None => {
                    hung = true;
                    break 'outer;
                }
            }
        }
        let busy: Vec<(usize, &'static str)> = parked.iter().copied().filter(|(_, p)| *p != "h.idle").collect();
        let (tid, p) = if !busy.is_empty() && !rng.chance(1, 4) {
            *rng.pick(&busy)
        } else if busy.is_empty() {
            // one full round of idle grants without anybody reaching a point = rest
            if quiet_rounds >= 2 {
                break;
            }
            let before = snapshot(&cells);
            let mut woke = false;
            for (tid, p) in parked.iter().copied() {
                ctls[tid].grant();
                let q = match ctls[tid].wait_parked_timeout(Duration::from_secs(20)) {
                    Some(ThreadPhase::AtPoint(q)) => q,
                    Some(_) => "done",
                    None => {
                        hung = true;
                        break 'outer;
                    }
                };
                steps += 1;
                log.rec(format!("g {tid} {p}"), format!("{q} |{}", snapshot(&cells)));
                if q != "h.idle" {
                    woke = true;
                    break;
                }
            }
            if !woke && before == snapshot(&cells) {
                quiet_rounds += 1;
            } else {
                quiet_rounds = 0;
            }
            continue;
        } else {
            *rng.pick(&parked)
        };
        quiet_rounds = 0;
        ctls[tid].grant();
        let q = match ctls[tid].wait_parked_timeout(Duration::from_secs(20)) {
            Some(ThreadPhase::AtPoint(q)) => q,
            Some(_) => "done",
            None => {
                hung = true;
                break;
            }
        };
        steps += 1;
        st.bump(&format!("pt.{p}"));
        if tid == racer_tid {
            st.bump("racer_steps");
        }
        log.rec(format!("g {tid} {p}"), format!("{q} |{}", snapshot(&cells)));
    }
    if hung {
        log.rec("hung", format!("hung |{}", snapshot(&cells)));
        st.bump("hung");
    } else {
        let sp = match res_rx.try_recv() {
            Ok(true) => "ok",
            Ok(false) => "err",
            Err(_) => "-",
        };
        log.rec(format!("rest spawn={sp}"), format!("ok |{}", snapshot(&cells)));
    }
    st.add("steps", steps);
    // let everybody go home
    stop.store(true, Ordering::SeqCst);
    for c in cells.iter() {
        c.kill();
    }
    if let Some(c) = slot.lock().unwrap().clone() {
        c.kill();
    }
    for ctl in &ctls {
        ctl.release();
    }
    for h in handles {
        let _ = h.join();
    }
}

fn shapes() -> Vec<(&'static str, Vec<Option<usize>>)> {
    vec![
        ("chain", vec![None, Some(0), Some(1)]),
        ("star", vec![None, Some(0), Some(0)]),
        ("deep", vec![None, Some(0), Some(1), Some(2)]),
        ("mixed", vec![None, Some(0), Some(0), Some(1)]),
    ]
}

fn main() {
    let args = Args::parse();
    let seed = args.u64("seed", 1);
    let cases = args.u64("cases", 20);
    let out = args.str("out", "/tmp/c05-mx");
    let mut rng = Rng::new(seed);
    let mut log = Log::create(std::path::Path::new(&out)).unwrap();
    let mut st = Stats::default();
    for k in 0..cases {
        let (shape, mut parent) = shapes()[(k % 4) as usize].clone();
        let cause = if rng.chance(3, 4) { "kill" } else { "stop" };
        let n0 = parent.len();
        let racer = match rng.below(7) {
            0 => Racer::None,
            5 | 6 => Racer::SpawnLinked(rng.below(n0 as u64) as usize),
            1 | 2 => {
                // an orphan (own thread too) linked under any actor of the tree
                parent.push(None);
                Racer::Link(n0, rng.below(n0 as u64) as usize)
            }
            3 => {
                // hand-over: a child of the tree is linked under the extra healthy root
                parent.push(None);
                Racer::Link(1 + rng.below(n0 as u64 - 1) as usize, n0)
            }
            _ => {
                let c = 1 + rng.below(n0 as u64 - 1) as usize;
                Racer::Unlink(c, parent[c].unwrap())
            }
        };
        // mostly the root; sometimes an inner actor (its cleanup then unlinks it from a live supervisor),
        // sometimes two actors at once
        let mut targets = vec![if rng.chance(2, 3) { 0 } else { rng.below(n0 as u64) as usize }];
        if rng.chance(1, 3) {
            let t2 = rng.below(n0 as u64) as usize;
            if !targets.contains(&t2) {
                targets.push(t2);
            }
        }
        let case = Case { shape, parent, cause, targets, racer };
        run_case(&mut log, &mut st, &case, &mut rng);
    }
    st.add("lines", log.lines);
    st.write_json(&std::path::Path::new(&out).join("stats.json"));
    log.finish();
}
