import RactorModel.Lemmas.RegistryThreads

/-! `Reg3`: the converse of `TInv.owner` — whoever holds a name is the one the table returns (clauses 1 and 4 with
several `set_status` callers). -/

namespace Reg3
open Reg2 (Stmt blockProg upd stopping stopped upd_apply)

/-- the name entry of cell `a` is in the table: from its own insert to its own removal (by whichever thread was
elected) or rollback -/
def elHasName (s : State) (a : Nat) : Bool :=
  match (s.cell a).el with
  | none => true
  | some t => (s.thr a t).hasName

def Holds (s : State) (a : Nat) : Prop :=
  (s.cell a).remote = false ∧
  ((s.cell a).cons = .pid ∨ (s.cell a).cons = .rollback ∨ ((s.cell a).cons = .done ∧ elHasName s a = true))

def EInv (s : State) : Prop :=
  ∀ a n, (s.cell a).name = some n → Holds s a → s.names n = some a

/-- what is left of an elected block is a suffix of `blockProg` -/
def SufInv (s : State) : Prop := ∀ a t rest st, s.thr a t = .blk rest st → Reg2.suffixOk rest

theorem SufInv.init : SufInv init := by intro a t rest st h; simp [Reg3.init] at h

theorem SufInv.step {s : State} (h : SufInv s) (op : Op) : SufInv (step s op) := by
  unfold SufInv at h ⊢
  cases op with
  | new a name => simp only [Reg3.step]; split <;> first | exact h | (intros; thr_auto)
  | regName a => simp only [Reg3.step]; split <;> (try split) <;> first | exact h | (intros; thr_auto)
  | regPid a => simp only [Reg3.step]; split <;> first | exact h | (intros; thr_auto)
  | regPidFail a => simp only [Reg3.step]; split <;> first | exact h | (intros; thr_auto)
  | rollback a => simp only [Reg3.step]; split <;> first | exact h | (intros; thr_auto)
  | spawnRemote a name => simp only [Reg3.step]; split <;> first | exact h | (intros; thr_auto)
  | publish a t st =>
    have := Reg2.bp_suffix
    simp only [Reg3.step]; split
    · split <;> intros <;> thr_auto
    · exact h
  | bstep a t =>
    simp only [Reg3.step]
    split
    · next stmt rest st hpc =>
      have hs := h a t _ _ hpc
      have hr : Reg2.suffixOk rest := by
        rcases hs with e | e | e | e
        · injection e with e1 e2; subst e2; exact .inr (.inl rfl)
        · injection e with e1 e2; subst e2; exact .inr (.inr (.inl rfl))
        · injection e with e1 e2; subst e2; exact .inr (.inr (.inr rfl))
        · cases e
      cases stmt with
      | demonitor => simp only [exec]; intros; thr_auto
      | unregPid => simp only [exec]; (try split) <;> intros <;> thr_auto
      | unregName => simp only [exec]; (try split) <;> (try split) <;> intros <;> thr_auto
    · intros; thr_auto
    · exact h

theorem EInv.init : EInv init := by intro a n h; simp [Reg3.init] at h

macro "ent_auto" : tactic =>
  `(tactic| ((try simp only [Holds, elHasName, upd_apply, upd2_apply] at *)
             grind [CPc.holds, stopping, stopped, bp_name, bp_pid, hasName_idle, hasPid_idle, hasName_nil, hasPid_nil]))

theorem EInv.step {s : State} (h : TInv s) (hsuf : SufInv s) (he : EInv s) (op : Op) : EInv (step s op) := by
  have hu := h.unborn; have ho := h.owner; have hel := h.elected; have hb := h.blkEl; have hbc := h.bornCons
  unfold EInv at he ⊢
  cases op with
  | new a name => simp only [Reg3.step]; split <;> first | exact he | (intros; ent_auto)
  | regName a => simp only [Reg3.step]; split <;> (try split) <;> first | exact he | (intros; ent_auto)
  | regPid a => simp only [Reg3.step]; split <;> first | exact he | (intros; ent_auto)
  | regPidFail a => simp only [Reg3.step]; split <;> first | exact he | (intros; ent_auto)
  | rollback a =>
    have hra := hu a; have hba := hbc a; have hea := he a
    simp only [Reg3.step]; split <;> first | exact he | (intros; ent_auto)
  | spawnRemote a name => simp only [Reg3.step]; split <;> first | exact he | (intros; ent_auto)
  | publish a t st =>
    simp only [Reg3.step]; split
    · split <;> intros <;> ent_auto
    · exact he
  | bstep a t =>
    simp only [Reg3.step]
    split
    · next stmt rest st hpc =>
      have hn := hasName_cons stmt rest st
      have hra := hu a; have hba := hbc a; have hea := he a; have hbt := hb a t _ _ hpc; have hela := hel a
      have hhd : (TPc.blk (Stmt.unregName :: rest) st).hasName = true := by simp [TPc.hasName]
      cases stmt with
      | demonitor => simp only [exec]; intros; ent_auto
      | unregPid => simp only [exec]; split <;> intros <;> ent_auto
      | unregName =>
        have hrest : rest = [] := by
          have := hsuf a t _ _ hpc
          simp [Reg2.suffixOk] at this
          exact this
        subst hrest
        simp only [exec]; split <;> (try split) <;> intros <;> ent_auto
    · intros; ent_auto
    · exact he

theorem EInv.run {s : State} (h : TInv s) (hsuf : SufInv s) (he : EInv s) (ops : List Op) : EInv (run s ops) := by
  induction ops generalizing s with
  | nil => exact he
  | cons op ops ih => exact ih (h.step op) (hsuf.step op) (he.step h hsuf op)

end Reg3
