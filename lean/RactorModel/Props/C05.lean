import RactorModel.Lemmas.GenAdmission
import RactorModel.Lemmas.TreeKids
import RactorModel.Lemmas.TreeConcExit
import RactorModel.Lemmas.TreeWindow
import RactorModel.Extracted

/-!
# C05 — an exiting actor takes its whole subtree with it; links stay consistent

Property theorems only.  Model: `Model/Tree.lean` (tied to `ractor/src/actor/supervision.rs`,
`actor_cell.rs::terminate`, `actor.rs::ActorLifecycleGuard::cleanup` by `harness/hcore/src/bin/tree.rs`
+ `Driver/C05.lean`), lemmas: `Lemmas/Tree*.lean`.

`fixed : Bool` selects the kill condition of `terminate`: `false` = `status <= Upgrading` (the pinned
commit, finding F1), `true` = `status < Stopping`.  `Tree.codeFixed` says which one the code under
test has; it is tied to the source text by `kill_condition_matches_source`.
-/

namespace C05
open Tree

/-- (1)–(3) for every sequence of operations: two-sided consistency of the link maps, bounded ids,
duplicate-free child sets, a stopped actor has neither supervisor nor children. -/
theorem invariant (fixed : Bool) (ops : List Op) : Inv (steps fixed init ops) :=
  Inv.init.steps fixed ops

/-- … and therefore the snapshot predicate the driver evaluates on the implementation holds. -/
theorem ok_all (fixed : Bool) (ops : List Op) : ok (steps fixed init ops) = true :=
  (invariant fixed ops).ok

/-- (1) `sup c = some p ↔ c ∈ kids p`. -/
theorem links_consistent (fixed : Bool) (ops : List Op) (c p : Nat) :
    (steps fixed init ops).sup c = some p ↔ ∃ ks, (steps fixed init ops).kids p = some ks ∧ c ∈ ks :=
  (invariant fixed ops).links c p

/-- (1') a child appears in exactly one child set: that of its supervisor. -/
theorem unique_parent (fixed : Bool) (ops : List Op) (c p q : Nat)
    (hp : child (steps fixed init ops) p c) (hq : child (steps fixed init ops) q c) : p = q := by
  have h1 := ((invariant fixed ops).links c p).mpr hp
  have h2 := ((invariant fixed ops).links c q).mpr hq
  rw [h1] at h2; exact Option.some.inj h2

/-- (2) a closed child set stays closed. -/
theorem closed_stays_closed (fixed : Bool) (ops more : List Op) (z : Nat)
    (hz : (steps fixed init ops).kids z = none) : (steps fixed (steps fixed init ops) more).kids z = none :=
  closed_steps fixed (invariant fixed ops) more z hz

/-- (3) a stopped actor has neither supervisor nor children. -/
theorem stopped_has_no_links (fixed : Bool) (ops : List Op) (a : Nat)
    (h : (steps fixed init ops).status a = .stopped) :
    (steps fixed init ops).sup a = none ∧
      ((steps fixed init ops).kids a = none ∨ (steps fixed init ops).kids a = some []) :=
  (invariant fixed ops).stopped a h

/-- (4a) `link` returns `false` and changes nothing if either side is at least `Draining` (or unknown)
or the supervisor's child set is closed; (4b) if it returns `true` both sides were below `Draining`,
the set was open, and the child is now linked. -/
theorem link_gate (s : State) (c p : Nat) :
    ((¬ gate s c p ∨ s.kids p = none) → link s c p = (s, false)) ∧
    ((link s c p).2 = true → gate s c p ∧ (∃ ks, s.kids p = some ks) ∧ (link s c p).1.sup c = some p) :=
  ⟨link_refused, link_true⟩

/-- (4c) a draining, stopping or stopped actor never gains a child or a supervisor, whatever is done. -/
theorem no_gain (fixed : Bool) (ops : List Op) (op : Op) (z : Nat)
    (hz : Status.draining.toNat ≤ ((steps fixed init ops).status z).toNat) :
    (∀ x, child (step fixed (steps fixed init ops) op) z x → child (steps fixed init ops) z x) ∧
    (∀ q, (step fixed (steps fixed init ops) op).sup z = some q → (steps fixed init ops).sup z = some q) :=
  no_gain_step fixed (invariant fixed ops) op z hz

/-- (5) `terminate a` terminates for every shape (cycles included), closes the child set of exactly
the descendants of `a`, detaches every actor linked beneath one of them, leaves everything else
untouched and sends the kill signal exactly to the descendants that satisfy the kill condition. -/
theorem terminate_visits_descendants (fixed : Bool) (ops : List Op) (a : Nat) :
    let s := steps fixed init ops
    let s' := terminate fixed s a
    (∀ z, Desc s a z → s'.kids z = none) ∧
    (∀ z, ¬ Desc s a z → s'.kids z = s.kids z) ∧
    (∀ w z, Desc s a w → child s w z → s'.sup z = none) ∧
    (∀ z, (¬ ∃ w, Desc s a w ∧ child s w z) → s'.sup z = s.sup z) ∧
    (∀ z, s'.killed z = true ↔ s.killed z = true ∨ (Desc s a z ∧ killCond fixed (s.status z) = true)) ∧
    s'.status = s.status ∧ s'.n = s.n :=
  terminate_spec fixed _ a (invariant fixed ops)

/-- (6), full strength, for the kill condition `< Stopping`: after `exit a` every actor linked
beneath `a`, transitively, has been sent the kill signal — unless it is already stopping or stopped
(it is exiting by itself) — and is detached with a closed child set. -/
theorem exit_kills_subtree (ops : List Op) (a z : Nat)
    (hd : Desc (steps true init ops) a z) (hza : z ≠ a) :
    let s := steps true init ops
    ((exit true s a).killed z = true ∨ Status.stopping.toNat ≤ (s.status z).toNat) ∧
    (exit true s a).kids z = none ∧ (exit true s a).sup z = none := by
  intro s
  have hi := invariant true ops
  refine ⟨by simpa using exit_kills true s a hi z hd hza, (exit_detaches true s a hi z hd).1, ?_⟩
  -- `z ≠ a` is a proper descendant: it is the child of a descendant
  cases hd with
  | refl => exact absurd rfl hza
  | tail hw hc => exact (exit_detaches true s a hi z (.tail hw hc)).2 _ hw hc

/-- (6) is FALSE of the pinned code (finding F1): a `Draining` child of an exiting supervisor is
detached but not killed.  Two actors: `1` linked under `0`, `1` told to drain, `0` exits. -/
theorem exit_skips_draining_pinned :
    let s := steps false init [.spawn, .spawn, .setStatus 0 .running, .setStatus 1 .running, .link 1 0,
                               .setStatus 1 .draining]
    Desc s 0 1 ∧ (exit false s 0).killed 1 = false ∧ (exit false s 0).status 1 = .draining ∧
      (exit false s 0).sup 1 = none ∧ (exit false s 0).status 0 = .stopped := by
  refine ⟨.tail .refl ⟨[1], by decide, by decide⟩, by decide, by decide, by decide, by decide⟩

/-- (6)_partial for the pinned code: what is not `Draining` (nor already stopping) is killed. -/
theorem exit_kills_subtree_partial (ops : List Op) (a z : Nat)
    (hd : Desc (steps false init ops) a z) (hza : z ≠ a)
    (noDraining : (steps false init ops).status z ≠ .draining) :
    (exit false (steps false init ops) a).killed z = true ∨
      Status.stopping.toNat ≤ ((steps false init ops).status z).toNat := by
  rcases exit_kills false _ a (invariant false ops) z hd hza with h | h
  · exact .inl h
  · right
    simp only [Bool.false_eq_true, ↓reduceIte] at h
    generalize (steps false init ops).status z = st at h noDraining
    cases st <;> simp_all [Status.toNat]

/-- Race clause: `k` steps of `a`'s exit (status publication, one worklist iteration each, unlink,
publication of Stopped; on the kill path one `terminate` first), then `link c a` as one atomic region,
then the rest of the exit.  For every `k`: the link is refused, or it came before the first step and
then the new child has been sent the kill signal by the time the exit is done (or is itself already
stopping/stopped). -/
theorem race_link_exit (kill : Bool) (ops : List Op) (a c k n : Nat)
    (hdone : (raceRun true kill (steps true init ops) a c a k n).1.pc = .done) :
    (raceRun true kill (steps true init ops) a c a k n).2 = false ∨
    (k = 0 ∧ ((raceRun true kill (steps true init ops) a c a k n).1.t.killed c = true ∨
      Status.stopping.toNat ≤ ((raceRun true kill (steps true init ops) a c a k n).1.t.status c).toNat)) := by
  simpa using race_link true kill _ (invariant true ops) a c k n hdone

/-- Race clause, general form: the link of an orphan `c` (a fresh `spawn_linked` child, an unlinked actor)
under ANY actor `d` of the exiting subtree, at ANY position `k` of `a`'s exit: the link is refused, or
`c` has been sent the kill signal by the end of the exit (or is the exiting actor itself / already
stopping).  Reason: at every moment every actor of the subtree is either already closed or still ahead
of the worklist (`Tree.Cover`). -/
theorem race_link_anywhere (kill : Bool) (ops : List Op) (a c d k n : Nat)
    (hd : Desc (steps true init ops) a d)
    (horph : (xrun true a k (xinit kill a (steps true init ops))).t.sup c = none)
    (hdone : (raceRun true kill (steps true init ops) a c d k n).1.pc = .done) :
    (raceRun true kill (steps true init ops) a c d k n).2 = false ∨
    (raceRun true kill (steps true init ops) a c d k n).1.t.killed c = true ∨
    Status.stopping.toNat ≤ ((raceRun true kill (steps true init ops) a c d k n).1.t.status c).toNat := by
  simpa using race_link_any true kill _ (invariant true ops) a c d k n hd horph hdone

/-- The exit machine used in the race clause computes exactly `exit` (preceded by `terminate` on the
kill path), so the clause is about the same operation as (6). -/
theorem exit_machine_complete (fixed kill : Bool) (ops : List Op) (a : Nat) :
    ∃ k, xrun fixed a k (xinit kill a (steps fixed init ops)) =
      ⟨if kill then exit fixed (terminate fixed (steps fixed init ops) a) a else exit fixed (steps fixed init ops) a, .done⟩ :=
  xrun_complete fixed kill _ a (invariant fixed ops)

/-- Quiescent runs (what the E-LTS harness executes; kill condition `< Stopping`): after every macro
op the three predicates the driver evaluates on the implementation's snapshots hold of the model's —
`ok` (links, stopped actors, child sets), `subtreeOk` (whoever became Stopped took all its children with
it — by induction its whole subtree), `gainOk` (nothing at or beyond Draining gained a link). -/
theorem quiescent_step_ok (ops : List MOp) (op : MOp) :
    let m := mrun true {} ops
    let m' := (mstep true m op).1
    ok m'.t = true ∧ subtreeOk m.t m'.t = true ∧ gainOk m.t m'.t = true := by
  intro m m'
  have h := mrun_MI ops
  exact (mstep_rel h op).2.checks h.inv

/-- The first sentence of the property, at quiescent points: when a live actor exits (here: is killed;
the other causes go through the same `exitM`), exactly the actors linked beneath it at that moment,
transitively, reach Stopped — except those that had already left their message loop and sit in
`post_stop` (`Stopping`; they are exiting by themselves and are left alone) — everybody else keeps its status. -/
theorem quiescent_exit_takes_subtree (ops : List MOp) (a : Nat)
    (hal : (mrun true {} ops).alive a = true) :
    let m := mrun true {} ops
    let m' := (mstep true m (.kill a)).1
    (∀ z, Desc m.t a z → m'.t.status z = if z ≠ a ∧ m.t.status z = .stopping then .stopping else .stopped) ∧
    (∀ z, ¬ Desc m.t a z → m'.t.status z = m.t.status z) := by
  intro m m'
  have h := mrun_MI ops
  obtain ⟨han, hag⟩ := alive_iff.mp hal
  have e : m'.t = (exitCore true m a).t := by
    show (mstep true m (.kill a)).1.t = _
    simp only [mstep, hal, ↓reduceIte, m]
    rfl
  rw [e]
  obtain ⟨_, hD, hN, _, _⟩ := exitCore_spec h han hag
  exact ⟨hD, hN⟩

/-- Round 4 follow-up (seeded change C05-10): the same for the lifecycle guard's cleanup of an actor whose START
fails (`pre_start` returns Err / panics, or the start future is dropped) — `abort` is `cleanup` run from wherever
the task was: whatever the actor had linked beneath itself by then (children it `spawn_linked` under itself inside
`pre_start`, and everything beneath them) reaches Stopped with it. -/
theorem quiescent_failed_start_takes_subtree (ops : List MOp) (a : Nat)
    (hal : (mrun true {} ops).alive a = true) :
    let m := mrun true {} ops
    let m' := (mstep true m (.abort a)).1
    (∀ z, Desc m.t a z → m'.t.status z = if z ≠ a ∧ m.t.status z = .stopping then .stopping else .stopped) ∧
    (∀ z, ¬ Desc m.t a z → m'.t.status z = m.t.status z) := by
  intro m m'
  have h := mrun_MI ops
  obtain ⟨han, hag⟩ := alive_iff.mp hal
  have e : m'.t = (exitCore true m a).t := by
    show (mstep true m (.abort a)).1.t = _
    simp only [mstep, hal, ↓reduceIte, m]
    rfl
  rw [e]
  obtain ⟨_, hD, hN, _, _⟩ := exitCore_spec h han hag
  exact ⟨hD, hN⟩

/-- Round 4 follow-up (seeded change C04-11): `unlink(child, x)` with `x` not the child's CURRENT supervisor
(a stale unlink, e.g. with the former supervisor after a hand-over) is a no-op on every component of the
tree — atomic layer, macro layer and concurrent layer alike. -/
theorem stale_unlink_is_noop (s : State) (c x : Nat) (h : s.sup c ≠ some x) :
    unlink s c x = s ∧
    (∀ (m : MState), m.t = s → (mstep true m (.unlink c x)).1.t = m.t) ∧
    (∀ (g : CState), g.t = s → (cstep g (.unlink c x)).t = g.t ∧ (cstep g (.unlink c x)).pc = g.pc) := by
  have e : unlink s c x = s := by simp [Tree.unlink, h]
  refine ⟨e, ?_, ?_⟩
  · intro m hm; subst hm; show unlink m.t c x = m.t; exact e
  · intro g hg; subst hg; exact ⟨e, rfl⟩

/-- Handing a child over, in every reachable state (in particular while its supervisor has published
`Stopping` and sits in `post_stop` with its child set still open — `setStatus a .stopping` is one of the
operations): after an accepted `link c b` the child is in exactly one child set, `b`'s. -/
theorem relink_in_exactly_one_set (fixed : Bool) (ops : List Op) (c b : Nat)
    (h : (link (steps fixed init ops) c b).2 = true) (p : Nat) :
    child (link (steps fixed init ops) c b).1 p c ↔ p = b :=
  relink_unique (invariant fixed ops) h p

/-- … and the exit of its former supervisor `a` does not send it the kill signal, as long as the new
supervisor is not itself beneath `a`. -/
theorem relink_escapes_former_supervisor (fixed : Bool) (ops : List Op) (a b c : Nat)
    (h : (link (steps fixed init ops) c b).2 = true) (hca : c ≠ a)
    (hnb : ¬ Desc (link (steps fixed init ops) c b).1 a b) :
    (exit fixed (link (steps fixed init ops) c b).1 a).killed c = (steps fixed init ops).killed c :=
  relink_escapes_exit fixed (invariant fixed ops) h hca hnb

/-- The same as a race with the small-step exit: `a` publishes `Stopping` (first step of its exit; then
comes `post_stop`, then `cleanup`), its child `c` is relinked to `b` outside `a`'s subtree, `a` finishes.
The relink is accepted, `c` is in exactly `b`'s child set, and at the end of `a`'s exit `c` has not been
sent a kill signal by it and is still supervised by `b`. -/
theorem race_relink_during_post_stop (ops : List Op) (a b c n : Nat) (hca : c ≠ a)
    (hres : (link (setStatus (steps true init ops) a .stopping) c b).2 = true)
    (hnb : ¬ Desc (link (setStatus (steps true init ops) a .stopping) c b).1 a b)
    (hdone : (raceRun true false (steps true init ops) a c b 1 n).1.pc = .done) :
    (raceRun true false (steps true init ops) a c b 1 n).2 = true ∧
    (raceRun true false (steps true init ops) a c b 1 n).1.t.killed c = (steps true init ops).killed c ∧
    (raceRun true false (steps true init ops) a c b 1 n).1.t.sup c = some b ∧
    (∀ p, child (link (setStatus (steps true init ops) a .stopping) c b).1 p c ↔ p = b) :=
  race_relink_post_stop true _ (invariant true ops) a b c n hca hres hnb hdone

/-! ### the supervisor-side wrappers `stop_children`, `drain_children`, `*_and_wait`
(C07 for children drained by their supervisor; the engine is the C05 tree engine) -/

/-- `drain_children` / `drain_children_and_wait` on `a`, in any quiescent state: every actor that was a child
of `a` ends at least `Draining` (the idle ones are gone, the busy ones work off their backlog, the parked
ones stay parked) — the first clause the driver evaluates on the implementation — and all that anybody is
told during the op is that some of these children "Drained" — the second clause. -/
theorem drain_children_drains (ops : List MOp) (a : Nat) :
    let m := mrun true {} ops
    let m' := kstep true m (.drainKids a)
    drainKidsOk m.t m'.t a = true ∧ drainKidsReasonsOk m.t a (m'.evs.drop m.evs.length) = true ∧
    (kstep true m (.drainKidsWait a)).t = m'.t ∧ (kstep true m (.drainKidsWait a)).evs = m'.evs := by
  intro m m'
  have h := mrun_MI ops
  obtain ⟨A, l, B, C⟩ := mrun_drains h (kidsOf m a) (kids_lt h a)
  refine ⟨?_, ?_, rfl, rfl⟩
  · unfold drainKidsOk
    rw [List.all_eq_true]
    intro c hc
    have hc' : c ∈ kidsOf m a := hc
    have := A c hc'
    exact decide_eq_true this
  · have : m'.evs = m.evs ++ l := B
    rw [this, List.drop_left]
    unfold drainKidsReasonsOk
    rw [List.all_eq_true]
    intro e he
    simp [(C e he).2]

/-- … and the supervisor itself keeps its status (it is not beneath its own children). -/
theorem drain_children_supervisor_unaffected (ops : List MOp) (a : Nat)
    (hforest : ∀ c ∈ kidsOf (mrun true {} ops) a, c ≠ a ∧ ¬ Desc (mrun true {} ops).t c a) :
    (kstep true (mrun true {} ops) (.drainKids a)).t.status a = (mrun true {} ops).t.status a :=
  mrun_drains_other _ _ (mrun_MI ops) hforest

/-- A drained child with a backlog (in a handler, `q` messages queued behind it): letting the handler return
`q + 1` times handles every one of them — nothing accepted before the drain is dropped — and then the child
ends its message loop by itself: Stopped (unless its `post_stop` is gated) and reported "Drained". -/
theorem drained_backlog_is_handled (ops : List MOp) (c q : Nat)
    (hal : (mrun true {} ops).alive c = true) (hb : ((mrun true {} ops).act c).busy = true)
    (hs : ((mrun true {} ops).act c).stopReq = false) (hq : ((mrun true {} ops).act c).queue = q)
    (hd : (mrun true {} ops).t.status c = .draining) :
    let m := mrun true {} ops
    let m' := mrun true m (List.replicate (q + 1) (.release c))
    (m'.act c).handled = (m.act c).handled + q + 1 ∧
    ((m.act c).hold = false → m'.t.status c = .stopped) ∧
    (∃ l, m'.evs = m.evs ++ l ∧ ∀ e ∈ l, e.1 = c ∧ e.2.2 = .drained) :=
  drained_backlog q _ (mrun_MI ops) hal hb hs hq hd

/-- The same child *stopped* (`stop_children`): the handler it is in returns, then the stop port outranks
the message port — the queued messages are dropped, the reason is none. -/
theorem stopped_backlog_is_dropped (ops : List MOp) (c : Nat)
    (hlo : (mrun true {} ops).looping c = true) (hb : ((mrun true {} ops).act c).busy = true) :
    let m := mrun true {} ops
    let m' := mrun true m [.stop c, .release c]
    (m'.act c).handled = (m.act c).handled + 1 ∧
    ((m.act c).hold = false → m'.t.status c = .stopped) ∧
    (∃ l, m'.evs = m.evs ++ l ∧ ∀ e ∈ l, e.1 = c ∧ e.2.2 = .stopped) :=
  stopped_backlog (mrun_MI ops) hlo hb

/-- The wrappers are sequences of macro ops: they lead from quiescent states to quiescent states. -/
theorem wrappers_keep_invariant (ops : List MOp) (k : KOp) : ok (kstep true (mrun true {} ops) k).t = true := by
  have h := mrun_MI ops
  cases k <;> exact (mrun_MI' h _).inv.ok

/-! ### Round 4: any number of concurrently exiting actors, linkers, unlinkers (`Model/TreeConc.lean`)

A schedule is a `List COp`: `spawn`, `link`, `unlink`, `setStatus` of arbitrary outside threads, `begin a kill`
(an actor's task leaves its message loop) and `xstep a` (the next statement of `a`'s exit, in the order
the code has them; `terminate`'s worklist iteration is split into the kill test and `take_children`).
Any number of actors exit at once, at any depth. -/

/-- for ALL schedules: the structural invariant (two-sided link consistency, bounded ids, duplicate-free
sets, a stopped actor has no links) holds between any two tree-lock regions, together with what every
exit program counter promises (`MInv`) -/
theorem conc_invariant (ops : List COp) : CInv (crun cinit ops) := CInv.init.run ops

/-- (1) two-sided link consistency between lock regions, for all schedules -/
theorem conc_links_consistent (ops : List COp) (c p : Nat) :
    (crun cinit ops).t.sup c = some p ↔ child (crun cinit ops).t p c :=
  (conc_invariant ops).inv.links c p

/-- (3, strengthened) a Stopped actor's child set is CLOSED (not merely empty), it has no supervisor, and
only the last statement of its own `cleanup` made it Stopped -/
theorem conc_stopped_closed (ops : List COp) (a : Nat) (h : (crun cinit ops).t.status a = .stopped) :
    (crun cinit ops).pc a = .done ∧ (crun cinit ops).t.kids a = none ∧ (crun cinit ops).t.sup a = none := by
  have hd := (conc_invariant ops).stopped a h
  have hm := (conc_invariant ops).mach a
  rw [hd] at hm
  exact ⟨hd, hm.2.1, hm.2.2⟩

/-- (6) in every reachable state, in any step of any thread: an actor that is draining, stopping or stopped
gains no child; it gains no supervisor either — with the one exception the code makes since the fix of F9:
the link `start` makes for the actor it starts (`link_starting`) accepts a child that a `drain()` during
`pre_start` lifted to `Draining`.  A `Stopping` / `Stopped` actor gains no supervisor under any step. -/
theorem conc_no_gain (ops : List COp) (op : COp) (z : Nat)
    (hz : Status.draining.toNat ≤ ((crun cinit ops).t.status z).toNat) :
    (∀ x, child (cstep (crun cinit ops) op).t z x → child (crun cinit ops).t z x) ∧
    ((Status.stopping.toNat ≤ ((crun cinit ops).t.status z).toNat ∨ ∀ p, op ≠ .linkStart z p) →
      ∀ q, (cstep (crun cinit ops) op).t.sup z = some q → (crun cinit ops).t.sup z = some q) :=
  Tree.conc_no_gain (conc_invariant ops) op z hz

/-- the link `start` makes (`SupervisionTree::link_starting`): (a) refused, changing nothing, iff the child
is at least `Stopping`, the supervisor at least `Draining`, or the supervisor's set closed; (b) accepted only
below those limits, into an open set, and the child is then linked; (c) it keeps the structural invariant;
(d) for a child below `Draining` it IS the public `link`. -/
theorem start_link_gate (s : State) (c p : Nat) :
    ((¬ gateB Status.stopping.toNat s c p ∨ s.kids p = none) → linkStart s c p = (s, false)) ∧
    ((linkStart s c p).2 = true →
      gateB Status.stopping.toNat s c p ∧ (∃ ks, s.kids p = some ks) ∧ (linkStart s c p).1.sup c = some p) ∧
    (Inv s → Inv (linkStart s c p).1) ∧
    ((s.status c).toNat < Status.draining.toNat → linkStart s c p = link s c p) :=
  ⟨linkB_refused, linkB_true, fun h => h.linkStart c p, linkStart_eq_link⟩

/-- the supervisor side of the start link is the same gate: a draining / stopping / stopped actor gains no
child through it; and a child that is `Stopping` / `Stopped` gains no supervisor through it -/
theorem start_link_no_gain {s : State} (h : Inv s) (c p z : Nat)
    (hz : Status.draining.toNat ≤ (s.status z).toNat) :
    (∀ x, child (linkStart s c p).1 z x → child s z x) ∧
    ((Status.stopping.toNat ≤ (s.status z).toNat ∨ z ≠ c) →
      ∀ q, (linkStart s c p).1.sup z = some q → s.sup z = some q) :=
  linkB_no_gain h c p z hz

/-- being on the way out is stable: whatever anybody does -/
theorem exiting_is_stable (ops more : List COp) (x : Nat) (h : Exiting (crun cinit ops) x) :
    Exiting (crun (crun cinit ops) more) x :=
  exiting_run (conc_invariant ops) more x h

/-- (1)+(2), the general form.  `g0` any reachable state in which `a` is on its way out (its task has left
the message loop, or it was sent the kill signal, or it has published `Stopping`), `z` linked beneath `a` at
that instant, at any depth.  For EVERY continuation of the schedule — other actors of the subtree exiting
concurrently, linkers, unlinkers, spawns anywhere — that comes to rest: `z` is Stopped (status, not a
flag), closed and detached, unless an outside thread's accepted `unlink` / hand-over `link` took `z`, or
an actor between `a` and `z`, out of its supervisor's child set during the run. -/
theorem conc_exit_takes_subtree (ops0 ops : List COp) (a z : Nat)
    (ha : Exiting (crun cinit ops0) a) (hd : Desc (crun cinit ops0).t a z)
    (hr : Rest (crun (crun cinit ops0) ops)) :
    ((crun (crun cinit ops0) ops).t.status z = .stopped ∧ (crun (crun cinit ops0) ops).t.kids z = none ∧
      (crun (crun cinit ops0) ops).t.sup z = none) ∨
    ∃ y, DescP (crun cinit ops0).t a y ∧ Desc (crun cinit ops0).t y z ∧ escRun (crun cinit ops0) ops y = true := by
  rcases rest_subtree (conc_invariant ops0) ops ha hd hr with e | e
  · exact .inl (rest_exiting ((conc_invariant ops0).run ops) hr e).2
  · exact .inr e

/-- … in particular, if nobody unlinks or hands over an actor of the subtree during the run, the whole
subtree is Stopped at rest -/
theorem conc_exit_takes_whole_subtree (ops0 ops : List COp) (a : Nat)
    (ha : Exiting (crun cinit ops0) a) (hr : Rest (crun (crun cinit ops0) ops))
    (hne : ∀ y, DescP (crun cinit ops0).t a y → escRun (crun cinit ops0) ops y = false) (z : Nat)
    (hd : Desc (crun cinit ops0).t a z) :
    (crun (crun cinit ops0) ops).t.status z = .stopped := by
  rcases conc_exit_takes_subtree ops0 ops a z ha hd hr with e | ⟨y, h1, _, h3⟩
  · exact e.1
  · rw [hne y h1] at h3; cases h3

/-- a link — the public `link` (`start = false`) or the one `spawn_linked`'s `start` makes (`start = true`)
— that arrives while its target is on the way out: whatever the interleaving, if it is accepted the new
child is Stopped at rest (clauses 4/5 for any number of linkers, spawns and exits: the accepted link makes
`c` a child of `p` in the state after it, and the edge lemma applies from there) -/
theorem conc_link_under_exiting (ops0 ops : List COp) (c p : Nat) (start : Bool)
    (hp : Exiting (crun cinit ops0) p)
    (hacc : (if start then linkStart (crun cinit ops0).t c p else link (crun cinit ops0).t c p).2 = true)
    (hr : Rest (crun (crun cinit ops0) ((if start then COp.linkStart c p else .link c p) :: ops)))
    (hne : escRun (cstep (crun cinit ops0) (if start then .linkStart c p else .link c p)) ops c = false) :
    (crun (crun cinit ops0) ((if start then COp.linkStart c p else .link c p) :: ops)).t.status c = .stopped := by
  have h1 : CInv (cstep (crun cinit ops0) (if start then .linkStart c p else .link c p)) :=
    (conc_invariant ops0).step _
  have hsup : (cstep (crun cinit ops0) (if start then .linkStart c p else .link c p)).t.sup c = some p := by
    cases start
    · exact (link_true hacc).2.2
    · exact (linkB_true hacc).2.2
  have hch := (h1.inv.links c p).mp hsup
  have hp' := exiting_step (conc_invariant ops0) (if start then .linkStart c p else .link c p) p hp
  rcases edge_run h1 ops hch with r | r | r
  · exfalso
    have := (rest_exiting (h1.run ops) hr (exiting_run h1 ops p hp')).2.2.1
    obtain ⟨ks, hk, _⟩ := r
    rw [this] at hk; cases hk
  · exact (rest_exiting (h1.run ops) hr r).2.1
  · rw [hne] at r; cases r

/-- a descendant that has already published `Stopping` (it sits in `post_stop`) is detached but NOT sent
the kill signal — `terminate` tests `status < Stopping` — and it counts as on its way out: "takes its
subtree" for such an actor means that its own `cleanup` is what stops it (the `Rest` hypothesis). -/
theorem stopping_descendant_not_killed_but_exiting (g : CState) (y : Nat)
    (h : Status.stopping.toNat ≤ (g.t.status y).toNat) :
    applyAct g.t (.kill y) = g.t ∧ Exiting g y := by
  refine ⟨?_, .inr (.inr (.inl h))⟩
  have : killCond true (g.t.status y) = false := by
    cases hs : g.t.status y <;> rw [hs] at h <;> simp [killCond, Status.toNat] at h ⊢
  simp [Tree.applyAct, this]

/-- what the E-THR-MX clause `C05.subtree-dies` judges: an actor whose supervisor link is cut by somebody's
`take_children` (the region `xstep a` at `take y`) is from then on on its way out — it sits on `a`'s
worklist — so at rest it is Stopped (`exiting_is_stable`, `rest_exiting`) -/
theorem cut_by_take_is_exiting (ops : List COp) (a y c : Nat) (cl : Bool) (pend : List Nat)
    (hpc : (crun cinit ops).pc a = .term cl pend (some y)) (hc : child (crun cinit ops).t y c) :
    (cstep (crun cinit ops) (.xstep a)).t.kids y = none ∧ Exiting (cstep (crun cinit ops) (.xstep a)) c := by
  have hk : (cstep (crun cinit ops) (.xstep a)).t.kids y = none := by
    show (applyAct (crun cinit ops).t (cact (crun cinit ops) (.xstep a))).kids y = none
    simp only [cact, hpc, xact_take, Tree.applyAct]
    exact takeChildren_closes _ _
  refine ⟨hk, ?_⟩
  rcases edge_step (conc_invariant ops) (.xstep a) hc with e | e | e
  · obtain ⟨ks, hks, _⟩ := e; rw [hk] at hks; cases hks
  · exact e
  · simp [escStep] at e

/-- the worklist iteration of the atomic model is the kill test followed by `take_children` — the two
steps of the concurrent model, with a schedule point (`tree.take`) between them -/
theorem visit_is_kill_then_take (t : State) (y : Nat) :
    visit true t y = takeChildren (applyAct t (.kill y)) y := Tree.visit_eq_kill_take t y

/-- Round 4 follow-up (seeded change C05-10), in the concurrent model: whatever the status of the actor when its cleanup begins (`Starting`
included): `begin p false` is the guard's `cleanup`; for every schedule that comes to rest the subtree the actor
had built is Stopped (unless an outside thread unlinked / handed over part of it meanwhile). -/
theorem failed_start_takes_built_subtree (ops0 ops : List COp) (p z : Nat)
    (hp : p < (crun cinit ops0).t.n) (hidle : (crun cinit ops0).pc p = .idle)
    (hd : Desc (crun cinit ops0).t p z)
    (hr : Rest (crun (crun cinit ops0) (.begin p false :: ops)))
    (hne : ∀ y, DescP (crun cinit ops0).t p y →
      escRun (cstep (crun cinit ops0) (.begin p false)) ops y = false) :
    (crun (crun cinit ops0) (.begin p false :: ops)).t.status z = .stopped := by
  have h1 : CInv (cstep (crun cinit ops0) (.begin p false)) := (conc_invariant ops0).step _
  have ht : (cstep (crun cinit ops0) (.begin p false)).t = (crun cinit ops0).t := rfl
  have hex : Exiting (cstep (crun cinit ops0) (.begin p false)) p := by
    left
    show cpc (crun cinit ops0) (.begin p false) p ≠ .idle
    simp [cpc, hp, hidle, upd_apply]
  rcases rest_subtree h1 ops hex (by rw [ht]; exact hd) hr with e | ⟨y, h2, _, h4⟩
  · exact (rest_exiting (h1.run ops) hr e).2.1
  · rw [ht] at h2; rw [hne y h2] at h4; cases h4

/-! #### what a lock-free reader can see (`get_children`, `try_get_supervisor` do not take the tree lock) -/

/-- an accepted hand-over `link c p` is two halves; between them only `TREE_MUTATION_LOCK` is held -/
theorem handover_is_two_halves {s : State} {c p q : Nat} {ks : List Nat}
    (hg : gate s c p) (hk : s.kids p = some ks) (hs : s.sup c = some q) (hqp : q ≠ p) :
    link s c p = (linkB (linkA s c p) c q, true) := link_handover_split hg hk hs hqp

/-- between the halves a reader sees a state that is consistent EXCEPT that `c` is listed by both the new
supervisor `p` and the previous one `q`, its supervisor field naming `p`: "a child is in exactly its
supervisor's set" fails for a lock-free reader exactly for the child of an in-flight hand-over, and only
as `c ∈ get_children(q)` with `try_get_supervisor(c) = p`. -/
theorem reader_sees_during_link (ops : List COp) {c p q : Nat} {ks : List Nat}
    (hk : (crun cinit ops).t.kids p = some ks) (hs : (crun cinit ops).t.sup c = some q) (hqp : q ≠ p) :
    let m := linkA (crun cinit ops).t c p
    (∀ x y, m.sup x = some y → child m y x) ∧
    (∀ x y, child m y x → m.sup x = some y ∨ (x = c ∧ y = q)) ∧
    child m q c ∧ child m p c ∧ m.sup c = some p :=
  reader_link_window (conc_invariant ops).inv hk hs hqp

/-- inside `take_children p` (set taken, supervisor fields of `cleared` reset, the others not yet): every
listed child names its supervisor; a supervisor field that names an actor not listing the child is the
field of a not-yet-cleared child of `p` — and `p.children` is locked for the whole region, so a reader
cannot see `p`'s set at that instant at all. -/
theorem reader_sees_during_take (ops : List COp) {p : Nat} {ks : List Nat}
    (hk : (crun cinit ops).t.kids p = some ks) (cleared : List Nat) :
    let m := takeMid (crun cinit ops).t p cleared
    (∀ x y, child m y x → m.sup x = some y) ∧
    (∀ x y, m.sup x = some y → child m y x ∨ (y = p ∧ x ∈ ks ∧ x ∉ cleared)) ∧
    m.kids p = none :=
  reader_take_window (conc_invariant ops).inv hk cleared

/-- … and with every field cleared it is the region's result -/
theorem take_window_end {s : State} {p : Nat} {ks : List Nat} (hk : s.kids p = some ks) :
    takeMid s p ks = (takeChildren s p).1 := takeMid_all hk

/-! ### ties to the source text (E-SRC) -/

/-- the kill condition in `ActorCell::terminate` is the one the model uses for the code under test -/
theorem kill_condition_matches_source : Extracted.terminateKillCondition = killCondText codeFixed := by decide

/-- statement order of `ActorLifecycleGuard::cleanup` = the order `Tree.exit` applies -/
theorem cleanup_order_matches_source :
    Extracted.cleanupOrder = ["set_status:Stopping", "terminate", "notify_supervisor", "unlink", "set_status:Stopped"] := by
  decide

/-- `ActorStatus` discriminants -/
theorem status_discriminants_match_source :
    Extracted.statusDiscriminants = Status.all.map (fun st => (st.name, st.toNat)) := by decide

/-- round 4: `terminate`'s loop body is: pop, kill test, `take_children`, push — the two steps of the
concurrent model in this order -/
theorem terminate_loop_matches_source :
    Extracted.terminateLoopOrder = ["pending.pop", "get_status()", ".kill()", "take_children", "pending.extend"] := by
  decide

/-- round 4: the child limits of the two link forms are the ones of `Tree.link` / `Tree.linkStart`, the
supervisor limit is `Draining` for both, and `start` (both runtimes) uses the start link -/
theorem link_limits_match_source :
    Extracted.linkChildLimits =
      [("link", (Status.all.find? (·.toNat == Status.draining.toNat)).map (·.name) |>.getD ""),
       ("link_starting", (Status.all.find? (·.toNat == Status.stopping.toNat)).map (·.name) |>.getD "")] ∧
    Extracted.linkSupervisorLimit = Status.draining.name ∧
    Extracted.startLinkCalls = [("actor.rs", "try_link_starting"), ("inner.rs", "try_link_starting")] := by decide

/-- round 4: which functions are tree-lock regions and which readers are lock-free; the window of a hand-over
(`linkA` … `linkB`) and of `take_children` (`takeMid`) are where the model puts them -/
theorem lock_regions_match_source :
    Extracted.treeLockUsers = [("link_below", true), ("unlink", true), ("take_children", true),
      ("get_children", false), ("for_each_child", false), ("try_get_supervisor", false)] ∧
    Extracted.linkReleasesBeforeOldParent = true ∧ Extracted.takeHoldsParentSet = true := by decide

/-- follow-up: `unlink` returns early unless `supervisor` is the child's current supervisor (`Tree.unlink`'s `if`),
and `cleanup` calls `terminate()` unconditionally (the exit machine has no "was running" flag) -/
theorem unlink_and_cleanup_guards_match_source :
    Extracted.unlinkOnlyCurrentSupervisor = true ∧ Extracted.cleanupTerminatesUnconditionally = true := by decide

/-! ### Non-vacuity -/

/-- a chain 0 ← 1 ← 2 plus a relink of 2 under 0 and a self-link of 3 -/
example : let s := steps true init [.spawn, .spawn, .spawn, .spawn, .setStatus 0 .running, .setStatus 1 .running,
      .setStatus 2 .running, .setStatus 3 .running, .link 1 0, .link 2 1, .link 2 0, .link 3 3]
    s.kids 0 = some [1, 2] ∧ s.kids 1 = some [] ∧ s.sup 2 = some 0 ∧ s.sup 3 = some 3 := by decide

/-- killing the root of a chain with the fixed condition: everything below is killed, also a draining actor -/
example : let s := steps true init [.spawn, .spawn, .spawn, .setStatus 0 .running, .setStatus 1 .running,
      .setStatus 2 .running, .link 1 0, .link 2 1, .setStatus 1 .draining, .exit 0]
    s.killed 1 = true ∧ s.killed 2 = true ∧ s.status 0 = .stopped ∧ s.sup 2 = none ∧ s.kids 1 = none := by decide

/-- linking an orphan under a grandchild in the middle of the exit (after the root and the child have
been visited, before the grandchild is): accepted, and the orphan is killed with the rest -/
example : let s := steps true init [.spawn, .spawn, .spawn, .spawn, .setStatus 0 .running, .setStatus 1 .running,
      .setStatus 2 .running, .setStatus 3 .running, .link 1 0, .link 2 1]
    (raceRun true false s 0 3 2 3 9).2 = true ∧ (raceRun true false s 0 3 2 3 9).1.t.killed 3 = true ∧
      (raceRun true false s 0 3 2 4 9).2 = false ∧ (raceRun true false s 0 3 2 3 9).1.pc = .done := by decide

/-- supervisor 0 drains its children: 1 (three messages accepted: one in the handler, two queued) handles all
three and is reported "Drained", the idle 2 is gone at once; 0 keeps running -/
example : let m := mrun true {} [.spawn, .spawnl 0, .spawnl 0, .block 1, .block 1, .block 1]
    let m' := mrun true (kstep true m (.drainKidsWait 0)) [.release 1, .release 1, .release 1]
    (m'.act 1).handled = 3 ∧ m'.t.status 1 = .stopped ∧ m'.t.status 2 = .stopped ∧ m'.t.status 0 = .running ∧
      m'.evs = [(2, 0, .drained), (1, 0, .drained)] ∧ m'.waiters.map (·.done m') = [true] := by decide

/-- supervisor 0 is Stopping (in `post_stop`) with child 1; 1 is handed over to 2; 0 finishes: 1 lives on under 2 -/
example : let s := steps true init [.spawn, .spawn, .spawn, .setStatus 0 .running, .setStatus 1 .running,
      .setStatus 2 .running, .link 1 0]
    (raceRun true false s 0 1 2 1 9).2 = true ∧ (raceRun true false s 0 1 2 1 9).1.t.killed 1 = false ∧
      (raceRun true false s 0 1 2 1 9).1.t.sup 1 = some 2 ∧ (raceRun true false s 0 1 2 1 9).1.t.kids 2 = some [1] ∧
      (raceRun true false s 0 1 2 1 9).1.t.status 0 = .stopped ∧ (raceRun true false s 0 1 2 1 9).1.pc = .done := by decide

/-- a link that arrives after the first exit step is refused; one that arrives before is killed -/
example : let s := steps true init [.spawn, .spawn, .setStatus 0 .running, .setStatus 1 .running]
    (raceRun true false s 0 1 0 1 9).2 = false ∧ (raceRun true false s 0 1 0 0 9).2 = true ∧
      (raceRun true false s 0 1 0 0 9).1.t.killed 1 = true ∧ (raceRun true false s 0 1 0 0 9).1.pc = .done := by decide

/-! ### Translator tie (rs2lean): kernel-checked equivalence between the definitions that
`extract/rs2lean.py` regenerates from the CURRENT Rust source on every run
(`RactorModel/Generated/*.lean`) and the hand-written model functions the theorems above are
about. A semantic change of the Rust function changes the generated text and these stop checking. -/

section XlateTie
open Generated.Admission GenAdmission

theorem generated_status_discriminants_eq_model (s : ActorStatus) : (absStatus s).toNat = s.toNat := by
  cases s <;> rfl

theorem generated_status_abs_surjective (t : Tree.Status) : ∃ s, absStatus s = t := by
  cases t
  · exact ⟨.Unstarted, rfl⟩
  · exact ⟨.Starting, rfl⟩
  · exact ⟨.Running, rfl⟩
  · exact ⟨.Upgrading, rfl⟩
  · exact ⟨.Draining, rfl⟩
  · exact ⟨.Stopping, rfl⟩
  · exact ⟨.Stopped, rfl⟩

/-- the condition under which `ActorCell::terminate` kills an actor of its worklist -/
theorem generated_terminate_kill_condition_eq_model (enq : Except MessagingErr Unit) (actor : ActorCell) :
    ActorCell.terminate_kills enq actor = Tree.killCond Tree.codeFixed (absStatus actor.status) := by
  rcases actor with ⟨s⟩
  cases s <;> simp [ActorCell.terminate_kills, Tree.killCond, Tree.codeFixed, absStatus, ActorStatus.toNat, Tree.Status.toNat]
end XlateTie
/-- round 4: chain 0 ← 1 ← 2, orphan 3.  0 takes the kill signal and walks its worklist; 1, killed by it,
runs its own `terminate` at the same time; 3 is linked under the grandchild 2 in the middle of all that
(accepted); 2 and 3 take their kill signals; round-robin to the end: everything is Stopped and closed. -/
example : let g := crun cinit ([.spawn, .spawn, .spawn, .spawn, .setStatus 0 .running, .setStatus 1 .running,
      .setStatus 2 .running, .setStatus 3 .running, .link 1 0, .link 2 1,
      .begin 0 true, .xstep 0, .xstep 0, .xstep 0, .begin 1 true, .link 3 2, .xstep 1, .xstep 0, .xstep 1,
      .begin 2 true, .begin 3 true] ++
      (List.replicate 14 [COp.xstep 0, .xstep 1, .xstep 2, .xstep 3]).flatten)
    g.t.sup 3 = none ∧ g.t.killed 3 = true ∧
      [0, 1, 2, 3].all (fun x => g.pc x == .done && g.t.status x == .stopped && g.t.kids x == none) = true := by
  decide +kernel

/-- round 4: the same exit, but an outside thread unlinks 1 from 0 before 0's worklist reaches it: 1 (and 2
beneath it) escape — the `escRun` disjunct of `conc_exit_takes_subtree` is needed -/
example : let g0 := crun cinit [.spawn, .spawn, .spawn, .setStatus 0 .running, .setStatus 1 .running,
      .setStatus 2 .running, .link 1 0, .link 2 1, .begin 0 true]
    let ops := [COp.xstep 0, .unlink 1 0] ++ (List.replicate 10 (COp.xstep 0))
    let g := crun g0 ops
    escRun g0 ops 1 = true ∧ g.pc 0 = .done ∧ g.t.status 0 = .stopped ∧ g.t.status 1 = .running ∧
      g.t.sup 2 = some 1 ∧ g.t.killed 1 = false := by decide

/-- round 4: a descendant parked in `post_stop` (Stopping) is detached, not killed -/
example : let g := crun cinit ([.spawn, .spawn, .setStatus 0 .running, .setStatus 1 .running, .link 1 0,
      .setStatus 1 .stopping, .begin 0 false] ++ List.replicate 9 (COp.xstep 0))
    g.pc 0 = .done ∧ g.t.killed 1 = false ∧ g.t.sup 1 = none ∧ g.t.status 1 = .stopping := by decide

/-- round 4 (F9): a child lifted to `Draining` while its `pre_start` runs is refused by the public `link` but
linked by `start`; a `Stopping` one is refused by both; a draining SUPERVISOR is refused by both -/
example : let s := steps true init [.spawn, .spawn, .setStatus 0 .running, .setStatus 1 .draining]
    (link s 1 0).2 = false ∧ (linkStart s 1 0).2 = true ∧ (linkStart s 1 0).1.sup 1 = some 0 ∧
      (linkStart (setStatus s 1 .stopping) 1 0).2 = false ∧ (linkStart s 0 1).2 = false := by decide

/-- follow-up: a parent that links two children under itself in `pre_start` and then fails to start (the macro ops
the E-LTS driver replays for `spawnpre 2 …`): all three are Stopped, nobody is told; and a stale unlink after a
hand-over changes nothing, the child's failure is reported to the supervisor it has -/
example : let m := mrun true {} [.spawn, .spawnl 0, .spawnl 0, .abort 0]
    m.t.status 0 = .stopped ∧ m.t.status 1 = .stopped ∧ m.t.status 2 = .stopped ∧ m.t.kids 0 = none ∧ m.t.sup 1 = none ∧
      m.evs = [] := by decide
example : let m := mrun true {} [.spawn, .spawn, .spawnl 0, .link 2 1, .unlink 2 0, .fail 2]
    m.t.sup 2 = none ∧ m.t.kids 1 = some [] ∧ m.t.status 2 = .stopped ∧ m.evs = [(2, 1, .failed)] := by decide

end C05

#print axioms C05.invariant
#print axioms C05.ok_all
#print axioms C05.links_consistent
#print axioms C05.unique_parent
#print axioms C05.closed_stays_closed
#print axioms C05.stopped_has_no_links
#print axioms C05.link_gate
#print axioms C05.no_gain
#print axioms C05.terminate_visits_descendants
#print axioms C05.exit_kills_subtree
#print axioms C05.exit_skips_draining_pinned
#print axioms C05.exit_kills_subtree_partial
#print axioms C05.race_link_exit
#print axioms C05.race_link_anywhere
#print axioms C05.exit_machine_complete
#print axioms C05.quiescent_step_ok
#print axioms C05.quiescent_exit_takes_subtree
#print axioms C05.relink_in_exactly_one_set
#print axioms C05.relink_escapes_former_supervisor
#print axioms C05.race_relink_during_post_stop
#print axioms C05.drain_children_drains
#print axioms C05.drain_children_supervisor_unaffected
#print axioms C05.drained_backlog_is_handled
#print axioms C05.stopped_backlog_is_dropped
#print axioms C05.wrappers_keep_invariant
#print axioms C05.kill_condition_matches_source
#print axioms C05.cleanup_order_matches_source
#print axioms C05.status_discriminants_match_source
-- rs2lean tie
#print axioms C05.generated_status_discriminants_eq_model
#print axioms C05.generated_status_abs_surjective
#print axioms C05.generated_terminate_kill_condition_eq_model
#print axioms C05.conc_invariant
#print axioms C05.conc_links_consistent
#print axioms C05.conc_stopped_closed
#print axioms C05.conc_no_gain
#print axioms C05.exiting_is_stable
#print axioms C05.conc_exit_takes_subtree
#print axioms C05.conc_exit_takes_whole_subtree
#print axioms C05.conc_link_under_exiting
#print axioms C05.stopping_descendant_not_killed_but_exiting
#print axioms C05.visit_is_kill_then_take
#print axioms C05.handover_is_two_halves
#print axioms C05.reader_sees_during_link
#print axioms C05.reader_sees_during_take
#print axioms C05.take_window_end
#print axioms C05.start_link_gate
#print axioms C05.start_link_no_gain
#print axioms C05.terminate_loop_matches_source
#print axioms C05.link_limits_match_source
#print axioms C05.lock_regions_match_source
#print axioms C05.cut_by_take_is_exiting
#print axioms C05.quiescent_failed_start_takes_subtree
#print axioms C05.failed_start_takes_built_subtree
#print axioms C05.stale_unlink_is_noop
#print axioms C05.unlink_and_cleanup_guards_match_source
