import Driver.C05

/-! Driver for `harness/hcore/src/bin/treemx.rs` (C05, round 4): every actor on its own OS thread, so the
region a thread executes between two schedule points is a step (or a few steps) of THAT actor's exit
machine in `Model/TreeConc.lean`; the racer thread's region is a `link` / `unlink`.  After every region
the implementation's tree (read with the lock-free readers while all threads are parked outside the tree
lock) is compared with the model's, and judged by `linksOk`/`setsOk`/`stoppedOk` (consistency between lock
regions) and `gainOk`; at rest by "the whole subtree is Stopped". -/

namespace Driver.TreeMx
open Tree Driver Driver.C05

structure DState where
  g : CState := {}
  n : Nat := 0
  parents : List (Option Nat) := []
  racer : String := "none"
  prev : Option State := none        -- the implementation's previous snapshot
  everLinked : List Nat := []        -- actors that had a supervisor in some snapshot of the implementation

def get (ws : List String) (k : String) : String :=
  match ws.find? (·.startsWith (k ++ "=")) with
  | some w => (w.drop (k.length + 1)).toString
  | none => "?"

def initCase (ws : List String) : DState :=
  let parents := (splitOnChar (get ws "parents") ',').map (fun w => w.toNat?)
  let n := parents.length
  let g0 : CState := {}
  -- spawn everybody, then the start links (the children are `Starting`), then Running
  let g1 := (List.range n).foldl (fun g _ => cstepN g .spawn) g0
  let g2 := (List.range n).foldl (fun g i => match parents.getD i none with
      | some p => cstepN (cstepN g (.setStatus p .running)) (.linkStart i p)
      | none => g) g1
  let g3 := (List.range n).foldl (fun g i => cstepN g (.setStatus i .running)) g2
  { g := g3, n := n, parents := parents, racer := get ws "racer" }

def xs (g : CState) (a : Nat) : CState := cstepN g (.xstep a)

/-- the steps of machine `a` that the region starting at point `p` (and ending at `q`) executed -/
def advance (g : CState) (a : Nat) (p q : String) : CState :=
  match p, g.pc a with
  | "h.idle", .idle => if q == "tree.take" then xs (cstepN g (.begin a true)) a else g
  | "status.publish", .idle => xs (cstepN g (.begin a false)) a
  | "status.publish", .pub => xs g a
  | "status.publish", .publishStopped => xs g a
  | "cleanup.terminate", .term true _ none => xs g a
  | "tree.take", .term _ _ (some _) =>
    let g1 := xs g a
    match g1.pc a with
    | .term _ (_ :: _) none => xs g1 a      -- next kill test, up to the next `tree.take`
    | .term _ [] none => xs g1 a            -- the worklist is empty: on to `pub` / `detach`
    | _ => g1
  | "cleanup.unlink", .detach =>
    let g1 := xs g a
    match g1.pc a with
    | .unl none => xs g1 a
    | _ => g1
  | "tree.unlink", .unl (some _) => xs g a
  | _, _ => g

def racerOp (r : String) : Option COp :=
  match splitOnChar r ':' with
  | ["link", c, p] => some (.link (c.toNat?.getD 0) (p.toNat?.getD 0))
  | ["unlink", c, p] => some (.unlink (c.toNat?.getD 0) (p.toNat?.getD 0))
  | _ => none

/-- beneath `c` (or `c` itself) by the spawn-time parents -/
partial def under (parents : List (Option Nat)) (c i : Nat) : Bool :=
  i == c || (match parents.getD i none with | some p => p < i && under parents c p | none => false)

def restClauses (st : DState) (cur : State) : List String :=
  let stopped (i : Nat) : Bool := cur.status i == .stopped
  match splitOnChar st.racer ':' with
  | ["unlink", c, _] =>
    let c := c.toNat?.getD 0
    if (List.range st.n).all (fun i => under st.parents c i || stopped i) then [] else ["C05.subtree-dies"]
  | ["link", c, _] =>
    let c := c.toNat?.getD 0
    (if (List.range st.n).all (fun i => i == c || stopped i) then [] else ["C05.subtree-dies"]) ++
    (if st.everLinked.contains c && !stopped c then ["C05.race-orphan"] else [])
  | _ => if (List.range st.n).all stopped then [] else ["C05.subtree-dies"]

def step (st : DState) (op impl : String) : DState × StepOut :=
  let ws := words op
  let snapOf (s : String) : Option State := (parseSnapshot? ("r=x |" ++ ((s.splitOn " |").getD 1 ""))).map (·.2)
  let cur := snapOf impl
  let judge (st : DState) (extra : List String) : List String × DState :=
    match cur with
    | none => (["unparsable"], st)
    | some c =>
      let o1 := if linksOk c && setsOk c && stoppedOk c then [] else ["C05.ok mx-snapshot"]
      let o2 := match st.prev with
        | some p => if gainOk p c then [] else ["C05.gain"]
        | none => []
      let linked := (List.range c.n).filter (fun i => (c.sup i).isSome)
      (o1 ++ o2 ++ extra, { st with prev := some c, everLinked := (st.everLinked ++ linked).eraseDups })
  match ws with
  | "mx" :: rest =>
    let st1 := initCase rest
    let (orc, st2) := judge st1 []
    (st2, { model := s!"ok | {showSnap st1.g.t " "}", oracle := orc })
  | ["g", tid, p] =>
    let tid := tid.toNat?.getD 0
    let q := ((impl.splitOn " |").getD 0 "").trimAscii.toString
    let g1 := if tid < st.n then advance st.g tid p q
              else match racerOp st.racer with
                | some o => if p == "tree.link" || p == "tree.unlink" then cstepN st.g o else st.g
                | none => st.g
    let st1 := { st with g := g1 }
    let (orc, st2) := judge st1 []
    (st2, { model := s!"{q} | {showSnap g1.t " "}", oracle := orc,
            nontrivial := p != "h.idle" || q != "h.idle", key := some s!"{st.racer} {op} {impl}" })
  | ["rest"] =>
    let extra := match cur with | some c => restClauses st c | none => []
    let (orc, st2) := judge st extra
    (st2, { model := s!"ok | {showSnap st.g.t " "}", oracle := orc, nontrivial := true })
  | _ => (st, { model := "?" })

def run (ops impl : Array String) : IO Tally := replay ({} : DState) step ops impl

end Driver.TreeMx
