import RactorModel.Model.Election

/-! Helper lemmas for C18 (`Props/C18.lean` holds the property theorems). -/

namespace Election

/-! ### `min?` on `Nat` lists is permutation invariant -/

theorem min?_perm {l l' : List Nat} (h : l.Perm l') : l.min? = l'.min? := by
  cases hm : l.min? with
  | none =>
    have : l = [] := List.min?_eq_none_iff.mp hm
    subst this
    have : l' = [] := List.Perm.eq_nil (List.Perm.symm h)
    subst this; rfl
  | some m =>
    symm
    rw [List.min?_eq_some_iff] at hm ⊢
    exact ⟨h.mem_iff.mp hm.1, fun b hb => hm.2 b (h.mem_iff.mpr hb)⟩

theorem minConn_perm {cs cs' : List Cand} (h : cs.Perm cs') : minConn cs = minConn cs' :=
  min?_perm (h.filterMap _)

theorem dirFilter_perm (ord : Ordering) {cs cs' : List Cand} (h : cs.Perm cs') :
    (dirFilter ord cs).Perm (dirFilter ord cs') := by
  unfold dirFilter
  rw [h.any_eq (f := (·.isServer)), h.any_eq (f := fun c => !c.isServer)]
  split
  · cases ord
    · exact h.filter _
    · exact h
    · exact h.filter _
  · exact h

theorem nonceFilter_perm {cs cs' : List Cand} (h : cs.Perm cs') :
    (nonceFilter cs).Perm (nonceFilter cs') := by
  unfold nonceFilter
  rw [minConn_perm h]
  split
  · exact h.filter _
  · exact h

theorem tieBreak_perm {cs cs' : List Cand} (h : cs.Perm cs') :
    (tieBreak cs).Perm (tieBreak cs') := by
  unfold tieBreak
  rw [h.length_eq, h.all_eq (f := (·.isServer)), min?_perm (h.map (·.id))]
  split
  · split
    · exact h.filter _
    · exact h
  · exact h

theorem pipeline_perm (ord : Ordering) {cs cs' : List Cand} (h : cs.Perm cs') :
    (pipeline ord cs).Perm (pipeline ord cs') :=
  tieBreak_perm (nonceFilter_perm (dirFilter_perm ord h))

/-! ### the short-circuit for ≤ 1 candidates agrees with the pipeline -/

theorem pipeline_nil (ord : Ordering) : pipeline ord [] = [] := by
  simp [pipeline, dirFilter, nonceFilter, minConn, tieBreak]

theorem pipeline_single (ord : Ordering) (c : Cand) : pipeline ord [c] = [c] := by
  have h1 : dirFilter ord [c] = [c] := by
    unfold dirFilter
    cases hc : c.isServer <;> simp [hc]
  have h2 : nonceFilter [c] = [c] := by
    unfold nonceFilter minConn
    cases hc : c.conn <;> simp [hc]
  simp [pipeline, h1, h2, tieBreak]

theorem elect_eq_pipeline (ord : Ordering) (cs : List Cand) :
    elect ord cs = (pipeline ord cs).map (·.id) := by
  unfold elect
  split
  · match cs with
    | [] => simp [pipeline_nil]
    | [c] => simp [pipeline_single]
    | _ :: _ :: _ => simp at *
  · rfl

/-! ### every stage is a sub-list and keeps a non-empty list non-empty -/

theorem dirFilter_sublist (ord : Ordering) (cs : List Cand) : (dirFilter ord cs).Sublist cs := by
  unfold dirFilter
  split
  · cases ord <;> simp
  · simp

theorem nonceFilter_sublist (cs : List Cand) : (nonceFilter cs).Sublist cs := by
  unfold nonceFilter
  split <;> simp

theorem tieBreak_sublist (cs : List Cand) : (tieBreak cs).Sublist cs := by
  unfold tieBreak
  split
  · split <;> simp
  · simp

theorem pipeline_sublist (ord : Ordering) (cs : List Cand) : (pipeline ord cs).Sublist cs :=
  ((tieBreak_sublist _).trans (nonceFilter_sublist _)).trans (dirFilter_sublist ord cs)

theorem dirFilter_ne_nil (ord : Ordering) {cs : List Cand} (h : cs ≠ []) : dirFilter ord cs ≠ [] := by
  unfold dirFilter
  split
  · rename_i hb
    simp only [Bool.and_eq_true, List.any_eq_true] at hb
    obtain ⟨⟨s, hs, hs'⟩, ⟨c, hc, hc'⟩⟩ := hb
    cases ord
    · intro hnil
      have : c ∈ cs.filter (fun c => c.isServer == false) := by
        simp only [List.mem_filter]; exact ⟨hc, by simpa using hc'⟩
      simp only at hnil; rw [hnil] at this; simp at this
    · exact h
    · intro hnil
      have : s ∈ cs.filter (fun c => c.isServer == true) := by
        simp only [List.mem_filter]; exact ⟨hs, by simpa using hs'⟩
      simp only at hnil; rw [hnil] at this; simp at this
  · exact h

theorem nonceFilter_ne_nil {cs : List Cand} (h : cs ≠ []) : nonceFilter cs ≠ [] := by
  unfold nonceFilter
  split
  · rename_i m hm
    unfold minConn at hm
    have := (List.min?_eq_some_iff.mp hm).1
    simp only [List.mem_filterMap] at this
    obtain ⟨c, hc, hcm⟩ := this
    intro hnil
    have : c ∈ cs.filter (fun c => c.conn == some m) := by
      simp only [List.mem_filter]; exact ⟨hc, by simp [hcm]⟩
    rw [hnil] at this; simp at this
  · exact h

theorem tieBreak_ne_nil {cs : List Cand} (h : cs ≠ []) : tieBreak cs ≠ [] := by
  unfold tieBreak
  split
  · split
    · rename_i w hw
      have := (List.min?_eq_some_iff.mp hw).1
      simp only [List.mem_map] at this
      obtain ⟨c, hc, hcw⟩ := this
      intro hnil
      have : c ∈ cs.filter (fun c => c.id == w) := by
        simp only [List.mem_filter]; exact ⟨hc, by simp [hcw]⟩
      rw [hnil] at this; simp at this
    · exact h
  · exact h

theorem pipeline_ne_nil (ord : Ordering) {cs : List Cand} (h : cs ≠ []) : pipeline ord cs ≠ [] :=
  tieBreak_ne_nil (nonceFilter_ne_nil (dirFilter_ne_nil ord h))

end Election
