import RactorModel.Lemmas.TimersExact

/-! Round 4 (audit): the exit reasons `"Drained"` and `<failed>` have a source too. -/

namespace Timers

/-- where the reasons the target can end with come from -/
structure RT (T : Target) : Prop where
  failed_src : ∀ te, T.exit = some (.failed, te) → T.manualFail = true
  poison_src : T.poison ≠ none → T.manualFail = true
  drained_src : ∀ te, T.exit = some (.drained, te) → T.draining = true
  ps_drained : ∀ ts, T.stopping = some (.drained, ts) → T.draining = true
  ps_nofail : ∀ ts, T.stopping ≠ some (.failed, ts)
  req : ∀ r, T.stopReq = some r → r = .manual ∨ ∃ ms, r = .exitAfter ms

theorem RT.init : RT ({} : Target) :=
  ⟨(by intro te h; cases h), (by intro h; exact absurd rfl h), (by intro te h; cases h),
   (by intro ts h; cases h), (by intro ts h; cases h), (by intro r h; cases h)⟩

/-- what a poll of a timer task leaves alone -/
structure TSame (T T' : Target) : Prop where
  poison : T'.poison = T.poison
  manualFail : T'.manualFail = T.manualFail
  draining : T'.draining = T.draining
  exit : T'.exit = T.exit
  stopping : T'.stopping = T.stopping
  req : ∀ r, T'.stopReq = some r → T.stopReq = some r ∨ ∃ ms, r = .exitAfter ms

theorem TSame.refl (T : Target) : TSame T T := ⟨rfl, rfl, rfl, rfl, rfl, fun _ h => .inl h⟩

theorem TSame.trans {A B C : Target} (h1 : TSame A B) (h2 : TSame B C) : TSame A C :=
  ⟨h2.poison.trans h1.poison, h2.manualFail.trans h1.manualFail, h2.draining.trans h1.draining,
   h2.exit.trans h1.exit, h2.stopping.trans h1.stopping,
   fun r h => (h2.req r h).elim (fun h' => h1.req r h') .inr⟩

theorem TSame.push (T : Target) (m : Nat × Nat) : TSame T (T.push m) := ⟨rfl, rfl, rfl, rfl, rfl, fun _ h => .inl h⟩

theorem TSame.stopX (T : Target) (ms : Nat) : TSame T (T.stop (.exitAfter ms)) := by
  unfold Target.stop
  split
  · exact TSame.refl T
  · exact ⟨rfl, rfl, rfl, rfl, rfl, fun r h => by
      simp only [Option.some.injEq] at h
      exact .inr ⟨ms, h.symm⟩⟩

theorem TSame.kill (T : Target) : TSame T T.kill := by
  unfold Target.kill
  split
  · exact TSame.refl T
  · exact ⟨rfl, rfl, rfl, rfl, rfl, fun _ h => .inl h⟩

theorem Micro.tsame {now id : Nat} {T0 : Target} {x y : Timer × Target} (m : Micro now id x y)
    (h : TSame T0 x.2) : TSame T0 y.2 := by
  cases m with
  | arm τ T _ _ _ => exact h
  | panic τ T _ _ _ => exact h
  | prime τ T a _ _ _ _ _ => exact h
  | primeHead τ T a _ _ _ _ _ => exact h
  | ivFail τ T a _ _ _ _ _ => exact h
  | ivHead τ T _ _ _ _ => exact h
  | saErr τ T a _ _ _ _ _ => exact h
  | ivSend τ T a _ _ _ _ _ => exact h.trans (TSame.push T _)
  | saOk τ T a _ _ _ _ _ => exact h.trans (TSame.push T _)
  | exit τ T a _ _ _ _ => exact h.trans (TSame.stopX T _)
  | kill τ T a _ _ _ _ => exact h.trans (TSame.kill T)

theorem fireOne_tsame (now id : Nat) (τ : Timer) (T : Target) : TSame T (fireOne now id τ T).2 :=
  fireOne_ind now id (fun x => TSame T x.2) (fun _ _ m hx => m.tsame hx) τ T (TSame.refl T)

theorem RT.of_same {T T' : Target} (h : RT T) (hs : TSame T T') : RT T' :=
  ⟨fun te e => by rw [hs.manualFail]; exact h.failed_src te (hs.exit ▸ e),
   fun e => by rw [hs.manualFail]; exact h.poison_src (hs.poison ▸ e),
   fun te e => by rw [hs.draining]; exact h.drained_src te (hs.exit ▸ e),
   fun ts e => by rw [hs.draining]; exact h.ps_drained ts (hs.stopping ▸ e),
   fun ts e => h.ps_nofail ts (hs.stopping ▸ e),
   fun r e => (hs.req r e).elim (h.req r) .inr⟩

/-- the actor is gone with reason `r` -/
theorem RT.exitWith {T : Target} (h : RT T) (r : Reason) (now : Nat)
    (hf : r = .failed → T.manualFail = true) (hd : r = .drained → T.draining = true) :
    RT (T.exitWith r now) :=
  ⟨fun te e => by
      simp only [Target.exitWith, Option.some.injEq, Prod.mk.injEq] at e
      exact hf e.1,
   fun e => by simp [Target.exitWith] at e,
   fun te e => by
      simp only [Target.exitWith, Option.some.injEq, Prod.mk.injEq] at e
      exact hd e.1,
   fun ts e => by simp [Target.exitWith] at e,
   fun ts e => by simp [Target.exitWith] at e,
   h.req⟩

theorem RT.endLoop {T : Target} (h : RT T) (r : Reason) (now : Nat)
    (hf : r ≠ .failed) (hd : r = .drained → T.draining = true) : RT (T.endLoop r now) := by
  unfold Target.endLoop
  split
  · exact ⟨h.failed_src, fun e => by simp at e, h.drained_src,
      fun ts e => by
        simp only [Option.some.injEq, Prod.mk.injEq] at e
        exact hd e.1,
      fun ts e => by
        simp only [Option.some.injEq, Prod.mk.injEq] at e
        exact hf e.1,
      h.req⟩
  · exact h.exitWith r now (fun e => absurd e hf) hd

theorem RT.run {T : Target} (h : RT T) (now : Nat) : RT (T.run now) := by
  unfold Target.run
  split
  · exact h
  split
  · exact h.exitWith .killed now (fun e => by cases e) (fun e => by cases e)
  split
  · exact h
  split
  · exact h
  split
  · rename_i r hr
    rcases h.req r hr with rfl | ⟨ms, rfl⟩
    · exact h.endLoop .manual now (by intro e; cases e) (fun e => by cases e)
    · exact h.endLoop (.exitAfter ms) now (by intro e; cases e) (fun e => by cases e)
  · split
    · rename_i n hp
      have hm : T.manualFail = true := h.poison_src (by rw [hp]; simp)
      have h0 : RT { T with handled := T.handled ++ (T.mbox.take n).map (fun (m : Nat × Nat) => (m.1, m.2, now)),
                            mbox := [] } :=
        ⟨h.failed_src, h.poison_src, h.drained_src, h.ps_drained, h.ps_nofail, h.req⟩
      exact h0.exitWith .failed now (fun _ => hm) (fun e => by cases e)
    · dsimp only
      have h0 : RT { T with handled := T.handled ++ T.mbox.map (fun m => (m.1, m.2, now)), mbox := [] } :=
        ⟨h.failed_src, h.poison_src, h.drained_src, h.ps_drained, h.ps_nofail, h.req⟩
      split
      · rename_i hdr
        exact h0.endLoop .drained now (by intro e; cases e) (fun _ => hdr)
      · exact h0

theorem RT.step {s : State} (h : RT s.target) (op : Op) : RT (Timers.step s op).target := by
  cases op with
  | create k p => exact h
  | createX k p => exact h
  | tick d => exact h
  | mark => exact h
  | dropHandle i => exact h
  | abort i =>
    cases hτ : s.timers[i]? with
    | none => rw [step_abort_none hτ]; exact h
    | some τ => rw [step_abort_some hτ]; split <;> exact h
  | hold => exact ⟨h.failed_src, h.poison_src, h.drained_src, h.ps_drained, h.ps_nofail, h.req⟩
  | startHold => exact ⟨h.failed_src, h.poison_src, h.drained_src, h.ps_drained, h.ps_nofail, h.req⟩
  | started => exact ⟨h.failed_src, h.poison_src, h.drained_src, h.ps_drained, h.ps_nofail, h.req⟩
  | stop =>
    show RT { s.target.stop .manual with manualStop := true }
    have : RT (s.target.stop .manual) := by
      unfold Target.stop
      split
      · exact h
      · exact ⟨h.failed_src, h.poison_src, h.drained_src, h.ps_drained, h.ps_nofail,
          fun r e => by simp only [Option.some.injEq] at e; exact .inl e.symm⟩
    exact ⟨this.failed_src, this.poison_src, this.drained_src, this.ps_drained, this.ps_nofail, this.req⟩
  | kill =>
    show RT { s.target.kill with manualKill := true }
    have : RT s.target.kill := h.of_same (TSame.kill _)
    exact ⟨this.failed_src, this.poison_src, this.drained_src, this.ps_drained, this.ps_nofail, this.req⟩
  | drain =>
    show RT (s.target.drain s.now)
    unfold Target.drain
    split
    · exact h
    · exact ⟨h.failed_src, h.poison_src, fun _ _ => rfl, fun _ _ => rfl, h.ps_nofail, h.req⟩
  | fail =>
    show RT s.target.poisonMsg
    unfold Target.poisonMsg
    split
    · exact ⟨fun _ _ => rfl, fun _ => rfl, h.drained_src, h.ps_drained, h.ps_nofail, h.req⟩
    · exact h
  | psrelease =>
    show RT (s.target.release s.now)
    unfold Target.release
    split
    · rename_i r ts hst
      have h0 : RT { s.target with psGate := false } :=
        ⟨h.failed_src, h.poison_src, h.drained_src, h.ps_drained, h.ps_nofail, h.req⟩
      refine h0.exitWith r s.now (fun e => ?_) (fun e => ?_)
      · subst e; exact absurd hst (h.ps_nofail ts)
      · subst e; exact h.ps_drained ts hst
    · exact ⟨h.failed_src, h.poison_src, h.drained_src, h.ps_drained, h.ps_nofail, h.req⟩
  | target => exact h.run s.now
  | fire i =>
    cases hτ : s.timers[i]? with
    | none => rw [step_fire_none hτ]; exact h
    | some τ =>
      rw [step_fire_some hτ]
      exact h.of_same (fireOne_tsame s.now i τ s.target)

theorem RT.steps {s : State} (h : RT s.target) (ops : List Op) : RT (Timers.steps s ops).target := by
  induction ops generalizing s with
  | nil => exact h
  | cons op ops ih => exact ih (h.step op)

theorem reasonSrcOk_of {s : State} (h : RT s.target) : reasonSrcOk s = true := by
  unfold reasonSrcOk
  cases he : s.target.exit with
  | none => rfl
  | some x =>
    obtain ⟨r, te⟩ := x
    cases r with
    | failed => exact h.failed_src te he
    | drained => exact h.drained_src te he
    | manual => rfl
    | killed => rfl
    | exitAfter ms => rfl

end Timers
