import RactorModel.Model.Pg

/-!
# The notification clause of C11 as a run-time oracle taken from the property TEXT (wave 2)

"Every effective join or leave … is delivered to every actor monitoring that group, its scope or all scopes
at that time, with the right scope, group and actors, and to no one else."

`textNotifFailing p q evs`: `p` = the four indexes before ONE `join_scoped` / `leave_scoped` call, `q` = after it,
`evs` = what the monitors received. Nothing of `pg.rs`'s way of computing payload or recipients is used: only
membership before / after and who was monitoring before. (The implementation also notifies INEFFECTIVE calls — a
`Leave` naming only non-members when the group entry exists, a repeated `Join` of members; the oracle admits them
as long as they go to monitors of that group only and say nothing false — see `C11.ineffective_leave_is_notified`.)
-/

namespace Pg
open AList

def monitoringB (st : State) (m : Nat) (k : Key) : Bool :=
  (listenersOf st k).contains m || (worldOf st k.1).contains m || (worldOf st allScopes).contains m

/-- in how many ways `m` monitors `k` (group, scope, all scopes) -/
def subscriptions (st : State) (m : Nat) (k : Key) : Nat :=
  (if (listenersOf st k).contains m then 1 else 0) + (if (worldOf st k.1).contains m then 1 else 0) +
  (if (worldOf st allScopes).contains m then 1 else 0)

def monitorsOf (st : State) (k : Key) : List Nat :=
  (listenersOf st k ++ worldOf st k.1 ++ worldOf st allScopes).eraseDups

/-- the actors whose membership of `k` differs between `p` and `q` -/
def changedIn (p q : State) (k : Key) : List Nat :=
  ((membersOf p k ++ membersOf q k).eraseDups).filter fun x => (membersOf p k).contains x != (membersOf q k).contains x

def textNotifFailing (p q : State) (evs : List Ev) : List String :=
  let keys := (p.map.map (·.1) ++ q.map.map (·.1)).eraseDups
  (if evs.all (fun e => monitoringB p e.monitor (e.scope, e.group)) then []
   else ["text-notified-actor-was-not-monitoring"]) ++
  (if evs.all (fun e => e.actors.all fun x => (membersOf q (e.scope, e.group)).contains x == e.join) then []
   else ["text-event-contradicts-membership"]) ++
  (if keys.all (fun k => (changedIn p q k).all fun x =>
        let isJ := (membersOf q k).contains x
        (monitorsOf p k).all fun m =>
          (evs.filter fun e => e.monitor == m && e.scope == k.1 && e.group == k.2 && e.join == isJ &&
            e.actors.contains x).length == subscriptions p m k) then []
   else ["text-effective-change-not-delivered-once-per-subscription"])

/-- the automatic leave on exit: `a` publishes `Stopping` and drops its own monitor entries BEFORE it is taken out
of its groups, so at the instant of those changes `a` itself monitors nothing -/
def withoutMonitor (st : State) (a : Nat) : State :=
  { st with map := st.map.map (fun p => (p.1, ⟨p.2.members, del a p.2.listeners⟩)),
            world := st.world.map (fun p => (p.1, del a p.2)) }

/-- the clause for ONE un-raced exit of `a`: one `Leave [a]` per group `a` was still in, to every OTHER actor
monitoring that group, its scope or all scopes, and to no one else -/
def textExitFailing (p q : State) (a : Nat) (evs : List Ev) : List String :=
  textNotifFailing (withoutMonitor p a) q evs ++
  (if evs.all (fun e => e.join == false && e.actors == [a]) then [] else ["text-exit-event-is-not-leave-of-the-exiting-actor"])

/-- the STRICT reading ("monitors are told of effective changes only, the payload is the delta"): an event all of
whose actors did not change sides, or — for an effective one — an actor in the payload that did not change sides.
NOT wired into the driver: the implementation notifies ineffective calls by design (verbatim payload); see
`C11.ineffective_leave_is_notified` and notes/C11.md (wave 2) for the decision. -/
def textNotifStrictFailing (p q : State) (evs : List Ev) : List String :=
  (if evs.all (fun e => e.actors.any fun x => (changedIn p q (e.scope, e.group)).contains x) then []
   else ["text-ineffective-change-notified"]) ++
  (if evs.all (fun e => e.actors.all fun x => (changedIn p q (e.scope, e.group)).contains x) then []
   else ["text-payload-names-unchanged-actor"])

end Pg
