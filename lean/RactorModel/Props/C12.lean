import RactorModel.Extracted
import RactorModel.Lemmas.TimersProps
import RactorModel.Lemmas.TimersDrop
import RactorModel.Lemmas.TimersDeliver
import RactorModel.Lemmas.TimersStops
import RactorModel.Lemmas.TimersBurst
import RactorModel.Lemmas.TimersExact
import RactorModel.Lemmas.TimersReasons

/-!
# C12 — timers fire once, never early, and die with their target

Property theorems only.  Model: `Model/Timers.lean` (tied to `ractor/src/time.rs` on tokio's paused
clock by `harness/hcore/src/bin/timers.rs` + `Driver/C12.lean`), lemmas: `Lemmas/Timers*.lean`.

Two levels:
* **small steps** (`steps init ops`, `ops : List Op`): any interleaving of clock ticks, single polls
  of single timer tasks, runs of the target's task, aborts, stop/kill/drain calls and creations —
  timer tasks may be polled arbitrarily late.  `Timers.ok` holds in every reachable state.
* **quiescent runs** (`mrun init ms`, `ms : List MOp`): the clock only moves when every task is
  idle (what a runtime does that is not overloaded, and exactly what the harness executes).
  There the closed form holds (`Timers.okPrompt`).
`Timers.ok` and `Timers.okPrompt` are the predicates the driver evaluates on the histories observed
from the real implementation.

Time is in **microseconds**: periods and clock advances are arbitrary; tokio's timer wheel (1 ms
granularity, deadlines rounded UP) is the stated runtime axiom `Timers.wheelDeadline`. All
"never early" statements are in µs against the exact instant `created + k·period`.
-/

namespace C12
open Timers

/-- (the wheel axiom is sound for "never early" and costs less than a millisecond) -/
theorem wheel_rounds_up (armed p : Nat) :
    armed + p ≤ wheelDeadline armed p ∧ wheelDeadline armed p < armed + p + 1000 ∧
      wheelDeadline armed p % 1000 = 0 := by
  simp only [wheelDeadline, ceilMs]; omega

/-- For every schedule of the small steps the history satisfies `Timers.ok`: never early,
nothing in the future, one-shot timers act at most once and their handle tells what happened
(`pending`/`cancelled` ⇒ nothing was sent, `ok`/`err` ⇒ exactly one attempt, `err` only for
`send_after`), a finished task never acted after it finished, at most one (failing) attempt after
the target stopped accepting (the instant its message loop ended — also while `post_stop` is still
running), a `send_after` handle is `Ok` only for a send made no later than that instant and `Err` only
after it, exit reasons have a source, handled messages were sent. -/
theorem ok_all (ops : List Op) : ok (steps init ops) = true := by
  unfold ok
  rw [ok2_of_inv (Inv.init.steps ops) (DInv.init.steps Inv.init ops),
    sentBeforeClose_of (all3_steps Inv.init DInv.init EInv.init ops),
    reasonSrcOk_of (RT.init.steps ops)]; rfl

/-- At every quiescent point of a quiescent run both predicates hold. -/
theorem ok_quiescent (ms : List MOp) : ok (mrun init ms) = true ∧ okPrompt (mrun init ms) = true := by
  refine ⟨?_, ?_⟩
  · obtain ⟨ops, e⟩ := mrun_eq_steps init ms
    rw [e]; exact ok_all ops
  · obtain ⟨ha, hs⟩ := settled_mrun ms AInv.init settled_init
    obtain ⟨ops, e⟩ := mrun_eq_steps init ms
    have he : EInv (mrun init ms) := e ▸ all3_steps Inv.init DInv.init EInv.init ops
    have hq : QM (mrun init ms).target := qm_mrun ms Inv.init AInv.init (fun _ _ => rfl)
    unfold okPrompt
    rw [(BInv.init.mrun ms).okPrompt1, stopsOk_of (BInv.init.mrun ms).inv ha hs, allHandledOk_of he hq]; rfl

/-- DELIVERY-level at-most-once, for every schedule: no message (timer id, k) is in the mailbox or in
the handled log twice — a `send_after` message is handled at most once, the k-th interval message at
most once —, every handled message was made by the k-th attempt of that (sending) timer and handled
no earlier than that attempt, and an actor that is gone has an empty mailbox (what it had accepted
and not handled is dropped, never handled later). -/
theorem delivered_at_most_once (ops : List Op) :
    let s := steps init ops
    (s.target.mbox ++ s.target.handled.map (fun h => (h.1, h.2.1))).Nodup ∧
    (∀ h ∈ s.target.handled, ∃ τ, s.timers[h.1]? = some τ ∧ τ.kind.sends = true ∧ 1 ≤ h.2.1 ∧
        ∃ t, τ.sentAt[h.2.1 - 1]? = some t ∧ t ≤ h.2.2) ∧
    (s.target.exit ≠ none → s.target.mbox = []) :=
  delivered' (Inv.init.steps ops) (DInv.init.steps Inv.init ops)

/-- `exit_after`, the fire step (the analogue of `sendAfter_fires`): in ANY reachable state, when the
sleeping task is polled at or after its wheel deadline it acts exactly once, now, and what it does
is `actor.stop(Some("Exit after {as_millis}ms"))` — a no-op on a target that is gone or already has
a stop request (first request wins). -/
theorem exitAfter_fires (ops : List Op) (i : Nat) (τ : Timer) (a : Nat)
    (hi : (steps init ops).timers[i]? = some τ) (hk : τ.kind = .exitAfter) (hp : τ.res = .pending)
    (ha : τ.armed = some a) (hd : wheelDeadline a τ.period ≤ (steps init ops).now) :
    let s := steps init ops
    (step s (.fire i)).timers[i]? = some ((τ.attempt s.now).finish .ok s.now) ∧ τ.sentAt = [] ∧
      (step s (.fire i)).target = s.target.stop (.exitAfter (asMillis τ.period)) :=
  exitAfter_fires' (Inv.init.steps ops) i τ a hi hk hp ha hd

/-- `send_interval`, the fire step (schedule-independent: ANY reachable state, the poll may come
arbitrarily late): a poll of the interval task that is past its first tick (a) before the next tick
is due changes nothing; (b) with a tick due and a send that fails (target not accepting, or wrong
message type) makes exactly one attempt, now, and ends the task, leaving the target alone; (c) against
an accepting target completes ALL `n` elapsed ticks in this one poll — `n` attempts stamped `now`,
messages `(i, len+1) … (i, len+n)` appended to the mailbox in order, the task still pending — where
`n` is exactly the number of elapsed ticks: the `(len+n)`-th wheel deadline has passed (or `n = 0`),
the `(len+n+1)`-th has not. Deadlines are `wheelDeadline armed (k·period)`: computed from the
instant of the first poll, not from the previous tick — no drift for ANY schedule of polls. -/
theorem interval_fires (ops : List Op) (i : Nat) (τ : Timer) (a : Nat)
    (hi : (steps init ops).timers[i]? = some τ) (hk : τ.kind = .interval) (hp : τ.res = .pending)
    (ha : τ.armed = some a) (hpr : τ.primed = true) :
    let s := steps init ops
    ∃ τ', (step s (.fire i)).timers[i]? = some τ' ∧
    (s.now < wheelDeadline a ((τ.sentAt.length + 1) * τ.period) →
      τ' = τ ∧ (step s (.fire i)).target = s.target) ∧
    (wheelDeadline a ((τ.sentAt.length + 1) * τ.period) ≤ s.now → τ.canSend s.target = false →
      τ' = (τ.attempt s.now).finish .ok s.now ∧ (step s (.fire i)).target = s.target) ∧
    (τ.canSend s.target = true →
      ∃ n, τ'.sentAt = τ.sentAt ++ List.replicate n s.now ∧ τ'.res = .pending ∧
        (step s (.fire i)).target.mbox =
          s.target.mbox ++ (List.range n).map (fun j => (i, τ.sentAt.length + 1 + j)) ∧
        s.now < wheelDeadline a ((τ.sentAt.length + n + 1) * τ.period) ∧
        (n = 0 ∨ wheelDeadline a ((τ.sentAt.length + n) * τ.period) ≤ s.now)) :=
  interval_fires' (Inv.init.steps ops) i τ a hi hk hp ha hpr

/-- `kill_after`, the fire step: `actor.kill()`. -/
theorem killAfter_fires (ops : List Op) (i : Nat) (τ : Timer) (a : Nat)
    (hi : (steps init ops).timers[i]? = some τ) (hk : τ.kind = .killAfter) (hp : τ.res = .pending)
    (ha : τ.armed = some a) (hd : wheelDeadline a τ.period ≤ (steps init ops).now) :
    let s := steps init ops
    (step s (.fire i)).timers[i]? = some ((τ.attempt s.now).finish .ok s.now) ∧ τ.sentAt = [] ∧
      (step s (.fire i)).target = s.target.kill :=
  killAfter_fires' (Inv.init.steps ops) i τ a hi hk hp ha hd

/-- The POSITIVE half, "the actor actually exits". For every schedule: (1) a live idle target (no
request pending, its message loop running — not still `Starting` —, not in `post_stop`, gate open) whose
`exit_after` just acted exits with exactly that
reason, at that instant, the next time its task runs; after a `kill_after` acted, a target that is
not gone exits `"killed"` the next time its task runs — whatever else is pending (a kill overrides
a stop request and cancels `post_stop`). (2) In any reachable state: once an `exit_after` has acted
the stop request is on record or the actor is gone, once a `kill_after` has acted the kill request
is on record or the actor is gone (requests are never taken back), and after the target's task has
run a recorded kill has been obeyed (also by a target that is still `Starting`) and a recorded stop
has at least ended the message loop — unless the target is still `Starting`: there the request waits. -/
theorem exit_after_stops (T : Target) (p now : Nat) (he : T.exit = none) :
    (T.killReq = false → T.stopReq = none → T.stopping = none → T.psGate = false → T.starting = false →
      ((T.stop (.exitAfter (asMillis p))).run now).exit = some (.exitAfter (asMillis p), now)) ∧
    (T.kill.run now).exit = some (.killed, now) :=
  ⟨fun hk hs hst hg h0 => stop_then_run T _ now he hk hs hst hg h0, kill_then_run T now he⟩

theorem acted_then_requested (ops : List Op) :
    let s := steps init ops
    (∀ τ ∈ s.timers, τ.kind = .exitAfter → τ.sentAt ≠ [] → s.target.stopReq ≠ none ∨ s.target.exit ≠ none) ∧
    (∀ τ ∈ s.timers, τ.kind = .killAfter → τ.sentAt ≠ [] → s.target.killReq = true ∨ s.target.exit ≠ none) ∧
    (((step s .target).target.killReq = true → (step s .target).target.exit ≠ none) ∧
     ((step s .target).target.stopReq ≠ none →
        (step s .target).target.closedAt ≠ none ∨ (step s .target).target.exit ≠ none ∨
          (step s .target).target.starting = true)) :=
  ⟨(AInv.init.steps ops).exitA, (AInv.init.steps ops).killA,
   run_settled _ _ (AInv.init.steps ops).sc⟩

/-- ... and at every quiescent point of a quiescent run (this is the clause `stopsOk` of
`Timers.okPrompt`, evaluated on the exit the real supervisor observed): a `kill_after` that has acted
⇒ the actor is gone; an `exit_after` that has acted ⇒ the actor has stopped accepting (gone, or in
`post_stop`) — or it is still `Starting` (gated `post_start`) and the request waits for its message loop. -/
theorem acted_then_gone (ms : List MOp) (τ : Timer) (hτ : τ ∈ (mrun init ms).timers) (hne : τ.sentAt ≠ []) :
    (τ.kind = .killAfter → (mrun init ms).target.exit ≠ none) ∧
    (τ.kind = .exitAfter → (mrun init ms).target.closedAt ≠ none ∨ (mrun init ms).target.starting = true) := by
  obtain ⟨ha, hs⟩ := settled_mrun ms AInv.init settled_init
  have := stopsOk_of (BInv.init.mrun ms).inv ha hs
  rw [List.all_eq_true] at this
  have := this τ hτ
  unfold stopsOk at this
  have hne' : τ.sentAt.isEmpty = false := by
    cases h : τ.sentAt with
    | nil => exact absurd h hne
    | cons => rfl
  constructor
  · intro hk
    simp only [hk, hne', beq_self_eq_true, Bool.not_false, Bool.and_self, Bool.not_true, Bool.false_or,
      Bool.and_eq_true] at this
    intro h; rw [h] at this; simp at this
  · intro hk
    simp only [hk, hne', beq_self_eq_true, Bool.not_false, Bool.and_self, Bool.not_true, Bool.false_or,
      Bool.and_eq_true, Bool.or_eq_true] at this
    rcases this.2 with h | h
    · left; intro h'; rw [h'] at h; simp at h
    · exact .inr h

/-- "A timer whose target is no longer running delivers nothing", at DELIVERY level, for every
schedule: every handled message was sent (its attempt was made) no later than the instant the target
stopped accepting; and as long as the target has never stopped accepting, every attempt of every
well-typed sending timer is in the mailbox or handled — nothing is lost, nothing is refused. -/
theorem delivers_nothing_after_close (ops : List Op) :
    let s := steps init ops
    (∀ tc, s.target.closedAt = some tc → ∀ h ∈ s.target.handled, ∀ τ, s.timers[h.1]? = some τ →
      ∀ t, τ.sentAt[h.2.1 - 1]? = some t → t ≤ tc) ∧
    (s.target.closedAt = none → ∀ i τ, s.timers[i]? = some τ → τ.kind.sends = true → τ.typed = true →
      ∀ k, 1 ≤ k → k ≤ τ.sentAt.length →
        (i, k) ∈ s.target.mbox ++ s.target.handled.map (fun h => (h.1, h.2.1))) := by
  intro s
  have he : EInv s := all3_steps Inv.init DInv.init EInv.init ops
  refine ⟨fun tc htc h hh τ hτ t ht => ?_, he.acc⟩
  exact he.before tc htc (h.1, h.2.1)
    (List.mem_append_right _ (List.mem_map.mpr ⟨h, hh, rfl⟩)) τ hτ t ht

/-- EXACTLY once (quiescent runs): while the target has never stopped accepting and its message loop
runs (it is not still `Starting`, where accepted messages queue up), at every quiescent
point every attempt `k` of every well-typed sending timer `i` — the one message of a `send_after`, the
k-th message of a `send_interval` — has been handled exactly once. -/
theorem delivered_exactly_once (ms : List MOp) (hcl : (mrun init ms).target.closedAt = none)
    (hst : (mrun init ms).target.starting = false) (i : Nat) (τ : Timer) (hi : (mrun init ms).timers[i]? = some τ) (hs : τ.kind.sends = true)
    (hty : τ.typed = true) (k : Nat) (h1 : 1 ≤ k) (h2 : k ≤ τ.sentAt.length) :
    ((mrun init ms).target.handled.map (fun h => (h.1, h.2.1))).count (i, k) = 1 := by
  obtain ⟨ops, e⟩ := mrun_eq_steps init ms
  have he : EInv (mrun init ms) := e ▸ all3_steps Inv.init DInv.init EInv.init ops
  have hd : DInv (mrun init ms) := e ▸ DInv.init.steps Inv.init ops
  have hq : QM (mrun init ms).target := qm_mrun ms Inv.init AInv.init (fun _ _ => rfl)
  have hm := he.acc hcl i τ hi hs hty k h1 h2
  unfold Target.ids at hm
  rw [hq hcl hst, List.nil_append] at hm
  rw [List.Nodup.count ((hmap_sub _).nodup hd.nodup)]
  simp [hm]

/-- a one-shot's message is handled at most once -/
theorem oneShot_handled_once (ops : List Op) (i : Nat) (τ : Timer) (hi : (steps init ops).timers[i]? = some τ)
    (hk : τ.kind.oneShot = true) :
    ((steps init ops).target.handled.filter (fun h => h.1 == i)).length ≤ 1 :=
  oneShot_handled_once' (Inv.init.steps ops) (DInv.init.steps Inv.init ops) i τ hi hk

/-- `send_after` (also `exit_after`, `kill_after`): at most one action, and not before the period
has elapsed since the API call — for every schedule. -/
theorem oneShot_once_never_early (ops : List Op) (τ : Timer) (hτ : τ ∈ (steps init ops).timers)
    (hk : τ.kind.oneShot = true) :
    τ.sentAt.length ≤ 1 ∧ ∀ t ∈ τ.sentAt, τ.created + τ.period ≤ t :=
  oneShot_once_never_early' (Inv.init.steps ops) τ hτ hk

/-- Every action of every timer: the k-th (1-based) is no earlier than `created + k·period`. -/
theorem never_early (ops : List Op) (τ : Timer) (hτ : τ ∈ (steps init ops).timers)
    (k : Nat) (hk : k < τ.sentAt.length) : τ.created + (k + 1) * τ.period ≤ τ.sentAt[k] :=
  never_early' (Inv.init.steps ops) τ hτ k hk

/-- `send_after`, the fire step: when the sleeping task is polled at or after its wheel deadline it
sends exactly one message if the target still accepts (handle: `Ok`), and otherwise sends nothing
and reports the error through its handle. -/
theorem sendAfter_fires (ops : List Op) (i : Nat) (τ : Timer) (a : Nat)
    (hi : (steps init ops).timers[i]? = some τ) (hk : τ.kind = .sendAfter) (hp : τ.res = .pending)
    (ha : τ.armed = some a) (hd : wheelDeadline a τ.period ≤ (steps init ops).now) (hty : τ.typed = true) :
    let s := steps init ops
    let s' := step s (.fire i)
    ∃ τ', s'.timers[i]? = some τ' ∧ τ'.sentAt = [s.now] ∧
      (s.target.accepts = true → τ'.res = .ok ∧ s'.target.mbox = s.target.mbox ++ [(i, 1)]) ∧
      (s.target.accepts = false → τ'.res = .err ∧ s'.target.mbox = s.target.mbox) :=
  sendAfter_fires' (Inv.init.steps ops) i τ a hi hk hp ha hd hty

/-- A finished (returned or aborted) timer task never does anything again. -/
theorem finished_frozen (s : State) (i : Nat) (τ : Timer) (hi : s.timers[i]? = some τ)
    (hf : τ.res ≠ .pending) (ops : List Op) : (steps s ops).timers[i]? = some τ :=
  finished_frozen' s i τ hi hf ops

/-- Aborting a timer before its fire step prevents delivery: whatever happens afterwards, the
timer's action list stays what it was and its handle reports `cancelled`. -/
theorem abort_prevents (s : State) (i : Nat) (τ : Timer) (hi : s.timers[i]? = some τ)
    (hp : τ.res = .pending) (ops : List Op) :
    ∃ τ', (steps (step s (.abort i)) ops).timers[i]? = some τ' ∧ τ'.sentAt = τ.sentAt ∧ τ'.res = .cancelled :=
  abort_prevents' s i τ hi hp ops

/-- Closed form, no drift (quiescent runs): the k-th action of a timer happens no earlier than the
exact instant `created + k·period` and no later than the first quiescent point `c` at or after the
wheel deadline of that instant (less than a millisecond later); if the instant is a whole
millisecond and the clock visits it, the action happens exactly then. Deadlines never accumulate
rounding: the k-th is computed from `created`, not from the previous action. -/
theorem closed_form (ms : List MOp) (τ : Timer) (hτ : τ ∈ (mrun init ms).timers)
    (k : Nat) (hk : k < τ.sentAt.length) :
    τ.created + (k + 1) * τ.period ≤ τ.sentAt[k] ∧
    (∀ c ∈ (mrun init ms).visits, wheelDeadline τ.created ((k + 1) * τ.period) ≤ c → τ.sentAt[k] ≤ c) ∧
    (τ.created + (k + 1) * τ.period ∈ (mrun init ms).visits → (τ.created + (k + 1) * τ.period) % 1000 = 0 →
      τ.sentAt[k] = τ.created + (k + 1) * τ.period) :=
  closed_form' (BInv.init.mrun ms) τ hτ k hk

/-- (the handle reports the failed send) For every schedule: a `send_after` whose handle says
`Ok(())` tried to send no later than the instant the target stopped accepting (status ≥ Draining —
reached when `drain` is called or the message loop ends, NOT only when the actor is gone: while
`post_stop` runs nothing is accepted any more), and a handle that says `Err` belongs to a send made
after that instant. -/
theorem handle_reports_send (ops : List Op) (τ : Timer) (hτ : τ ∈ (steps init ops).timers)
    (hk : τ.kind = .sendAfter) (hty : τ.typed = true) :
    (τ.res = .ok → ∀ tc, (steps init ops).target.closedAt = some tc → ∀ t ∈ τ.sentAt, t ≤ tc) ∧
    (τ.res = .err → ∃ tc, (steps init ops).target.closedAt = some tc ∧ ∀ t ∈ τ.sentAt, tc ≤ t) :=
  handle_reports_send' (Inv.init.steps ops) τ hτ hk hty

/-- An interval task whose target left the active states — `closedAt`: the instant the message loop
ended or `drain` was called; the target may still sit in `post_stop` for as long as it likes — ends
within one period (quiescent
runs): once the clock has reached the wheel deadline of a full period past the instant the target
stopped accepting — and, for an interval created after that off the millisecond grid, the next
millisecond boundary after its creation (its "immediate" first tick is rounded up too) —, the task is gone; and in any schedule it makes at most one (failing) attempt after that instant. -/
theorem interval_dies_with_target (ms : List MOp) (τ : Timer) (hτ : τ ∈ (mrun init ms).timers)
    (hk : τ.kind = .interval) (tc : Nat) (hc : (mrun init ms).target.closedAt = some tc) :
    (wheelDeadline tc τ.period ≤ (mrun init ms).now → wheelDeadline τ.created 0 ≤ (mrun init ms).now →
      τ.res ≠ .pending) ∧
    (τ.sentAt.filter (fun t => decide (tc < t))).length ≤ 1 :=
  interval_dies' (BInv.init.mrun ms) τ hτ hk tc hc

/-- `exit_after` / `kill_after`: if the target exited with reason `"Exit after {m}ms"` then an
`exit_after(period)` timer with `period.as_millis() = m` acted, no earlier than its FULL period (in
µs, not the truncated millisecond count) after it was created and no later than the exit;
if it exited `"killed"`, somebody called `kill` or a `kill_after` timer acted no earlier than its
period. For every schedule. -/
theorem exit_reason (ops : List Op) (r : Reason) (te : Nat)
    (he : (steps init ops).target.exit = some (r, te)) :
    (∀ p, r = .exitAfter p → ∃ τ ∈ (steps init ops).timers, τ.kind = .exitAfter ∧ asMillis τ.period = p ∧
        ∃ t ∈ τ.sentAt, τ.created + τ.period ≤ t ∧ t ≤ te) ∧
    (r = .killed → (steps init ops).target.manualKill = true ∨
        ∃ τ ∈ (steps init ops).timers, τ.kind = .killAfter ∧
          ∃ t ∈ τ.sentAt, τ.created + τ.period ≤ t ∧ t ≤ te) ∧
    (r = .manual → (steps init ops).target.manualStop = true) :=
  exit_reason' (Inv.init.steps ops) r te he

/-- The other two exit reasons have a source as well, for every schedule: `"Drained"` only after `drain()`
was called on the target, `<failed>` only after a message on which the handler fails was accepted;
a stop request never carries either reason, and a target in `post_stop` is never there for a failure
(a failing handler skips `post_stop`). -/
theorem exit_reason_sources (ops : List Op) :
    let T := (steps init ops).target
    (∀ te, T.exit = some (.drained, te) → T.draining = true) ∧
    (∀ te, T.exit = some (.failed, te) → T.manualFail = true) ∧
    (∀ ts, T.stopping ≠ some (.failed, ts)) ∧
    (∀ r, T.stopReq = some r → r = .manual ∨ ∃ ms, r = .exitAfter ms) :=
  let h := RT.init.steps (s := init) ops
  ⟨h.drained_src, h.failed_src, h.ps_nofail, h.req⟩

/-- The documented reason string (compared verbatim with what the real supervisor receives). -/
theorem reason_string (p : Nat) : (Reason.exitAfter p).render = "Exit after " ++ toString p ++ "ms" := rfl

/-! ### Round 4: boundary periods, dropped handles -/

/-- A timer whose period reaches beyond the present never acted (corollary of `never_early`; it is
what makes huge periods — `Duration::MAX`, `u64::MAX` µs — harmless: within any horizon the clock
reaches, such a timer does nothing). With period 0 the hypothesis is unsatisfiable, as it must be. -/
theorem beyond_horizon (ops : List Op) (τ : Timer) (hτ : τ ∈ (steps init ops).timers)
    (hlt : (steps init ops).now < τ.created + τ.period) : τ.sentAt = [] :=
  beyond_horizon' (Inv.init.steps ops) τ hτ hlt

/-- Period 0, one-shot timers (`send_after(0)`, `exit_after(0)`, `kill_after(0)`): for every schedule at
most one action, not before the API call (`never_early` at period 0 is `created ≤ t`, not vacuous:
the clock may have moved before the first poll); in a quiescent run a timer created on the
millisecond grid has acted — or was aborted — by the end of the macro op that created it. -/
theorem zero_period_oneshot (ms : List MOp) (τ : Timer) (hτ : τ ∈ (mrun init ms).timers)
    (hk : τ.kind.oneShot = true) (hz : τ.period = 0) :
    τ.sentAt.length ≤ 1 ∧ (∀ t ∈ τ.sentAt, τ.created ≤ t) ∧ (τ.created % 1000 = 0 → τ.res ≠ .pending) := by
  obtain ⟨ops, e⟩ := mrun_eq_steps init ms
  have h := oneShot_once_never_early' (e ▸ Inv.init.steps ops) τ hτ hk
  refine ⟨h.1, fun t ht => ?_, zero_oneshot_gone (BInv.init.mrun ms) τ hτ hk hz⟩
  have := h.2 t ht
  omega

/-- `send_interval(Duration::ZERO)`: `tokio::time::interval` panics inside the spawned task. For
every schedule such a timer never gets armed and never sends; only such a timer panics; the poll of
a pending one ends it with `panicked` and leaves the target alone; and at every quiescent point it
is gone (panicked, or aborted before its first poll). -/
theorem zero_interval_panics (ops : List Op) :
    (∀ τ ∈ (steps init ops).timers, τ.kind = .interval → τ.period = 0 → τ.sentAt = [] ∧ τ.armed = none) ∧
    (∀ τ ∈ (steps init ops).timers, τ.res = .panicked → τ.kind = .interval ∧ τ.period = 0) ∧
    (∀ i τ, (steps init ops).timers[i]? = some τ → τ.kind = .interval → τ.period = 0 → τ.res = .pending →
      (step (steps init ops) (.fire i)).timers[i]? = some (τ.finish .panicked (steps init ops).now) ∧
      (step (steps init ops) (.fire i)).target = (steps init ops).target) :=
  ⟨fun τ hτ => zero_interval' (Inv.init.steps ops) τ hτ,
   fun τ hτ => ((Inv.init.steps ops).tinv τ hτ).panic,
   fun i τ hi => zero_interval_fire _ i τ hi⟩

theorem zero_interval_gone_when_quiescent (ms : List MOp) (τ : Timer) (hτ : τ ∈ (mrun init ms).timers)
    (hk : τ.kind = .interval) (hz : τ.period = 0) : τ.res ≠ .pending :=
  zero_interval_gone (BInv.init.mrun ms) τ hτ hk hz

/-- Dropping `JoinHandle`s changes nothing anybody but the handle's owner can see: for every
schedule, the run with the drops and the run with the drops erased agree on the clock, the
target (mailbox, handled messages, exit, reason), every timer's whole history and result, and the
quiescent points — they differ only in the ghost set `dropped`. (The task is detached, not cancelled.) -/
theorem drop_handle_frame (ops : List Op) :
    (steps init ops).seen = steps init (ops.filter (fun o => !o.isDrop)) :=
  steps_seen ops init

/-- The same for the macro ops the harness executes: erase `dropHandle`, turn `advDrop d i` into
`adv d` — clock, target and timers are the same (only a quiescent point fewer is recorded). -/
theorem drop_handle_frame_macro (ms : List MOp) :
    (mrun init ms).now = (mrun init (undrop ms)).now ∧ (mrun init ms).target = (mrun init (undrop ms)).target ∧
      (mrun init ms).timers = (mrun init (undrop ms)).timers :=
  mrun_undrop ms ⟨rfl, rfl, rfl⟩

/-- The free functions called with an `ActorCell` and a message type that is not the target's
(`createX`): for every schedule the timer makes at most one attempt (the message builder runs once,
`send_message` answers `InvalidActorType`), a pending one has made none — so the interval's loop
was left through the `break` after its first tick —, and such a `send_after` never answers `Ok`.
(All other theorems — never early, at most once, abort, frames — hold for these timers as for any other.) -/
theorem mistyped_fails_once (ops : List Op) (τ : Timer) (hτ : τ ∈ (steps init ops).timers)
    (hty : τ.typed = false) (hs : τ.kind.sends = true) :
    (τ.res = .pending → τ.sentAt = []) ∧ τ.sentAt.length ≤ 1 ∧ (τ.kind = .sendAfter → τ.res ≠ .ok) :=
  mistyped' (Inv.init.steps ops) τ hτ hty hs

/-! ### Non-vacuity -/

/-- a mistyped interval ticks once, fails, leaves its loop (`ok`), nothing reaches the target, which
lives on; the mistyped send_after reports the error although the target is running -/
example : let s := mrun init [.createX .interval 3000, .createX .sendAfter 2000, .create .interval 3000, .adv 3000, .adv 3000]
    s.timers.map (fun τ => (τ.res, τ.sentAt)) = [(.ok, [3000]), (.err, [3000]), (.pending, [3000, 6000])] ∧
      s.target.handled = [(2, 1, 3000), (2, 2, 6000)] ∧ s.target.closedAt = none := by decide

/-- a LATE poll (small steps, not a quiescent run): the interval armed at 0 is not polled until 10.5 ms —
ticks 3, 6, 9 ms all complete in that one poll, the 4th (12 ms) is not due -/
example : let s := steps init [.create .interval 3000, .fire 0, .tick 10500, .fire 0]
    s.timers.map (fun τ => (τ.res, τ.sentAt)) = [(.pending, [10500, 10500, 10500])] ∧
      s.target.mbox = [(0, 1), (0, 2), (0, 3)] := by decide

/-- the target FAILS (its handler returns Err on a poison message) at 1 ms: no `post_stop` although the gate
is armed, the supervisor is told at once; the interval makes one failing attempt at its next tick and
ends, the `send_after` reports the error, a later `kill_after` finds nobody -/
example : let s := mrun init [.hold, .create .interval 3000, .create .sendAfter 2000, .create .killAfter 5000,
      .advFail 1000, .adv 2000, .adv 2000]
    s.target.exit = some (.failed, 1000) ∧ s.target.closedAt = some 1000 ∧ s.target.stopping = none ∧
      s.timers.map (fun τ => (τ.res, τ.sentAt)) = [(.ok, [3000]), (.err, [3000]), (.ok, [5000])] ∧
      s.target.handled = [] := by decide
/-- the poison cast right after moving the clock is handled before the time driver runs: the actor fails, the
exit_after then finds nobody -/
example : (mrun init [.create .exitAfter 1000, .advFail 1000]).target.exit = some (.failed, 1000) := by decide
example : (Reason.failed).render = "<failed> poison" := rfl

/-- a target still `Starting` (gated `post_start`): the messages of an interval and of a `send_after` are
accepted and queue up, an `exit_after` that fires only leaves its request; when the message loop
begins (10 ms) the stop request wins: nothing is handled, the actor exits with the timer's reason -/
example : let s := mrun init [.startHold, .create .interval 3000, .create .sendAfter 2000, .create .exitAfter 4000,
      .adv 3000, .adv 3000]
    s.target.mbox = [(0, 1), (1, 1), (0, 2)] ∧ s.target.handled = [] ∧ s.target.exit = none ∧
      s.timers.map (fun τ => (τ.res, τ.sentAt)) = [(.pending, [3000, 6000]), (.ok, [3000]), (.ok, [6000])] := by decide
example : let s := mrun init [.startHold, .create .interval 3000, .create .exitAfter 4000, .adv 3000, .adv 3000,
      .adv 4000, .started]
    s.target.exit = some (.exitAfter 4, 10000) ∧ s.target.handled = [] := by decide
/-- ... without a stop request the backlog is handled when the loop begins; a kill ends a Starting target at once -/
example : (mrun init [.startHold, .create .sendAfter 2000, .adv 3000, .adv 4000, .started]).target.handled
    = [(0, 1, 7000)] := by decide
example : (mrun init [.startHold, .create .killAfter 2000, .adv 2000]).target.exit = some (.killed, 2000) := by decide

/-- send_interval(0): panicked at the first poll, nothing sent, the target untouched; a later abort changes nothing -/
example : let s := mrun init [.create .interval 0, .adv 5000, .abort 0]
    s.timers.map (fun τ => (τ.res, τ.sentAt, τ.finAt)) = [(.panicked, [], some 0)] ∧ s.target.exit = none := by decide
/-- one-shots of period 0 act in the op that creates them; off the grid at the next boundary -/
example : let s := mrun init [.create .sendAfter 0, .create .exitAfter 0]
    s.timers.map (fun τ => (τ.res, τ.sentAt)) = [(.ok, [0]), (.ok, [0])] ∧ s.target.exit = some (.exitAfter 0, 0) := by decide
example : let s := mrun init [.adv 1500, .create .killAfter 0]
    s.timers.map (·.res) = [.pending] ∧ s.target.exit = none := by decide
/-- a period beyond the horizon: Duration::MAX in µs, an hour later nothing has happened -/
example : let s := mrun init [.create .sendAfter 18446744073709551615999999, .create .interval 18446744073709551615, .adv 3600000000]
    s.timers.map (fun τ => (τ.res, τ.sentAt)) = [(.pending, []), (.pending, [])] := by decide
/-- drop vs abort at the deadline (clock moved, task not yet polled): the dropped one fires, the aborted one does not -/
example : let s := mrun init [.create .sendAfter 5000, .create .sendAfter 5000, .advDrop 5000 0, .abort 1]
    s.timers.map (fun τ => (τ.res, τ.sentAt)) = [(.ok, [5000]), (.ok, [5000])] ∧ s.dropped = [0] := by decide
example : let s := mrun init [.create .sendAfter 5000, .create .sendAfter 5000, .dropHandle 0, .advAbort 5000 1]
    s.timers.map (fun τ => (τ.res, τ.sentAt)) = [(.ok, [5000]), (.cancelled, [])] ∧ s.target.handled = [(0, 1, 5000)] := by decide
example : undrop [.create .sendAfter 5000, .dropHandle 0, .advDrop 5000 0] = [.create .sendAfter 5000, .adv 5000] := rfl

/-- an interval of 3 ms over quiescent points 0,3,6,8,9,19 ms: messages at 3, 6, 9, then a burst of three at 19 -/
example : ((mrun init [.create .interval 3000, .adv 3000, .adv 3000, .adv 2000, .adv 1000, .adv 10000]).timers.map (·.sentAt))
    = [[3000, 6000, 9000, 19000, 19000, 19000]] := by decide

/-- sub-millisecond periods: exit_after(2500 µs) is still pending at 2 ms and stops the actor at 3 ms
with the (truncated) reason "Exit after 2ms"; exit_after(900 µs) does not fire at 0 -/
example : let s := mrun init [.create .exitAfter 2500, .adv 2000]
    s.timers.map (·.res) = [.pending] ∧ s.target.exit = none := by decide
example : (mrun init [.create .exitAfter 2500, .adv 2000, .adv 1000]).target.exit = some (.exitAfter 2, 3000) := by decide
example : (Reason.exitAfter 2).render = "Exit after 2ms" := by decide
example : let s := mrun init [.create .exitAfter 900, .adv 500, .adv 500]
    s.timers.map (·.sentAt) = [[1000]] ∧ s.target.exit = some (.exitAfter 0, 1000) := by decide

/-- an interval of 300 µs: its ticks at 300, 600, 900 µs all complete at the 1 ms boundary, the 4th
(1200 µs) at 2 ms; a timer created at 1.5 ms for 700 µs (exact 2.2 ms) fires at 3 ms -/
example : ((mrun init [.create .interval 300, .adv 500, .adv 500, .adv 1000]).timers.map (·.sentAt))
    = [[1000, 1000, 1000, 2000, 2000, 2000]] := by decide
example : ((mrun init [.adv 1500, .create .sendAfter 700, .adv 500, .adv 500, .adv 500]).timers.map (·.sentAt))
    = [[3000]] := by decide

/-- the "immediate" first tick of `interval()` is rounded up too: created at 5.001 ms for a dead
target, the task passes its loop head (and ends) only at 6 ms -/
example : let s := mrun init [.kill, .adv 5001, .create .interval 700]
    s.timers.map (·.res) = [.pending] := by decide
example : let s := mrun init [.kill, .adv 5001, .create .interval 700, .adv 999]
    s.timers.map (fun τ => (τ.res, τ.sentAt)) = [(.ok, [])] := by decide

/-- send_after racing kill_after at the same instant: the send is accepted (handle `ok`), the
target dies "killed" without handling it -/
example : let s := mrun init [.create .sendAfter 5000, .create .killAfter 5000, .adv 5000]
    s.timers.map (·.res) = [.ok, .ok] ∧ s.target.exit = some (.killed, 5000) ∧ s.target.handled = [] := by decide

/-- abort at the boundary (clock already at the deadline, task not yet polled): nothing is sent -/
example : let s := mrun init [.create .sendAfter 5000, .advAbort 5000 0, .adv 1000]
    s.timers.map (·.res) = [.cancelled] ∧ s.timers.map (·.sentAt) = [[]] := by decide

/-- a dead target: send_after reports the error, the interval makes one failing attempt and ends -/
example : let s := mrun init [.create .interval 3000, .create .sendAfter 4000, .adv 3000, .kill, .adv 3000]
    s.timers.map (·.res) = [.ok, .err] ∧ s.timers.map (·.sentAt) = [[3000, 6000], [6000]]
      ∧ s.target.handled = [(0, 1, 3000)] := by decide

/-- the target sits in a gated `post_stop` from 1 ms on (stopped, not gone): the interval makes one
failing attempt at its next tick and ends, a `send_after` created in that window reports the error,
`exit` appears only when `post_stop` is released (8 ms), with the reason of the stop -/
example : let s := mrun init [.create .interval 3000, .hold, .adv 1000, .stop, .create .sendAfter 2000, .adv 2000, .adv 4000]
    s.timers.map (fun τ => (τ.res, τ.sentAt)) = [(.ok, [3000]), (.err, [3000])] ∧
      s.target.closedAt = some 1000 ∧ s.target.stopping = some (.manual, 1000) ∧ s.target.exit = none := by decide
example : let s := mrun init [.create .interval 3000, .hold, .adv 1000, .stop, .adv 7000, .psrelease]
    s.target.exit = some (.manual, 8000) ∧ s.target.closedAt = some 1000 ∧ s.target.stopping = none := by decide
/-- a kill that arrives during `post_stop` cancels it: the reason becomes "killed" -/
example : let s := mrun init [.hold, .stop, .create .killAfter 2000, .adv 2000]
    s.target.exit = some (.killed, 2000) ∧ s.target.closedAt = some 0 := by decide
/-- a kill skips `post_stop` altogether -/
example : (mrun init [.hold, .adv 1000, .kill]).target.exit = some (.killed, 1000) := by decide

/-- exit_after with the documented reason -/
example : (mrun init [.create .exitAfter 7000, .adv 7000]).target.exit = some (.exitAfter 7, 7000) := by decide

/-! ### E-SRC, async-std backend (round 4)

The model's clock axioms are written after tokio (`sleep`, `interval` with the Burst behaviour). With
`--features async-std` ractor's `sleep` / `interval` are the ones of `async_std_primitives.rs`; these obligations
pin the source shape the free-running oracle run `as-free` relies on: `sleep(d)` forwards `d` unchanged to
`async_std::task::sleep`; `interval(d)` ticks first at once (`next_tick = now`), a tick reads the clock, sleeps the
remaining time only if the tick lies in the future and then moves the schedule by exactly `d`
(`next_tick += dur`: fixed rate, the k-th tick at `start + k·d`, late ticks are caught up in a burst). -/
theorem src_async_std_sleep : Extracted.asyncStdSleepBody = "async_std::task::sleep(dur).await;" := by decide
theorem src_async_std_interval :
    Extracted.asyncStdIntervalInit = "dur,next_tick:Instant::now(),"
    ∧ Extracted.asyncStdIntervalTickSteps =
        ["letnow=Instant::now()", "ifself.next_tick>now", "sleep(self.next_tick-now).await", "self.next_tick+=self.dur"]
    ∧ Extracted.asyncStdIntervalTickStatements = 4 := by decide

end C12

#print axioms C12.wheel_rounds_up
#print axioms C12.ok_all
#print axioms C12.ok_quiescent
#print axioms C12.oneShot_once_never_early
#print axioms C12.never_early
#print axioms C12.sendAfter_fires
#print axioms C12.finished_frozen
#print axioms C12.abort_prevents
#print axioms C12.closed_form
#print axioms C12.interval_dies_with_target
#print axioms C12.handle_reports_send
#print axioms C12.exit_reason
#print axioms C12.reason_string
#print axioms C12.exit_reason_sources
#print axioms C12.beyond_horizon
#print axioms C12.zero_period_oneshot
#print axioms C12.zero_interval_panics
#print axioms C12.zero_interval_gone_when_quiescent
#print axioms C12.drop_handle_frame
#print axioms C12.drop_handle_frame_macro
#print axioms C12.mistyped_fails_once
#print axioms C12.delivered_at_most_once
#print axioms C12.oneShot_handled_once
#print axioms C12.delivers_nothing_after_close
#print axioms C12.delivered_exactly_once
#print axioms C12.interval_fires
#print axioms C12.exitAfter_fires
#print axioms C12.killAfter_fires
#print axioms C12.exit_after_stops
#print axioms C12.acted_then_requested
#print axioms C12.acted_then_gone
#print axioms C12.src_async_std_sleep
#print axioms C12.src_async_std_interval
