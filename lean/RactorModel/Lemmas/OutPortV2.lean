import RactorModel.Model.OutPort

/-!
Invariant of the v2 output port machine (`OutPort.V2`), for every schedule of
publish / subscribe / subscriber exit / port-task steps.
-/

namespace OutPort
variable {M O : Type}

/-! ### lists of commands -/

theorem datas_append (a b : List (Cmd M O)) : datas (a ++ b) = datas a ++ datas b := by
  simp [datas, List.filterMap_append]

theorem datas_map_data (l : List M) : datas (l.map (Cmd.data (O := O))) = l := by
  induction l with
  | nil => rfl
  | cons a l ih => simp_all [datas, Cmd.data?]

@[simp] theorem datas_nil : datas ([] : List (Cmd M O)) = [] := rfl
@[simp] theorem datas_data_cons (m : M) (l : List (Cmd M O)) : datas (.data m :: l) = m :: datas l := rfl
@[simp] theorem datas_sub_cons (s : Sub M O) (l : List (Cmd M O)) : datas (.sub s :: l) = datas l := rfl

theorem spanData_eq (l : List (Cmd M O)) :
    l = (spanData l).1.map .data ++ (spanData l).2 := by
  induction l with
  | nil => simp [spanData]
  | cons c r ih =>
    cases c with
    | data m => simp only [spanData, List.map_cons, List.cons_append]; rw [← ih]
    | sub s => simp [spanData]

theorem cmdSubs_append (a b : List (Cmd M O)) : cmdSubs (a ++ b) = cmdSubs a ++ cmdSubs b := by
  simp [cmdSubs, List.filterMap_append]

theorem cmdSubs_map_data (l : List M) : cmdSubs (l.map (Cmd.data (O := O))) = [] := by
  induction l with
  | nil => rfl
  | cons a l ih => simp_all [cmdSubs]

@[simp] theorem cmdSubs_nil : cmdSubs ([] : List (Cmd M O)) = [] := rfl
@[simp] theorem cmdSubs_data_cons (m : M) (l : List (Cmd M O)) : cmdSubs (.data m :: l) = cmdSubs l := rfl
@[simp] theorem cmdSubs_sub_cons (s : Sub M O) (l : List (Cmd M O)) : cmdSubs (.sub s :: l) = s :: cmdSubs l := rfl

theorem mem_cmdSubs {s : Sub M O} {l : List (Cmd M O)} : s ∈ cmdSubs l ↔ Cmd.sub s ∈ l := by
  induction l with
  | nil => simp
  | cons c r ih => cases c <;> simp [ih]

/-- every `SetSubscriber` entry of `l` sits at the history index recorded in it and is fresh -/
def placed : Nat → List (Cmd M O) → Prop
  | _, [] => True
  | n, .data _ :: r => placed (n + 1) r
  | n, .sub s :: r => (s.pos = n ∧ s.offered = [] ∧ s.got = []) ∧ placed (n + 1) r

theorem placed_append (n : Nat) (a b : List (Cmd M O)) :
    placed n (a ++ b) ↔ placed n a ∧ placed (n + a.length) b := by
  induction a generalizing n with
  | nil => simp [placed]
  | cons c r ih =>
    cases c with
    | data m => simp only [List.cons_append, placed, ih, List.length_cons]; rw [show n + 1 + r.length = n + (r.length + 1) by omega]
    | sub s => simp only [List.cons_append, placed, ih, List.length_cons]; rw [show n + 1 + r.length = n + (r.length + 1) by omega]; grind

theorem placed_map_data (n : Nat) (l : List M) : placed n (l.map (Cmd.data (O := O))) := by
  induction l generalizing n with
  | nil => trivial
  | cons a l ih => exact ih _

/-! ### the invariant -/

/-- `s` has been offered every data message of the processed prefix `P` after its own
entry, plus `extra` (the current segment, once served). -/
def SubOk (P : List (Cmd M O)) (extra : List M) (s : Sub M O) : Prop :=
  s.pos < P.length ∧ s.offered = datas (P.drop (s.pos + 1)) ++ extra ∧
    s.got = s.offered.filterMap s.conv

def TodoOk (P : List (Cmd M O)) (seg left : List M) : List (Sub M O) → Prop
  | [] => True
  | s :: t => (s.pos < P.length ∧ s.offered ++ left = datas (P.drop (s.pos + 1)) ++ seg ∧
      s.got = s.offered.filterMap s.conv) ∧ ∀ s' ∈ t, SubOk P [] s'

/-- the subscription was dropped at the message following what it had been offered (it could
not be sent, or was skipped while the subscriber no longer accepted messages) -/
def Rejected (h : List (Cmd M O)) (s : Sub M O) : Prop :=
  ∃ m tl, datas (h.drop (s.pos + 1)) = s.offered ++ m :: tl

def GoneOk (allowDup : Bool) (dead : List Nat) (h : List (Cmd M O)) (s : Sub M O) : Prop :=
  s.pos < h.length ∧ s.offered <+: datas (h.drop (s.pos + 1)) ∧
    s.got = s.offered.filterMap s.conv ∧ (allowDup = true → s.actor ∈ dead ∧ Rejected h s)

structure View (M O : Type) where
  srv : List (Sub M O)
  todo : List (Sub M O)
  seg : List M
  left : List M
  rest : List (Cmd M O)

def Pc.view : Pc M O → View M O
  | .top s => ⟨s, [], [], [], []⟩
  | .wait s _ => ⟨s, [], [], [], []⟩
  | .disp a b c d e => ⟨a, b, c, d, e⟩

@[simp] theorem view_top (s : List (Sub M O)) : (Pc.top s).view = ⟨s, [], [], [], []⟩ := rfl
@[simp] theorem view_wait (s : List (Sub M O)) (l : Nat) : (Pc.wait s l).view = ⟨s, [], [], [], []⟩ := rfl
@[simp] theorem view_disp (a b : List (Sub M O)) (c d : List M) (e : List (Cmd M O)) :
    (Pc.disp a b c d e).view = ⟨a, b, c, d, e⟩ := rfl

structure InvC (allowDup : Bool) (dead : List Nat) (hist queue : List (Cmd M O)) (pc : Pc M O)
    (gone : List (Sub M O)) (P : List (Cmd M O)) : Prop where
  hHist : hist = P ++ (pc.view.seg.map .data ++ (pc.view.rest ++ queue))
  hPlaced : placed (P.length + pc.view.seg.length) (pc.view.rest ++ queue)
  hSrv : ∀ s ∈ pc.view.srv, SubOk P pc.view.seg s
  hTodo : TodoOk P pc.view.seg pc.view.left pc.view.todo
  hGone : ∀ s ∈ gone, GoneOk allowDup dead hist s

def Inv (st : V2 M O) : Prop :=
  ∃ P, InvC st.allowDup st.dead st.hist st.queue st.pc st.gone P

theorem inv_init (ad : Bool) : Inv (V2.init M O ad) :=
  ⟨[], ⟨by simp [V2.init, Pc.view], by simp [V2.init, Pc.view, placed], by simp [V2.init, Pc.view],
    by simp [V2.init, Pc.view, TodoOk], by simp [V2.init]⟩⟩

/-! ### stability of the per-subscription facts when the history grows -/

theorem drop_succ_append {P X : List (Cmd M O)} {p : Nat} (h : p < P.length) :
    (P ++ X).drop (p + 1) = P.drop (p + 1) ++ X :=
  List.drop_append_of_le_length (by omega)

theorem GoneOk.mono {ad : Bool} {dead dead' : List Nat} {h X : List (Cmd M O)} {s : Sub M O}
    (hd : ∀ a ∈ dead, a ∈ dead') (g : GoneOk ad dead h s) : GoneOk ad dead' (h ++ X) s := by
  obtain ⟨hp, hpre, hg, hr⟩ := g
  refine ⟨by simp; omega, ?_, hg, fun ha => ?_⟩
  · rw [drop_succ_append hp, datas_append]
    exact hpre.trans (List.prefix_append _ _)
  · obtain ⟨hdead, m, tl, he⟩ := hr ha
    refine ⟨hd _ hdead, m, tl ++ datas X, ?_⟩
    rw [drop_succ_append hp, datas_append, he]; simp

/-- a subscription that is up to date w.r.t. `P`/`extra` has received a prefix of what is due -/
theorem SubOk.prefix {P X : List (Cmd M O)} {extra : List M} {s : Sub M O}
    (h : SubOk P extra s) : s.offered <+: datas ((P ++ (extra.map Cmd.data ++ X)).drop (s.pos + 1)) := by
  obtain ⟨hp, ho, _⟩ := h
  rw [drop_succ_append hp, datas_append, datas_append, datas_map_data, ho, ← List.append_assoc]
  exact List.prefix_append _ _

theorem SubOk.shift {P : List (Cmd M O)} {extra : List M} {s : Sub M O} (X : List (Cmd M O))
    (hX : datas X = []) (h : SubOk P extra s) : SubOk (P ++ (extra.map Cmd.data ++ X)) [] s := by
  obtain ⟨hp, ho, hg⟩ := h
  refine ⟨by simp; omega, ?_, hg⟩
  rw [drop_succ_append hp, datas_append, datas_append, datas_map_data, hX, ho]; simp

theorem todoOk_of_all {P : List (Cmd M O)} {seg : List M} {l : List (Sub M O)}
    (h : ∀ s ∈ l, SubOk P [] s) : TodoOk P seg seg l := by
  cases l with
  | nil => trivial
  | cons s t =>
    obtain ⟨hp, ho, hg⟩ := h s (by simp)
    exact ⟨⟨hp, by rw [ho]; simp, hg⟩, fun s' hs' => h s' (by simp [hs'])⟩

theorem spanData_eq' {l : List (Cmd M O)} {seg : List M} {rest : List (Cmd M O)}
    (h : spanData l = (seg, rest)) : l = seg.map Cmd.data ++ rest := by
  have := spanData_eq l
  rw [h] at this; exact this

theorem applySub_mem {ad : Bool} {subs : List (Sub M O)} {s x : Sub M O}
    (h : x ∈ (applySub ad subs s).1) : x = s ∨ x ∈ subs := by
  unfold applySub at h
  split at h
  · simp at h; exact h.symm
  · split at h
    · exact (List.mem_or_eq_of_mem_set h).symm
    · simp at h; exact h.symm

theorem applySub_old {ad : Bool} {subs : List (Sub M O)} {s x : Sub M O}
    (h : (applySub ad subs s).2 = some x) : ad = false ∧ x ∈ subs := by
  unfold applySub at h
  split at h
  · simp at h
  · split at h
    · exact ⟨by simpa using ‹¬ad = true›, List.mem_of_getElem? h⟩
    · simp at h

/-- Entering the next segment of a batch preserves the invariant. -/
theorem nextSeg_inv {ad : Bool} {dead : List Nat} {hist P : List (Cmd M O)} {seg0 : List M}
    {srv gone : List (Sub M O)} (b q : List (Cmd M O))
    (hH : hist = P ++ (seg0.map Cmd.data ++ (b ++ q)))
    (hP : placed (P.length + seg0.length) (b ++ q))
    (hS : ∀ s ∈ srv, SubOk P seg0 s)
    (hG : ∀ s ∈ gone, GoneOk ad dead hist s) :
    ∃ P', InvC ad dead hist q (nextSeg ad srv gone b).1 (nextSeg ad srv gone b).2 P' := by
  cases b with
  | nil =>
    refine ⟨P ++ seg0.map Cmd.data, ⟨?_, ?_, ?_, trivial, hG⟩⟩
    · simpa [nextSeg, Pc.view] using hH
    · simpa [nextSeg, Pc.view] using hP
    · intro s hs
      have := (hS s hs).shift [] rfl
      simpa [nextSeg, Pc.view] using this
  | cons c r =>
    cases c with
    | data m =>
      rcases hsp : spanData (Cmd.data m :: r) with ⟨seg, rest⟩
      have hb := spanData_eq' hsp
      simp only [nextSeg, hsp]
      rw [hb] at hH hP
      refine ⟨P ++ seg0.map Cmd.data, ⟨?_, ?_, ?_, ?_, hG⟩⟩
      · rw [hH]; simp
      · rw [List.append_assoc, placed_append] at hP
        simpa [Nat.add_assoc] using hP.2
      · simp
      · apply todoOk_of_all
        intro s hs
        have := (hS s hs).shift [] rfl
        simpa using this
    | sub s =>
      rcases hsp : spanData r with ⟨seg, rest⟩
      have hb := spanData_eq' hsp
      obtain ⟨⟨hpos, hoff, hgot⟩, hP'⟩ := hP
      simp only [nextSeg, hsp]
      subst hb
      refine ⟨P ++ (seg0.map Cmd.data ++ [Cmd.sub s]), ⟨?_, ?_, ?_, ?_, ?_⟩⟩
      · rw [hH]; simp
      · have hP'' : placed (P.length + seg0.length + 1) (seg.map Cmd.data ++ (rest ++ q)) := by
          simpa using hP'
        rw [placed_append] at hP''
        have := hP''.2
        simp only [List.length_map] at this
        simpa [Nat.add_assoc, Nat.add_comm, Nat.add_left_comm] using this
      · simp
      · apply todoOk_of_all
        intro x hx
        rcases applySub_mem hx with rfl | hx
        · refine ⟨by simp; omega, ?_, by simp [hoff, hgot]⟩
          rw [hoff, List.drop_of_length_le (by simp; omega)]; rfl
        · exact (hS x hx).shift [Cmd.sub s] rfl
      · intro x hx
        rcases List.mem_append.mp hx with hx | hx
        · exact hG x hx
        · have hx' : (applySub ad srv s).2 = some x := by
            cases h : (applySub ad srv s).2 with
            | none => rw [h] at hx; simp at hx
            | some y => rw [h] at hx; simp at hx; rw [hx]
          obtain ⟨had, hmem⟩ := applySub_old hx'
          have hok := hS x hmem
          refine ⟨?_, ?_, hok.2.2, fun h => by simp [had] at h⟩
          · rw [hH]; have := hok.1; simp; omega
          · rw [hH]; exact hok.prefix

/-! ### every operation preserves the invariant -/

theorem inv_publish {st : V2 M O} (m : M) (h : Inv st) : Inv (st.publish m) := by
  obtain ⟨P, hH, hP, hS, hT, hG⟩ := h
  refine ⟨P, ⟨?_, ?_, hS, hT, ?_⟩⟩
  · simp only [V2.publish]; rw [hH]; simp
  · simp only [V2.publish]
    rw [← List.append_assoc, placed_append]
    exact ⟨hP, by simp [placed]⟩
  · intro s hs
    exact (hG s hs).mono (fun _ h => h)

theorem inv_subscribe {st : V2 M O} (a : Nat) (c : M → Option O) (h : Inv st) :
    Inv (st.subscribe a c) := by
  obtain ⟨P, hH, hP, hS, hT, hG⟩ := h
  refine ⟨P, ⟨?_, ?_, hS, hT, ?_⟩⟩
  · simp only [V2.subscribe]; rw [hH]; simp
  · simp only [V2.subscribe]
    rw [← List.append_assoc, placed_append]
    refine ⟨hP, ⟨?_, rfl, rfl⟩, trivial⟩
    simp only; rw [hH]; simp; omega
  · intro s hs
    exact (hG s hs).mono (fun _ h => h)

theorem inv_exit {st : V2 M O} (a : Nat) (h : Inv st) : Inv { st with dead := a :: st.dead } := by
  obtain ⟨P, hH, hP, hS, hT, hG⟩ := h
  refine ⟨P, ⟨hH, hP, hS, hT, ?_⟩⟩
  intro s hs
  have := (hG s hs).mono (X := []) (dead' := a :: st.dead) (fun _ h => List.mem_cons_of_mem _ h)
  simpa using this

theorem inv_task {st : V2 M O} (h : Inv st) : Inv st.task.1 := by
  obtain ⟨P, hH, hP, hS, hT, hG⟩ := h
  unfold V2.task
  split
  · -- top
    rename_i subs hpc
    rw [hpc] at hH hP hS hT
    simp only [view_top] at hH hP hS hT
    split
    · exact ⟨P, ⟨by simpa [hpc] using hH, by simpa using hP, by simpa using hS, trivial, hG⟩⟩
    · have hq : st.queue = st.queue.take (max 1 (min st.queue.length maxBatch)) ++
          st.queue.drop (max 1 (min st.queue.length maxBatch)) := (List.take_append_drop _ _).symm
      obtain ⟨P', hI⟩ := nextSeg_inv (ad := st.allowDup) (dead := st.dead) (seg0 := [])
        (srv := subs) (gone := st.gone) (st.queue.take (max 1 (min st.queue.length maxBatch)))
        (st.queue.drop (max 1 (min st.queue.length maxBatch)))
        (by rw [← hq]; simpa using hH) (by rw [← hq]; simpa using hP) hS hG
      exact ⟨P', hI⟩
  · -- wait
    rename_i subs l hpc
    rw [hpc] at hH hP hS hT
    simp only [view_wait] at hH hP hS hT
    split
    · exact ⟨P, ⟨by simpa [hpc] using hH, by simpa [hpc] using hP, by simpa [hpc] using hS, by simp [hpc, TodoOk], hG⟩⟩
    · have hq : st.queue = st.queue.take l ++ st.queue.drop l := (List.take_append_drop _ _).symm
      obtain ⟨P', hI⟩ := nextSeg_inv (ad := st.allowDup) (dead := st.dead) (seg0 := [])
        (srv := subs) (gone := st.gone) (st.queue.take l) (st.queue.drop l)
        (by rw [← hq]; simpa using hH) (by rw [← hq]; simpa using hP) hS hG
      exact ⟨P', hI⟩
  · -- segment served by everybody
    rename_i srv seg left rest hpc
    rw [hpc] at hH hP hS hT
    simp only [view_disp] at hH hP hS hT
    obtain ⟨P', hI⟩ := nextSeg_inv (ad := st.allowDup) (dead := st.dead) (seg0 := seg)
      (srv := srv) (gone := st.gone) rest st.queue hH hP hS hG
    exact ⟨P', hI⟩
  · -- subscriber retained
    rename_i srv s todo seg rest hpc
    rw [hpc] at hH hP hS hT
    simp only [view_disp] at hH hP hS hT
    obtain ⟨⟨hp, ho, hg⟩, hrest⟩ := hT
    refine ⟨P, ⟨by simpa using hH, by simpa using hP, ?_, ?_, hG⟩⟩
    · intro x hx
      simp only [view_disp] at hx
      rcases List.mem_append.mp hx with hx | hx
      · exact hS x hx
      · simp at hx; subst hx
        exact ⟨hp, by simpa using ho, hg⟩
    · simpa using todoOk_of_all hrest
  · -- one `Subscriber::send`
    rename_i srv s todo seg m left rest hpc
    rw [hpc] at hH hP hS hT
    simp only [view_disp] at hH hP hS hT
    obtain ⟨⟨hp, ho, hg⟩, hrest⟩ := hT
    -- the subscriber is removed: failed send, or skipped while no longer accepting messages
    have removed : st.dead.contains s.actor = true →
        Inv { st with pc := .disp srv todo seg seg rest, gone := st.gone ++ [s] } := by
      intro hdead
      refine ⟨P, ⟨by simpa using hH, by simpa using hP, by simpa using hS, ?_, ?_⟩⟩
      · simpa using todoOk_of_all hrest
      · intro x hx
        rcases List.mem_append.mp hx with hx | hx
        · exact hG x hx
        · simp at hx; subst hx
          have hd : datas (st.hist.drop (x.pos + 1)) =
              x.offered ++ m :: (left ++ (datas rest ++ datas st.queue)) := by
            rw [hH, drop_succ_append hp, datas_append, datas_append, datas_map_data,
              datas_append, ← List.append_assoc, ← ho]; simp
          refine ⟨by rw [hH]; simp; omega, ?_, hg, fun _ => ⟨?_, m, _, hd⟩⟩
          · rw [hd]; exact List.prefix_append _ _
          · simpa using hdead
    split
    · -- converter says None
      rename_i hc
      split
      · rename_i hdead; exact removed hdead
      · refine ⟨P, ⟨by simpa using hH, by simpa using hP, by simpa using hS, ?_, hG⟩⟩
        simp only [view_disp, TodoOk]
        refine ⟨⟨hp, ?_, ?_⟩, hrest⟩
        · rw [← ho]; simp
        · rw [hg]; simp [List.filterMap_append, hc]
    · rename_i o hc
      split
      · rename_i hdead; exact removed hdead
      · -- delivered
        refine ⟨P, ⟨by simpa using hH, by simpa using hP, by simpa using hS, ?_, hG⟩⟩
        simp only [view_disp, TodoOk]
        refine ⟨⟨hp, ?_, ?_⟩, hrest⟩
        · rw [← ho]; simp
        · rw [hg]; simp [List.filterMap_append, hc]

theorem inv_step {st : V2 M O} (op : Op2 M O) (h : Inv st) : Inv (st.step op) := by
  cases op with
  | publish m => exact inv_publish m h
  | subscribe a c => exact inv_subscribe a c h
  | exit a => exact inv_exit a h
  | task => exact inv_task h

theorem inv_run {st : V2 M O} (ops : List (Op2 M O)) (h : Inv st) : Inv (st.run ops) := by
  induction ops generalizing st with
  | nil => exact h
  | cons op ops ih => exact ih (inv_step op h)

/-! ### consequences of the invariant -/

theorem fresh_of_placed {s : Sub M O} (n : Nat) (l : List (Cmd M O)) :
    placed n l → s ∈ cmdSubs l → s.offered = [] ∧ s.got = [] := by
  induction l generalizing n with
  | nil => simp
  | cons c r ih =>
    cases c with
    | data m => intro hp hm; exact ih _ hp (by simpa using hm)
    | sub x =>
      intro hp hm
      simp only [cmdSubs_sub_cons, List.mem_cons] at hm
      rcases hm with rfl | hm
      · exact ⟨hp.1.2.1, hp.1.2.2⟩
      · exact ih _ hp.2 hm

theorem Pc.rest_eq_view (pc : Pc M O) : pc.rest = pc.view.rest := by cases pc <;> rfl

theorem Inv.prefix {st : V2 M O} (h : Inv st) :
    ∀ s ∈ st.all, s.got = s.offered.filterMap s.conv ∧ s.offered <+: st.after s := by
  intro s hs
  obtain ⟨P, hH, hP, hS, hT, hG⟩ := h
  simp only [V2.all, List.mem_append] at hs
  have hq : ∀ n l, placed n l → s ∈ cmdSubs l →
      s.got = s.offered.filterMap s.conv ∧ s.offered <+: st.after s := by
    intro n l hn hm
    obtain ⟨h1, h2⟩ := fresh_of_placed n l hn hm
    simp [h1, h2]
  have hsub : ∀ extra tl, SubOk P extra s → st.pc.view.seg = extra ++ tl →
      s.got = s.offered.filterMap s.conv ∧ s.offered <+: st.after s := by
    intro extra tl hok hpre
    obtain ⟨hp, ho, hg⟩ := hok
    refine ⟨hg, ?_⟩
    simp only [V2.after]
    rw [hH, drop_succ_append hp, datas_append, datas_append, datas_map_data, ho, hpre,
      List.append_assoc, ← List.append_assoc]
    exact List.prefix_append _ _
  rw [placed_append] at hP
  rcases hs with ((hs | hs) | hs) | hs
  · -- in the task's `subscribers`
    cases hpc : st.pc with
    | top subs =>
      rw [hpc] at hS hs; simp only [Pc.subs] at hs
      exact hsub [] [] (by simpa using hS s hs) (by simp [hpc])
    | wait subs l =>
      rw [hpc] at hS hs; simp only [Pc.subs] at hs
      exact hsub [] [] (by simpa using hS s hs) (by simp [hpc])
    | disp srv todo seg left rest =>
      rw [hpc] at hS hT hs hH
      simp only [Pc.subs, List.mem_append] at hs
      simp only [view_disp] at hS hT hH
      rcases hs with hs | hs
      · exact hsub seg [] (hS s hs) (by simp [hpc])
      · cases todo with
        | nil => simp at hs
        | cons x t =>
          obtain ⟨⟨hp, ho, hg⟩, hrest⟩ := hT
          simp only [List.mem_cons] at hs
          rcases hs with rfl | hs
          · refine ⟨hg, ?_⟩
            simp only [V2.after]
            rw [hH, drop_succ_append hp, datas_append, datas_append, datas_map_data,
              ← List.append_assoc, ← ho, List.append_assoc]
            exact List.prefix_append _ _
          · exact hsub [] seg (hrest s hs) (by simp [hpc])
  · obtain ⟨_, hpre, hg, _⟩ := hG s hs
    exact ⟨hg, hpre⟩
  · rw [Pc.rest_eq_view] at hs; exact hq _ _ hP.1 hs
  · exact hq _ _ hP.2 hs

theorem Inv.exact {st : V2 M O} (h : Inv st) (hidle : st.idle = true) :
    ∀ s ∈ st.live, s.got = (st.after s).filterMap s.conv := by
  intro s hs
  obtain ⟨P, hH, hP, hS, hT, hG⟩ := h
  simp only [V2.idle, Bool.and_eq_true, List.isEmpty_iff] at hidle
  obtain ⟨hq, hpc⟩ := hidle
  simp only [V2.live] at hs
  have key : ∀ subs, st.pc.view = ⟨subs, [], [], [], []⟩ → s ∈ subs →
      s.got = (st.after s).filterMap s.conv := by
    intro subs hv hm
    rw [hv] at hS hH
    obtain ⟨hp, ho, hg⟩ := hS s hm
    simp only [V2.after]
    rw [hg, ho, hH, hq]; simp
  cases h : st.pc with
  | top subs => rw [h] at hs; exact key subs (by rw [h]; rfl) hs
  | wait subs l => rw [h] at hs; exact key subs (by rw [h]; rfl) hs
  | disp a b c d e => rw [h] at hpc; simp at hpc

theorem Inv.removed {st : V2 M O} (h : Inv st) (had : st.allowDup = true) :
    ∀ s ∈ st.gone, s.actor ∈ st.dead ∧
      ∃ m tl, st.after s = s.offered ++ m :: tl ∧
        s.got = s.offered.filterMap s.conv := by
  intro s hs
  obtain ⟨P, hH, hP, hS, hT, hG⟩ := h
  obtain ⟨_, _, hg, hr⟩ := hG s hs
  obtain ⟨hd, m, tl, he⟩ := hr had
  exact ⟨hd, m, tl, he, hg⟩

/-- when the task is parked every subscription is in `subscribers` or was removed -/
theorem all_idle {st : V2 M O} (hidle : st.idle = true) {s : Sub M O} (hs : s ∈ st.all) :
    s ∈ st.live ∨ s ∈ st.gone := by
  simp only [V2.idle, Bool.and_eq_true, List.isEmpty_iff] at hidle
  obtain ⟨hq, hpc⟩ := hidle
  simp only [V2.all, List.mem_append, hq, cmdSubs_nil, List.not_mem_nil, or_false] at hs
  rcases hs with (hs | hs) | hs
  · exact Or.inl hs
  · exact Or.inr hs
  · cases h : st.pc with
    | disp a b c d e => rw [h] at hpc; simp at hpc
    | top _ => rw [h] at hs; simp [Pc.rest] at hs
    | wait _ _ => rw [h] at hs; simp [Pc.rest] at hs

theorem task_allowDup (st : V2 M O) : st.task.1.allowDup = st.allowDup := by
  unfold V2.task
  split <;> (try split) <;> (try split) <;> rfl

theorem step_allowDup (st : V2 M O) (op : Op2 M O) : (st.step op).allowDup = st.allowDup := by
  cases op <;> simp [V2.step, V2.publish, V2.subscribe, task_allowDup]

theorem run_allowDup (st : V2 M O) (ops : List (Op2 M O)) : (st.run ops).allowDup = st.allowDup := by
  induction ops generalizing st with
  | nil => rfl
  | cons op ops ih => simp only [V2.run, List.foldl_cons] at ih ⊢; rw [ih, step_allowDup]

theorem task_hist (st : V2 M O) : st.task.1.hist = st.hist := by
  unfold V2.task
  split <;> (try split) <;> (try split) <;> rfl

def opShape : Op2 M O → Option (Option M)
  | .publish m => some (some m)
  | .subscribe _ _ => some none
  | _ => none

theorem hist_run' (st : V2 M O) (ops : List (Op2 M O)) :
    (st.run ops).hist.map Cmd.data? = st.hist.map Cmd.data? ++ ops.filterMap opShape := by
  induction ops generalizing st with
  | nil => simp [V2.run]
  | cons op ops ih =>
    simp only [V2.run, List.foldl_cons] at ih ⊢
    rw [ih]
    cases op <;> simp [V2.step, V2.publish, V2.subscribe, task_hist, opShape, Cmd.data?, List.filterMap_cons]

theorem hist_run (ad : Bool) (ops : List (Op2 M O)) :
    ((V2.init M O ad).run ops).hist.map Cmd.data? =
      ops.filterMap fun
        | .publish m => some (some m)
        | .subscribe _ _ => some none
        | _ => none := by
  have := hist_run' (V2.init M O ad) ops
  rw [show (V2.init M O ad).hist = [] from rfl, List.map_nil, List.nil_append] at this
  rw [this]
  rfl

theorem task_frame (st : V2 M O) (c : Call M) (h : st.task.2 = some c) :
    ∀ x ∈ st.all, x.key ≠ c.key → x ∈ st.task.1.all := by
  intro x hx hk
  cases hpc : st.pc with
  | top subs => simp only [V2.task, hpc] at h; split at h <;> simp at h
  | wait subs l => simp only [V2.task, hpc] at h; split at h <;> simp at h
  | disp srv todo seg left rest =>
    cases todo with
    | nil => simp [V2.task, hpc] at h
    | cons s todo =>
      cases left with
      | nil => simp [V2.task, hpc] at h
      | cons m left =>
        simp only [V2.all, hpc, Pc.subs, Pc.rest, List.mem_append, List.mem_cons] at hx
        cases hc : s.conv m with
        | none =>
          cases hd : st.dead.contains s.actor with
          | true =>
            simp only [V2.task, hpc, hc, hd, ↓reduceIte, Option.some.injEq] at h ⊢
            subst h
            simp only [V2.all, Pc.subs, Pc.rest, List.mem_append, List.mem_cons]
            rcases hx with ((( hx | (rfl | hx)) | hx) | hx) | hx
            · simp [hx]
            · exact absurd rfl hk
            · simp [hx]
            · simp [hx]
            · simp [hx]
            · simp [hx]
          | false =>
            simp only [V2.task, hpc, hc, hd, Bool.false_eq_true, ↓reduceIte, Option.some.injEq] at h ⊢
            subst h
            simp only [V2.all, Pc.subs, Pc.rest, List.mem_append, List.mem_cons]
            rcases hx with ((( hx | (rfl | hx)) | hx) | hx) | hx
            · simp [hx]
            · exact absurd rfl hk
            · simp [hx]
            · simp [hx]
            · simp [hx]
            · simp [hx]
        | some o =>
          cases hd : st.dead.contains s.actor with
          | true =>
            simp only [V2.task, hpc, hc, hd, ↓reduceIte, Option.some.injEq] at h ⊢
            subst h
            simp only [V2.all, Pc.subs, Pc.rest, List.mem_append, List.mem_cons]
            rcases hx with ((( hx | (rfl | hx)) | hx) | hx) | hx
            · simp [hx]
            · exact absurd rfl hk
            · simp [hx]
            · simp [hx]
            · simp [hx]
            · simp [hx]
          | false =>
            simp only [V2.task, hpc, hc, hd, Bool.false_eq_true, ↓reduceIte, Option.some.injEq] at h ⊢
            subst h
            simp only [V2.all, Pc.subs, Pc.rest, List.mem_append, List.mem_cons]
            rcases hx with ((( hx | (rfl | hx)) | hx) | hx) | hx
            · simp [hx]
            · exact absurd rfl hk
            · simp [hx]
            · simp [hx]
            · simp [hx]
            · simp [hx]

end OutPort
