import RactorModel.Lemmas.NodeState

/-! `check_session` — the function the SESSIONS call (C18, round 4): what an unauthenticated
session can change about the reply given to another session. -/

namespace Election

/-- ids of the sessions matching a `CheckSession` query -/
def NS.matching (st : NS) (peer : String) (connId : Nat) : List Nat :=
  let conn : Option Nat := if connId == 0 then none else some connId
  (st.sessions.filter (fun s => s.peerName == some peer && s.conn == conn)).map (·.id)

theorem checkSession_eq (st : NS) (peer : String) (connId : Nat) :
    st.checkSession peer connId =
      match st.matching peer connId with
      | [id] => st.checkCandidate id
      | _ :: _ => .noOther
      | [] =>
        let existing := st.candidatesFor peer true
        if existing.isEmpty then .noOther
        else if existing.any (·.isServer) then .duplicate
        else if peer < st.thisName then .thisContinues
        else .otherContinues := rfl

/-- a session that does not match the query does not change the matching set -/
theorem matching_insert_of_not (thisName : String) (l1 l2 : List Session) (u : Session) (peer : String)
    (connId : Nat)
    (hu : (u.peerName == some peer && u.conn == (if connId == 0 then none else some connId)) = false) :
    (NS.mk thisName (l1 ++ u :: l2)).matching peer connId = (NS.mk thisName (l1 ++ l2)).matching peer connId := by
  unfold NS.matching
  simp only
  rw [filter_insert _ _ _ u hu]

/-- (what a spoofer can do to `check_session`) Let `s` be a registered session asking
`CheckSession` with its own (peer name, nonce), and `u` ANY unauthenticated other session (any claimed
name, direction, nonce, position in the table). The reply with `u` present is either the reply
without `u`, or `NoOtherConnection`; and it is the reply without `u` whenever `u` does not claim
exactly the asker's (name, nonce). -/
theorem checkSession_insert (thisName : String) (l1 l2 : List Session) (u s : Session) (peer : String)
    (hu : u.auth = false) (hs : s ∈ l1 ++ l2) (hp : s.peerName = some peer) (hw : s.conn ≠ some 0)
    (hid : ∀ x ∈ l1 ++ l2, x.id ≠ u.id) :
    let connId := s.conn.getD 0
    ((NS.mk thisName (l1 ++ u :: l2)).checkSession peer connId = (NS.mk thisName (l1 ++ l2)).checkSession peer connId ∨
     (NS.mk thisName (l1 ++ u :: l2)).checkSession peer connId = .noOther) ∧
    ((u.peerName == some peer && u.conn == (if connId == 0 then none else some connId)) = false →
     (NS.mk thisName (l1 ++ u :: l2)).checkSession peer connId = (NS.mk thisName (l1 ++ l2)).checkSession peer connId) := by
  intro connId
  -- without `u`: the query depends on the matching set and on the authenticated candidates only
  have hcand := candidatesFor_insert thisName l1 l2 u hu peer
  have same : (NS.mk thisName (l1 ++ u :: l2)).matching peer connId = (NS.mk thisName (l1 ++ l2)).matching peer connId →
      (NS.mk thisName (l1 ++ u :: l2)).checkSession peer connId = (NS.mk thisName (l1 ++ l2)).checkSession peer connId := by
    intro hm
    rw [checkSession_eq, checkSession_eq, hm]
    cases hmm : (NS.mk thisName (l1 ++ l2)).matching peer connId with
    | nil => simp only [hcand]
    | cons id rest =>
      cases rest with
      | nil =>
        simp only
        apply checkCandidate_insert thisName l1 l2 u id hu
        -- `id` is the id of a session of `l1 ++ l2`
        have : id ∈ (NS.mk thisName (l1 ++ l2)).matching peer connId := by rw [hmm]; simp
        unfold NS.matching at this
        simp only [List.mem_map, List.mem_filter] at this
        obtain ⟨x, ⟨hx, _⟩, rfl⟩ := this
        exact fun h => hid x hx h.symm
      | cons id2 rest2 => rfl
  by_cases hmatch : (u.peerName == some peer && u.conn == (if connId == 0 then none else some connId)) = true
  · refine ⟨?_, ?_⟩
    · -- `u` matches: the matching set gains `u.id`; it already contained the asker, so it has ≥ 2 members
      right
      rw [checkSession_eq]
      have hmem : s.id ∈ (NS.mk thisName (l1 ++ u :: l2)).matching peer connId := by
        unfold NS.matching
        simp only [List.mem_map, List.mem_filter]
        refine ⟨s, ⟨?_, ?_⟩, rfl⟩
        · rcases List.mem_append.mp hs with h | h
          · exact List.mem_append_left _ h
          · exact List.mem_append_right _ (List.mem_cons_of_mem _ h)
        · simp only [hp, beq_self_eq_true, Bool.true_and, connId]
          cases hc : s.conn with
          | none => simp
          | some v =>
            simp only [Option.getD_some]
            by_cases hv : v = 0
            · subst hv; exact absurd hc hw
            · simp [hv]
      have hmemu : u.id ∈ (NS.mk thisName (l1 ++ u :: l2)).matching peer connId := by
        unfold NS.matching
        simp only [List.mem_map, List.mem_filter]
        exact ⟨u, ⟨by simp, hmatch⟩, rfl⟩
      have hne : s.id ≠ u.id := hid s hs
      generalize (NS.mk thisName (l1 ++ u :: l2)).matching peer connId = m at hmem hmemu
      match m, hmem, hmemu with
      | [], h, _ => simp at h
      | [a], h1, h2 =>
        simp only [List.mem_singleton] at h1 h2
        exact absurd (h1.trans h2.symm) hne
      | _ :: _ :: _, _, _ => rfl
    · intro hn
      rw [hmatch] at hn
      exact absurd hn (by simp)
  · have hf : (u.peerName == some peer && u.conn == (if connId == 0 then none else some connId)) = false := by
      simpa using hmatch
    have := same (matching_insert_of_not thisName l1 l2 u peer connId hf)
    exact ⟨Or.inl this, fun _ => this⟩

end Election

namespace Election

/-- a closed session leaves no trace -/
theorem close_no_trace (st : NS) (id : Nat) :
    (st.close id).find id = none ∧ id ∉ (st.close id).listed ∧
    (∀ peer b, id ∉ ((st.close id).candidatesFor peer b).map (·.id)) ∧
    (st.close id).isElected id = false ∧ (st.close id).checkCandidate id = .otherContinues := by
  have hfind : (st.close id).find id = none := by
    unfold NS.find NS.close
    rw [List.find?_eq_none]
    intro x hx
    have := (List.mem_filter.mp hx).2
    simpa using this
  refine ⟨hfind, ?_, ?_, ?_, ?_⟩
  · unfold NS.listed NS.close
    simp only [List.mem_map, List.mem_filter, not_exists, not_and]
    intro x hx hid
    exact absurd hid (by simpa using hx.1.2)
  · intro peer b
    unfold NS.candidatesFor NS.close
    simp only [List.mem_map, List.mem_filter, not_exists, not_and]
    intro c hx hid
    obtain ⟨x, hx, hc⟩ := hx
    subst hc
    have h2 : x.id ≠ id := by simpa using hx.1.2
    exact h2 hid
  · unfold NS.isElected; rw [hfind]
  · unfold NS.checkCandidate; rw [hfind]

/-- re-election on reconnection: when no session of `peer` is left (all closed), a freshly opened
session that registers `peer`'s name — any direction, any nonce — and authenticates is elected:
`commit_authenticated` lets it survive and closes nobody, it is listed, and its own `CheckSession`
answers `NoOtherConnection`. -/
theorem reconnect_elected (st : NS) (peer : String) (id : Nat) (srv : Bool) (n : Nat)
    (hnone : ∀ s ∈ st.sessions, s.peerName ≠ some peer) (hfresh : ∀ s ∈ st.sessions, s.id ≠ id) :
    let st1 := ((st.opened id srv).register id peer n).1
    ∃ st2, st1.commit id = some (st2, true, []) ∧ id ∈ st2.listed ∧ st2.isElected id = true ∧
      st2.checkSession peer n = .noOther := by
  intro st1
  -- the table after open + register: the old sessions untouched, plus the new one
  have hnew : st1.sessions = st.sessions ++ [⟨id, srv, some peer, if n == 0 then none else some n, false⟩] := by
    have hf : (st.opened id srv).find id = some ⟨id, srv, none, none, false⟩ := by
      unfold NS.find NS.opened
      rw [List.find?_append]
      have : st.sessions.find? (fun x => x.id == id) = none := by
        rw [List.find?_eq_none]; intro x hx; simpa using hfresh x hx
      simp [this]
    show ((st.opened id srv).register id peer n).1.sessions = _
    unfold NS.register
    rw [hf]
    simp only [NS.opened, List.map_append, List.map_cons, List.map_nil, beq_self_eq_true, if_true]
    congr 1
    have : ∀ (l : List Session), (∀ x ∈ l, x.id ≠ id) →
        l.map (fun s => if (s.id == id) = true then { s with peerName := some peer, conn := if n == 0 then none else some n } else s) = l := by
      intro l
      induction l with
      | nil => intro _; rfl
      | cons y t ih =>
        intro h
        have hy : (y.id == id) = false := by simpa using h y (by simp)
        simp only [List.map_cons, hy, Bool.false_eq_true, if_false]
        rw [ih (fun x hx => h x (by simp [hx]))]
    exact this _ hfresh
  have hname : st1.thisName = st.thisName := by
    show ((st.opened id srv).register id peer n).1.thisName = _
    unfold NS.register
    split <;> rfl
  -- facts about the old part of the table
  have hL1 : ∀ (q : Session → Bool), st.sessions.filter (fun s => s.peerName == some peer && q s) = [] := by
    intro q
    rw [List.filter_eq_nil_iff]
    intro x hx
    have : (x.peerName == some peer) = false := by simpa using hnone x hx
    simp [this]
  have hL2 : st.sessions.find? (fun x => x.id == id) = none := by
    rw [List.find?_eq_none]; intro x hx; simpa using hfresh x hx
  have hmap : ∀ (f : Session → Session), (∀ x, x.id ≠ id → f x = x) → st.sessions.map f = st.sessions := by
    intro f hf
    have : ∀ (l : List Session), (∀ x ∈ l, x.id ≠ id) → l.map f = l := by
      intro l
      induction l with
      | nil => intro _; rfl
      | cons y t ih =>
        intro h
        simp only [List.map_cons]
        rw [hf y (h y (by simp)), ih (fun x hx => h x (by simp [hx]))]
    exact this _ hfresh
  obtain ⟨tn, ss⟩ := st1
  simp only at hnew hname
  subst hnew hname
  generalize hconn : (if n == 0 then none else some n : Option Nat) = conn
  -- the state after the commit
  let newA : Session := ⟨id, srv, some peer, conn, true⟩
  have hmark : (NS.mk st.thisName (st.sessions ++ [⟨id, srv, some peer, conn, false⟩])).markAuth id =
      NS.mk st.thisName (st.sessions ++ [newA]) := by
    unfold NS.markAuth
    simp only [List.map_append, List.map_cons, List.map_nil, beq_self_eq_true, if_true]
    rw [hmap _ (fun x hx => by have : (x.id == id) = false := by simpa using hx
                               simp [this])]
  have hcand : ∀ b, (NS.mk st.thisName (st.sessions ++ [newA])).candidatesFor peer b = [newA.toCand] := by
    intro b
    unfold NS.candidatesFor
    simp only [List.filter_append, hL1, List.nil_append]
    simp [newA, List.filter_cons]
  have hfindA : (NS.mk st.thisName (st.sessions ++ [newA])).find id = some newA := by
    unfold NS.find
    simp only [List.find?_append, hL2]
    simp [newA]
  have hel : ∀ o, elect o [newA.toCand] = [id] := by intro o; simp [elect, newA, Session.toCand]
  refine ⟨NS.mk st.thisName (st.sessions ++ [newA]), ?_, ?_, ?_, ?_⟩
  · unfold NS.commit
    have hf : (NS.mk st.thisName (st.sessions ++ [⟨id, srv, some peer, conn, false⟩])).find id =
        some ⟨id, srv, some peer, conn, false⟩ := by
      unfold NS.find
      simp only [List.find?_append, hL2]
      simp
    rw [hf]
    simp only [hmark, hcand, hel]
    have hlos : (NS.mk st.thisName (st.sessions ++ [newA])).losersOf peer [id] = [] := by
      unfold NS.losersOf
      simp only [List.filter_append, List.map_append]
      have : st.sessions.filter (fun x => x.auth && x.peerName == some peer && !([id] : List Nat).contains x.id) = [] := by
        rw [List.filter_eq_nil_iff]
        intro x hx
        have : (x.peerName == some peer) = false := by simpa using hnone x hx
        simp [this]
      rw [this]
      simp [newA]
    rw [hlos]
    simp [NS.deauth, hmap]
  · unfold NS.listed
    simp [newA]
  · unfold NS.isElected
    rw [hfindA]
    simp only [newA, hcand]
    simp [elect, Session.toCand]
  · unfold NS.checkSession
    have hmatch : ((NS.mk st.thisName (st.sessions ++ [newA])).sessions.filter
        (fun s => s.peerName == some peer && s.conn == (if n == 0 then none else some n))).map (·.id) = [id] := by
      rw [hconn]
      simp only [List.filter_append, hL1, List.nil_append]
      simp [newA]
    simp only [hmatch]
    unfold NS.checkCandidate
    rw [hfindA]
    simp only [newA, hcand]
    simp [elect, Session.toCand]

end Election

namespace Election

/-- what every reachable `NodeServerState` satisfies: distinct session ids, no `Some(0)` nonce -/
def NSWf (st : NS) : Prop := (st.sessions.map (·.id)).Nodup ∧ ∀ s ∈ st.sessions, s.conn ≠ some 0

theorem map_id_congr (l : List Session) (f : Session → Session) (hf : ∀ s, (f s).id = s.id) :
    (l.map f).map (·.id) = l.map (·.id) := by
  rw [List.map_map]; apply List.map_congr_left; intro s _; exact hf s

theorem NSWf.map (st : NS) (f : Session → Session) (hf : ∀ s, (f s).id = s.id ∧ (f s).conn = s.conn)
    (h : NSWf st) : NSWf { st with sessions := st.sessions.map f } := by
  refine ⟨?_, ?_⟩
  · simp only; rw [map_id_congr _ _ (fun s => (hf s).1)]; exact h.1
  · intro s hs
    simp only [List.mem_map] at hs
    obtain ⟨x, hx, rfl⟩ := hs
    rw [(hf x).2]; exact h.2 x hx

theorem NSWf.step (st : NS) (op : NSOp) (h : NSWf st)
    (hfresh : ∀ i srv, op = .opened i srv → ∀ s ∈ st.sessions, s.id ≠ i) : NSWf (nsStep st op) := by
  cases op with
  | opened id srv =>
    obtain ⟨hnd, hw⟩ := h
    refine ⟨?_, ?_⟩
    · simp only [nsStep, NS.opened, List.map_append, List.map_cons, List.map_nil]
      rw [List.nodup_append]
      refine ⟨hnd, by simp, ?_⟩
      intro a ha b hb
      simp only [List.mem_singleton] at hb
      subst hb
      obtain ⟨s, hs, rfl⟩ := List.mem_map.mp ha
      exact hfresh _ srv rfl s hs
    · intro s hs
      simp only [nsStep, NS.opened, List.mem_append, List.mem_singleton] at hs
      rcases hs with hs | rfl
      · exact hw s hs
      · simp
  | register id peer n =>
    obtain ⟨hnd, hw⟩ := h
    simp only [nsStep, NS.register]
    split
    · exact ⟨hnd, hw⟩
    · refine ⟨?_, ?_⟩
      · simp only
        rw [map_id_congr _ _ (by intro s; split <;> rfl)]; exact hnd
      · intro s hs
        simp only [List.mem_map] at hs
        obtain ⟨x, hx, rfl⟩ := hs
        split
        · simp only
          by_cases hn : n = 0
          · simp [hn]
          · simp [hn]
        · exact hw x hx
  | commit id =>
    simp only [nsStep]
    cases hc : st.commit id with
    | none => exact h
    | some r =>
      obtain ⟨st', b, l⟩ := r
      simp only
      unfold NS.commit at hc
      cases hf : st.find id with
      | none => rw [hf] at hc; simp at hc
      | some s =>
        rw [hf] at hc
        cases hp : s.peerName with
        | none => simp [hp] at hc
        | some peer =>
          simp only [hp, Option.some.injEq, Prod.mk.injEq] at hc
          obtain ⟨rfl, _, _⟩ := hc
          have h1 : NSWf (st.markAuth id) :=
            NSWf.map st _ (by intro s; split <;> exact ⟨rfl, rfl⟩) h
          exact NSWf.map (st.markAuth id) _ (by intro s; split <;> exact ⟨rfl, rfl⟩) h1
  | close id =>
    obtain ⟨hnd, hw⟩ := h
    refine ⟨?_, ?_⟩
    · simp only [nsStep, NS.close]
      exact ((List.filter_sublist).map _).nodup hnd
    · intro s hs
      simp only [nsStep, NS.close, List.mem_filter] at hs
      exact hw s hs.1

theorem nsRun_wf_aux (ops : List NSOp) : ∀ st, NSWf st → nsFresh st ops → NSWf (ops.foldl nsStep st) := by
  induction ops with
  | nil => intro st h _; exact h
  | cons op rest ih =>
    intro st h hf
    simp only [List.foldl_cons]
    apply ih _ (h.step st op ?_) hf.2
    intro id srv he
    subst he
    exact hf.1

end Election

namespace Election

/-- `commit_authenticated`: a candidate that does not survive is itself among the losers the NodeServer
is told to stop — the commit step does not rely on the session finding out by itself. -/
theorem commit_loser_includes_candidate (st : NS) (id : Nat) (st' : NS) (losers : List Nat)
    (h : st.commit id = some (st', false, losers)) : id ∈ losers := by
  unfold NS.commit at h
  cases hf : st.find id with
  | none => rw [hf] at h; simp at h
  | some s =>
    rw [hf] at h
    cases hp : s.peerName with
    | none => simp [hp] at h
    | some peer =>
      simp only [hp, Option.some.injEq, Prod.mk.injEq] at h
      obtain ⟨_, hsurv, hl⟩ := h
      rw [← hl]
      have hs : s ∈ st.sessions := List.mem_of_find?_eq_some hf
      have hid : s.id = id := by simpa using List.find?_some hf
      unfold NS.losersOf
      simp only [List.mem_map, List.mem_filter]
      refine ⟨{ s with auth := true }, ⟨?_, ?_⟩, hid⟩
      · unfold NS.markAuth
        simp only [List.mem_map]
        exact ⟨s, hs, by simp [hid]⟩
      · simp only [hp, beq_self_eq_true, Bool.and_true, Bool.true_and, Bool.not_eq_true', hid]
        simpa using hsurv

end Election
