#!/usr/bin/env python3
"""
Self-test of extract/rs2lean.py (no Lean needed): `python3 extract/test_rs2lean.py`.
 * constructs outside the subset are rejected LOUDLY, naming the construct (never skipped);
 * harmless rewrites (local renames, comments, whitespace, attributes, log lines) give the
   identical Lean text (up to the source line number in the doc comment);
 * semantic edits change the text.
"""
import re
import sys
import tempfile
from pathlib import Path

sys.path.insert(0, str(Path(__file__).resolve().parent))
import rs2lean


def gen(src, fns=("f",), **spec):
    d = Path(tempfile.mkdtemp(prefix="rs2lean-ut-"))
    (d / "a.rs").write_text(src)
    s = {"area": "T", "file": "a.rs", "fns": [{"container": None, "name": n} for n in fns]}
    s.update(spec)
    text, rep = rs2lean.generate_area(s, d)
    text = re.sub(r"translated from line \d+", "translated from line N", text)
    text = text.split("namespace Generated.T", 1)[1]
    return text, rep


def err(src, **spec):
    _, rep = gen(src, **spec)
    bad = [r for r in rep if not r["ok"]]
    return bad[0]["error"] if bad else None


FAILS = 0


def check(name, cond, detail=""):
    global FAILS
    print(("ok   " if cond else "FAIL ") + name + ("" if cond else "  -- " + str(detail)))
    if not cond:
        FAILS += 1


# ---- loud failures ---------------------------------------------------------------------------
REJECT = [
    ("for loop", "fn f(v: Vec<u64>) -> u64 { let mut s = 0u64; for x in v.iter() { s += *x; } s }", "`for` loop"),
    ("while loop", "fn f(a: u64) -> u64 { let mut x = a; while x > 3 { x -= 1; } x }", "`while` loop"),
    ("plain loop", "fn f(a: u64) -> u64 { loop { return a; } }", "compare-exchange retry loop"),
    ("question mark", "fn f(a: Option<u64>) -> Option<u64> { let x = a?; Some(x) }", "`?` operator"),
    ("await", "fn f(a: u64) -> u64 { g(a).await }", "`.await`"),
    ("unsafe", "fn f(a: u64) -> u64 { unsafe { a } }", "`unsafe`"),
    ("index", "fn f(v: Vec<u64>) -> u64 { v[0] }", "index expression"),
    ("unknown macro", "fn f(a: u64) -> u64 { todo!() }", "macro `todo!`"),
    ("unknown method", "fn f(a: u64) -> u64 { a.rotate_left(3) }", "method `.rotate_left()`"),
    ("unknown call", "fn f(a: u64) -> u64 { mystery(a) }", "not a known constructor"),
    ("unknown type", "fn f(a: Foo) -> u64 { 1 }", "type `Foo`"),
    ("signed arithmetic", "fn f(a: i64, b: i64) -> i64 { a + b }", "signed integer"),
    ("width unknown", "fn f(a: Vec<u64>) -> bool { a.iter().map(|x| x.clone()).min().unwrap_or(0).saturating_add(1) > 0 }", None),
    ("range", "fn f(a: u64) -> bool { (0..a).len() > 0 }", "range expression"),
    ("let chain", "fn f(a: Option<u64>, b: bool) -> u64 { if let Some(x) = a && b { x } else { 0 } }", "let-chain"),
    ("cfg statement", "fn f(a: u64) -> u64 { #[cfg(unix)] let a = a + 1; a }", "`#[cfg(...)]` on a statement"),
    ("two draws", "fn f() -> u64 { let a = rnd(); let b = rnd(); a }", "more than one draw"),
    ("float", "fn f(a: u64) -> u64 { let x = 1.5; a }", "floating point"),
    ("effect in expression", "fn f(a: u64) -> u64 { let mut x = a; let y = 1 + { x = 2; x }; y }", "effect"),
    ("macro in closure", "fn f(v: Vec<u64>) -> bool { v.iter().any(|x| todo!()) }", "macro `todo!`"),
    ("? in closure", "fn f(v: Vec<u64>, o: Option<u64>) -> bool { v.iter().any(|x| *x > o?) }", "`?` operator"),
    ("missing function", "fn g(a: u64) -> u64 { a }", "not found in the source"),
]
for name, src, needle in REJECT:
    spec = {"nondet": {"rnd()": ("r", "u64")}} if name == "two draws" else {}
    e = err(src, **spec)
    if name == "width unknown":
        check("accept: " + name, e is None, e)      # element type IS known here: must translate
        continue
    check("reject: " + name, e is not None and (needle in e), e)

# ---- harmless rewrites -----------------------------------------------------------------------
BASE = """
fn f(limit: u64, xs: Vec<u64>) -> Option<u64> {
    if xs.len() <= 1 {
        return None;
    }
    let biggest = xs.iter().map(|x| x.saturating_add(1)).max();
    match biggest {
        Some(b) if b > limit => Some(limit),
        Some(b) => Some(b.min(limit)),
        None => None,
    }
}
"""
HARMLESS = """
/// docs
#[inline]
fn f(limit: u64, xs: Vec<u64>) -> Option<u64>
{
    // early exit
    if xs.len()<=1 { return None; }
    tracing::debug!("computing over {} values", xs.len());
    /* block
       comment */
    if limit > 3 { tracing::trace!("big limit"); }
    let top = xs.iter()
        .map(|elem| elem.saturating_add(1))
        .max();
    #[cfg(feature = "verif")]
    let _probe = crate::verif::probe("f");
    #[cfg(feature = "verif")]
    { crate::verif::point("f.match"); }
    #[allow(unused)]
    match top { Some(v) if v > limit => Some(limit), Some(v) => Some(v.min(limit)), None => None }
}
"""
t0, r0 = gen(BASE)
t1, r1 = gen(HARMLESS)
check("base translates", all(r["ok"] for r in r0), r0)
body = lambda t: t[t.index("def f"):]   # the header lists what was dropped; the definition must be identical
check("harmless rewrite: identical definition", body(t0) == body(t1), "\n" + t0 + "\n-----\n" + t1)
check("dropped verif hooks are listed", sum("verif" in d for d in r1[0].get("dropped", [])) == 2, r1)
check("dropped log line is listed", any("tracing::debug!" in d for d in r1[0].get("dropped", [])), r1)

SEMANTIC = [
    ("<= to <", BASE.replace("xs.len() <= 1", "xs.len() < 1")),
    ("max to min", BASE.replace(".max();", ".min();")),
    ("drop saturation", BASE.replace("x.saturating_add(1)", "x + 1")),
    ("guard > to >=", BASE.replace("b > limit", "b >= limit")),
    ("reorder guarded arms", BASE.replace("Some(b) if b > limit => Some(limit),\n        Some(b) => Some(b.min(limit)),",
                                         "Some(b) => Some(b.min(limit)),\n        Some(b) if b > limit => Some(limit),")),
    ("min to max (binary)", BASE.replace("b.min(limit)", "b.max(limit)")),
]
for name, src in SEMANTIC:
    t, r = gen(src)
    check("semantic edit changes the text: " + name, (not all(x["ok"] for x in r)) or body(t) != body(t0))

# ---- mutation through &mut self and atomics ----------------------------------------------------
SRC = """
struct S { n: usize, w: AtomicUsize }
impl S {
    fn bump(&mut self) { if self.n > 0 { self.n -= 1; } }
    fn admit(&self) -> bool {
        let mut cur = self.w.load(Ordering::Relaxed);
        loop {
            if cur & 1 != 0 { return false; }
            match self.w.compare_exchange_weak(cur, cur + 2, Ordering::AcqRel, Ordering::Relaxed) {
                Ok(_) => return true,
                Err(seen) => cur = seen,
            }
        }
    }
}
"""
d = Path(tempfile.mkdtemp(prefix="rs2lean-ut-"))
(d / "a.rs").write_text(SRC)
text, rep = rs2lean.generate_area({"area": "T", "file": "a.rs", "source_types": [{"name": "S"}],
                                   "fns": [{"container": "S", "name": "bump"}, {"container": "S", "name": "admit"}]}, d)
check("&mut self and CAS loop translate", all(r["ok"] for r in rep), rep)
check("CAS loop becomes one CasStep iteration", ".cas x1 (Rust.wAdd 64 x1 2) true" in text and ".done false" in text, text)
check("field assignment re-binds self", "{ self with n := Rust.wSub 64 self.n 1 }" in text, text)

print("FAILED" if FAILS else "all translator self-tests passed")
sys.exit(1 if FAILS else 0)
