import re,sys
def insert(prop, imp, scratch):
    p=f'RactorModel/Props/{prop}.lean'
    s=open(p).read()
    t=open(scratch).read()
    body=t.split(f'namespace {prop}\n',1)[1].rsplit(f'end {prop}',1)[0].strip('\n')
    names=re.findall(r'^theorem\s+(\S+)', body, flags=re.M)
    marker=f'/-! ### Translator tie (rs2lean)'
    if marker in s:
        # replace old block
        s=re.sub(re.escape(marker)+r'.*?(?=\nend '+prop+r'\n)', '', s, flags=re.S)
        s=re.sub(r'\n-- rs2lean tie\n(#print axioms [^\n]+\n)+','\n',s)
    block=f'''{marker}: kernel-checked equivalence between the definitions that
`extract/rs2lean.py` regenerates from the CURRENT Rust source on every run
(`RactorModel/Generated/*.lean`) and the hand-written model functions the theorems above are
about. A semantic change of the Rust function changes the generated text and these stop checking. -/

{body}
'''
    s=s.replace(f'\nend {prop}\n', f'\n{block}\nend {prop}\n',1)
    for i in imp:
        if f'import {i}\n' not in s:
            s=f'import {i}\n'+s
    s=s.rstrip('\n')+'\n-- rs2lean tie\n'+''.join(f'#print axioms {prop}.{n}\n' for n in names)
    open(p,'w').write(s)
prop, scratch = sys.argv[1], sys.argv[2]
insert(prop, sys.argv[3:], scratch)
