import RactorModel.Lemmas.Timers

/-! Readable corollaries of the `Timers` invariants, used verbatim by `Props/C12.lean`. -/

namespace Timers

theorem earlyOk_get {base p : Nat} : ∀ (l : List Nat) (k : Nat), earlyOk base p k l = true →
    ∀ (j : Nat) (h : j < l.length), base + (k + j + 1) * p ≤ l[j] := by
  intro l
  induction l with
  | nil => intro k _ j h; simp at h
  | cons x xs ih =>
    intro k hk j h
    simp only [earlyOk, Bool.and_eq_true, decide_eq_true_eq] at hk
    cases j with
    | zero => simpa using hk.1
    | succ j =>
      have := ih (k + 1) hk.2 j (by simpa using h)
      simp only [List.getElem_cons_succ]
      have e : k + 1 + j + 1 = k + (j + 1) + 1 := by omega
      rw [e] at this; exact this

theorem promptOk_get {base p : Nat} {vs : List Nat} : ∀ (l : List Nat) (k : Nat), promptOk base p vs k l = true →
    ∀ (j : Nat) (h : j < l.length), ∀ c ∈ vs, c < l[j] → c < ceilMs (base + (k + j + 1) * p) := by
  intro l
  induction l with
  | nil => intro k _ j h; simp at h
  | cons x xs ih =>
    intro k hk j h c hc hlt
    simp only [promptOk, Bool.and_eq_true, List.all_eq_true, Bool.or_eq_true, Bool.not_eq_true',
      decide_eq_false_iff_not, decide_eq_true_eq] at hk
    cases j with
    | zero =>
      simp only [List.getElem_cons_zero] at hlt
      rcases hk.1 c hc with h1 | h1
      · exact absurd hlt h1
      · simpa using h1
    | succ j =>
      simp only [List.getElem_cons_succ] at hlt
      have := ih (k + 1) hk.2 j (by simpa using h) c hc hlt
      have e : k + 1 + j + 1 = k + (j + 1) + 1 := by omega
      rw [e] at this; exact this

theorem TInv.early_created {now : Nat} {cl : Option Nat} {τ : Timer} (h : TInv now cl τ) :
    earlyOk τ.created τ.period 0 τ.sentAt = true := by
  cases ha : τ.armed with
  | none => simp [h.unarmed ha, earlyOk]
  | some a =>
    obtain ⟨h1, _, h3⟩ := h.armed_ok a ha
    exact earlyOk_mono h1 _ _ h3

theorem never_early' {s : State} (h : Inv s) (τ : Timer) (hτ : τ ∈ s.timers)
    (k : Nat) (hk : k < τ.sentAt.length) : τ.created + (k + 1) * τ.period ≤ τ.sentAt[k] := by
  have := earlyOk_get _ _ (h.tinv τ hτ).early_created k hk
  simpa using this

theorem oneShot_once_never_early' {s : State} (h : Inv s) (τ : Timer) (hτ : τ ∈ s.timers)
    (hk : τ.kind.oneShot = true) :
    τ.sentAt.length ≤ 1 ∧ ∀ t ∈ τ.sentAt, τ.created + τ.period ≤ t := by
  obtain ⟨a, b, c, d⟩ := (h.tinv τ hτ).shot hk
  have hlen : τ.sentAt.length ≤ 1 := by
    cases hr : τ.res with
    | pending => simp [a hr]
    | cancelled => simp [b hr]
    | ok => simp [c hr]
    | err => simp [(d hr).1]
    | panicked =>
      have := ((h.tinv τ hτ).panic hr).1
      rw [this] at hk; simp [Kind.oneShot] at hk
  refine ⟨hlen, ?_⟩
  intro t ht
  obtain ⟨j, hj, rfl⟩ := List.getElem_of_mem ht
  have : j = 0 := by omega
  subst this
  simpa using never_early' h τ hτ 0 hj

theorem sendAfter_fires' {s : State} (h : Inv s) (i : Nat) (τ : Timer) (a : Nat)
    (hi : s.timers[i]? = some τ) (hk : τ.kind = .sendAfter) (hp : τ.res = .pending)
    (ha : τ.armed = some a) (hd : wheelDeadline a τ.period ≤ s.now) (hty : τ.typed = true) :
    ∃ τ', (step s (.fire i)).timers[i]? = some τ' ∧ τ'.sentAt = [s.now] ∧
      (s.target.accepts = true → τ'.res = .ok ∧ (step s (.fire i)).target.mbox = s.target.mbox ++ [(i, 1)]) ∧
      (s.target.accepts = false → τ'.res = .err ∧ (step s (.fire i)).target.mbox = s.target.mbox) := by
  have hτ : τ ∈ s.timers := List.mem_iff_getElem?.mpr ⟨i, hi⟩
  have hs : τ.sentAt = [] := ((h.tinv τ hτ).shot (by simp [hk, Kind.oneShot])).1 hp
  rw [step_fire_some hi]
  have harm : τ.arm s.now = τ := by cases τ; simp_all [Timer.arm]
  have hdl : τ.deadline a ≤ s.now := by simpa [Timer.deadline, hs] using hd
  have hf : fireOne s.now i τ s.target =
      if s.target.accepts then ((τ.attempt s.now).finish .ok s.now, s.target.push (i, 1))
      else ((τ.attempt s.now).finish .err s.now, s.target) := by
    unfold fireOne
    simp only [hp, ne_eq, not_true_eq_false, ↓reduceIte, harm, ha, Option.getD_some]
    unfold fireArmed
    simp [hk, hdl, hs, Timer.canSend, hty]
  rw [hf]
  cases hacc : s.target.accepts with
  | true =>
    refine ⟨(τ.attempt s.now).finish .ok s.now, by simp [getElem?_lt hi], by simp [hs], ?_, by simp⟩
    intro _; simp
  | false =>
    refine ⟨(τ.attempt s.now).finish .err s.now, by simp [getElem?_lt hi], by simp [hs], by simp, ?_⟩
    intro _; simp

theorem frozen_step (s : State) (i : Nat) (τ : Timer) (hi : s.timers[i]? = some τ)
    (hf : τ.res ≠ .pending) (op : Op) : (step s op).timers[i]? = some τ := by
  cases op with
  | create k p =>
    have e : step s (.create k p) =
        { s with timers := s.timers ++ [{ kind := k, period := p, created := s.now }] } := rfl
    rw [e]
    simp only [List.getElem?_append_left (getElem?_lt hi)]; exact hi
  | createX k p =>
    have e : step s (.createX k p) =
        { s with timers := s.timers ++ [{ kind := k, period := p, created := s.now, typed := false }] } := rfl
    rw [e]
    simp only [List.getElem?_append_left (getElem?_lt hi)]; exact hi
  | tick d => exact hi
  | fire j =>
    cases hτ : s.timers[j]? with
    | none => rw [step_fire_none hτ]; exact hi
    | some σ =>
      rw [step_fire_some hτ]
      by_cases e : j = i
      · subst e
        rw [hi] at hτ; cases hτ
        have : fireOne s.now j τ s.target = (τ, s.target) := by simp [fireOne, hf]
        simp [this, getElem?_lt hi]
      · simp only [List.getElem?_set_ne e]; exact hi
  | abort j =>
    cases hτ : s.timers[j]? with
    | none => rw [step_abort_none hτ]; exact hi
    | some σ =>
      rw [step_abort_some hτ]
      by_cases e : j = i
      · subst e
        rw [hi] at hτ; cases hτ
        simp [hf, hi]
      · split
        · simp only [List.getElem?_set_ne e]; exact hi
        · exact hi
  | stop => exact hi
  | kill => exact hi
  | drain => exact hi
  | target => exact hi
  | mark => exact hi
  | hold => exact hi
  | psrelease => exact hi
  | dropHandle j => exact hi
  | fail => exact hi
  | startHold => exact hi
  | started => exact hi

theorem finished_frozen' (s : State) (i : Nat) (τ : Timer) (hi : s.timers[i]? = some τ)
    (hf : τ.res ≠ .pending) (ops : List Op) : (steps s ops).timers[i]? = some τ := by
  induction ops generalizing s with
  | nil => exact hi
  | cons op ops ih => exact ih (step s op) (frozen_step s i τ hi hf op)

theorem abort_prevents' (s : State) (i : Nat) (τ : Timer) (hi : s.timers[i]? = some τ)
    (hp : τ.res = .pending) (ops : List Op) :
    ∃ τ', (steps (step s (.abort i)) ops).timers[i]? = some τ' ∧ τ'.sentAt = τ.sentAt ∧ τ'.res = .cancelled := by
  refine ⟨τ.finish .cancelled s.now, ?_, rfl, rfl⟩
  apply finished_frozen'
  · rw [step_abort_some hi]; simp [hp, getElem?_lt hi]
  · simp

theorem closed_form' {s : State} (h : BInv s) (τ : Timer) (hτ : τ ∈ s.timers)
    (k : Nat) (hk : k < τ.sentAt.length) :
    τ.created + (k + 1) * τ.period ≤ τ.sentAt[k] ∧
    (∀ c ∈ s.visits, wheelDeadline τ.created ((k + 1) * τ.period) ≤ c → τ.sentAt[k] ≤ c) ∧
    (τ.created + (k + 1) * τ.period ∈ s.visits → (τ.created + (k + 1) * τ.period) % 1000 = 0 →
      τ.sentAt[k] = τ.created + (k + 1) * τ.period) := by
  have h1 := never_early' h.inv τ hτ k hk
  have h2 : ∀ c ∈ s.visits, wheelDeadline τ.created ((k + 1) * τ.period) ≤ c → τ.sentAt[k] ≤ c := by
    intro c hc hle
    rcases Nat.lt_or_ge c τ.sentAt[k] with hlt | hge
    · have := promptOk_get _ _ (h.minv.mt τ hτ).prompt k hk c hc hlt
      simp only [Nat.zero_add] at this
      simp only [wheelDeadline] at hle
      omega
    · exact hge
  refine ⟨h1, h2, fun hm hz => Nat.le_antisymm (h2 _ hm ?_) h1⟩
  simp only [wheelDeadline, ceilMs]; omega

theorem interval_dies' {s : State} (h : BInv s) (τ : Timer) (hτ : τ ∈ s.timers)
    (hk : τ.kind = .interval) (tc : Nat) (hc : s.target.closedAt = some tc) :
    (ceilMs (tc + τ.period) ≤ s.now → ceilMs τ.created ≤ s.now → τ.res ≠ .pending) ∧
    (τ.sentAt.filter (fun t => decide (tc < t))).length ≤ 1 := by
  refine ⟨?_, ((h.inv.tinv τ hτ).closed tc hc (by simp [hk, Kind.sends])).2⟩
  intro hle hle2 hp
  have := h.okPrompt1
  unfold Timers.okPrompt1 at this
  rw [List.all_eq_true] at this
  have := this τ hτ
  unfold timerPromptOk diesOk at this
  simp only [hc, hk, hp, beq_self_eq_true, Bool.and_self, Bool.not_true, Bool.false_or, Bool.and_eq_true,
    Bool.or_eq_true, decide_eq_true_eq] at this
  omega

theorem exit_reason' {s : State} (h : Inv s) (r : Reason) (te : Nat) (he : s.target.exit = some (r, te)) :
    (∀ p, r = .exitAfter p → ∃ τ ∈ s.timers, τ.kind = .exitAfter ∧ asMillis τ.period = p ∧
        ∃ t ∈ τ.sentAt, τ.created + τ.period ≤ t ∧ t ≤ te) ∧
    (r = .killed → s.target.manualKill = true ∨
        ∃ τ ∈ s.timers, τ.kind = .killAfter ∧ ∃ t ∈ τ.sentAt, τ.created + τ.period ≤ t ∧ t ≤ te) ∧
    (r = .manual → s.target.manualStop = true) := by
  obtain ⟨_, _, hr⟩ := h.exit_ok r te he
  refine ⟨?_, ?_, ?_⟩
  · intro p e; subst e
    simp only [reasonOk, List.any_eq_true, Bool.and_eq_true, beq_iff_eq, decide_eq_true_eq] at hr
    obtain ⟨τ, hτ, ⟨hk, hper⟩, t, ht, hle⟩ := hr
    refine ⟨τ, hτ, hk, hper, t, ht, ?_, hle⟩
    exact (oneShot_once_never_early' h τ hτ (by simp [hk, Kind.oneShot])).2 t ht
  · intro e; subst e
    simp only [reasonOk, Bool.or_eq_true, List.any_eq_true, Bool.and_eq_true, beq_iff_eq,
      decide_eq_true_eq] at hr
    rcases hr with hr | ⟨τ, hτ, hk, t, ht, hle⟩
    · exact .inl hr
    · exact .inr ⟨τ, hτ, hk, t, ht,
        (oneShot_once_never_early' h τ hτ (by simp [hk, Kind.oneShot])).2 t ht, hle⟩
  · intro e; subst e; exact hr

theorem handle_reports_send' {s : State} (h : Inv s) (τ : Timer) (hτ : τ ∈ s.timers)
    (hk : τ.kind = .sendAfter) (hty : τ.typed = true) :
    (τ.res = .ok → ∀ tc, s.target.closedAt = some tc → ∀ t ∈ τ.sentAt, t ≤ tc) ∧
    (τ.res = .err → ∃ tc, s.target.closedAt = some tc ∧ ∀ t ∈ τ.sentAt, tc ≤ t) :=
  (h.tinv τ hτ).accept hk hty

theorem mistyped' {s : State} (h : Inv s) (τ : Timer) (hτ : τ ∈ s.timers)
    (hty : τ.typed = false) (hs : τ.kind.sends = true) :
    (τ.res = .pending → τ.sentAt = []) ∧ τ.sentAt.length ≤ 1 ∧ (τ.kind = .sendAfter → τ.res ≠ .ok) :=
  (h.tinv τ hτ).untyped hty hs

end Timers
