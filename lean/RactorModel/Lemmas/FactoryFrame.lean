import RactorModel.Lemmas.FactoryLimit

/-! Frame lemmas: which fields of the world a function leaves alone. -/

namespace Factory

/-- only the router's own state (`avail`, `inQ`, `last`) may differ -/
structure RouterFrame (w w' : W) : Prop where
  cfg : w'.cfg = w.cfg
  poolSize : w'.poolSize = w.poolSize
  pool : w'.pool = w.pool
  byActor : w'.byActor = w.byActor
  rl : w'.rl = w.rl
  queue : w'.queue = w.queue
  disc : w'.disc = w.disc
  drain : w'.drain = w.drain
  env : w'.env = w.env
  nextAid : w'.nextAid = w.nextAid
  stopped : w'.stopped = w.stopped
  inbox : w'.inbox = w.inbox
  handler : w'.handler = w.handler

theorem RouterFrame.refl (w : W) : RouterFrame w w := ⟨rfl, rfl, rfl, rfl, rfl, rfl, rfl, rfl, rfl, rfl, rfl, rfl, rfl⟩

theorem availChange_frame (w : W) (wid : Nat) (b : Bool) : RouterFrame w (w.availChange wid b) := by
  unfold W.availChange
  split
  · split
    · exact RouterFrame.refl w
    · exact ⟨rfl, rfl, rfl, rfl, rfl, rfl, rfl, rfl, rfl, rfl, rfl, rfl, rfl⟩
  · exact ⟨rfl, rfl, rfl, rfl, rfl, rfl, rfl, rfl, rfl, rfl, rfl, rfl, rfl⟩

theorem chooseTargetWorker_frame (w : W) (j : Job) (hint : Option Nat) :
    RouterFrame w (w.chooseTargetWorker j hint).2 := by
  unfold W.chooseTargetWorker
  split
  · split
    · exact RouterFrame.refl w
    · split
      · exact RouterFrame.refl w
      · split
        · exact RouterFrame.refl w
        · exact RouterFrame.refl w
  · split
    · exact RouterFrame.refl w
    · exact ⟨rfl, rfl, rfl, rfl, rfl, rfl, rfl, rfl, rfl, rfl, rfl, rfl, rfl⟩
  · split
    · exact RouterFrame.refl w
    · split
      · exact RouterFrame.refl w
      · split
        · exact RouterFrame.refl w
        · exact ⟨rfl, rfl, rfl, rfl, rfl, rfl, rfl, rfl, rfl, rfl, rfl, rfl, rfl⟩
  · split
    · exact RouterFrame.refl w
    · split
      · exact RouterFrame.refl w
      · exact ⟨rfl, rfl, rfl, rfl, rfl, rfl, rfl, rfl, rfl, rfl, rfl, rfl, rfl⟩
  · split
    · exact RouterFrame.refl w
    · exact RouterFrame.refl w

/-- routing a job touches the pool, the environment and router/limiter state only -/
structure RouteFrame (w w' : W) : Prop where
  cfg : w'.cfg = w.cfg
  poolSize : w'.poolSize = w.poolSize
  queue : w'.queue = w.queue
  disc : w'.disc = w.disc
  drain : w'.drain = w.drain
  stopped : w'.stopped = w.stopped
  inbox : w'.inbox = w.inbox
  handler : w'.handler = w.handler
  now : w'.env.now = w.env.now

theorem getNextNonExpired_now' {h : Option Nat} (mq : List Job) (pend : List Nat) (e : Env) :
    (getNextNonExpired h mq pend e).2.2.2.now = e.now := by
  induction mq generalizing pend e with
  | nil => rfl
  | cons j rest ih =>
    unfold getNextNonExpired
    split
    · rfl
    · rw [ih]; rfl

/-- `now` is never changed by worker-level functions -/
structure EnvConst (e e' : Env) : Prop where
  now : e'.now = e.now

theorem EnvConst.refl (e : Env) : EnvConst e e := ⟨rfl⟩
theorem EnvConst.trans {a b c : Env} (h1 : EnvConst a b) (h2 : EnvConst b c) : EnvConst a c :=
  ⟨h2.now.trans h1.now⟩

theorem envConst_emit (e : Env) (ev : Ev) : EnvConst e (e.emit ev) := ⟨rfl⟩
theorem envConst_discard (e : Env) {h : Option Nat} (r : Reason) (j : Job) : EnvConst e (e.discard h r j) := ⟨rfl⟩
theorem envConst_reject (e : Env) (j : Job) : EnvConst e (e.reject j) := by
  unfold Env.reject; split
  · exact envConst_emit e _
  · exact EnvConst.refl e
theorem envConst_accept (e : Env) (j : Job) : EnvConst e (e.accept j) := by
  unfold Env.accept; split
  · exact envConst_emit e _
  · exact EnvConst.refl e

theorem envConst_getNext (p : WP) (e : Env) : EnvConst e (p.getNext e).2.2 :=
  ⟨getNextNonExpired_now' p.mq p.pending e⟩

theorem envConst_dispatchJob (p : WP) (e : Env) (j : Job) : EnvConst e (p.dispatchJob e j).2 := by
  unfold WP.dispatchJob
  cases hc : e.cast p.actor j with
  | none => exact EnvConst.refl e
  | some e' =>
    simp only
    unfold Env.cast at hc
    cases hg : e.getActor p.actor with
    | none => simp [hg] at hc
    | some a =>
      simp only [hg] at hc
      split at hc
      · simp at hc
      · simp only [Option.some.injEq] at hc
        subst hc
        exact ⟨rfl⟩

theorem envConst_shedOldest (limit fuel : Nat) (p : WP) (e : Env) : EnvConst e (shedOldest limit fuel p e).2 := by
  induction fuel generalizing p e with
  | zero => exact EnvConst.refl e
  | succ fuel ih =>
    unfold shedOldest
    split
    · have hg := envConst_getNext p e
      cases hn : p.getNext e with
      | mk r pe =>
        obtain ⟨p', e'⟩ := pe
        rw [hn] at hg
        cases r with
        | none => simp only; exact hg.trans (ih _ _)
        | some d => simp only; exact (hg.trans (envConst_discard _ _ _)).trans (ih _ _)
    · exact EnvConst.refl e

theorem envConst_enqueueAccepted (p : WP) (e : Env) (j : Job) : EnvConst e (p.enqueueAccepted e j).2 := by
  unfold WP.enqueueAccepted
  split
  · have hg := envConst_getNext p e
    cases hn : p.getNext e with
    | mk r pe =>
      obtain ⟨p', e'⟩ := pe
      rw [hn] at hg
      cases r with
      | none => simp only; exact hg.trans (envConst_dispatchJob _ _ _)
      | some d => simp only; exact hg.trans (envConst_dispatchJob _ _ _)
  · simp only
    split
    · exact envConst_shedOldest _ _ _ _
    · exact EnvConst.refl e

theorem envConst_enqueueJob (p : WP) (e : Env) (j : Job) : EnvConst e (p.enqueueJob e j).2 := by
  unfold WP.enqueueJob
  split
  · exact (envConst_discard e _ j).trans (envConst_reject _ j)
  · exact (envConst_accept e j).trans (envConst_enqueueAccepted _ _ _)

theorem routeInner_frame (w : W) (j : Job) (hint : Option Nat) : RouteFrame w (w.routeInner j hint).2 := by
  unfold W.routeInner
  have hs := chooseTargetWorker_frame w j hint
  cases hc : w.chooseTargetWorker j hint with
  | mk t w1 =>
    rw [hc] at hs
    simp only at hs ⊢
    have base : RouteFrame w w1 := ⟨hs.cfg, hs.poolSize, hs.queue, hs.disc, hs.drain, hs.stopped, hs.inbox, hs.handler, by rw [hs.env]⟩
    cases t with
    | none => exact base
    | some wid =>
      simp only
      cases hg : getW w1.pool wid with
      | none => exact base
      | some p =>
        simp only
        have he := envConst_enqueueJob p w1.env j
        exact ⟨hs.cfg, hs.poolSize, hs.queue, hs.disc, hs.drain, hs.stopped, hs.inbox,
          hs.handler, by simp only; rw [he.now, hs.env]⟩

theorem RouteFrame.refl (w : W) : RouteFrame w w := ⟨rfl, rfl, rfl, rfl, rfl, rfl, rfl, rfl, rfl⟩
theorem RouteFrame.trans {a b c : W} (h1 : RouteFrame a b) (h2 : RouteFrame b c) : RouteFrame a c :=
  ⟨h2.1.trans h1.1, h2.2.trans h1.2, h2.3.trans h1.3, h2.4.trans h1.4, h2.5.trans h1.5, h2.6.trans h1.6,
   h2.7.trans h1.7, h2.8.trans h1.8, h2.9.trans h1.9⟩

theorem RouterFrame.toRoute {w w' : W} (h : RouterFrame w w') : RouteFrame w w' :=
  ⟨h.cfg, h.poolSize, h.queue, h.disc, h.drain, h.stopped, h.inbox, h.handler, by rw [h.env]⟩

theorem routeLimited_frame (w : W) (j : Job) (hint : Option Nat) : RouteFrame w (w.routeLimited j hint).2 := by
  unfold W.routeLimited
  split
  · exact routeInner_frame w j hint
  · rename_i c lb _
    simp only
    split
    · split
      · split
        · rename_i h _
          have hw : RouteFrame w { w with rl := some (c, (LeakyBucket.check c lb w.env.now).1) } :=
            ⟨rfl, rfl, rfl, rfl, rfl, rfl, rfl, rfl, rfl⟩
          exact hw.trans (availChange_frame { w with rl := some (c, (LeakyBucket.check c lb w.env.now).1) } h true).toRoute
        · exact ⟨rfl, rfl, rfl, rfl, rfl, rfl, rfl, rfl, rfl⟩
      · exact ⟨rfl, rfl, rfl, rfl, rfl, rfl, rfl, rfl, rfl⟩
    · have h := routeInner_frame { w with rl := some (c, (LeakyBucket.check c lb w.env.now).1) } j hint
      cases hr : W.routeInner { w with rl := some (c, (LeakyBucket.check c lb w.env.now).1) } j hint with
      | mk r w2 =>
        rw [hr] at h
        simp only at h ⊢
        split
        · exact ⟨h.1, h.2, h.3, h.4, h.5, h.6, h.7, h.8, h.9⟩
        · exact ⟨h.1, h.2, h.3, h.4, h.5, h.6, h.7, h.8, h.9⟩

theorem routeMessage_frame (w : W) (j : Job) (hint : Option Nat) : RouteFrame w (w.routeMessage j hint).2 := by
  unfold W.routeMessage
  have h := routeLimited_frame w j hint
  cases hr : w.routeLimited j hint with
  | mk r w2 =>
    rw [hr] at h
    exact ⟨h.1, h.2, h.3, h.4, h.5, h.6, h.7, h.8, h.9⟩

/-- (C15 limit, factory queue, at the level of `dispatch`) handling a `Dispatch` never makes the
factory queue longer than `max L lenBefore` when the job is discardable; in Oldest mode a job
that is backlogged leaves it within `L`. -/
theorem dispatch_queue_le (w : W) (j : Job) (L : Nat) (m : Mode) (hd : w.disc = some (L, m))
    (hdisc : discardable w.cfg j = true) : (w.dispatch j).queue.length ≤ max L w.queue.length := by
  unfold W.dispatch
  split
  · simp only; omega
  · split
    · have hf := routeMessage_frame w j none
      cases hrm : w.routeMessage j none with
      | mk r w2 =>
        rw [hrm] at hf
        simp only at hf
        cases r with
        | handled => simp only; rw [hf.queue]; omega
        | rateLimited => simp only; rw [hf.queue]; omega
        | backlog =>
          simp only
          have hd2 : w2.disc = some (L, m) := by rw [hf.disc]; exact hd
          have hdisc2 : discardable w2.cfg j = true := by rw [hf.cfg]; exact hdisc
          cases m with
          | oldest =>
            have := maybeEnqueue_oldest_le w2 j L hd2
            omega
          | newest =>
            have := maybeEnqueue_newest_le w2 j L hd2 hdisc2
            rw [hf.queue] at this; exact this
    · simp only; omega

end Factory
