import RactorModel.Model.Link

/-!
# The fields of a cast / call on their way from the proxy to the original (C20, clause 1)

`Remote.Net` carries an opaque `payload : Nat`. Here the three fields a serialized message really
has are followed through every hand-over of the code:

* `RemoteActor::handle_serialized` (remote_actor.rs): `SerializedMessage::Cast{args, variant,
  metadata}` ⇒ `node::Cast{to, what: args, variant, metadata}`; `Call{args, reply, variant,
  metadata}` ⇒ `node::Call{to, tag, what: args, timeout_ms, variant, metadata}` (`proxyMsg`);
* the `NodeMessage` is encoded (prost: `enc`, a PARAMETER here), framed by the writer
  (`Codec.encodeFrame`), cut into arbitrary pieces by the transport, re-assembled by the reader
  (`Codec.readFrames`, the modelled read loop), decoded (prost: `dec`);
* `NodeSession::handle_node`: `node::Cast{..}` ⇒ `SerializedMessage::Cast{variant, args: what,
  metadata}`, `node::Call{..}` likewise (`deliver`).
-/

namespace Fields
open Codec

/-- the data fields of `SerializedMessage::{Cast, Call}` -/
structure Ser where
  isCall : Bool
  variant : String
  args : Bytes
  metadata : Option Bytes
  deriving DecidableEq, Repr

/-- `node::Cast` / `node::Call` -/
structure NodeMsg where
  isCall : Bool
  to : Nat
  tag : Nat
  what : Bytes
  variant : String
  metadata : Option Bytes
  timeoutMs : Option Nat
  deriving DecidableEq, Repr

/-- `RemoteActor::handle_serialized` for reference `to`; `tag`: the fresh tag (calls), `timeout`:
`reply.get_timeout()` in ms -/
def proxyMsg (to tag : Nat) (timeout : Option Nat) (m : Ser) : NodeMsg :=
  { isCall := m.isCall, to := to, tag := if m.isCall then tag else 0, what := m.args, variant := m.variant,
    metadata := m.metadata, timeoutMs := if m.isCall then timeout else none }

/-- `NodeSession::handle_node`: who gets it and what it gets -/
def deliver (n : NodeMsg) : Nat × Ser :=
  (n.to, { isCall := n.isCall, variant := n.variant, args := n.what, metadata := n.metadata })

/-- the bytes the writer task puts on the stream for a batch of node messages -/
def stream (enc : NodeMsg → Bytes) (ms : List NodeMsg) : Bytes := (ms.map enc).flatMap encodeFrame

end Fields
