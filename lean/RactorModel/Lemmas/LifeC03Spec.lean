import RactorModel.Lemmas.LifeC03
import RactorModel.Lemmas.LifeC01Spec

/-! Trace-level meaning of the C03 automaton (stop is graceful, kill is immediate) and the model
lemmas behind `C03.graceful_stop`. -/

namespace Life.C03

/-- An accepted kill: API / self kill that found the signal port open, or a kill by `terminate()`. -/
def isKillAcc : Ev → Bool
  | .killRet _ true | .treeKill => true
  | _ => false

/-- A kill accepted from outside the actor's own callback. -/
def isExtKill : Ev → Bool
  | .killRet false true | .treeKill => true
  | _ => false

def isSelfKill : Ev → Bool
  | .killRet true true => true
  | _ => false

/-- The task / the spawn future was aborted or dropped. -/
def isAbort : Ev → Bool
  | .aborted | .dropped => true
  | _ => false

/-- A callback makes progress: it starts, passes a suspension point, or returns. -/
def isProgress : Ev → Bool
  | .enter _ _ | .tick _ | .exit _ _ => true
  | _ => false

theorem next_cause {s s1 : St} {e : Ev} (h : next s e = .ok s1) (hc : s1.killed = true ∨ s1.aborted = true) :
    (s.killed = true ∨ s.aborted = true) ∨ isKillAcc e = true ∨ isAbort e = true := by
  cases e <;> simp only [next] at h <;> (repeat' split at h) <;>
    first
      | (cases h; done)
      | (cases h; simp_all [isKillAcc, isAbort]; done)

theorem accepts_cause {tr : List Ev} {s s' : St} (h : accepts next s tr = .ok s')
    (hc : s'.killed = true ∨ s'.aborted = true) :
    (s.killed = true ∨ s.aborted = true) ∨ ∃ x ∈ tr, isKillAcc x = true ∨ isAbort x = true := by
  induction tr generalizing s with
  | nil => simp only [accepts_nil] at h; cases h; exact Or.inl hc
  | cons e es ih =>
    rw [accepts_cons] at h
    cases hn : next s e with
    | error c => simp [hn] at h
    | ok s1 =>
      simp only [hn] at h
      rcases ih h with h1 | ⟨x, hx, hf⟩
      · rcases next_cause hn h1 with h2 | h2
        · exact Or.inl h2
        · exact Or.inr ⟨e, by simp, h2⟩
      · exact Or.inr ⟨x, by simp [hx], hf⟩

theorem next_cancelled_inv {s s1 : St} {cb : Cb} (h : next s (.cancelled cb) = .ok s1) :
    s.killed = true ∨ s.aborted = true := by
  simp only [next] at h
  (repeat' split at h) <;> first | (cases h; done) | (simp_all; done)

/-- Without a self-kill the `grace` flag stays down, and an external kill sticks. -/
theorem next_noGrace {s s1 : St} {e : Ev} (h : next s e = .ok s1) (he : isSelfKill e = false)
    (hg : s.grace = false) : s1.grace = false ∧ (s.killed = true ∨ isExtKill e = true → s1.killed = true) := by
  cases e with
  | killRet b ok =>
    cases b <;> cases ok <;> simp [isSelfKill] at he <;> (cases h; simp_all [isExtKill])
  | _ =>
    simp only [next] at h <;> (repeat' split at h) <;>
    first
      | (cases h; done)
      | (cases h; simp_all [isSelfKill, isExtKill]; done)

theorem accepts_noGrace {tr : List Ev} {s s' : St} (h : accepts next s tr = .ok s')
    (he : ∀ x ∈ tr, isSelfKill x = false) (hg : s.grace = false) :
    s'.grace = false ∧ ((s.killed = true ∨ ∃ x ∈ tr, isExtKill x = true) → s'.killed = true) := by
  induction tr generalizing s with
  | nil =>
    simp only [accepts_nil] at h; cases h
    exact ⟨hg, fun hk => by rcases hk with hk | ⟨x, hx, _⟩; exact hk; cases hx⟩
  | cons e es ih =>
    rw [accepts_cons] at h
    cases hn : next s e with
    | error c => simp [hn] at h
    | ok s1 =>
      simp only [hn] at h
      obtain ⟨g1, k1⟩ := next_noGrace hn (he e (by simp)) hg
      obtain ⟨g2, k2⟩ := ih h (fun x hx => he x (by simp [hx])) g1
      refine ⟨g2, ?_⟩
      rintro (hk | ⟨x, hx, hf⟩)
      · exact k2 (Or.inl (k1 (Or.inl hk)))
      · rcases List.mem_cons.mp hx with rfl | hx
        · exact k2 (Or.inl (k1 (Or.inr hf)))
        · exact k2 (Or.inr ⟨x, hx, hf⟩)

theorem next_progress_inv {s s1 : St} {e : Ev} (h : next s e = .ok s1) (he : isProgress e = true) :
    s.killed = false ∨ s.grace = true := by
  cases e <;> simp [isProgress] at he <;> simp only [next] at h <;> (repeat' split at h) <;>
    first
      | (cases h; done)
      | (cases hk : s.killed <;> simp_all; done)

theorem ok_iff {tr : List Ev} : ok tr = true ↔ ∃ s, accepts next {} tr = .ok s := by
  unfold ok
  cases h : accepts next {} tr with
  | ok s => simp [Except.isOk, Except.toBool]
  | error c => simp [Except.isOk, Except.toBool]

/-! ### side effects that are not a self-kill leave the stop request where it is -/

theorem runFx_keep (a : Actor) (f : Fx) (hf : f ≠ .killSelf) (hs : a.stopTx = false) :
    (runFx a f).1.phase = a.phase ∧ (runFx a f).1.sigVal = a.sigVal ∧ (runFx a f).1.stopVal = a.stopVal ∧
    (runFx a f).1.stopTx = false ∧ (runFx a f).1.supQ = a.supQ ∧
    ∀ e ∈ evs (runFx a f).2, Life.C01.isFatal e = false ∧ (∀ cb x, e ≠ .enter cb x) := by
  cases f with
  | killSelf => exact absurd rfl hf
  | sendSelf m =>
    simp only [runFx, apiSend]
    (repeat' split) <;> simp [hs, Life.C01.isFatal]
  | stopSelf r => simp [runFx, apiStop, hs, Life.C01.isFatal]
  | joinGroup g => simp only [runFx]; split <;> simp [hs, Life.C01.isFatal]
  | reply k v => simp only [runFx]; split <;> simp [hs, Life.C01.isFatal]
  | forget k => simp only [runFx]; split <;> simp [hs, Life.C01.isFatal]
  | spawnChild c => simp [runFx, hs, Life.C01.isFatal]

theorem runFxs_keep (fs : List Fx) (a : Actor) (hf : Fx.killSelf ∉ fs) (hs : a.stopTx = false) :
    (runFxs a fs).1.phase = a.phase ∧ (runFxs a fs).1.sigVal = a.sigVal ∧ (runFxs a fs).1.stopVal = a.stopVal ∧
    (runFxs a fs).1.stopTx = false ∧ (runFxs a fs).1.supQ = a.supQ ∧
    ∀ e ∈ evs (runFxs a fs).2, Life.C01.isFatal e = false ∧ (∀ cb x, e ≠ .enter cb x) := by
  induction fs generalizing a with
  | nil => simp [runFxs, hs]
  | cons f fs ih =>
    have hf1 : f ≠ .killSelf := by intro h; exact hf (by simp [h])
    have hf2 : Fx.killSelf ∉ fs := by intro h; exact hf (by simp [h])
    obtain ⟨h1, h2, h3, h4, h5, h6⟩ := runFx_keep a f hf1 hs
    obtain ⟨g1, g2, g3, g4, g5, g6⟩ := ih (runFx a f).1 hf2 h4
    simp only [runFxs, andThen_fst, andThen_snd, evs_append, List.mem_append]
    refine ⟨by rw [g1, h1], by rw [g2, h2], by rw [g3, h3], g4, by rw [g5, h5], ?_⟩
    rintro e (he | he)
    · exact h6 e he
    · exact g6 e he

/-! ### the graceful path of one poll -/

theorem afterExit_graceful (c : Actor) (r : Reason) (hph : c.phase = .inMsg ∨ c.phase = .inSup)
    (hsig : c.sigVal = false) (hstop : c.stopVal = some r) :
    afterExit c .ok = enterPostStop { c with sigW := true, stopVal := none } r := by
  have hl : listen c = enterPostStop { c with sigW := true, stopVal := none } r := by
    unfold listen
    simp [hsig, hstop]
  unfold afterExit
  rcases hph with h | h <;> simp only [h] <;> exact hl

/-- A segment that returns `Ok` without a self-kill, inside a handler, with a stop accepted and no kill
pending: the handler finishes and `post_stop` is entered with the accepted reason. -/
theorem runSeg_graceful (b : Actor) (cb : Cb) (fx : List Fx) (r : Reason)
    (hph : b.phase = .inMsg ∨ b.phase = .inSup) (hsig : b.sigVal = false) (hstop : b.stopVal = some r)
    (htx : b.stopTx = false) (hnk : Fx.killSelf ∉ fx) :
    (runSeg b cb ⟨fx, .ok⟩ afterExit).1.phase = .postStop r ∧
    (∀ e ∈ evs (runSeg b cb ⟨fx, .ok⟩ afterExit).2, Life.C01.isFatal e = false) ∧
    (∃ pre cb', evs (runSeg b cb ⟨fx, .ok⟩ afterExit).2 = pre ++ [.exit cb' .ok, .enter .postStop .none] ∧
      ∀ e ∈ pre, ∀ c x, e ≠ .enter c x) ∧
    (runSeg b cb ⟨fx, .ok⟩ afterExit).1.supQ = b.supQ := by
  obtain ⟨k1, k2, k3, _, k5, k6⟩ := runFxs_keep fx b hnk htx
  have hafter := afterExit_graceful (runFxs b fx).1 r (by rw [k1]; exact hph) (by rw [k2]; exact hsig)
    (by rw [k3]; exact hstop)
  have hev : evs (runSeg b cb ⟨fx, .ok⟩ afterExit).2 =
      ([.tick cb] ++ evs (runFxs b fx).2) ++ [.exit cb .ok, .enter .postStop .none] := by
    unfold runSeg
    simp [say, Term.res, hafter, enterPostStop, evs_append]
  have hst : (runSeg b cb ⟨fx, .ok⟩ afterExit).1 =
      (enterPostStop { (runFxs b fx).1 with sigW := true, stopVal := none } r).1 := by
    unfold runSeg
    simp [say, Term.res, hafter]
  refine ⟨by rw [hst]; rfl, ?_, ⟨[.tick cb] ++ evs (runFxs b fx).2, cb, hev, ?_⟩, ?_⟩
  · intro e he
    rw [hev] at he
    simp only [List.mem_append, List.mem_cons, List.mem_nil_iff, or_false] at he
    rcases he with (he | he) | he | he
    · subst he; rfl
    · exact (k6 e he).1
    · subst he; rfl
    · subst he; rfl
  · intro e he c x
    simp only [List.mem_append, List.mem_cons, List.mem_nil_iff, or_false] at he
    rcases he with he | he
    · subst he; simp
    · exact (k6 e he).2 c x
  · rw [hst]; simpa [enterPostStop, Actor.setStatus] using k5

end Life.C03
