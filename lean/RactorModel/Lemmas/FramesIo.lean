import RactorModel.Lemmas.Frames

/-! Lemmas about a transport that ends with an I/O error (`Codec.readFramesIo`). -/

namespace Codec

theorem isErr_ioEnd {Msg : Type} (b : Bool) (r : FrameRes Msg) : isErr (ioEnd b r) = isErr r := by
  cases r with
  | ok m => rfl
  | err e => cases e <;> cases b <;> rfl

theorem stops_map_ioEnd {Msg : Type} (b : Bool) (rs : List (FrameRes Msg)) :
    stopsAtFirstError (rs.map (ioEnd b)) = stopsAtFirstError rs := by
  induction rs with
  | nil => rfl
  | cons r rs ih =>
    cases rs with
    | nil => simp [stopsAtFirstError, isErr_ioEnd]
    | cons r2 rs2 =>
      simp only [List.map_cons, stopsAtFirstError, isErr_ioEnd] at ih ⊢
      rw [ih]

theorem no_eof_after_ioEnd {Msg : Type} (rs : List (FrameRes Msg)) :
    FrameRes.err FrameErr.eof ∉ rs.map (ioEnd true) := by
  intro h
  simp only [List.mem_map] at h
  obtain ⟨r, _, hr⟩ := h
  cases r with
  | ok m => simp [ioEnd] at hr
  | err e => cases e <;> simp [ioEnd] at hr

theorem ok_mem_map_ioEnd {Msg : Type} (b : Bool) (rs : List (FrameRes Msg)) (m : Msg) :
    FrameRes.ok m ∈ rs.map (ioEnd b) ↔ FrameRes.ok m ∈ rs := by
  simp only [List.mem_map]
  constructor
  · rintro ⟨r, hr, he⟩
    cases r with
    | ok m' => simp only [ioEnd] at he; rw [← he]; exact hr
    | err e => cases e <;> cases b <;> simp [ioEnd] at he
  · intro h
    exact ⟨_, h, rfl⟩

theorem readFrames_fst_eq {Msg : Type} (dec : Bytes → Option Msg) (max : Nat) (chunks : List Bytes) :
    (readFrames dec max chunks).1 = (readFrames dec max [chunks.flatten]).1 := by
  have h1 : (framesObs dec max chunks).1 = (readFrames dec max chunks).1 := rfl
  have h2 : (framesObs dec max [chunks.flatten]).1 = (readFrames dec max [chunks.flatten]).1 := rfl
  rw [← h1, ← h2, framesObs_eq, framesObs_eq]
  simp

theorem readFrames_stops {Msg : Type} (dec : Bytes → Option Msg) (max : Nat) (chunks : List Bytes) :
    stopsAtFirstError (readFrames dec max chunks).1 = true := by
  have h : (framesObs dec max chunks).1 = (readFrames dec max chunks).1 := rfl
  rw [← h, framesObs_eq]
  exact stops_parseFrames dec max _ _ (by omega)

end Codec
