import RactorModel.Lemmas.OutPortV1
import RactorModel.Lemmas.OutPortV2
import RactorModel.Lemmas.OutPortV2Acct

/-!
Dropping the output port (`V2c`, `V1c` of `Model/OutPort.lean`).

* simulation: the inner machine of a run with drops is a run of the plain machine, so every
  invariant carries over;
* v2: `finished → closed ∧ idle` — the port task leaves its loop only after the channel has
  been emptied and the last batch dispatched; afterwards nothing changes any more; while
  closed and not finished every task step makes lexicographic progress, hence the task
  finishes after finitely many steps;
* v1: a forwarding task that returned on `Closed` had consumed the whole ring
  (`cursor = log.length`) and was never ended by a dead subscriber; afterwards it is inert;
  while closed every iteration returns or moves the cursor strictly forward.
-/

namespace OutPort
variable {M O : Type}

/-! ## v2 -/

theorem V2c.step_base (st : V2c M O) (o : Op2c M O) :
    (st.step o).base = st.base ∨ ∃ o', (st.step o).base = st.base.step o' := by
  cases o with
  | drop => exact Or.inl rfl
  | op o =>
    cases o with
    | publish m =>
      simp only [V2c.step]; split
      · exact Or.inl rfl
      · exact Or.inr ⟨.publish m, rfl⟩
    | subscribe a c =>
      simp only [V2c.step]; split
      · exact Or.inl rfl
      · exact Or.inr ⟨.subscribe a c, rfl⟩
    | exit a => exact Or.inr ⟨.exit a, rfl⟩
    | task =>
      simp only [V2c.step, V2c.task]
      split
      · exact Or.inl rfl
      · split
        · exact Or.inl rfl
        · exact Or.inr ⟨.task, rfl⟩

/-- the inner machine of a run with drops is a run of the plain machine -/
theorem V2c.run_base (st : V2c M O) (ops : List (Op2c M O)) :
    ∃ ops', (st.run ops).base = st.base.run ops' := by
  induction ops generalizing st with
  | nil => exact ⟨[], rfl⟩
  | cons o ops ih =>
    obtain ⟨ops', h⟩ := ih (st.step o)
    simp only [V2c.run, List.foldl_cons] at h ⊢
    rcases V2c.step_base st o with hb | ⟨o', hb⟩
    · exact ⟨ops', by rw [h, hb]⟩
    · exact ⟨o' :: ops', by rw [h, hb]; rfl⟩

theorem V2c.inv_run (ad : Bool) (ops : List (Op2c M O)) : Inv ((V2c.init M O ad).run ops).base := by
  obtain ⟨ops', h⟩ := V2c.run_base (V2c.init M O ad) ops
  rw [h]; exact OutPort.inv_run ops' (inv_init ad)

theorem V2c.run_allowDup (ad : Bool) (ops : List (Op2c M O)) :
    ((V2c.init M O ad).run ops).base.allowDup = ad := by
  obtain ⟨ops', h⟩ := V2c.run_base (V2c.init M O ad) ops
  rw [h]; exact OutPort.run_allowDup _ ops'

/-- what `finished` means -/
def V2c.FinOk (st : V2c M O) : Prop := st.finished = true → st.closed = true ∧ st.base.idle = true

theorem V2c.finOk_step (st : V2c M O) (o : Op2c M O) (h : st.FinOk) : (st.step o).FinOk := by
  intro hf
  cases o with
  | drop => exact ⟨rfl, (h hf).2⟩
  | op o =>
    cases o with
    | publish m =>
      simp only [V2c.step] at hf ⊢
      split
      · exact h (by simpa [*] using hf)
      · rename_i hc
        have := (h (by simpa [hc] using hf)).1
        exact absurd this hc
    | subscribe a c =>
      simp only [V2c.step] at hf ⊢
      split
      · exact h (by simpa [*] using hf)
      · rename_i hc
        have := (h (by simpa [hc] using hf)).1
        exact absurd this hc
    | exit a =>
      have := h hf
      exact ⟨this.1, by simpa [V2c.step, V2.step, V2.idle] using this.2⟩
    | task =>
      simp only [V2c.step, V2c.task] at hf ⊢
      split
      · rename_i h1; exact h h1
      · split
        · rename_i h1 h2
          simp only [Bool.and_eq_true] at h2
          exact h2
        · rename_i h1 h2
          simp only [h1, h2] at hf
          simp at hf

theorem V2c.finOk_run (ad : Bool) (ops : List (Op2c M O)) : ((V2c.init M O ad).run ops).FinOk := by
  have : ∀ (st : V2c M O), st.FinOk → (st.run ops).FinOk := by
    induction ops with
    | nil => intro st h; exact h
    | cons o ops ih => intro st h; exact ih _ (V2c.finOk_step st o h)
  exact this _ (by intro h; simp [V2c.init] at h)

/-- once the port task has finished nothing is ever delivered again: no step changes any
subscription record, the queue or the program counter -/
theorem V2c.finished_frozen (st : V2c M O) (hok : st.FinOk) (hf : st.finished = true) (o : Op2c M O) :
    (st.step o).finished = true ∧ (st.step o).base.all = st.base.all ∧
      (st.step o).base.hist = st.base.hist ∧ (st.step o).task.2 = none := by
  have hc := (hok hf).1
  have key : ∀ st' : V2c M O, st'.finished = true → st'.task.2 = none := by
    intro st' h; simp [V2c.task, h]
  cases o with
  | drop => exact ⟨hf, rfl, rfl, key _ hf⟩
  | op o =>
    cases o with
    | publish m =>
      have : st.step (.op (.publish m)) = st := by simp [V2c.step, hc]
      rw [this]; exact ⟨hf, rfl, rfl, key _ hf⟩
    | subscribe a c =>
      have : st.step (.op (.subscribe a c)) = st := by simp [V2c.step, hc]
      rw [this]; exact ⟨hf, rfl, rfl, key _ hf⟩
    | exit a => exact ⟨hf, rfl, rfl, key _ hf⟩
    | task =>
      have : st.step (.op .task) = st := by simp [V2c.step, V2c.task, hf]
      rw [this]; exact ⟨hf, rfl, rfl, key _ hf⟩

/-- rank of the program counter for the close-down measure -/
def Pc.rank : Pc M O → Nat
  | .top _ => 0
  | .wait _ _ => 1
  | .disp .. => 2

/-- work left for the port task once the channel is closed -/
def V2.closeMeasure (st : V2 M O) : Nat × Nat × (Nat × Nat × Nat) :=
  (st.queue.length, st.pc.rank, st.pc.measure)

abbrev lexClose : Nat × Nat × (Nat × Nat × Nat) → Nat × Nat × (Nat × Nat × Nat) → Prop :=
  Prod.Lex (· < ·) (Prod.Lex (· < ·) lex3)

theorem lex3_wf : WellFounded (lex3) :=
  (Prod.lex ⟨_, Nat.lt_wfRel.wf⟩ (Prod.lex ⟨_, Nat.lt_wfRel.wf⟩ ⟨_, Nat.lt_wfRel.wf⟩)).wf

theorem lexClose_wf : WellFounded (lexClose) :=
  (Prod.lex ⟨_, Nat.lt_wfRel.wf⟩ (Prod.lex ⟨_, Nat.lt_wfRel.wf⟩ ⟨_, lex3_wf⟩)).wf

theorem task_queue_le (st : V2 M O) : st.task.1.queue.length ≤ st.queue.length := by
  unfold V2.task
  split
  · split
    · simp
    · simp only [List.length_drop]; omega
  · split
    · simp
    · simp only [List.length_drop]; omega
  · simp
  · simp
  · split
    · split <;> simp
    · split <;> simp

/-- a port-task step that is not parked strictly decreases the close-down measure -/
theorem task_closeMeasure (st : V2 M O) (hni : st.idle = false) :
    lexClose st.task.1.closeMeasure st.closeMeasure := by
  cases hpc : st.pc with
  | top subs =>
    have hq : st.queue ≠ [] := by
      intro h; simp [V2.idle, hpc, h] at hni
    have hl : st.queue.length ≠ 0 := by
      intro h; exact hq (List.length_eq_zero_iff.mp h)
    simp only [V2.closeMeasure, V2.task, hpc]
    have : st.queue.isEmpty = false := by simpa using hq
    simp only [this, Bool.false_eq_true, ↓reduceIte]
    apply Prod.Lex.left
    simp only [List.length_drop, maxBatch]; omega
  | wait subs l =>
    have hq : st.queue ≠ [] := by
      intro h; simp [V2.idle, hpc, h] at hni
    have hl : st.queue.length ≠ 0 := by
      intro h; exact hq (List.length_eq_zero_iff.mp h)
    simp only [V2.closeMeasure, V2.task, hpc]
    have : st.queue.isEmpty = false := by simpa using hq
    simp only [this, Bool.false_eq_true, ↓reduceIte]
    cases l with
    | zero =>
      simp only [List.take_zero, List.drop_zero, nextSeg]
      exact Prod.Lex.right _ (Prod.Lex.left _ _ (by simp [Pc.rank]))
    | succ l =>
      apply Prod.Lex.left
      simp only [List.length_drop]; omega
  | disp srv todo seg left rest =>
    have hq : st.task.1.queue = st.queue := by
      unfold V2.task
      rw [hpc]
      split
      · simp_all
      · simp_all
      · rfl
      · rfl
      · split
        · split <;> rfl
        · split <;> rfl
    rcases batch_progress st srv todo seg left rest hpc with ⟨subs, ht⟩ | hlt
    · simp only [V2.closeMeasure, hq, ht, hpc]
      exact Prod.Lex.right _ (Prod.Lex.left _ _ (by simp [Pc.rank]))
    · simp only [V2.closeMeasure, hq]
      cases hpc' : st.task.1.pc with
      | top s => rw [hpc]; exact Prod.Lex.right _ (Prod.Lex.left _ _ (by simp [Pc.rank]))
      | wait s l => rw [hpc]; exact Prod.Lex.right _ (Prod.Lex.left _ _ (by simp [Pc.rank]))
      | disp a b c d e =>
        rw [hpc'] at hlt
        rw [hpc] at hlt ⊢
        exact Prod.Lex.right _ (Prod.Lex.right _ hlt)

/-- (progress after the drop) closed and not finished: the next task step finishes the task
or strictly decreases the close-down measure; the environment cannot increase it (nothing
can be enqueued any more) -/
theorem V2c.task_progress (st : V2c M O) (hc : st.closed = true) (hf : st.finished = false) :
    st.task.1.finished = true ∨
      (st.task.1.finished = false ∧ st.task.1.closed = true ∧
        lexClose st.task.1.base.closeMeasure st.base.closeMeasure) := by
  cases hi : st.base.idle with
  | true => left; simp [V2c.task, hf, hc, hi]
  | false =>
    right
    have : st.task = ({ st with base := st.base.task.1 }, st.base.task.2) := by
      simp [V2c.task, hf, hc, hi]
    rw [this]
    exact ⟨hf, hc, task_closeMeasure st.base hi⟩

/-- (termination) after the drop the port task finishes within finitely many of its own steps -/
theorem V2c.terminates (st : V2c M O) (hc : st.closed = true) : ∃ n, (V2c.tasks n st).finished = true := by
  have : ∀ m, ∀ st : V2c M O, st.closed = true → st.base.closeMeasure = m →
      ∃ n, (V2c.tasks n st).finished = true := by
    intro m
    induction m using lexClose_wf.induction with
    | _ m ih =>
      intro st hc hm
      cases hf : st.finished with
      | true => exact ⟨0, hf⟩
      | false =>
        rcases V2c.task_progress st hc hf with h | ⟨_, hc', hlt⟩
        · exact ⟨1, h⟩
        · rw [hm] at hlt
          obtain ⟨n, hn⟩ := ih _ hlt st.task.1 hc' rfl
          exact ⟨n + 1, hn⟩
  exact this _ st hc rfl

/-! ### without further publications the port task reaches its parking point -/

/-- `n` steps of the plain port task -/
def V2.tasks : Nat → V2 M O → V2 M O
  | 0, st => st
  | n + 1, st => V2.tasks n st.task.1

/-- (eventually complete) From ANY state, if nothing more is enqueued, the port task parks with
an empty channel after finitely many of its own steps — whatever the subscribers do meanwhile
costs no step. At that point `Inv.exact` applies: every registered subscription is complete. -/
theorem V2.reaches_idle (st : V2 M O) : ∃ n, (V2.tasks n st).idle = true := by
  have : ∀ m, ∀ st : V2 M O, st.closeMeasure = m → ∃ n, (V2.tasks n st).idle = true := by
    intro m
    induction m using lexClose_wf.induction with
    | _ m ih =>
      intro st hm
      cases hi : st.idle with
      | true => exact ⟨0, hi⟩
      | false =>
        have hlt := task_closeMeasure st hi
        rw [hm] at hlt
        obtain ⟨n, hn⟩ := ih _ hlt st.task.1 rfl
        exact ⟨n + 1, hn⟩
  exact this _ st rfl

theorem V2.tasks_eq_run (n : Nat) (st : V2 M O) : V2.tasks n st = st.run (List.replicate n .task) := by
  induction n generalizing st with
  | zero => rfl
  | succ n ih => simp only [V2.tasks, List.replicate_succ, V2.run, List.foldl_cons] at ih ⊢; rw [ih]; rfl

/-- `n` iterations of forwarding task `i` of the plain v1 port -/
def V1.tasks : Nat → V1 M O → Nat → V1 M O
  | 0, st, _ => st
  | n + 1, st, i => V1.tasks n (st.task i).1 i

/-- the forwarding task of subscription `i` has nothing to do: it has returned, or it has
consumed everything stored -/
def V1.settled (st : V1 M O) (i : Nat) : Bool :=
  match st.fwds[i]? with
  | some f => f.ended || decide (st.log.length ≤ f.cursor)
  | none => true

theorem V1.task_progress (st : V1 M O) (i : Nat) (f : Fwd M O) (hfi : st.fwds[i]? = some f)
    (he : f.ended = false) (hlt : f.cursor < st.log.length) :
    (st.task i).1.log = st.log ∧
      ∃ f', (st.task i).1.fwds[i]? = some f' ∧ (f'.ended = true ∨ f.cursor < f'.cursor) := by
  refine ⟨(task1_frame st i).1, ?_⟩
  have hi : i < st.fwds.length := (List.getElem?_eq_some_iff.mp hfi).1
  simp only [V1.task, hfi]
  refine ⟨(f.step st.cap st.log st.dead).1, by simp [hi], ?_⟩
  simp only [Fwd.step, he, Bool.false_eq_true, ↓reduceIte]
  split
  · right; simp only; omega
  · have : st.log[f.cursor]? = some st.log[f.cursor] := List.getElem?_eq_getElem hlt
    rw [this]
    simp only
    split
    · split
      · left; rfl
      · right; simp
    · split
      · left; rfl
      · right; simp

/-- (eventually caught up, v1) Without further publications every forwarding task returns or
catches up with the ring after finitely many of its own iterations; then `FwdOk.recent` applies. -/
theorem V1.reaches_settled (st : V1 M O) (hinv : Inv1 st) (i : Nat) :
    ∃ n, (V1.tasks n st i).settled i = true := by
  have : ∀ k, ∀ st : V1 M O, Inv1 st → (∀ f, st.fwds[i]? = some f → st.log.length - f.cursor ≤ k) →
      ∃ n, (V1.tasks n st i).settled i = true := by
    intro k
    induction k with
    | zero =>
      intro st _ hk
      refine ⟨0, ?_⟩
      cases hfi : st.fwds[i]? with
      | none => simp [V1.tasks, V1.settled, hfi]
      | some f =>
        have h0 := hk f hfi
        have : st.log.length ≤ f.cursor := by omega
        simp [V1.tasks, V1.settled, hfi, this]
    | succ k ih =>
      intro st hinv hk
      cases hs : st.settled i with
      | true => exact ⟨0, hs⟩
      | false =>
        simp only [V1.settled] at hs
        cases hfi : st.fwds[i]? with
        | none => rw [hfi] at hs; simp at hs
        | some f =>
          rw [hfi] at hs
          simp only [Bool.or_eq_false_iff, decide_eq_false_iff_not, Nat.not_le] at hs
          obtain ⟨hlog, f', hf', hprog⟩ := V1.task_progress st i f hfi hs.1 hs.2
          rcases hprog with he | hlt
          · exact ⟨1, by simp [V1.tasks, V1.settled, hf', he]⟩
          · have hinv' : Inv1 (st.task i).1 := inv1_task i hinv
            obtain ⟨n, hn⟩ := ih (st.task i).1 hinv' (by
              intro g hg
              rw [hf'] at hg
              cases hg
              have hk' := hk f hfi
              rw [hlog]
              omega)
            exact ⟨n + 1, hn⟩
  exact this (st.log.length) st hinv (fun f _ => by omega)

theorem V1.tasks_eq_run (n : Nat) (st : V1 M O) (i : Nat) :
    V1.tasks n st i = st.run (List.replicate n (.task i)) := by
  induction n generalizing st with
  | zero => rfl
  | succ n ih => simp only [V1.tasks, List.replicate_succ, V1.run, List.foldl_cons] at ih ⊢; rw [ih]; rfl

/-! ### which calls count: exactly those made before the drop -/

/-- the API calls of an op list that reach the port: those before the first `drop` -/
def Op2c.live : Op2c M O → Bool
  | .drop => false
  | .op _ => true

def shape2c : Op2c M O → Option (Option M)
  | .op o => opShape o
  | .drop => none

theorem V2c.task_hist (st : V2c M O) : st.task.1.base.hist = st.base.hist := by
  simp only [V2c.task]
  split
  · rfl
  · split
    · rfl
    · exact OutPort.task_hist st.base

theorem V2c.closed_hist (st : V2c M O) (hc : st.closed = true) (ops : List (Op2c M O)) :
    (st.run ops).base.hist = st.base.hist := by
  induction ops generalizing st with
  | nil => rfl
  | cons o ops ih =>
    simp only [V2c.run, List.foldl_cons] at ih ⊢
    have hc' : (st.step o).closed = true := by
      cases o with
      | drop => rfl
      | op o =>
        cases o with
        | publish m => simp [V2c.step, hc]
        | subscribe a c => simp [V2c.step, hc]
        | exit a => exact hc
        | task =>
          simp only [V2c.step, V2c.task]
          split
          · exact hc
          · split <;> exact hc
    have hh : (st.step o).base.hist = st.base.hist := by
      cases o with
      | drop => rfl
      | op o =>
        cases o with
        | publish m => simp [V2c.step, hc]
        | subscribe a c => simp [V2c.step, hc]
        | exit a => rfl
        | task => exact V2c.task_hist st
    rw [ih _ hc', hh]

theorem V2c.hist_run' (st : V2c M O) (hc : st.closed = false) (ops : List (Op2c M O)) :
    (st.run ops).base.hist.map Cmd.data? =
      st.base.hist.map Cmd.data? ++ (ops.takeWhile Op2c.live).filterMap shape2c := by
  induction ops generalizing st with
  | nil => simp [V2c.run]
  | cons o ops ih =>
    simp only [V2c.run, List.foldl_cons] at ih ⊢
    cases o with
    | drop =>
      have := V2c.closed_hist (st.step .drop) rfl ops
      simp only [V2c.run] at this
      rw [this]
      simp [V2c.step, Op2c.live]
    | op o =>
      have hc' : (st.step (.op o)).closed = false := by
        cases o with
        | publish m => simp [V2c.step, hc]
        | subscribe a c => simp [V2c.step, hc]
        | exit a => exact hc
        | task =>
          simp only [V2c.step, V2c.task]
          split
          · exact hc
          · split <;> exact hc
      rw [ih _ hc']
      simp only [List.takeWhile_cons, Op2c.live, ↓reduceIte, List.filterMap_cons]
      cases o with
      | publish m => simp [V2c.step, hc, V2.publish, shape2c, opShape, Cmd.data?]
      | subscribe a c => simp [V2c.step, hc, V2.subscribe, shape2c, opShape, Cmd.data?]
      | exit a => simp [V2c.step, V2.step, shape2c, opShape]
      | task => simp [V2c.step, V2c.task_hist, shape2c, opShape]

/-! ## v1 -/

def Op1c.live : Op1c M O → Bool
  | .drop => false
  | .op _ => true

def pub1c : Op1c M O → Option M
  | .op (.publish m) => some m
  | _ => none

theorem V1c.task_pubs (st : V1c M O) (i : Nat) : (st.task i).1.base.pubs = st.base.pubs := by
  simp only [V1c.task]
  split
  · rfl
  · split
    · rfl
    · split
      · rfl
      · exact (task1_frame st.base i).2.1

theorem V1c.task_closed (st : V1c M O) (i : Nat) : (st.task i).1.closed = st.closed := by
  simp only [V1c.task]
  split
  · rfl
  · split
    · rfl
    · split <;> rfl

theorem V1c.closed_pubs (st : V1c M O) (hc : st.closed = true) (ops : List (Op1c M O)) :
    (st.run ops).base.pubs = st.base.pubs := by
  induction ops generalizing st with
  | nil => rfl
  | cons o ops ih =>
    simp only [V1c.run, List.foldl_cons] at ih ⊢
    have hc' : (st.step o).closed = true := by
      cases o with
      | drop => rfl
      | op o =>
        cases o with
        | publish m => simp [V1c.step, hc]
        | subscribe a c => simp [V1c.step, hc]
        | exit a => exact hc
        | task i => simp only [V1c.step, V1c.task_closed]; exact hc
    have hh : (st.step o).base.pubs = st.base.pubs := by
      cases o with
      | drop => rfl
      | op o =>
        cases o with
        | publish m => simp [V1c.step, hc]
        | subscribe a c => simp [V1c.step, hc]
        | exit a => rfl
        | task i => exact V1c.task_pubs st i
    rw [ih _ hc', hh]

theorem V1c.pubs_run' (st : V1c M O) (hc : st.closed = false) (ops : List (Op1c M O)) :
    (st.run ops).base.pubs = st.base.pubs ++ (ops.takeWhile Op1c.live).filterMap pub1c := by
  induction ops generalizing st with
  | nil => simp [V1c.run]
  | cons o ops ih =>
    simp only [V1c.run, List.foldl_cons] at ih ⊢
    cases o with
    | drop =>
      have := V1c.closed_pubs (st.step .drop) rfl ops
      simp only [V1c.run] at this
      rw [this]
      simp [V1c.step, Op1c.live]
    | op o =>
      have hc' : (st.step (.op o)).closed = false := by
        cases o with
        | publish m => simp [V1c.step, hc]
        | subscribe a c => simp [V1c.step, hc]
        | exit a => exact hc
        | task i => simp only [V1c.step, V1c.task_closed]; exact hc
      rw [ih _ hc']
      simp only [List.takeWhile_cons, Op1c.live, ↓reduceIte, List.filterMap_cons]
      cases o with
      | publish m =>
        simp only [V1c.step, hc, Bool.false_eq_true, ↓reduceIte, pub1c, V1.publish]
        split <;> simp
      | subscribe a c => simp [V1c.step, hc, V1.subscribe, pub1c]
      | exit a => simp [V1c.step, V1.step, pub1c]
      | task i => simp [V1c.step, V1c.task_pubs, pub1c]

theorem V1c.step_base (st : V1c M O) (o : Op1c M O) :
    (st.step o).base = st.base ∨ ∃ o', (st.step o).base = st.base.step o' := by
  cases o with
  | drop => exact Or.inl rfl
  | op o =>
    cases o with
    | publish m =>
      simp only [V1c.step]; split
      · exact Or.inl rfl
      · exact Or.inr ⟨.publish m, rfl⟩
    | subscribe a c =>
      simp only [V1c.step]; split
      · exact Or.inl rfl
      · exact Or.inr ⟨.subscribe a c, rfl⟩
    | exit a => exact Or.inr ⟨.exit a, rfl⟩
    | task i =>
      simp only [V1c.step, V1c.task]
      split
      · exact Or.inl rfl
      · split
        · exact Or.inl rfl
        · split
          · exact Or.inl rfl
          · exact Or.inr ⟨.task i, rfl⟩

theorem V1c.run_base (st : V1c M O) (ops : List (Op1c M O)) :
    ∃ ops', (st.run ops).base = st.base.run ops' := by
  induction ops generalizing st with
  | nil => exact ⟨[], rfl⟩
  | cons o ops ih =>
    obtain ⟨ops', h⟩ := ih (st.step o)
    simp only [V1c.run, List.foldl_cons] at h ⊢
    rcases V1c.step_base st o with hb | ⟨o', hb⟩
    · exact ⟨ops', by rw [h, hb]⟩
    · exact ⟨o' :: ops', by rw [h, hb]; rfl⟩

theorem V1c.inv_run (cap : Nat) (ops : List (Op1c M O)) : Inv1 ((V1c.init M O cap).run ops).base := by
  obtain ⟨ops', h⟩ := V1c.run_base (V1c.init M O cap) ops
  rw [h]; exact OutPort.inv1_run ops' (inv1_init cap)

theorem V1c.run_cap (cap : Nat) (ops : List (Op1c M O)) : ((V1c.init M O cap).run ops).base.cap = cap := by
  obtain ⟨ops', h⟩ := V1c.run_base (V1c.init M O cap) ops
  rw [h]; exact run1_cap' _ ops'

/-- what membership in `finished` means -/
def V1c.FinOk (st : V1c M O) : Prop :=
  ∀ i ∈ st.finished, st.closed = true ∧
    ∃ f, st.base.fwds[i]? = some f ∧ f.ended = false ∧ f.cursor = st.base.log.length

theorem V1c.finOk_step (st : V1c M O) (hinv : Inv1 st.base) (o : Op1c M O) (h : st.FinOk) :
    (st.step o).FinOk := by
  cases o with
  | drop => intro i hi; exact ⟨rfl, (h i hi).2⟩
  | op o =>
    cases o with
    | publish m =>
      simp only [V1c.step]
      split
      · exact h
      · rename_i hc
        intro i hi
        exact absurd (h i hi).1 hc
    | subscribe a c =>
      simp only [V1c.step]
      split
      · exact h
      · rename_i hc
        intro i hi
        exact absurd (h i hi).1 hc
    | exit a => exact h
    | task j =>
      simp only [V1c.step, V1c.task]
      split
      · exact h
      · rename_i hnf
        split
        · exact h
        · rename_i f hfj
          split
          · rename_i hcond
            simp only [Bool.and_eq_true, Bool.not_eq_true', decide_eq_true_eq] at hcond
            intro i hi
            simp only [List.mem_cons] at hi
            rcases hi with rfl | hi
            · refine ⟨hcond.1.1, f, hfj, hcond.1.2, ?_⟩
              have := (hinv f (List.mem_of_getElem? hfj)).hCur
              show f.cursor = st.base.log.length
              omega
            · exact h i hi
          · intro i hi
            obtain ⟨hc, f', hf', he, hcur⟩ := h i hi
            have hne : i ≠ j := by
              intro e; subst e
              have : st.finished.contains i = true := by simpa using hi
              exact hnf this
            obtain ⟨hlog, _, hfr⟩ := task1_frame st.base j
            refine ⟨hc, f', ?_, he, ?_⟩
            · show (st.base.task j).1.fwds[i]? = some f'
              rw [hfr i hne]; exact hf'
            · show f'.cursor = (st.base.task j).1.log.length
              rw [hlog]; exact hcur

theorem V1c.finOk_run (cap : Nat) (ops : List (Op1c M O)) : ((V1c.init M O cap).run ops).FinOk := by
  have : ∀ (st : V1c M O), Inv1 st.base → st.FinOk → (st.run ops).FinOk := by
    induction ops with
    | nil => intro st _ h; exact h
    | cons o ops ih =>
      intro st hi h
      refine ih _ ?_ (V1c.finOk_step st hi o h)
      rcases V1c.step_base st o with hb | ⟨o', hb⟩
      · rw [hb]; exact hi
      · rw [hb]; exact inv1_step o' hi
  exact this _ (inv1_init cap) (by intro i hi; simp [V1c.init] at hi)

/-- a forwarding task that returned on `Closed` is inert: no step changes its subscription -/
theorem V1c.finished_frozen (st : V1c M O) (hok : st.FinOk) (i : Nat) (hi : i ∈ st.finished)
    (o : Op1c M O) :
    i ∈ (st.step o).finished ∧ (st.step o).base.fwds[i]? = st.base.fwds[i]? ∧
      (st.task i) = (st, none) := by
  have hc := (hok i hi).1
  have hcont : st.finished.contains i = true := by simpa using hi
  have hself : st.task i = (st, none) := by simp [V1c.task, hi]
  refine ⟨?_, ?_, hself⟩
  · cases o with
    | drop => exact hi
    | op o =>
      cases o with
      | publish m => simp only [V1c.step, hc, ↓reduceIte]; exact hi
      | subscribe a c => simp only [V1c.step, hc, ↓reduceIte]; exact hi
      | exit a => exact hi
      | task j =>
        simp only [V1c.step, V1c.task]
        split
        · exact hi
        · split
          · exact hi
          · split
            · exact List.mem_cons_of_mem _ hi
            · exact hi
  · cases o with
    | drop => rfl
    | op o =>
      cases o with
      | publish m => simp only [V1c.step, hc, ↓reduceIte]
      | subscribe a c => simp only [V1c.step, hc, ↓reduceIte]
      | exit a => rfl
      | task j =>
        by_cases hij : j = i
        · subst hij; simp only [V1c.step, hself]
        · simp only [V1c.step, V1c.task]
          split
          · rfl
          · split
            · rfl
            · split
              · rfl
              · exact (task1_frame st.base j).2.2 i (Ne.symm hij)

/-- (progress after the drop) closed: an iteration of a live forwarding task returns (on
`Closed`, or because its subscriber is dead) or moves its cursor strictly forward — and the
ring no longer grows -/
theorem V1c.task_progress (st : V1c M O) (i : Nat) (f : Fwd M O) (hc : st.closed = true)
    (hfi : st.base.fwds[i]? = some f) (hnf : st.finished.contains i = false) (he : f.ended = false) :
    i ∈ (st.task i).1.finished ∨
      ((st.task i).1.finished = st.finished ∧ (st.task i).1.closed = true ∧
        (st.task i).1.base.log = st.base.log ∧
        ∃ f', (st.task i).1.base.fwds[i]? = some f' ∧ (f'.ended = true ∨ f.cursor < f'.cursor)) := by
  simp only [V1c.task, hnf, hfi, hc, he, Bool.true_and, Bool.not_false, Bool.false_eq_true, ↓reduceIte]
  by_cases hpark : st.base.log.length ≤ f.cursor
  · left; simp [hpark]
  · right
    simp only [hpark, decide_false, Bool.false_eq_true, ↓reduceIte]
    refine ⟨trivial, trivial, (task1_frame st.base i).1, ?_⟩
    have hlt : i < st.base.fwds.length := by
      rcases List.getElem?_eq_some_iff.mp hfi with ⟨h, _⟩; exact h
    simp only [V1.task, hfi]
    refine ⟨(f.step st.base.cap st.base.log st.base.dead).1, by simp [hlt], ?_⟩
    simp only [Fwd.step, he, Bool.false_eq_true, ↓reduceIte]
    split
    · right; simp only; omega
    · have hlt' : f.cursor < st.base.log.length := by omega
      have : st.base.log[f.cursor]? = some st.base.log[f.cursor] := List.getElem?_eq_getElem hlt'
      rw [this]
      simp only
      split
      · split
        · left; rfl
        · right; simp
      · split
        · left; rfl
        · right; simp

/-- a live subscription that never lagged and has consumed the whole ring has received the
image of ALL publications after its subscription point -/
theorem FwdOk.noLagAll {cap : Nat} {log pubs : List M} {dead : List Nat} {f : Fwd M O}
    (h : FwdOk cap log pubs dead f) (hn : ∀ x ∈ f.mask, x = none) (hl : f.ended = false)
    (hp : f.cursor = log.length) : f.got = (pubs.drop f.pstart).filterMap f.conv := by
  rw [h.noLag hn hl]
  congr 1
  apply List.take_of_length_le
  have := h.hLen; have := h.hCur
  have := congrArg List.length (h.hLive hl)
  simp only [List.length_drop] at *
  omega

/-! ### the two-step `send`: every run with publishers in flight is a run of the atomic machine -/

theorem V1t.step_base (st : V1t M O) (o : Op1t M O) :
    (st.step o).base = st.base ∨ ∃ o', (st.step o).base = st.base.step o' := by
  cases o with
  | op o => exact Or.inr ⟨o, rfl⟩
  | pubCheck m =>
    simp only [V1t.step]
    split
    · exact Or.inl rfl
    · split
      · exact Or.inl rfl
      · exact Or.inr ⟨.op (.publish m), rfl⟩
  | pubStore i =>
    simp only [V1t.step]
    split
    · exact Or.inl rfl
    · rename_i m _; exact Or.inr ⟨.op (.publish m), rfl⟩

/-- (linearizability of the two-step `send`) the port reached by any interleaving of checks,
stores and everything else is the port reached by an ATOMIC run: each publication takes effect
at its check if the publisher saw no receiver (dropped there), at its store otherwise -/
theorem V1t.run_base (st : V1t M O) (ops : List (Op1t M O)) :
    ∃ ops', (st.run ops).base = st.base.run ops' := by
  induction ops generalizing st with
  | nil => exact ⟨[], rfl⟩
  | cons o ops ih =>
    obtain ⟨ops', h⟩ := ih (st.step o)
    simp only [V1t.run, List.foldl_cons] at h ⊢
    rcases V1t.step_base st o with hb | ⟨o', hb⟩
    · exact ⟨ops', by rw [h, hb]⟩
    · exact ⟨o' :: ops', by rw [h, hb]; rfl⟩

/-- a publisher is in flight only because it saw a receiver; nothing is in flight on a port that
was closed when it checked -/
theorem V1t.pubCheck_cases (st : V1t M O) (m : M) :
    (st.base.closed = true ∧ st.step (.pubCheck m) = st) ∨
    (st.base.closed = false ∧ st.base.base.hasReceiver = true ∧
        (st.step (.pubCheck m)).base = st.base ∧ (st.step (.pubCheck m)).pending = st.pending ++ [m]) ∨
    (st.base.closed = false ∧ st.base.base.hasReceiver = false ∧
        (st.step (.pubCheck m)).base = st.base.step (.op (.publish m)) ∧
        (st.step (.pubCheck m)).pending = st.pending ∧
        (st.step (.pubCheck m)).base.base.log = st.base.base.log) := by
  cases hc : st.base.closed with
  | true => left; simp [V1t.step, hc]
  | false =>
    right
    cases hr : st.base.base.hasReceiver with
    | true => left; simp [V1t.step, hc, hr]
    | false => right; simp [V1t.step, V1c.step, V1.publish, hc, hr]

theorem V1c.task_inv (st : V1c M O) (i : Nat) (h : Inv1 st.base) : Inv1 (st.task i).1.base := by
  have := V1c.step_base st (.op (.task i))
  rcases this with hb | ⟨o', hb⟩
  · simp only [V1c.step] at hb; rw [hb]; exact h
  · simp only [V1c.step] at hb; rw [hb]; exact inv1_step o' h

/-- (termination) after the drop every forwarding task returns within finitely many of its
own iterations (at most one per retained entry, plus one) -/
theorem V1c.terminates (st : V1c M O) (hinv : Inv1 st.base) (hc : st.closed = true) (i : Nat)
    (hi : i < st.base.fwds.length) : ∃ n, (V1c.tasks n st i).taskDone i = true := by
  have : ∀ k, ∀ st : V1c M O, Inv1 st.base → st.closed = true → ∀ f, st.base.fwds[i]? = some f →
      st.base.log.length - f.cursor ≤ k → ∃ n, (V1c.tasks n st i).taskDone i = true := by
    intro k
    induction k with
    | zero =>
      intro st hinv hc f hfi hk
      cases hd : st.taskDone i with
      | true => exact ⟨0, hd⟩
      | false =>
        simp only [V1c.taskDone, hfi, Bool.or_eq_false_iff] at hd
        rcases V1c.task_progress st i f hc hfi hd.1 hd.2 with h | ⟨_, _, hlog, f', hf', he | hlt⟩
        · exact ⟨1, by simp [V1c.tasks, V1c.taskDone, h]⟩
        · exact ⟨1, by simp [V1c.tasks, V1c.taskDone, hf', he]⟩
        · have := ((V1c.task_inv st i hinv) f' (List.mem_of_getElem? hf')).hCur
          rw [hlog] at this
          omega
    | succ k ih =>
      intro st hinv hc f hfi hk
      cases hd : st.taskDone i with
      | true => exact ⟨0, hd⟩
      | false =>
        simp only [V1c.taskDone, hfi, Bool.or_eq_false_iff] at hd
        rcases V1c.task_progress st i f hc hfi hd.1 hd.2 with h | ⟨_, hc', hlog, f', hf', he | hlt⟩
        · exact ⟨1, by simp [V1c.tasks, V1c.taskDone, h]⟩
        · exact ⟨1, by simp [V1c.tasks, V1c.taskDone, hf', he]⟩
        · have hcur := ((V1c.task_inv st i hinv) f' (List.mem_of_getElem? hf')).hCur
          obtain ⟨n, hn⟩ := ih (st.task i).1 (V1c.task_inv st i hinv) hc' f' hf' (by rw [hlog] at hcur ⊢; omega)
          exact ⟨n + 1, hn⟩
  obtain ⟨f, hf⟩ : ∃ f, st.base.fwds[i]? = some f := ⟨st.base.fwds[i], List.getElem?_eq_getElem hi⟩
  exact this _ st hinv hc f hf (Nat.le_refl _)

end OutPort
