import RactorModel.Model.Pg
import RactorModel.Model.PgConc
import RactorModel.Model.PgText
import Driver.Common

/-! Driver for the `Pg` model (C11).

ops:  `case …` | `actor k L|R` | `join s g a,b,…` | `leave s g a,b,…` | `monitor g a` |
      `monitorscope s a` | `demonitor g a` | `demonitorscope s a` | `exit a` | `skip …`
      (`exit a` is also emitted by the E-THR engine once the exit sequence of `a` has finished;
       `xjoin`/`xmonitor`/`xmonitorscope` are calls that raced with an exit: the model decides
       by the actor's liveness at the call's relations-lock step, which the harness reports)
impl: `ev=… map=… idx=… world=… rel=… dead=… gm=… lm=… wg=… ws=… wsg=… wsag=…`
      = notifications received since the previous line (per monitor, sorted), the
      `pg::verif_snapshot()` of the four indexes, the actors with status ≥ Stopping, and the six
      public queries over the scope × group universe.

Oracle (on the implementation's own observations): `Pg.failing` on the snapshot; every query
equals the model's query function applied to that snapshot (projection of the membership
relation); the notifications equal `Pg.specEvents` computed from the PREVIOUS snapshot.
-/

namespace Driver.Pg
open _root_.Pg Driver

def sortNats (l : List Nat) : List Nat := (l.toArray.qsort (· < ·)).toList

def keyLt (a b : Nat × Nat) : Bool := a.1 < b.1 || (a.1 == b.1 && a.2 < b.2)
def sortKeys (l : List (Nat × Nat)) : List (Nat × Nat) := (l.toArray.qsort keyLt).toList

def plus (l : List Nat) : String := if l.isEmpty then "-" else "+".intercalate (l.map toString)
def showKey (k : Nat × Nat) : String := s!"{k.1}.{k.2}"
def plusKeys (l : List (Nat × Nat)) : String := if l.isEmpty then "-" else "+".intercalate (l.map showKey)
def semi (l : List String) : String := if l.isEmpty then "-" else ";".intercalate l

def parsePlus? (s : String) : Option (List Nat) :=
  if s == "-" then some [] else (splitOnChar s '+').mapM (·.toNat?)

def parseKey? (s : String) : Option (Nat × Nat) :=
  match splitOnChar s '.' with
  | [a, b] => do pure (← a.toNat?, ← b.toNat?)
  | _ => none

def parsePlusKeys? (s : String) : Option (List (Nat × Nat)) :=
  if s == "-" then some [] else (splitOnChar s '+').mapM parseKey?

def parseSemi? {α : Type} (s : String) (f : String → Option α) : Option (List α) :=
  if s == "-" then some [] else (splitOnChar s ';').mapM f

def showEv (e : Ev) : String :=
  s!"{e.monitor}:{if e.join then "J" else "L"}:{e.scope}:{e.group}:{plus e.actors}"

def showEvs (l : List Ev) : String := semi ((l.map showEv).toArray.qsort (· < ·)).toList

def parseEv? (s : String) : Option Ev :=
  match splitOnChar s ':' with
  | [m, j, sc, g, as] => do pure ⟨← m.toNat?, j == "J", ← sc.toNat?, ← g.toNat?, ← parsePlus? as⟩
  | _ => none

/-- everything printable about a state, in canonical order -/
def showSnap (st : State) : String :=
  let m := (st.map.toArray.qsort (fun a b => keyLt a.1 b.1)).toList.map fun p =>
    s!"{showKey p.1}:{plus (sortNats p.2.members)}/{plus (sortNats p.2.listeners)}"
  let i := (st.index.toArray.qsort (fun a b => a.1 < b.1)).toList.map fun p => s!"{p.1}:{plus (sortNats p.2)}"
  let w := (st.world.toArray.qsort (fun a b => a.1 < b.1)).toList.map fun p => s!"{p.1}:{plus (sortNats p.2)}"
  let r := (st.rel.toArray.qsort (fun a b => a.1 < b.1)).toList.map fun p =>
    s!"{p.1}:{plusKeys (sortKeys p.2.mem)}/{plusKeys (sortKeys p.2.gmon)}/{plus (sortNats p.2.wmon)}"
  s!"map={semi m} idx={semi i} world={semi w} rel={semi r} dead={plus (sortNats st.dead)}"

/-- mid-race form: reverse-index entries that hold nothing are left out -/
def showSnapCanon (st : State) : String :=
  showSnap { st with rel := st.rel.filter (fun p => !p.2.isEmpty) }

def scopesU : List Nat := [1, 2, 3]
def groupsU : List Nat := [0, 1, 2]

def showQueries (st : State) : String :=
  let ks := scopesU.flatMap fun s => groupsU.map fun g => (s, g)
  let gm := (ks.filter fun k => !(getMembers st k.1 k.2).isEmpty).map fun k =>
    s!"{showKey k}:{plus (sortNats (getMembers st k.1 k.2))}"
  let lm := (ks.filter fun k => !(getLocalMembers st k.1 k.2).isEmpty).map fun k =>
    s!"{showKey k}:{plus (sortNats (getLocalMembers st k.1 k.2))}"
  let wsg := (scopesU.filter fun s => !(whichScopedGroups st s).isEmpty).map fun s =>
    s!"{s}:{plus (sortNats (whichScopedGroups st s))}"
  s!"gm={semi gm} lm={semi lm} wg={plus (sortDedup (whichGroups st))} ws={plus (sortDedup (whichScopes st))} wsg={semi wsg} wsag={plusKeys (sortKeys (whichScopesAndGroups st))}"

def field? (w pre : String) : Option String :=
  if w.startsWith pre then some (w.drop pre.length).toString else none

def parseMapEntry? (s : String) : Option (Key × GS) :=
  match splitOnChar s ':' with
  | [k, v] =>
    match splitOnChar v '/' with
    | [m, l] => do pure (← parseKey? k, ⟨← parsePlus? m, ← parsePlus? l⟩)
    | _ => none
  | _ => none

def parseNatList? (s : String) : Option (Nat × List Nat) :=
  match splitOnChar s ':' with
  | [k, v] => do pure (← k.toNat?, ← parsePlus? v)
  | _ => none

def parseRel? (s : String) : Option (Nat × Rel) :=
  match splitOnChar s ':' with
  | [k, v] =>
    match splitOnChar v '/' with
    | [a, b, c] => do pure (← k.toNat?, ⟨← parsePlusKeys? a, ← parsePlusKeys? b, ← parsePlus? c⟩)
    | _ => none
  | _ => none

structure Impl where
  evs : List Ev
  snap : State
  queries : String

def parseImpl? (remote : List Nat) (line : String) : Option Impl :=
  match words line with
  | ev :: mp :: ix :: wd :: rl :: dd :: rest => do
    let evs ← parseSemi? (← field? ev "ev=") parseEv?
    let map ← parseSemi? (← field? mp "map=") parseMapEntry?
    let index ← parseSemi? (← field? ix "idx=") parseNatList?
    let world ← parseSemi? (← field? wd "world=") parseNatList?
    let rel ← parseSemi? (← field? rl "rel=") parseRel?
    let dead ← parsePlus? (← field? dd "dead=")
    pure { evs, snap := { map, index, world, rel, dead, remote }, queries := " ".intercalate rest }
  | _ => none

/-- what the harness read off the real tables around a change / notify region -/
structure RegionObs where
  gl : List Nat
  world : List (Nat × List Nat)
  pay : List Nat
  ex : Bool

def parseRegionObs? (impl : String) : Option RegionObs :=
  match words impl with
  | ["o", gl, wd, pay, ex] => do
    let gl ← parsePlus? (← field? gl "gl=")
    let world ← parseSemi? (← field? wd "world=") parseNatList?
    let pay ← parsePlus? (← field? pay "pay=")
    pure { gl, world, pay, ex := (← field? ex "ex=") == "1" }
  | _ => none

/-- a change whose notifications are still to be sent, as observed on the implementation -/
structure OPend where
  isJoin : Bool
  s : Nat
  g : Nat
  actors : List Nat
  gl : List Nat
  world : List (Nat × List Nat)

def worldEvs (world : List (Nat × List Nat)) (isJoin : Bool) (s g : Nat) (actors : List Nat) : List Ev :=
  (((AList.get world s).getD []) ++ ((AList.get world allScopes).getD [])).map
    (fun m => Ev.mk m isJoin s g actors)

def owed (p : OPend) (worldNow : List (Nat × List Nat)) : List Ev × List Ev :=
  let ge := p.gl.map (fun m => Ev.mk m p.isJoin p.s p.g p.actors)
  (ge ++ worldEvs worldNow p.isJoin p.s p.g p.actors, ge ++ worldEvs p.world p.isJoin p.s p.g p.actors)

/-- a `leave_all` iteration of exiter `a` visited key `k` -/
def phLeaveKey (ph : List (Nat × Fine.Phase)) (a : Nat) (k : Key) : List (Nat × Fine.Phase) :=
  match AList.get ph a with
  | some (.leaving mk rm) => AList.set ph a (.leaving (AList.del k mk) rm)
  | _ => ph

/-- the stale reverse-only MONITOR entries the model accounts for (a `demonitor*` whose fetch found no `Arc`
ran its entry region after a `monitor*` had registered the actor: `C11.conc_stale_origin`) are not a
cross-index violation: take them out of the snapshot's reverse index before judging it -/
def discount (st : State) (sg : List (Nat × Key)) (sw : List (Nat × Nat)) : State :=
  { st with rel := st.rel.map fun p =>
      (p.1, { p.2 with
        gmon := p.2.gmon.filter (fun k => !(sg.contains (p.1, k) && !(listenersOf st k).contains p.1)),
        wmon := p.2.wmon.filter (fun s => !(sw.contains (p.1, s) && !(worldOf st s).contains p.1)) }) }

structure DState where
  st : State := init
  prev : Option State := none     -- previous implementation snapshot
  acc : List Ev := []             -- E-THR: notifications since the last sync line
  removed : List (Nat × (Key × List Nat)) := []   -- E-THR: removal records of the running leave_alls, per exiter
  phases : List (Nat × Fine.Phase) := []  -- E-THR: phase of every exit in flight, from the implementation's own regions
  fetched : List (Nat × Bool) := []       -- E-THR: per thread, did the `demonitor*` in flight fetch a reverse-index `Arc`?
  staleG : List (Nat × Key) := []         -- E-THR: stale reverse-only monitor pairs the replayed model has recorded
  staleW : List (Nat × Nat) := []
  pend : List (Nat × Pending) := []       -- E-THR, model side: per thread, entry done / notify pending
  opend : List (Nat × OPend) := []        -- E-THR, oracle side: the same from the implementation's data
  owedCode : List Ev := []                -- pre-F7 behaviour: group listeners at the change, world at notify
  owedStrict : List Ev := []              -- the property: every recipient fixed at the change region

def parseNats? (s : String) : Option (List Nat) := natList? s

def parseOp? (w : List String) : Option Op :=
  match w with
  | ["actor", k, "R"] => do pure (.newRemote (← k.toNat?))
  | ["drain", a] => do pure (.drain (← a.toNat?))
  | ["join", s, g, as] => do pure (.join (← s.toNat?) (← g.toNat?) (← parseNats? as))
  | ["leave", s, g, as] => do pure (.leave (← s.toNat?) (← g.toNat?) (← parseNats? as))
  | ["monitor", g, a] => do pure (.monitor (← g.toNat?) (← a.toNat?))
  | ["monitorscope", s, a] => do pure (.monitorScope (← s.toNat?) (← a.toNat?))
  | ["demonitor", g, a] => do pure (.demonitor (← g.toNat?) (← a.toNat?))
  | ["demonitorscope", s, a] => do pure (.demonitorScope (← s.toNat?) (← a.toNat?))
  | ["exit", a] => do pure (.exit (← a.toNat?))
  | _ => none

/-- one logged line = one or (for the Draining composites) two model ops -/
def parseOps? (w : List String) : Option (List Op) :=
  match w with
  | ["drainjoin", k, s, g, as] => do
    pure [.join (← s.toNat?) (← g.toNat?) (← parseNats? as), .exit (← k.toNat?)]
  | ["drainmon", k, g] => do pure [.monitor (← g.toNat?) (← k.toNat?), .exit (← k.toNat?)]
  -- `hold k`: stop with a gated post_stop = the pg part of the exit, the task stays parked in Stopping;
  -- `release k` lets it finish (nothing left for pg); `late k drain|stop`: a call through a stale reference
  | ["hold", k] => do pure [.exit (← k.toNat?)]
  | ["release", _] => some []
  | ["late", k, how] => do
    let k ← k.toNat?
    pure (if how == "drain" then [.drain k] else [])
  | _ => (parseOp? w).map fun o => [o]

/-- run a short op list, concatenating the notifications; `spec` = what the specification says
from the monitor relations of each intermediate state -/
def runOps (st : State) : List Op → State × List Ev × List Ev
  | [] => (st, [], [])
  | o :: os =>
    let (st1, e1) := _root_.Pg.step st o
    let (st2, e2, s2) := runOps st1 os
    (st2, e1 ++ e2, specEvents st o ++ s2)

def nontrivialOp (st : State) : Op → Bool
  | .join s g as => as.any (fun a => (membersOf st (s, g)).contains a) || !as.Nodup || as.any (fun a => !alive st a)
  | .leave s g as => as.any (fun a => !(membersOf st (s, g)).contains a)
  | .exit a => ((AList.get st.rel a).map (fun r => !r.isEmpty)).getD false
  | .monitor _ a | .monitorScope _ a => !alive st a
  | _ => false

def step (d : DState) (op impl : String) : DState × StepOut :=
  let w := words op
  match w with
  | ["tsync"] | ["tend"] =>
    -- E-THR: compare at quiescence only (intermediate snapshots are taken mid-call)
    let evs := d.acc.filter (fun e => alive d.st e.monitor)
    let model := s!"ev={if w == ["tsync"] then "-" else showEvs evs} {showSnap d.st} {showQueries d.st}"
    match parseImpl? d.st.remote impl with
    | none => ({ d with acc := [] }, { model, oracle := ["unparsable"] })
    | some im =>
      let o2 := if im.queries == showQueries im.snap then [] else ["query-disagrees-with-membership"]
      -- who was owed what, computed from the listener lists the harness saw at each region
      let aliveI := fun (e : Ev) => !im.snap.dead.contains e.monitor
      let o3 := if w != ["tend"] then [] else
        let got := showEvs (im.evs.filter aliveI)
        if got == showEvs (d.owedStrict.filter aliveI) then []
        -- the behaviour before the F7 fix: group listeners at the change, world listeners at notify time
        else if got == showEvs (d.owedCode.filter aliveI) then ["world-recipients-read-at-notify-time"]
        else ["notification-recipients-not-fixed-at-change"]
      ({ d with acc := [], prev := some im.snap, pend := [], opend := [], owedCode := [], owedStrict := [] },
       { model, oracle := failing (discount im.snap d.staleG d.staleW) ++ o2 ++ o3,
         nontrivial := w == ["tend"] && !evs.isEmpty })
  | "case" :: _ | "thrcase" :: _ =>
    let im := parseImpl? [] impl
    ({ st := init, prev := im.map (·.snap) },
     { model := s!"ev=- {showSnap init} {showQueries init}",
       oracle := match im with
         | some i => failing i.snap
         | none => ["unparsable"] })
  | _ =>
    if op.startsWith "t:" then
      -- E-THR: a region linearised by the harness; `@tid` = the thread that ran it
      let w0 := words (op.drop 2).toString
      let (tid, w') := match w0 with
        | t :: rest => if t.startsWith "@" then ((t.drop 1).toString.toNat?.getD 0, rest) else (0, w0)
        | [] => (0, [])
      let obs := parseRegionObs? impl
      let echo : String := if obs.isSome then impl else "-"
      let dropT := fun {α : Type} (l : List (Nat × α)) => l.filter (fun p => p.1 != tid)
      match w', obs with
      | ["join", s, g, as], some o =>
        match s.toNat?, g.toNat?, natList? as with
        | some s, some g, some as =>
          let (st', p) := joinEntry d.st s g as
          let op' : List (Nat × OPend) := if o.pay.isEmpty then [] else [(tid, ⟨true, s, g, o.pay, o.gl, o.world⟩)]
          ({ d with st := st', pend := dropT d.pend ++ (p.map (tid, ·)).toList, opend := dropT d.opend ++ op' },
           { model := echo, nontrivial := true })
        | _, _, _ => (d, { model := "bad-op" })
      | ["leave", s, g, as], some o =>
        match s.toNat?, g.toNat?, natList? as with
        | some s, some g, some as =>
          let (st', p) := leaveEntry d.st s g as
          let op' : List (Nat × OPend) := if o.ex then [(tid, ⟨false, s, g, as, o.gl, o.world⟩)] else []
          ({ d with st := st', pend := dropT d.pend ++ (p.map (tid, ·)).toList, opend := dropT d.opend ++ op' },
           { model := echo, nontrivial := true })
        | _, _, _ => (d, { model := "bad-op" })
      | [kind], some o =>
        if kind == "joinnotify" || kind == "leavenotify" then
          let evs := (d.pend.filter (fun p => p.1 == tid)).flatMap (fun p => notifyPending p.2)
          let ow := (d.opend.filter (fun p => p.1 == tid)).map (fun p => owed p.2 o.world)
          ({ d with pend := dropT d.pend, opend := dropT d.opend, acc := d.acc ++ evs,
                    owedCode := d.owedCode ++ ow.flatMap (·.1), owedStrict := d.owedStrict ++ ow.flatMap (·.2) },
           { model := echo, nontrivial := true })
        else (d, { model := "bad-op" })
      | ["leavekey", a, s, g], some o =>
        match a.toNat?, s.toNat?, g.toNat? with
        | some a, some s, some g =>
          let (st', r) := leaveKey d.st a (s, g)
          ({ d with st := st', removed := d.removed ++ r.toList.map (a, ·), phases := phLeaveKey d.phases a (s, g),
                    opend := d.opend ++ [(tid, ⟨false, s, g, [a], o.gl, o.world⟩)] },
           { model := echo, nontrivial := true })
        | _, _, _ => (d, { model := "bad-op" })
      | ["finishleave", a], some o =>
        let a := a.toNat?.getD 0
        let (st', evs) := finishLeave d.st a ((d.removed.filter (·.1 == a)).map (·.2))
        let ow := (d.opend.filter (fun p => p.1 == tid)).map (fun p => owed p.2 o.world)
        ({ d with st := st', acc := d.acc ++ evs, removed := d.removed.filter (·.1 != a), opend := dropT d.opend,
                  phases := AList.set d.phases a .done,
                  owedCode := d.owedCode ++ ow.flatMap (·.1), owedStrict := d.owedStrict ++ ow.flatMap (·.2) },
         { model := echo, nontrivial := true })
      | _, _ =>
      let mop : Option (Option Op) := match w' with
        | "skip" :: _ => some none
        | ["actor", _, "L"] => some none
        | _ => (parseOp? w').map some
      -- the other regions of the exit sequence and the post-lock clean-up regions
      let fine : Option DState := match w' with
        | ["dead", a] => a.toNat?.map fun a =>
            { d with st := markDead d.st a,
                     phases := if (AList.get d.phases a).isSome then d.phases else AList.set d.phases a .marked }
        | ["demontake", a] => a.toNat?.map fun a =>
            let sn := d.prev.getD d.st
            { d with st := demonTake d.st a,
                     phases := AList.set d.phases a (.demon (Conc.relGmonOf sn a) (Conc.relWmonOf sn a)) }
        | ["demonkey", a, s, g] =>
          match a.toNat?, s.toNat?, g.toNat? with
          | some a, some s, some g =>
            some { d with st := demonKey d.st a (s, g),
                          phases := match AList.get d.phases a with
                            | some (.demon gk wk) => AList.set d.phases a (.demon (AList.del (s, g) gk) wk)
                            | _ => d.phases }
          | _, _, _ => none
        | ["demonwkey", a, s] =>
          match a.toNat?, s.toNat? with
          | some a, some s =>
            some { d with st := demonWKey d.st a s,
                          phases := match AList.get d.phases a with
                            | some (.demon gk wk) => AList.set d.phases a (.demon gk (AList.del s wk))
                            | _ => d.phases }
          | _, _ => none
        | ["takemem", a] => a.toNat?.map fun a =>
            let sn := d.prev.getD d.st
            { d with st := takeMem d.st a, removed := d.removed.filter (·.1 != a),
                     phases := AList.set d.phases a (.leaving (Conc.relMemOf sn a) []) }
        | ["leavekey", a, s, g] =>
          match a.toNat?, s.toNat?, g.toNat? with
          | some a, some s, some g =>
            let (st', r) := leaveKey d.st a (s, g)
            some { d with st := st', removed := d.removed ++ r.toList.map (a, ·), phases := phLeaveKey d.phases a (s, g) }
          | _, _, _ => none
        | ["moncreate", _, a] =>
          -- `get_or_create_actor_relations`
          a.toNat?.map fun a => { d with st := { d.st with rel := relUpdate d.st.rel a id } }
        | ["demonitor", g, b] =>
          -- E-THR: the entry region of `demonitor`; without a fetched `Arc` only the forward side is updated
          match g.toNat?, b.toNat? with
          | some g, some b =>
            if (AList.get d.fetched tid) == some false then
              some { d with st := Conc.demonitorFwdSt d.st g b, staleG := d.staleG ++ [(b, (defaultScope, g))],
                            fetched := AList.erase d.fetched tid }
            else some { d with st := demonitor d.st g b, fetched := AList.erase d.fetched tid }
          | _, _ => none
        | ["demonitorscope", sc, b] =>
          match sc.toNat?, b.toNat? with
          | some sc, some b =>
            if (AList.get d.fetched tid) == some false then
              some { d with st := Conc.demonitorScopeFwdSt d.st sc b, staleW := d.staleW ++ [(b, sc)],
                            fetched := AList.erase d.fetched tid }
            else some { d with st := demonitorScope d.st sc b, fetched := AList.erase d.fetched tid }
          | _, _ => none
        | ["monitor", g, a] =>
          -- E-THR: the entry + relations-lock region of `monitor` alone (the re-check is its own line)
          match g.toNat?, a.toNat? with
          | some g, some a => some { d with st := Conc.monitorEntry d.st g a }
          | _, _ => none
        | ["monitorscope", s, a] =>
          match s.toNat?, a.toNat? with
          | some s, some a => some { d with st := Conc.monitorScopeEntry d.st s a }
          | _, _ => none
        | ["monrecheck", g, a] =>
          match g.toNat?, a.toNat? with
          | some g, some a => some { d with st := monitorRecheck d.st g a }
          | _, _ => none
        | ["monscoperecheck", s, a] =>
          match s.toNat?, a.toNat? with
          | some s, some a => some { d with st := monitorScopeRecheck d.st s a }
          | _, _ => none
        | ["joincleanup", s, g, as] =>
          match s.toNat?, g.toNat?, natList? as with
          | some s, some g, some as => some { d with st := joinCleanup d.st s g as }
          | _, _, _ => none
        | ["finishleave", a] => a.toNat?.map fun a =>
            let (st', evs) := finishLeave d.st a ((d.removed.filter (·.1 == a)).map (·.2))
            { d with st := st', acc := d.acc ++ evs, removed := d.removed.filter (·.1 != a),
                     phases := AList.set d.phases a .done }
        | _ => none
      let fetchStep := fun (b : String) =>
        -- `get_actor_relations` of a `demonitor*`: does the model's reverse index have an entry for the actor?
        let b := b.toNat?.getD 0
        let had := (AList.get d.st.rel b).isSome
        let model := if d.st.dead.contains b then "had=*" else s!"had={if had then 1 else 0}"
        (({ d with fetched := AList.set d.fetched tid had } : DState), ({ model, nontrivial := !had } : StepOut))
      match w' with
      | ["demfetch", _, b] => fetchStep b
      | ["demsfetch", _, b] => fetchStep b
      | ["win"] =>
        -- the window: all threads parked outside the locks in the MIDDLE of the race. The implementation's
        -- four indexes must equal the model's (correspondence) and, on the implementation's own data, satisfy
        -- the cross-index invariant weakened exactly by the exits in flight (C11.conc_cross_index_windows),
        -- with every query the projection of the forward map of that instant (C11.conc_queries_are_projections)
        let model := s!"ev=- {showSnapCanon d.st} {showQueries d.st}"
        match parseImpl? d.st.remote impl with
        | none => (d, { model, oracle := ["unparsable"] })
        | some im =>
          let o1 := Conc.windowFailing (discount im.snap d.staleG d.staleW) d.phases
          let o2 := if im.queries == showQueries im.snap then [] else ["query-disagrees-with-membership-midrace"]
          ({ d with prev := some im.snap }, { model, oracle := o1 ++ o2, nontrivial := !d.phases.isEmpty })
      | ["readded", _] =>
        -- C11.exit_race_no_late_join / late_drain_then_join_never_adds: cannot happen
        (d, { model := "readded=0",
              oracle := if impl == "readded=1" then ["stopping-actor-added-again"] else [],
              nontrivial := true })
      | ["waited", a] =>
        -- `Stopped` is published: C11.exit_race_no_zombie says the exiter owns nothing now
        let a := a.toNat?.getD 0
        let z := d.st.map.any (fun p => p.2.members.contains a || p.2.listeners.contains a) ||
                 d.st.world.any (fun p => p.2.contains a)
        (d, { model := s!"zombie={if z then 1 else 0}",
              oracle := if impl == "zombie=1" then ["member-or-monitor-after-wait-returned"] else [],
              nontrivial := true })
      | _ =>
      match fine with
      | some d' => (d', { model := "-", nontrivial := w'.head? == some "leavekey" })
      | none =>
      match mop with
      | none => (d, { model := "bad-op" })
      | some none => (d, { model := "-" })
      | some (some o) =>
        let (st', evs) := _root_.Pg.step d.st o
        ({ d with st := st', acc := d.acc ++ evs },
         { model := "-", nontrivial := nontrivialOp d.st o })
    else
    let mop : Option (List Op) := match w with
      | "skip" :: _ => some []
      | ["actor", _, "L"] => some []
      | _ => parseOps? w
    match mop with
    | none => (d, { model := "bad-op" })
    | some mop =>
      let (st', evs, _) := runOps d.st mop
      let model := s!"ev={showEvs evs} {showSnap st'} {showQueries st'}"
      match parseImpl? st'.remote impl with
      | none => ({ d with st := st' }, { model, oracle := ["unparsable"] })
      | some im =>
        let o1 := failing im.snap
        let o2 := if im.queries == showQueries im.snap then [] else ["query-disagrees-with-membership"]
        let o3 := match d.prev with
          | some p =>
            let (_, _, spec) := runOps { p with remote := st'.remote } mop
            if showEvs im.evs == showEvs spec then [] else ["notifications-wrong"]
          | none => []
        -- the notification clause as the property TEXT has it (one join / leave call: membership before and
        -- after, who was monitoring before), on the implementation's own observations
        let o4 := match d.prev, mop with
          | some p, [.join ..] => textNotifFailing p im.snap im.evs
          | some p, [.leave ..] => textNotifFailing p im.snap im.evs
          | some p, [.exit a] => textExitFailing p im.snap a im.evs
          | _, _ => []
        ({ st := st', prev := some im.snap },
         { model, oracle := o1 ++ o2 ++ o3 ++ o4,
           nontrivial := mop.any (nontrivialOp d.st) || !evs.isEmpty || mop.length > 1 })

def run (ops impl : Array String) : IO Tally :=
  replay ({} : DState) step ops impl

end Driver.Pg
