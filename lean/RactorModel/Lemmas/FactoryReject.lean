import RactorModel.Lemmas.FactoryNoDrop

/-! A handed-back job always comes with its discard: over whole runs, every `reply id true` (= `Some(job)` on the acceptance
port) is IMMEDIATELY preceded, in the history, by a discard-handler call for the same job. `badRej` counts the replies for
which this fails; it stays 0. Frame scheme of `FactoryNoDrop.lean` (equality of a projection of the log). -/

namespace Factory

/-- `ev` is a hand-back that does not directly follow the discard of the same job -/
def isBadRej (prev : Option Ev) : Ev → Bool
  | .reply id true => match prev with
    | some (.discard _ id' _) => id' != id
    | _ => true
  | _ => false

def badRejFrom (prev : Option Ev) : List Ev → Nat
  | [] => 0
  | ev :: t => (if isBadRej prev ev then 1 else 0) + badRejFrom (some ev) t

def badRej (log : List Ev) : Nat := badRejFrom none log

/-- not a hand-back -/
def isRej : Ev → Bool
  | .reply _ true => true
  | _ => false

def lastOr (prev : Option Ev) : List Ev → Option Ev
  | [] => prev
  | x :: t => lastOr (some x) t

theorem badRejFrom_append (prev : Option Ev) (a b : List Ev) :
    badRejFrom prev (a ++ b) = badRejFrom prev a + badRejFrom (lastOr prev a) b := by
  induction a generalizing prev with
  | nil => simp [badRejFrom, lastOr]
  | cons x a ih =>
    simp only [List.cons_append, badRejFrom, ih]
    have : lastOr (some x) a = lastOr prev (x :: a) := rfl
    rw [this]; omega

theorem isBadRej_noRej (prev : Option Ev) (ev : Ev) (h : isRej ev = false) : isBadRej prev ev = false := by
  cases ev with
  | reply id b => cases b <;> simp_all [isRej, isBadRej]
  | _ => rfl

theorem badRejFrom_noRej (prev : Option Ev) (l : List Ev) (h : ∀ ev ∈ l, isRej ev = false) : badRejFrom prev l = 0 := by
  induction l generalizing prev with
  | nil => rfl
  | cons x l ih =>
    simp only [badRejFrom, isBadRej_noRej prev x (h x (List.mem_cons_self ..)), ih _ (fun e he => h e (List.mem_cons_of_mem _ he))]
    simp

theorem badRej_append_noRej (a b : List Ev) (h : ∀ ev ∈ b, isRej ev = false) : badRej (a ++ b) = badRej a := by
  unfold badRej; rw [badRejFrom_append, badRejFrom_noRej _ b h]; simp

/-- the environment's log gained no unaccompanied hand-back -/
def TidyE (e e' : Env) : Prop := badRej e'.log = badRej e.log

theorem TidyE.refl (e : Env) : TidyE e e := rfl
theorem TidyE.trans {a b c : Env} (h1 : TidyE a b) (h2 : TidyE b c) : TidyE a c := Eq.trans h2 h1

theorem tidyE_emit (e : Env) (ev : Ev) (h : isRej ev = false) : TidyE e (e.emit ev) := by
  unfold TidyE Env.emit
  exact badRej_append_noRej e.log [ev] (by intro x hx; simp only [List.mem_singleton] at hx; subst hx; exact h)

theorem tidyE_discard (e : Env) {h : Option Nat} (r : Reason) (j : Job) : TidyE e (e.discard h r j) := tidyE_emit e _ rfl

/-- `handler.discard(reason, job); job.reject()`: the hand-back directly follows the discard of the same job -/
theorem tidyE_discard_reject (e : Env) {h : Option Nat} (r : Reason) (j : Job) : TidyE e ((e.discard h r j).reject j) := by
  unfold Env.reject
  split
  · unfold TidyE Env.discard Env.emit badRej
    simp only [List.append_assoc, List.singleton_append]
    rw [badRejFrom_append]
    simp [badRejFrom, isBadRej]
  · exact tidyE_discard e r j

theorem tidyE_accept (e : Env) (j : Job) : TidyE e (e.accept j) := by
  unfold Env.accept; split
  · exact tidyE_emit e _ rfl
  · exact TidyE.refl e

theorem tidyE_setActor (e : Env) (a : Actor) : TidyE e (e.setActor a) := rfl

theorem tidyE_cast (e e' : Env) (aid : Nat) (j : Job) (h : e.cast aid j = some e') : TidyE e e' := by
  unfold Env.cast at h
  cases ha : e.getActor aid with
  | none => simp [ha] at h
  | some a =>
    simp only [ha] at h
    split at h
    · simp at h
    · simp only [Option.some.injEq] at h; subst h; rfl

theorem lost_noRej (aid : Nat) (l : List Job) : ∀ ev ∈ (l.map fun j => Ev.lost aid j.id), isRej ev = false := by
  intro ev hev
  obtain ⟨j, _, rfl⟩ := List.mem_map.mp hev
  rfl

theorem tidyE_die (e : Env) (aid : Nat) : TidyE e (e.die aid) := by
  unfold Env.die
  cases ha : e.getActor aid with
  | none => rfl
  | some a =>
    simp only
    split
    · rfl
    · exact badRej_append_noRej _ _ (lost_noRej _ _)

theorem tidyE_killAll (e : Env) : TidyE e e.killAll := by
  unfold Env.killAll
  generalize e.actors.map (·.aid) = ids
  induction ids generalizing e with
  | nil => rfl
  | cons a as ih => rw [List.foldl_cons]; exact (tidyE_die e a).trans (ih _)

theorem tidyE_stop (e : Env) (aid : Nat) : TidyE e (e.stop aid) := by
  unfold Env.stop
  cases ha : e.getActor aid with
  | none => rfl
  | some a => simp only; split <;> rfl

theorem tidyE_settleOne (e : Env) (aid : Nat) : TidyE e (e.settleOne aid) := by
  unfold Env.settleOne
  cases ha : e.getActor aid with
  | none => rfl
  | some a =>
    simp only
    split
    · rfl
    · split
      · exact tidyE_die e aid
      · cases hm : a.mailbox with
        | nil => rfl
        | cons j rest => simp only; exact (tidyE_setActor e _).trans (tidyE_emit _ _ rfl)

theorem tidyE_settle (e : Env) : TidyE e e.settle := by
  unfold Env.settle
  generalize e.actors.map (·.aid) = ids
  induction ids generalizing e with
  | nil => rfl
  | cons a as ih => rw [List.foldl_cons]; exact (tidyE_settleOne e a).trans (ih _)

theorem tidyE_spawn (e : Env) (wid aid : Nat) : TidyE e (e.spawn wid aid) := by
  exact badRej_append_noRej _ [_] (by intro x hx; simp only [List.mem_singleton] at hx; subst hx; rfl)

theorem tidyE_getNextNonExpired {h : Option Nat} (mq : List Job) (pend : List Nat) (e : Env) :
    TidyE e (getNextNonExpired h mq pend e).2.2.2 := by
  induction mq generalizing pend e with
  | nil => rfl
  | cons j rest ih =>
    unfold getNextNonExpired
    split
    · rfl
    · exact (tidyE_discard e _ j).trans (ih _ _)

theorem tidyE_getNext (p : WP) (e : Env) : TidyE e (p.getNext e).2.2 :=
  tidyE_getNextNonExpired p.mq p.pending e

theorem tidyE_dispatchJob (p : WP) (e : Env) (j : Job) : TidyE e (p.dispatchJob e j).2 := by
  unfold WP.dispatchJob
  cases hc : e.cast p.actor j with
  | none => rfl
  | some e' => exact tidyE_cast e e' _ j hc

theorem tidyE_shedOldest (limit fuel : Nat) (p : WP) (e : Env) : TidyE e (shedOldest limit fuel p e).2 := by
  induction fuel generalizing p e with
  | zero => rfl
  | succ fuel ih =>
    unfold shedOldest
    split
    · have hg := tidyE_getNext p e
      cases hn : p.getNext e with
      | mk r pe =>
        obtain ⟨p', e'⟩ := pe
        rw [hn] at hg
        cases r with
        | none => simp only; exact hg.trans (ih _ _)
        | some d => simp only; exact (hg.trans (tidyE_discard _ _ _)).trans (ih _ _)
    · rfl

theorem tidyE_enqueueAccepted (p : WP) (e : Env) (j : Job) : TidyE e (p.enqueueAccepted e j).2 := by
  unfold WP.enqueueAccepted
  split
  · have hg := tidyE_getNext p e
    cases hn : p.getNext e with
    | mk r pe =>
      obtain ⟨p', e'⟩ := pe
      rw [hn] at hg
      cases r with
      | none => simp only; exact hg.trans (tidyE_dispatchJob _ _ _)
      | some d => simp only; exact hg.trans (tidyE_dispatchJob _ _ _)
  · simp only
    split
    · exact tidyE_shedOldest _ _ _ _
    · rfl

theorem tidyE_enqueueJob (p : WP) (e : Env) (j : Job) : TidyE e (p.enqueueJob e j).2 := by
  unfold WP.enqueueJob
  split
  · exact tidyE_discard_reject e _ j
  · exact (tidyE_accept e j).trans (tidyE_enqueueAccepted _ _ _)

theorem tidyE_workerComplete (p : WP) (e : Env) (key : Nat) : TidyE e (p.workerComplete e key).2 := by
  unfold WP.workerComplete
  split
  · generalize ({ p with curr := p.curr.filter (fun x => x.1 != key), pending := p.pending.erase key } : WP) = p0
    have hg := tidyE_getNext p0 e
    cases hn : p0.getNext e with
    | mk r pe =>
      obtain ⟨p', e'⟩ := pe
      rw [hn] at hg
      cases r with
      | none => simp only [hn]; exact hg
      | some d => simp only [hn]; exact hg.trans (tidyE_dispatchJob _ _ _)
  · rfl

theorem tidyE_replaceWorker (p : WP) (e : Env) (naid : Nat) : TidyE e (p.replaceWorker e naid).2 := by
  unfold WP.replaceWorker
  simp only
  generalize ({ p with curr := [], pending := p.curr.foldl (fun acc x => acc.erase x.1) p.pending, actor := naid } : WP) = p0
  have hg := tidyE_getNext p0 e
  cases hn : p0.getNext e with
  | mk r pe =>
    obtain ⟨p', e'⟩ := pe
    rw [hn] at hg
    cases r with
    | none => simp only [hn]; exact hg
    | some d => simp only [hn]; exact hg.trans (tidyE_dispatchJob _ _ _)

/-! ### the factory -/

/-- no hook ran, and the stop state did not go back -/
structure Tidy (w w' : W) : Prop where
  drops : badRej w'.env.log = badRej w.env.log
  exited : w'.exited = w.exited
  stopped : w.stopped = true → w'.stopped = true

theorem Tidy.refl (w : W) : Tidy w w := ⟨rfl, rfl, fun h => h⟩
theorem Tidy.trans {a b c : W} (h1 : Tidy a b) (h2 : Tidy b c) : Tidy a c :=
  ⟨h2.drops.trans h1.drops, h2.exited.trans h1.exited, fun h => h2.stopped (h1.stopped h)⟩

theorem Tidy.of_env {w w' : W} (he : TidyE w.env w'.env) (hx : w'.exited = w.exited) (hs : w'.stopped = w.stopped) :
    Tidy w w' := ⟨he, hx, fun h => by rw [hs]; exact h⟩

theorem Tidy.of_routerFrame {w w' : W} (f : RouterFrame w w') (hx : w'.exited = w.exited) : Tidy w w' :=
  ⟨by rw [f.env], hx, fun h => by rw [f.stopped]; exact h⟩

theorem tidy_availChange (w : W) (wid : Nat) (b : Bool) : Tidy w (w.availChange wid b) :=
  Tidy.of_routerFrame (availChange_frame w wid b) (availChange_exited w wid b)

theorem tidy_choose (w : W) (j : Job) (hint : Option Nat) : Tidy w (w.chooseTargetWorker j hint).2 :=
  Tidy.of_routerFrame (chooseTargetWorker_frame w j hint) (chooseTargetWorker_exited w j hint)

theorem tidy_routeInner (w : W) (j : Job) (hint : Option Nat) : Tidy w (w.routeInner j hint).2 := by
  unfold W.routeInner
  have hs := tidy_choose w j hint
  cases hc : w.chooseTargetWorker j hint with
  | mk t w1 =>
    rw [hc] at hs
    simp only at hs ⊢
    cases t with
    | none => exact hs
    | some wid =>
      simp only
      cases hg : getW w1.pool wid with
      | none => exact hs
      | some p => exact hs.trans (Tidy.of_env (tidyE_enqueueJob p w1.env j) rfl rfl)

theorem tidy_routeLimited (w : W) (j : Job) (hint : Option Nat) : Tidy w (w.routeLimited j hint).2 := by
  unfold W.routeLimited
  split
  · exact tidy_routeInner w j hint
  · rename_i c lb _
    simp only
    have h0 : Tidy w { w with rl := some (c, (LeakyBucket.check c lb w.env.now).1) } := ⟨rfl, rfl, fun h => h⟩
    split
    · split
      · split
        · rename_i hh _
          exact h0.trans (tidy_availChange _ hh true)
        · exact h0
      · exact h0
    · have hi := tidy_routeInner { w with rl := some (c, (LeakyBucket.check c lb w.env.now).1) } j hint
      cases hr : W.routeInner { w with rl := some (c, (LeakyBucket.check c lb w.env.now).1) } j hint with
      | mk r w2 =>
        rw [hr] at hi
        simp only at hi ⊢
        split
        · exact h0.trans (hi.trans ⟨rfl, rfl, fun h => h⟩)
        · exact h0.trans hi

theorem tidy_routeMessage (w : W) (j : Job) (hint : Option Nat) : Tidy w (w.routeMessage j hint).2 := by
  unfold W.routeMessage
  have hi := tidy_routeLimited w j hint
  cases hr : w.routeLimited j hint with
  | mk r w2 => rw [hr] at hi; exact hi.trans ⟨rfl, rfl, fun h => h⟩

theorem tidy_dropExpiredHead (fuel : Nat) (w : W) : Tidy w (W.dropExpiredHead fuel w) := by
  induction fuel generalizing w with
  | zero => exact Tidy.refl w
  | succ fuel ih =>
    unfold W.dropExpiredHead
    split
    · split
      · split
        · rename_i j' q _
          refine Tidy.trans ?_ (ih _)
          exact Tidy.of_env (tidyE_discard_reject w.env _ j') rfl rfl
        · exact Tidy.refl w
      · exact Tidy.refl w
    · exact Tidy.refl w

theorem tidy_routeLoop (hint : Option Nat) (fuel : Nat) (w : W) : Tidy w (W.routeLoop hint fuel w) := by
  induction fuel generalizing w with
  | zero => exact Tidy.refl w
  | succ fuel ih =>
    unfold W.routeLoop
    split
    · exact Tidy.refl w
    · rename_i j hpk
      have hs := tidy_choose w j hint
      cases hc : w.chooseTargetWorker j hint with
      | mk t w1 =>
        rw [hc] at hs
        simp only at hs ⊢
        cases t with
        | none => exact hs
        | some worker =>
          simp only
          cases hp : qPopFront w1.cfg w1.queue with
          | none => exact hs
          | some jq =>
            obtain ⟨j', q⟩ := jq
            simp only
            have h1 : Tidy w { w1 with queue := q } := hs.trans ⟨rfl, rfl, fun h => h⟩
            have hr := tidy_routeMessage { w1 with queue := q } j' (some worker)
            cases hrm : W.routeMessage { w1 with queue := q } j' (some worker) with
            | mk r w2 =>
              rw [hrm] at hr
              cases r with
              | handled => exact h1.trans hr
              | rateLimited =>
                simp only
                refine (h1.trans hr).trans (Tidy.trans ?_ (ih _))
                exact Tidy.of_env (tidyE_discard_reject w2.env _ j') rfl rfl
              | backlog =>
                -- unreachable: the router was asked a moment ago and named `worker`
                exfalso
                have hfr := chooseTargetWorker_frame w j hint
                rw [hc] at hfr
                simp only at hfr
                have hpk' : qPeek w.cfg w.queue = some j' := by
                  rw [← hfr.cfg, ← hfr.queue]; exact popByPrio_peek hp
                rw [hpk] at hpk'
                simp only [Option.some.injEq] at hpk'
                subst hpk'
                have := routeMessage_after_choice w j hint worker w1 hc q
                rw [hrm] at this
                exact this rfl

theorem tidy_tryRoute (w : W) (hint : Option Nat) : Tidy w (w.tryRouteNextActiveJob hint) := by
  unfold W.tryRouteNextActiveJob
  exact (tidy_dropExpiredHead _ w).trans (tidy_routeLoop _ _ _)

theorem tidy_shedQueueOldest (limit fuel : Nat) (w : W) : Tidy w (W.shedQueueOldest limit fuel w) := by
  induction fuel generalizing w with
  | zero => exact Tidy.refl w
  | succ fuel ih =>
    unfold W.shedQueueOldest
    split
    · split
      · rename_i j q _
        refine Tidy.trans ?_ (ih _)
        exact Tidy.of_env (tidyE_discard w.env _ j) rfl rfl
      · exact ih w
    · exact Tidy.refl w

theorem tidy_maybeEnqueue (w : W) (j : Job) : Tidy w (w.maybeEnqueue j) := by
  unfold W.maybeEnqueue
  split
  · split
    · exact Tidy.of_env (tidyE_discard_reject w.env _ j) rfl rfl
    · exact Tidy.of_env (tidyE_accept w.env j) rfl rfl
  · dsimp only
    refine Tidy.trans ?_ (tidy_shedQueueOldest _ _ _)
    exact Tidy.of_env (tidyE_accept w.env j) rfl rfl
  · exact Tidy.of_env (tidyE_accept w.env j) rfl rfl

theorem tidy_growOne (w : W) (wid : Nat) : Tidy w (w.growOne wid) := by
  unfold W.growOne
  split
  · dsimp only
    split
    · apply Tidy.trans _ (tidy_availChange _ _ _)
      exact ⟨rfl, rfl, fun h => h⟩
    · exact ⟨rfl, rfl, fun h => h⟩
  · dsimp only
    apply Tidy.trans _ (tidy_availChange _ _ _)
    exact Tidy.of_env (tidyE_spawn w.env _ _) rfl rfl

theorem tidy_foldl {f : W → Nat → W} (hf : ∀ w k, Tidy w (f w k)) (l : List Nat) (w : W) : Tidy w (l.foldl f w) := by
  induction l generalizing w with
  | nil => exact Tidy.refl w
  | cons a l ih => exact (hf w a).trans (ih _)

theorem tidy_growPool (w : W) (n : Nat) : Tidy w (w.growPool n) := by
  unfold W.growPool; exact tidy_foldl (fun w k => tidy_growOne w _) _ w

theorem tidy_shrinkOne (w : W) (wid : Nat) : Tidy w (w.shrinkOne wid) := by
  unfold W.shrinkOne
  split
  · rename_i p _
    split
    · exact ⟨rfl, rfl, fun h => h⟩
    · refine (tidy_availChange w wid false).trans ?_
      exact Tidy.of_env (tidyE_stop _ p.actor) rfl rfl
  · exact Tidy.refl w

theorem tidy_shrinkPool (w : W) (n : Nat) : Tidy w (w.shrinkPool n) := by
  unfold W.shrinkPool; exact tidy_foldl (fun w k => tidy_shrinkOne w _) _ w

theorem tidy_flushAfterGrow (fuel : Nat) (w : W) : Tidy w (W.flushAfterGrow fuel w) := by
  induction fuel generalizing w with
  | zero => exact Tidy.refl w
  | succ fuel ih =>
    unfold W.flushAfterGrow
    simp only
    split
    · exact Tidy.refl w
    · split
      · exact tidy_tryRoute w none
      · exact (tidy_tryRoute w none).trans (ih _)

theorem tidy_resizePool (w : W) (n : Nat) : Tidy w (w.resizePool n) := by
  unfold W.resizePool
  split
  · exact Tidy.refl w
  · simp only
    split
    · apply Tidy.trans _ (tidy_flushAfterGrow _ _)
      exact (tidy_growPool w _).trans ⟨rfl, rfl, fun h => h⟩
    · split
      · exact (tidy_shrinkPool w _).trans ⟨rfl, rfl, fun h => h⟩
      · exact ⟨rfl, rfl, fun h => h⟩

theorem tidy_dispatch (w : W) (j : Job) : Tidy w (w.dispatch j) := by
  unfold W.dispatch
  split
  · exact Tidy.of_env (tidyE_discard_reject w.env _ j) rfl rfl
  · split
    · have hr := tidy_routeMessage w j none
      cases hrm : w.routeMessage j none with
      | mk r w2 =>
        rw [hrm] at hr
        cases r with
        | handled => exact hr
        | rateLimited =>
          exact hr.trans (Tidy.of_env (tidyE_discard_reject w2.env _ j) rfl rfl)
        | backlog => exact hr.trans (tidy_maybeEnqueue w2 j)
    · exact Tidy.of_env (tidyE_discard_reject w.env _ j) rfl rfl

theorem tidy_ite (c : Prop) [Decidable c] (w a b : W) (ha : Tidy w a) (hb : Tidy w b) : Tidy w (if c then a else b) := by
  split <;> assumption

theorem tidy_workerFinishedJob (w : W) (who key : Nat) : Tidy w (w.workerFinishedJob who key) := by
  unfold W.workerFinishedJob
  split
  · rename_i p _
    have hq := tidyE_workerComplete p w.env key
    cases hwc : p.workerComplete w.env key with
    | mk p' e' =>
      rw [hwc] at hq
      simp only at hq ⊢
      have h1 : Tidy w { w with pool := setW w.pool who p', env := e' } := Tidy.of_env hq rfl rfl
      split
      · split
        · exact h1.trans (Tidy.of_env (tidyE_stop e' p'.actor) rfl rfl)
        · exact h1
      · apply tidy_ite
        · exact (h1.trans (tidy_tryRoute _ _)).trans (tidy_availChange _ _ _)
        · exact h1.trans (tidy_tryRoute _ _)
  · exact tidy_tryRoute w _

theorem tidyE_foldl_discard (h : Option Nat) (r : Reason) (l : List Job) (e : Env) : TidyE e (l.foldl (fun e j => e.discard h r j) e) := by
  induction l generalizing e with
  | nil => rfl
  | cons j l ih => rw [List.foldl_cons]; exact (tidyE_discard e r j).trans (ih _)

theorem tidy_removeExpired (w : W) : Tidy w w.removeExpired := by
  unfold W.removeExpired
  split
  · exact Tidy.of_env (tidyE_foldl_discard _ _ _ _) rfl rfl
  · exact Tidy.refl w

theorem tidy_calcRest (w : W) : Tidy w w.calcRest := by
  unfold W.calcRest
  exact (tidy_removeExpired w).trans ⟨rfl, rfl, fun h => h⟩

theorem tidy_updateSettings (w : W) (d : Option (Option (Nat × Mode))) (n : Option Nat) : Tidy w (w.updateSettings d n) := by
  unfold W.updateSettings
  have h1 : Tidy w (match d with
      | some d => { w with pool := w.pool.map (fun p => { p with disc := w.workerDiscard d }), disc := d }
      | none => w) := by
    cases d with
    | none => exact Tidy.refl w
    | some d => exact ⟨rfl, rfl, fun h => h⟩
  cases n with
  | none => exact h1
  | some n => exact h1.trans (tidy_resizePool _ n)

theorem tidy_afterReplace (w : W) (wid : Nat) : Tidy w (w.afterReplace wid) := by
  unfold W.afterReplace
  cases hret : w.retireIdleDrainingWorker wid with
  | some w2 =>
    simp only
    unfold W.retireIdleDrainingWorker at hret
    split at hret
    · rename_i p _
      split at hret
      · simp only [Option.some.injEq] at hret; subst hret
        exact Tidy.of_env (tidyE_stop w.env p.actor) rfl rfl
      · simp at hret
    · simp at hret
  | none =>
    simp only
    apply tidy_ite
    · exact (tidy_tryRoute _ _).trans (tidy_availChange _ _ _)
    · exact tidy_tryRoute _ _

theorem tidy_handleSupervisorEvt (w : W) (who : Nat) : Tidy w (w.handleSupervisorEvt who) := by
  unfold W.handleSupervisorEvt
  split
  · exact Tidy.refl w
  · rename_i wid _
    split
    · exact Tidy.refl w
    · rename_i p _
      simp only
      have hq := tidyE_replaceWorker p (w.env.spawn wid w.nextAid) w.nextAid
      cases hrw : p.replaceWorker (w.env.spawn wid w.nextAid) w.nextAid with
      | mk p' e' =>
        rw [hrw] at hq
        simp only at hq ⊢
        refine Tidy.trans ?_ (tidy_afterReplace _ wid)
        exact Tidy.of_env ((tidyE_spawn w.env wid w.nextAid).trans hq) rfl rfl

theorem tidyE_foldl (f : Env → Job → Env) (hf : ∀ e j, TidyE e (f e j)) (l : List Job) (e : Env) : TidyE e (l.foldl f e) := by
  induction l generalizing e with
  | nil => rfl
  | cons j l ih => rw [List.foldl_cons]; exact (hf e j).trans (ih _)

theorem tidyE_dropQueued (h : Option Nat) (e : Env) (j : Job) : TidyE e (Env.dropQueued h e j) := by
  unfold Env.dropQueued; split
  · exact tidyE_discard e _ j
  · exact tidyE_emit e _ rfl

theorem tidyE_dropWorkerQueue (e : Env) (p : WP) : TidyE e (e.dropWorkerQueue p) := by
  unfold Env.dropWorkerQueue
  exact tidyE_foldl _ (fun e j => tidyE_emit e _ rfl) _ e

theorem tidyE_foldlW (f : Env → WP → Env) (hf : ∀ e p, TidyE e (f e p)) (l : List WP) (e : Env) : TidyE e (l.foldl f e) := by
  induction l generalizing e with
  | nil => rfl
  | cons p l ih => rw [List.foldl_cons]; exact (hf e p).trans (ih _)

/-- `post_stop` up to the wait: no hook yet, and the factory is now stopping -/
theorem postStop_rej (w : W) :
    badRej w.postStop.env.log = badRej w.env.log ∧ w.postStop.exited = w.exited ∧ w.postStop.stopped = true := by
  unfold W.postStop
  simp only
  refine ⟨?_, trivial, trivial⟩
  have h1 := tidyE_foldl (Env.dropQueued w.handler) (tidyE_dropQueued w.handler) w.queue w.env
  have h2 := tidyE_foldlW Env.dropWorkerQueue tidyE_dropWorkerQueue w.pool (w.queue.foldl (Env.dropQueued w.handler) w.env)
  have h3 := tidyE_foldlW (fun e p => e.stop p.actor) (fun e p => tidyE_stop e p.actor) w.pool
    (w.pool.foldl Env.dropWorkerQueue (w.queue.foldl (Env.dropQueued w.handler) w.env))
  exact (h1.trans (h2.trans h3))

theorem isDrained_tidy (w : W) : Tidy w w.isDrained.2 := by
  unfold W.isDrained
  split
  · exact Tidy.refl w
  · exact Tidy.refl w
  · split
    · exact ⟨rfl, rfl, fun h => h⟩
    · exact Tidy.refl w


theorem tidy_afterHandle (w : W) : Tidy w w.afterHandle := by
  unfold W.afterHandle
  split
  · exact Tidy.refl w
  · have hs := isDrained_tidy w
    cases hd : w.isDrained with
    | mk d w2 =>
      rw [hd] at hs
      simp only at hs ⊢
      split
      · exact hs.trans ⟨rfl, rfl, fun h => h⟩
      · exact hs


theorem tidy_send (w : W) (m : FMsg) : Tidy w (w.send m) := by
  unfold W.send; split
  · exact Tidy.refl w
  · exact ⟨rfl, rfl, fun h => h⟩


theorem tidy_finish (w : W) (aid : Nat) (ok : Bool) : Tidy w (w.finish aid ok) := by
  unfold W.finish
  cases ha : w.env.getActor aid with
  | none => exact Tidy.refl w
  | some a =>
    simp only
    cases hr : a.running with
    | none => exact Tidy.refl w
    | some j =>
      simp only
      split
      · exact Tidy.refl w
      · split
        · exact Tidy.of_env ((tidyE_emit w.env _ rfl).trans (tidyE_die _ aid)) rfl rfl
        · have h1 : Tidy w { w with env := (w.env.emit (.finishOk aid)).emit (.handled aid j.id) } :=
            Tidy.of_env ((tidyE_emit w.env _ rfl).trans (tidyE_emit _ _ rfl)) rfl rfl
          have h2 := tidy_send { w with env := (w.env.emit (.finishOk aid)).emit (.handled aid j.id) } (.finished a.wid j.key)
          refine (h1.trans h2).trans ?_
          exact Tidy.of_env ((tidyE_setActor _ _).trans (tidyE_settleOne _ aid)) rfl rfl


theorem tidy_emit (w : W) (ev : Ev) (h : isRej ev = false) : Tidy w (w.emit ev) :=
  Tidy.of_env (tidyE_emit w.env ev h) rfl rfl


theorem tidy_applyOp (w : W) (op : Op) : Tidy w (w.applyOp op) := by
  cases op with
  | dispatch id key hash ttl acc =>
    simp only [W.applyOp]
    split
    · exact Tidy.refl w
    · exact (tidy_emit w _ rfl).trans (tidy_send _ _)
  | finish aid ok => exact tidy_finish w aid ok
  | kill aid => exact Tidy.of_env ((tidyE_emit w.env _ rfl).trans (tidyE_die _ aid)) rfl rfl
  | resize n => exact (tidy_emit w _ rfl).trans (tidy_send _ _)
  | settings d n =>
    simp only [W.applyOp]
    refine Tidy.trans ?_ (tidy_send _ _)
    cases d with
    | none => cases n with
      | none => exact Tidy.refl w
      | some n => exact tidy_emit w _ rfl
    | some d => cases n with
      | none => exact tidy_emit w _ rfl
      | some n => exact (tidy_emit w _ rfl).trans (tidy_emit _ _ rfl)
  | drain => exact (tidy_emit w _ rfl).trans (tidy_send _ _)
  | setHandler hd => exact (tidy_emit w _ rfl).trans (tidy_send _ _)
  | advance => exact Tidy.refl w
  | block => exact ⟨rfl, rfl, fun h => h⟩
  | release n =>
    simp only [W.applyOp]
    split
    · refine Tidy.trans ?_ (tidy_afterHandle _)
      refine Tidy.trans ?_ (tidy_calcRest _)
      have h0 : Tidy w { w.emit (.released n) with blocked := false } :=
        (tidy_emit w _ rfl).trans ⟨rfl, rfl, fun h => h⟩
      split
      · exact h0.trans (tidy_resizePool _ _)
      · exact h0
    · exact Tidy.refl w
  | nop => exact Tidy.refl w






/-! ### over a run -/

/-- no hand-back without its discard so far -/
def RejOk (w : W) : Prop := badRej w.env.log = 0

theorem RejOk.still {w w' : W} (h : RejOk w) (c : Tidy w w') : RejOk w' := by
  unfold RejOk; rw [c.drops]; exact h

theorem tidy_handleMsg (w : W) (m : FMsg) : Tidy w (w.handleMsg m) := by
  cases m with
  | dispatch j => exact tidy_dispatch w j
  | finished who key => exact tidy_workerFinishedJob w who key
  | adjust n => exact tidy_resizePool w n
  | updateSettings d n => exact tidy_updateSettings w d n
  | setHandler hd => exact Tidy.of_env (tidyE_emit w.env _ rfl) rfl rfl
  | drainRequests => exact Tidy.of_env (tidyE_emit w.env _ rfl) rfl rfl
  | calculate =>
    show Tidy w (if w.cfg.hasCC && w.armed then { w with armed := false, blocked := true } else w.calcRest)
    split
    · exact ⟨rfl, rfl, fun h => h⟩
    · exact tidy_calcRest w
  | getQueueDepth => exact ⟨rfl, rfl, fun h => h⟩
  | getNumActiveWorkers => exact ⟨rfl, rfl, fun h => h⟩
  | getAvailableCapacity => exact ⟨rfl, rfl, fun h => h⟩

theorem tidyE_foldl_dropMsg (l : List FMsg) (e : Env) : TidyE e (l.foldl Env.dropMsg e) := by
  induction l generalizing e with
  | nil => rfl
  | cons m l ih =>
    rw [List.foldl_cons]
    refine TidyE.trans ?_ (ih _)
    cases m with
    | dispatch j =>
      show TidyE e (if j.port then (e.emit (.dropped j.id)).emit (.portClosed j.id) else e.emit (.dropped j.id))
      by_cases hp : j.port = true
      · rw [if_pos hp]; exact (tidyE_emit e (.dropped j.id) rfl).trans (tidyE_emit _ (.portClosed j.id) rfl)
      · rw [if_neg hp]; exact tidyE_emit e (.dropped j.id) rfl
    | _ => rfl

theorem rejOk_tryFinishStop (w : W) (h : RejOk w) : RejOk w.tryFinishStop := by
  unfold W.tryFinishStop
  split
  · unfold RejOk
    show badRej ((w.inbox.foldl Env.dropMsg (w.env.emit (.hook .stopped))).killAll).log = 0
    rw [tidyE_killAll, tidyE_foldl_dropMsg, tidyE_emit w.env (.hook .stopped) rfl]
    exact h
  · exact h

theorem rejOk_loopStep (w w' : W) (h : RejOk w) (hl : w.loopStep = some w') : RejOk w' := by
  unfold W.loopStep at hl
  split at hl
  · simp at hl
  · split at hl
    · simp only [Option.some.injEq] at hl; subst hl
      obtain ⟨h1, _, _⟩ := postStop_rej w
      unfold RejOk; rw [h1]; exact h
    · split at hl
      · rename_i who rest _
        simp only [Option.some.injEq] at hl; subst hl
        have h1 : RejOk ({ w with env := { w.env with sup := rest } } : W) := h
        exact h1.still (tidy_handleSupervisorEvt _ who)
      · split at hl
        · rename_i m rest _
          simp only [Option.some.injEq] at hl; subst hl
          have h1 : RejOk ({ w with inbox := rest } : W) := h
          exact (h1.still (tidy_handleMsg _ m)).still (tidy_afterHandle _)
        · simp at hl

theorem rejOk_runQ (fuel : Nat) (w : W) (h : RejOk w) : RejOk (W.runQ fuel w) := by
  induction fuel generalizing w with
  | zero => exact h
  | succ fuel ih =>
    unfold W.runQ
    cases hl : w.loopStep with
    | some w' => simp only; exact ih _ (rejOk_loopStep w w' h hl)
    | none =>
      simp only
      have h1 : RejOk ({ w with env := w.env.settle } : W) :=
        h.still (Tidy.of_env (tidyE_settle w.env) rfl rfl)
      have hs := rejOk_tryFinishStop _ h1
      split
      · exact hs
      · exact ih _ hs

theorem rejOk_advanceTo (t fuel : Nat) (w : W) (h : RejOk w) : RejOk (W.advanceTo t fuel w) := by
  induction fuel generalizing w with
  | zero => exact h
  | succ fuel ih =>
    unfold W.advanceTo
    split
    · simp only
      apply ih
      apply rejOk_runQ
      have h1 : RejOk ({ w.setNow w.nextCalc with nextCalc := t + CALCULATE_FREQUENCY * 1000000 } : W) := h
      exact h1.still (tidy_send _ _)
    · exact h

theorem rejOk_ask (w : W) (m : FMsg) (h : RejOk w) : RejOk (w.ask m) := by
  unfold W.ask
  split
  · exact h
  · simp only
    have h1 := rejOk_runQ RUN_FUEL _ (h.still (tidy_send w m))
    split
    · exact h1
    · exact h1

theorem rejOk_queries (w : W) (h : RejOk w) : RejOk w.queries := by
  unfold W.queries
  split
  · exact h
  · have h0 : RejOk ({ w with answers := [] } : W) := h
    exact rejOk_ask _ _ (rejOk_ask _ _ (rejOk_ask _ _ h0))

theorem rejOk_stepOp (w : W) (op : Op) (t0 tq te : Nat) (h : RejOk w) : RejOk (w.stepOp op t0 tq te) := by
  unfold W.stepOp
  simp only
  generalize hw1 : W.advanceTo t0 (advanceFuel w t0) w = w1
  have h1 : RejOk w1 := by rw [← hw1]; exact rejOk_advanceTo _ _ _ h
  generalize hw2 : W.runQ RUN_FUEL (w1.applyOp op) = w2
  have h2 : RejOk w2 := by rw [← hw2]; exact rejOk_runQ _ _ (h1.still (tidy_applyOp _ _))
  generalize hw3 : W.advanceTo tq (advanceFuel w2 tq) w2 = w3
  have h3 : RejOk w3 := by rw [← hw3]; exact rejOk_advanceTo _ _ _ h2
  generalize hw4 : w3.queries = w4
  have h4 : RejOk w4 := by rw [← hw4]; exact rejOk_queries _ h3
  generalize hw5 : W.advanceTo te (advanceFuel w4 te) w4 = w5
  have h5 : RejOk w5 := by rw [← hw5]; exact rejOk_advanceTo _ _ _ h4
  have h6 : RejOk ({ w5 with lastWq := none } : W) := h5
  exact h6.still (tidy_emit _ _ rfl)

theorem rejOk_runSteps (w : W) (steps : List Step) (h : RejOk w) : RejOk (w.runSteps steps) := by
  induction steps generalizing w with
  | nil => exact h
  | cons s rest ih => exact ih _ (rejOk_stepOp w s.op s.t0 s.tq s.te h)

theorem rejOk_init_aux (w0 : W) (n : Nat) (h0 : w0.env.log = []) :
    RejOk (W.emit { (w0.growPool n) with poolSize := n } (.hook .started)) := by
  have hq := tidy_growPool w0 n
  unfold RejOk
  show badRej ((w0.growPool n).env.log ++ [Ev.hook .started]) = 0
  rw [badRej_append_noRej _ _ (by intro x hx; simp only [List.mem_singleton] at hx; subst hx; rfl), hq.drops, h0]
  rfl

theorem rejOk_init (c : CaseCfg) : RejOk (init c) := by
  unfold init
  exact rejOk_init_aux _ c.n rfl

/-- reading `badRej = 0`: every hand-back directly follows the discard of the same job -/
theorem badRejFrom_zero_split (l : List Ev) : ∀ (prev : Option Ev), badRejFrom prev l = 0 →
    ∀ pre post id, l = pre ++ Ev.reply id true :: post →
      ∃ r h, lastOr prev pre = some (Ev.discard r id h) := by
  induction l with
  | nil => intro prev _ pre post id hs; cases pre <;> cases hs
  | cons x l ih =>
    intro prev hz pre post id hs
    simp only [badRejFrom] at hz
    cases pre with
    | nil =>
      simp only [List.nil_append, List.cons.injEq] at hs
      obtain ⟨rfl, _⟩ := hs
      have hb : isBadRej prev (Ev.reply id true) = false := by
        cases hbb : isBadRej prev (Ev.reply id true) with
        | false => rfl
        | true => rw [hbb] at hz; simp at hz
      cases prev with
      | none => simp [isBadRej] at hb
      | some p =>
        cases p with
        | discard r id' h =>
          simp only [isBadRej, bne_eq_false_iff_eq] at hb
          exact ⟨r, h, by rw [hb]; rfl⟩
        | _ => simp [isBadRej] at hb
    | cons y pre =>
      simp only [List.cons_append, List.cons.injEq] at hs
      obtain ⟨rfl, hs⟩ := hs
      have hz' : badRejFrom (some x) l = 0 := by omega
      exact ih (some x) hz' pre post id hs

/-- HAND-BACK over whole runs: every `Some(job)` answered on an acceptance port is immediately preceded, in the history, by a
discard-handler call for that very job -/
theorem rejected_follows_discard_run (c : CaseCfg) (steps : List Step) (pre post : List Ev) (id : Nat)
    (hs : ((init c).runSteps steps).env.log = pre ++ Ev.reply id true :: post) :
    ∃ pre' r h, pre = pre' ++ [Ev.discard r id h] := by
  have hz : badRej ((init c).runSteps steps).env.log = 0 := rejOk_runSteps _ steps (rejOk_init c)
  obtain ⟨r, h, hl⟩ := badRejFrom_zero_split _ none hz pre post id hs
  -- `lastOr none pre = some ev` means `pre` ends with `ev`
  have : ∀ (l : List Ev) (p : Option Ev) (ev : Ev), lastOr p l = some ev → l ≠ [] → ∃ l', l = l' ++ [ev] := by
    intro l
    induction l with
    | nil => intro p ev _ hne; exact absurd rfl hne
    | cons x l ih =>
      intro p ev hl _
      cases l with
      | nil =>
        simp only [lastOr, Option.some.injEq] at hl
        exact ⟨[], by rw [hl]; rfl⟩
      | cons y l =>
        obtain ⟨l', hl'⟩ := ih (some x) ev hl (by simp)
        exact ⟨x :: l', by rw [hl']; rfl⟩
  cases pre with
  | nil => simp [lastOr] at hl
  | cons y pre =>
    obtain ⟨l', hl'⟩ := this (y :: pre) none _ hl (by simp)
    exact ⟨l', r, h, hl'⟩

end Factory
