import RactorModel.Lemmas.LifeC04
import RactorModel.Lemmas.LifeC01Spec

/-! Trace-level meaning of the positive `ActorStarted` clause of the C04 automaton. -/

namespace Life.C04

/-- The supervisor last observed in a trace (`supIs` events). -/
def observedSup : List Ev → Option Nat → Option Nat
  | [], o => o
  | .supIs p :: l, _ => observedSup l p
  | _ :: l, o => observedSup l o

def isStartedEmit : Ev → Bool
  | .emit _ (.started _) => true
  | _ => false

/-- Events before which `ActorStarted` is due: a further callback, or a terminal event. -/
def needsStarted : Ev → Bool
  | .enter _ _ => true
  | .emit _ e => e.isTerminal
  | _ => false

/-- What one accepted event does to the two automaton fields this file is about. -/
theorem next_fields {me : Nat} {s s1 : St} {e : Ev} (h : next me s e = .ok s1) :
    s1.sup = observedSup [e] s.sup ∧
    (s.mustStart = true → isStartedEmit e = false → e ≠ .exit .postStart .ok →
      s1.mustStart = true ∧ needsStarted e = false) := by
  cases e with
  | emit to x =>
    simp only [next] at h
    split at h; · cases h
    split at h; · cases h
    split at h; · cases h
    split at h; · cases h
    split at h
    · -- terminal
      rename_i hterm
      split at h; · cases h
      split at h; · cases h
      split at h
      · cases h
        refine ⟨rfl, fun hm _ _ => ?_⟩
        simp_all
      · cases h
    · rename_i hterm
      split at h; · cases h
      split at h; · cases h
      cases h
      refine ⟨rfl, fun _ hse _ => ?_⟩
      cases x <;> simp_all [isStartedEmit, SupEv.isTerminal]
  | monFan reg tg x =>
    simp only [next] at h
    (repeat' split at h) <;> first | (cases h; done) | (cases h; exact ⟨rfl, fun hm _ _ => ⟨hm, rfl⟩⟩)
  | enter cb arg =>
    simp only [next] at h
    split at h
    · cases h
    · rename_i hms
      cases h
      exact ⟨rfl, fun hm _ _ => by simp_all⟩
  | exit cb r =>
    rw [next_exit] at h; cases h
    refine ⟨by cases cb <;> cases r <;> rfl, fun hm _ hne => ?_⟩
    cases cb <;> cases r <;> first | exact ⟨hm, rfl⟩ | exact absurd rfl hne
  | spawnRet r =>
    cases r <;> simp only [next] at h <;> (try split at h) <;>
      first | (cases h; done) | (cases h; exact ⟨rfl, fun hm _ _ => ⟨hm, rfl⟩⟩)
  | join r =>
    cases r <;> simp only [next] at h <;> (repeat' split at h) <;>
      first | (cases h; done) | (cases h; exact ⟨rfl, fun hm _ _ => ⟨hm, rfl⟩⟩)
  | snap sn =>
    simp only [next] at h
    (repeat' split at h) <;> first | (cases h; done) | (cases h; exact ⟨rfl, fun hm _ _ => ⟨hm, rfl⟩⟩)
  | supIs p => rw [next_supIs] at h; cases h; exact ⟨rfl, fun hm _ _ => ⟨hm, rfl⟩⟩
  | stopRet b r ok => rw [next_stopRet] at h; cases h; cases ok <;> exact ⟨rfl, fun hm _ _ => ⟨hm, rfl⟩⟩
  | killRet b ok => rw [next_killRet] at h; cases h; cases ok <;> exact ⟨rfl, fun hm _ _ => ⟨hm, rfl⟩⟩
  | drainRet ok => rw [next_drainRet] at h; cases h; cases ok <;> exact ⟨rfl, fun hm _ _ => ⟨hm, rfl⟩⟩
  | cancelled cb => cases cb <;> (simp only [next] at h; cases h; exact ⟨rfl, fun hm _ _ => ⟨hm, rfl⟩⟩)
  | _ => simp only [next] at h; cases h; exact ⟨rfl, fun hm _ _ => ⟨hm, rfl⟩⟩

theorem next_sup {me : Nat} {s s1 : St} {e : Ev} (h : next me s e = .ok s1) :
    s1.sup = observedSup [e] s.sup := (next_fields h).1

theorem accepts_sup {me : Nat} {tr : List Ev} {s s1 : St} (h : accepts (next me) s tr = .ok s1) :
    s1.sup = observedSup tr s.sup := by
  induction tr generalizing s with
  | nil => simp only [accepts_nil] at h; cases h; rfl
  | cons e es ih =>
    rw [accepts_cons] at h
    cases hn : next me s e with
    | error c => simp [hn] at h
    | ok s2 =>
      simp only [hn] at h
      rw [ih h, next_sup hn]
      cases e <;> rfl

theorem accepts_mustStart {me : Nat} {tr : List Ev} {s s1 : St} (h : accepts (next me) s tr = .ok s1)
    (hm : s.mustStart = true) (he : ∀ e ∈ tr, isStartedEmit e = false ∧ e ≠ .exit .postStart .ok) :
    s1.mustStart = true ∧ ∀ e ∈ tr, needsStarted e = false := by
  induction tr generalizing s with
  | nil => simp only [accepts_nil] at h; cases h; exact ⟨hm, fun _ hx => by cases hx⟩
  | cons e es ih =>
    rw [accepts_cons] at h
    cases hn : next me s e with
    | error c => simp [hn] at h
    | ok s2 =>
      simp only [hn] at h
      obtain ⟨h1, h2⟩ := (next_fields hn).2 hm (he e (by simp)).1 (he e (by simp)).2
      obtain ⟨h3, h4⟩ := ih h h1 (fun x hx => he x (by simp [hx]))
      refine ⟨h3, ?_⟩
      intro x hx
      rcases List.mem_cons.mp hx with rfl | hx
      · exact h2
      · exact h4 x hx

theorem next_exit_postStart {me : Nat} {s s1 : St} (h : next me s (.exit .postStart .ok) = .ok s1) :
    s1.mustStart = s.sup.isSome := by
  simp only [next] at h; cases h; rfl

theorem ok_iff {me : Nat} {tr : List Ev} : ok me tr = true ↔ ∃ s, accepts (next me) {} tr = .ok s := by
  unfold ok
  cases h : accepts (next me) {} tr with
  | ok s => simp [Except.isOk, Except.toBool]
  | error c => simp [Except.isOk, Except.toBool]

end Life.C04
