import RactorModel.Lemmas.Remote

/-! Lemmas for the non-atomic initial scan (`Remote.scanAt`, `Remote.racingStream`). -/

namespace Remote

/-- one control message either leaves the verdict about `(k, pid)` alone or decides it -/
theorem verdictG_shape (k : GKey) (pid : Nat) (c : Ctl) :
    (∀ acc, verdictG k pid acc c = acc) ∨ (∃ b, ∀ acc, verdictG k pid acc c = some b) := by
  cases c with
  | spawn pids => exact Or.inl fun _ => rfl
  | close => exact Or.inr ⟨false, fun _ => rfl⟩
  | terminate pids =>
    by_cases h : pids.contains pid = true
    · exact Or.inr ⟨false, fun _ => by simp only [verdictG, h, if_true]⟩
    · exact Or.inl fun _ => by simp only [verdictG, h]; rfl
  | pgJoin s g pids =>
    by_cases h : ((s, g) == k && pids.contains pid) = true
    · exact Or.inr ⟨true, fun _ => by simp only [verdictG, h, if_true]⟩
    · exact Or.inl fun _ => by simp only [verdictG, h]; rfl
  | pgLeave s g pids =>
    by_cases h : ((s, g) == k && pids.contains pid) = true
    · exact Or.inr ⟨false, fun _ => by simp only [verdictG, h, if_true]⟩
    · exact Or.inl fun _ => by simp only [verdictG, h]; rfl

theorem fold_shape (k : GKey) (pid : Nat) (cs : List Ctl) :
    (∀ acc, cs.foldl (verdictG k pid) acc = acc) ∨ (∃ b, ∀ acc, cs.foldl (verdictG k pid) acc = some b) := by
  induction cs with
  | nil => exact Or.inl fun _ => rfl
  | cons c cs ih =>
    rcases ih with ih | ⟨b, ih⟩
    · rcases verdictG_shape k pid c with h | ⟨b, h⟩
      · exact Or.inl fun acc => by simp [List.foldl_cons, h, ih]
      · exact Or.inr ⟨b, fun acc => by simp [List.foldl_cons, h, ih]⟩
    · exact Or.inr ⟨b, fun acc => by simp [List.foldl_cons, ih]⟩

/-- a prefix of an undecided history is undecided -/
theorem fold_none_prefix (k : GKey) (pid : Nat) (cs : List Ctl) (n : Nat)
    (h : cs.foldl (verdictG k pid) none = none) : ∀ acc, (cs.take n).foldl (verdictG k pid) acc = acc := by
  induction cs generalizing n with
  | nil => intro acc; simp
  | cons c cs ih =>
    rcases verdictG_shape k pid c with hc | ⟨b, hc⟩
    · simp only [List.foldl_cons, hc] at h
      cases n with
      | zero => intro acc; simp
      | succ n => intro acc; simp only [List.take_succ_cons, List.foldl_cons, hc]; exact ih n h acc
    · simp only [List.foldl_cons, hc] at h
      rcases fold_shape k pid cs with hs | ⟨b', hs⟩
      · rw [hs] at h; exact absurd h (by simp)
      · rw [hs] at h; exact absurd h (by simp)

/-- the scan announces `(k, pid)` iff one of its reads of `k` saw `pid` in that scope and group -/
theorem scanAt_verdict (L0 : Memb) (evs : List PgEv) (reads : List (GKey × Nat)) (k : GKey) (pid : Nat)
    (acc : Option Bool) :
    (scanAt L0 evs reads).foldl (verdictG k pid) acc = some true ↔
      acc = some true ∨ ∃ t, (k, t) ∈ reads ∧ (k, pid) ∈ (evs.take t).foldl Memb.apply L0 := by
  induction reads generalizing acc with
  | nil => simp [scanAt]
  | cons r reads ih =>
    obtain ⟨k', t'⟩ := r
    simp only [scanAt, List.filterMap_cons] at ih ⊢
    by_cases hem : (localMembers ((evs.take t').foldl Memb.apply L0) k').isEmpty = true
    · simp only [hem, ↓reduceIte]
      rw [ih]
      constructor
      · rintro (h | ⟨t, ht, hm⟩)
        · exact Or.inl h
        · exact Or.inr ⟨t, List.mem_cons_of_mem _ ht, hm⟩
      · rintro (h | ⟨t, ht, hm⟩)
        · exact Or.inl h
        · rcases List.mem_cons.mp ht with he | ht
          · simp only [Prod.mk.injEq] at he
            obtain ⟨rfl, rfl⟩ := he
            have := (mem_localMembers _ k pid).mpr hm
            rw [List.isEmpty_iff] at hem; rw [hem] at this; exact absurd this (by simp)
          · exact Or.inr ⟨t, ht, hm⟩
    · simp only [hem, Bool.false_eq_true, ↓reduceIte, List.foldl_cons]
      rw [ih]
      simp only [verdictG]
      by_cases hk : k' = k
      · subst hk
        by_cases hp : (k', pid) ∈ (evs.take t').foldl Memb.apply L0
        · have : pid ∈ localMembers ((evs.take t').foldl Memb.apply L0) k' := (mem_localMembers _ k' pid).mpr hp
          simp only [BEq.rfl, Bool.true_and, List.contains_iff_mem, this, ↓reduceIte, true_or, true_iff]
          exact Or.inr ⟨t', List.mem_cons_self, hp⟩
        · have hn : ¬ pid ∈ localMembers ((evs.take t').foldl Memb.apply L0) k' := mt (mem_localMembers _ k' pid).mp hp
          simp only [BEq.rfl, Bool.true_and, List.contains_iff_mem, hn, ↓reduceIte]
          constructor
          · rintro (h | ⟨t, ht, hm⟩)
            · exact Or.inl h
            · exact Or.inr ⟨t, List.mem_cons_of_mem _ ht, hm⟩
          · rintro (h | ⟨t, ht, hm⟩)
            · exact Or.inl h
            · rcases List.mem_cons.mp ht with he | ht
              · simp only [Prod.mk.injEq, true_and] at he
                subst he
                exact absurd hm hp
              · exact Or.inr ⟨t, ht, hm⟩
      · have hk' : ((k'.1, k'.2) == k) = false := by
          cases hb : ((k'.1, k'.2) == k) with
          | false => rfl
          | true => exact absurd (by simpa using hb) hk
        simp only [hk', Bool.false_and, Bool.false_eq_true, ↓reduceIte]
        constructor
        · rintro (h | ⟨t, ht, hm⟩)
          · exact Or.inl h
          · exact Or.inr ⟨t, List.mem_cons_of_mem _ ht, hm⟩
        · rintro (h | ⟨t, ht, hm⟩)
          · exact Or.inl h
          · rcases List.mem_cons.mp ht with he | ht
            · simp only [Prod.mk.injEq] at he
              exact absurd he.1.symm hk
            · exact Or.inr ⟨t, ht, hm⟩

end Remote
