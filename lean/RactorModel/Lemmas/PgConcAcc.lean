import RactorModel.Model.PgConc
import RactorModel.Lemmas.PgFine

/-!
Effect of every lock region of `Pg.Conc` on the seven accessors (`membersOf`, `listenersOf`,
`worldOf`, `relMem`, `relGmon`, `relWmon`, `dead`), in one uniform shape (`Trans st st' e`), and what
a region that is *not* part of actor `a`'s own exit guarantees about `a` (`EnvOK`, `EnvR`).
-/

namespace Pg.Conc
open AList Pg Pg.Fine

/-- what a region adds / removes. An addition is always made to the forward entry and to the reverse
index in the same region; removals may be one-sided (the exit regions). -/
structure Eff where
  addM : Key → Nat → Prop := fun _ _ => False
  delM : Key → Nat → Prop := fun _ _ => False
  delRM : Nat → Key → Prop := fun _ _ => False
  addL : Key → Nat → Prop := fun _ _ => False
  delL : Key → Nat → Prop := fun _ _ => False
  delRG : Nat → Key → Prop := fun _ _ => False
  addW : Nat → Nat → Prop := fun _ _ => False
  delW : Nat → Nat → Prop := fun _ _ => False
  delRW : Nat → Nat → Prop := fun _ _ => False

structure Trans (st st' : State) (e : Eff) : Prop where
  m : ∀ k x, x ∈ membersOf st' k ↔ (x ∈ membersOf st k ∧ ¬ e.delM k x) ∨ e.addM k x
  rm : ∀ x k, k ∈ relMem st' x ↔ (k ∈ relMem st x ∧ ¬ e.delRM x k) ∨ e.addM k x
  l : ∀ k x, x ∈ listenersOf st' k ↔ (x ∈ listenersOf st k ∧ ¬ e.delL k x) ∨ e.addL k x
  rg : ∀ x k, k ∈ relGmon st' x ↔ (k ∈ relGmon st x ∧ ¬ e.delRG x k) ∨ e.addL k x
  w : ∀ s x, x ∈ worldOf st' s ↔ (x ∈ worldOf st s ∧ ¬ e.delW s x) ∨ e.addW s x
  rw : ∀ x s, s ∈ relWmon st' x ↔ (s ∈ relWmon st x ∧ ¬ e.delRW x s) ∨ e.addW s x
  d : ∀ x, x ∈ st.dead → x ∈ st'.dead

/-- the region is well-behaved towards actor `a`: it admits `a` only if `a` is not stopping, and
what it removes of `a` it removes on both sides -/
structure WB (a : Nat) (st : State) (e : Eff) : Prop where
  am : ∀ k, e.addM k a → a ∉ st.dead
  al : ∀ k, e.addL k a → a ∉ st.dead
  aw : ∀ s, e.addW s a → a ∉ st.dead
  dm : ∀ k, e.delM k a ↔ e.delRM a k
  dl : ∀ k, e.delL k a ↔ e.delRG a k
  dw : ∀ s, e.delW s a ↔ e.delRW a s

/-- reverse ⊆ forward for actor `a` -/
def r2f (a : Nat) (st : State) : Prop :=
  (∀ k, k ∈ relMem st a → a ∈ membersOf st k) ∧ (∀ k, k ∈ relGmon st a → a ∈ listenersOf st k) ∧
  (∀ s, s ∈ relWmon st a → a ∈ worldOf st s)

/-- what a region guarantees about the reverse index of actor `a` -/
structure EnvR (a : Nat) (st st' : State) : Prop where
  r2f : r2f a st → r2f a st'
  shrinkRM : a ∈ st.dead → ∀ k, k ∈ relMem st' a → k ∈ relMem st a
  shrinkRG : a ∈ st.dead → ∀ k, k ∈ relGmon st' a → k ∈ relGmon st a
  shrinkRW : a ∈ st.dead → ∀ s, s ∈ relWmon st' a → s ∈ relWmon st a

theorem envOK_of_trans {a : Nat} {st st' : State} {e : Eff} (t : Trans st st' e) (wb : WB a st e) :
    EnvOK a st st' := by
  constructor
  · exact t.d a
  · intro h k hk
    rw [t.m] at hk; rw [t.rm]
    rcases hk with ⟨h1, h2⟩ | h1
    · exact Or.inl ⟨h k h1, fun x => h2 ((wb.dm k).mpr x)⟩
    · exact Or.inr h1
  · intro h k hk
    rw [t.l] at hk; rw [t.rg]
    rcases hk with ⟨h1, h2⟩ | h1
    · exact Or.inl ⟨h k h1, fun x => h2 ((wb.dl k).mpr x)⟩
    · exact Or.inr h1
  · intro h s hs
    rw [t.w] at hs; rw [t.rw]
    rcases hs with ⟨h1, h2⟩ | h1
    · exact Or.inl ⟨h s h1, fun x => h2 ((wb.dw s).mpr x)⟩
    · exact Or.inr h1
  · intro hd k hk
    rw [t.m] at hk
    rcases hk with ⟨h1, _⟩ | h1
    · exact h1
    · exact absurd hd (wb.am k h1)
  · intro hd k hk
    rw [t.l] at hk
    rcases hk with ⟨h1, _⟩ | h1
    · exact h1
    · exact absurd hd (wb.al k h1)
  · intro hd s hs
    rw [t.w] at hs
    rcases hs with ⟨h1, _⟩ | h1
    · exact h1
    · exact absurd hd (wb.aw s h1)

theorem envR_of_trans {a : Nat} {st st' : State} {e : Eff} (t : Trans st st' e) (wb : WB a st e) :
    EnvR a st st' := by
  constructor
  · rintro ⟨h1, h2, h3⟩
    refine ⟨?_, ?_, ?_⟩
    · intro k hk
      rw [t.rm] at hk; rw [t.m]
      rcases hk with ⟨x, y⟩ | x
      · exact Or.inl ⟨h1 k x, fun z => y ((wb.dm k).mp z)⟩
      · exact Or.inr x
    · intro k hk
      rw [t.rg] at hk; rw [t.l]
      rcases hk with ⟨x, y⟩ | x
      · exact Or.inl ⟨h2 k x, fun z => y ((wb.dl k).mp z)⟩
      · exact Or.inr x
    · intro s hs
      rw [t.rw] at hs; rw [t.w]
      rcases hs with ⟨x, y⟩ | x
      · exact Or.inl ⟨h3 s x, fun z => y ((wb.dw s).mp z)⟩
      · exact Or.inr x
  · intro hd k hk
    rw [t.rm] at hk
    rcases hk with ⟨x, _⟩ | x
    · exact x
    · exact absurd hd (wb.am k x)
  · intro hd k hk
    rw [t.rg] at hk
    rcases hk with ⟨x, _⟩ | x
    · exact x
    · exact absurd hd (wb.al k x)
  · intro hd s hs
    rw [t.rw] at hs
    rcases hs with ⟨x, _⟩ | x
    · exact x
    · exact absurd hd (wb.aw s x)

/-! ### regions that change no accessor -/

theorem trans_of_same {st st' : State} (h : Same st st') : Trans st st' {} := by
  constructor
  · intro k x; rw [h.m]; simp
  · intro x k; rw [h.rm]; simp
  · intro k x; rw [h.l]; simp
  · intro x k; rw [h.rg]; simp
  · intro s x; rw [h.w]; simp
  · intro x s; rw [h.rw]; simp
  · exact h.d

theorem wb_empty (a : Nat) (st : State) : WB a st {} := by
  constructor <;> simp

theorem same_touchGroup (st : State) (k : Key) : Same st (touchGroup st k) := by
  refine ⟨?_, ?_, fun _ => rfl, fun _ => rfl, fun _ => rfl, fun _ => rfl, fun _ h => h⟩
  · intro k'; unfold membersOf touchGroup; simp only [get_alter]
    by_cases e : k' = k
    · rw [if_pos e, e]; cases get st.map k <;> rfl
    · rw [if_neg e]
  · intro k'; unfold listenersOf touchGroup; simp only [get_alter]
    by_cases e : k' = k
    · rw [if_pos e, e]; cases get st.map k <;> rfl
    · rw [if_neg e]

theorem same_touchWorld (st : State) (s : Nat) : Same st (touchWorld st s) := by
  refine ⟨fun _ => rfl, fun _ => rfl, ?_, fun _ => rfl, fun _ => rfl, fun _ => rfl, fun _ h => h⟩
  intro s'; unfold worldOf touchWorld; simp only [get_alter]
  by_cases e : s' = s
  · rw [if_pos e, e]; cases get st.world s <;> rfl
  · rw [if_neg e]

theorem same_relCreate (st : State) (b : Nat) : Same st { st with rel := relUpdate st.rel b id } := by
  refine ⟨fun _ => rfl, fun _ => rfl, fun _ => rfl, ?_, ?_, ?_, fun _ h => h⟩
  · intro x; unfold relMem relOf; simp only [relOf_relUpdate_id]
  · intro x; unfold relGmon relOf; simp only [relOf_relUpdate_id]
  · intro x; unfold relWmon relOf; simp only [relOf_relUpdate_id]

theorem same_markDead (st : State) (b : Nat) : Same st (markDead st b) :=
  ⟨fun _ => rfl, fun _ => rfl, fun _ => rfl, fun _ => rfl, fun _ => rfl, fun _ => rfl,
    fun x h => by simp only [markDead, mem_ins]; exact Or.inr h⟩

theorem same_finishLeave (st : State) (b : Nat) (r : List (Key × List Nat)) : Same st (finishLeave st b r).1 := by
  refine ⟨fun _ => rfl, fun _ => rfl, fun _ => rfl, ?_, ?_, ?_, fun _ h => h⟩
  · intro x; unfold relMem relOf finishLeave; simp only [relOf_removeEmptyRel]
  · intro x; unfold relGmon relOf finishLeave; simp only [relOf_removeEmptyRel]
  · intro x; unfold relWmon relOf finishLeave; simp only [relOf_removeEmptyRel]

/-! ### the API-shaped regions -/

def joinEff (st : State) (s g : Nat) (as : List Nat) : Eff :=
  { addM := fun k x => k = (s, g) ∧ x ∈ as ∧ x ∉ st.dead }

theorem trans_join (st : State) (s g : Nat) (as : List Nat) : Trans st (join st s g as).1 (joinEff st s g as) := by
  constructor
  · intro k x; rw [join_members]; simp [joinEff]
  · intro x k; rw [join_relMem]; simp [joinEff]
  · intro k x; rw [join_listeners]; simp [joinEff]
  · intro x k; rw [join_relGmon]; simp [joinEff]
  · intro s' x; unfold worldOf; rw [join_world]; simp [joinEff]
  · intro x s'; rw [join_relWmon]; simp [joinEff]
  · intro x h; rw [join_dead]; exact h

theorem wb_join (a : Nat) (st : State) (s g : Nat) (as : List Nat) : WB a st (joinEff st s g as) := by
  constructor <;> simp [joinEff]

def leaveEff (s g : Nat) (as : List Nat) : Eff :=
  { delM := fun k x => k = (s, g) ∧ x ∈ as, delRM := fun x k => k = (s, g) ∧ x ∈ as }

theorem trans_leave (st : State) (s g : Nat) (as : List Nat) {gs : GS} (hg : get st.map (s, g) = some gs) :
    Trans st (leave st s g as).1 (leaveEff s g as) := by
  constructor
  · intro k x; rw [leave_members st s g as hg]; simp [leaveEff]
  · intro x k; rw [leave_relMem st s g as hg]; simp [leaveEff]
  · intro k x; rw [leave_listeners st s g as hg]; simp [leaveEff]
  · intro x k; rw [leave_relGmon st s g as hg]; simp [leaveEff]
  · intro s' x; unfold worldOf; rw [leave_world st s g as hg]; simp [leaveEff]
  · intro x s'; rw [leave_relWmon st s g as hg]; simp [leaveEff]
  · intro x h; rw [leave_dead st s g as hg]; exact h

theorem wb_leave (a : Nat) (st : State) (s g : Nat) (as : List Nat) : WB a st (leaveEff s g as) := by
  constructor <;> simp [leaveEff]

def monitorEff (g b : Nat) : Eff := { addL := fun k x => k = (defaultScope, g) ∧ x = b }

theorem trans_monitor_alive (st : State) (g b : Nat) (hd : b ∉ st.dead) :
    Trans st (monitor st g b) (monitorEff g b) := by
  have hst := monitor_alive_state st g b hd
  have hrel := monitor_alive_rel_get st g b hd
  have hmap : ∀ k, get (monitor st g b).map k =
      if k = (defaultScope, g) then some ⟨membersOf st (defaultScope, g), ins b (listenersOf st (defaultScope, g))⟩
      else get st.map k := by
    intro k; rw [hst]; simp
  constructor
  · intro k x; unfold membersOf; rw [hmap]
    by_cases e : k = (defaultScope, g)
    · rw [if_pos e, e]; simp [monitorEff, membersOf]
    · rw [if_neg e]; simp [monitorEff]
  · intro x k; unfold relMem relOf; rw [hrel]
    by_cases e : x = b
    · rw [if_pos e, e]; simp [monitorEff, relMem, relOf]
    · rw [if_neg e]; simp [monitorEff]
  · intro k x; unfold listenersOf; rw [hmap]
    by_cases e : k = (defaultScope, g)
    · rw [if_pos e, e]
      simp only [Option.map_some, Option.getD_some, mem_ins, monitorEff, true_and, not_false_eq_true, and_true]
      exact Or.comm
    · rw [if_neg e]; simp [monitorEff, e]
  · intro x k; unfold relGmon relOf; rw [hrel]
    by_cases e : x = b
    · rw [if_pos e, e]
      simp only [Option.getD_some, mem_ins, monitorEff, and_true, not_false_eq_true, relGmon, relOf]
      exact Or.comm
    · rw [if_neg e]; simp [monitorEff, e]
  · intro s x; unfold worldOf; rw [hst]; simp [monitorEff]
  · intro x s; unfold relWmon relOf; rw [hrel]
    by_cases e : x = b
    · rw [if_pos e, e]; simp [monitorEff, relWmon, relOf]
    · rw [if_neg e]; simp [monitorEff]
  · intro x h; rw [hst]; exact h

theorem wb_monitor (a : Nat) (st : State) (g b : Nat) (hd : b ∉ st.dead) : WB a st (monitorEff g b) := by
  refine ⟨by simp [monitorEff], ?_, by simp [monitorEff], by simp [monitorEff], by simp [monitorEff],
    by simp [monitorEff]⟩
  intro k h; have e : a = b := h.2; rw [e]; exact hd

def monitorScopeEff (s b : Nat) : Eff := { addW := fun s' x => s' = s ∧ x = b }

theorem trans_monitorScope_alive (st : State) (s b : Nat) (hd : b ∉ st.dead) :
    Trans st (monitorScope st s b) (monitorScopeEff s b) := by
  have hst := monitorScope_alive_state st s b hd
  have hrel := monitorScope_alive_rel_get st s b hd
  have hworld : ∀ k, get (monitorScope st s b).world k =
      if k = s then some (ins b (worldOf st s)) else get st.world k := by
    intro k; rw [hst]; simp
  constructor
  · intro k x; unfold membersOf; rw [hst]; simp [monitorScopeEff]
  · intro x k; unfold relMem relOf; rw [hrel]
    by_cases e : x = b
    · rw [if_pos e, e]; simp [monitorScopeEff, relMem, relOf]
    · rw [if_neg e]; simp [monitorScopeEff]
  · intro k x; unfold listenersOf; rw [hst]; simp [monitorScopeEff]
  · intro x k; unfold relGmon relOf; rw [hrel]
    by_cases e : x = b
    · rw [if_pos e, e]; simp [monitorScopeEff, relGmon, relOf]
    · rw [if_neg e]; simp [monitorScopeEff]
  · intro s' x; unfold worldOf; rw [hworld]
    by_cases e : s' = s
    · rw [if_pos e, e]
      simp only [Option.getD_some, mem_ins, monitorScopeEff, true_and, not_false_eq_true, and_true, worldOf]
      exact Or.comm
    · rw [if_neg e]; simp [monitorScopeEff, e]
  · intro x s'; unfold relWmon relOf; rw [hrel]
    by_cases e : x = b
    · rw [if_pos e, e]
      simp only [Option.getD_some, mem_ins, monitorScopeEff, and_true, not_false_eq_true, relWmon, relOf]
      exact Or.comm
    · rw [if_neg e]; simp [monitorScopeEff, e]
  · intro x h; rw [hst]; exact h

theorem wb_monitorScope (a : Nat) (st : State) (s b : Nat) (hd : b ∉ st.dead) : WB a st (monitorScopeEff s b) := by
  refine ⟨by simp [monitorScopeEff], by simp [monitorScopeEff], ?_, by simp [monitorScopeEff],
    by simp [monitorScopeEff], by simp [monitorScopeEff]⟩
  intro k h; have e : a = b := h.2; rw [e]; exact hd

def demonitorEff (g b : Nat) : Eff :=
  { delL := fun k x => k = (defaultScope, g) ∧ x = b, delRG := fun x k => k = (defaultScope, g) ∧ x = b }

theorem trans_demonitor (st : State) (g b : Nat) : Trans st (demonitor st g b) (demonitorEff g b) := by
  have hmap : ∀ k, get (demonitor st g b).map k =
      if k = (defaultScope, g) then dropListener b (get st.map (defaultScope, g)) else get st.map k := by
    intro k; simp [demonitor]
  have hrel : ∀ x, get (demonitor st g b).rel x =
      if x = b then (get st.rel b).map (fun r => { r with gmon := del (defaultScope, g) r.gmon }) else get st.rel x := by
    intro x; simp [demonitor]
  constructor
  · intro k x; rw [demonitor_membersOf]; simp [demonitorEff]
  · intro x k; unfold relMem relOf; rw [hrel]
    by_cases e : x = b
    · rw [if_pos e, e]; cases get st.rel b <;> simp [demonitorEff]
    · rw [if_neg e]; simp [demonitorEff]
  · intro k x; unfold listenersOf; rw [hmap]
    by_cases e : k = (defaultScope, g)
    · rw [if_pos e, dropListener_listeners, e]; simp [demonitorEff]
    · rw [if_neg e]; simp [demonitorEff, e]
  · intro x k; unfold relGmon relOf; rw [hrel]
    by_cases e : x = b
    · rw [if_pos e, e]; cases get st.rel b <;> simp [demonitorEff, Rel.empty]
    · rw [if_neg e]; simp [demonitorEff, e]
  · intro s x; simp [demonitorEff, worldOf, demonitor]
  · intro x s; unfold relWmon relOf; rw [hrel]
    by_cases e : x = b
    · rw [if_pos e, e]; cases get st.rel b <;> simp [demonitorEff]
    · rw [if_neg e]; simp [demonitorEff]
  · intro x h; exact h

theorem wb_demonitor (a : Nat) (st : State) (g b : Nat) : WB a st (demonitorEff g b) := by
  constructor <;> simp [demonitorEff]

def demonitorScopeEff (s b : Nat) : Eff :=
  { delW := fun s' x => s' = s ∧ x = b, delRW := fun x s' => s' = s ∧ x = b }

theorem trans_demonitorScope (st : State) (s b : Nat) : Trans st (demonitorScope st s b) (demonitorScopeEff s b) := by
  have hworld : ∀ k, get (demonitorScope st s b).world k =
      if k = s then dropWorldListener b (get st.world s) else get st.world k := by
    intro k; simp [demonitorScope]
  have hrel : ∀ x, get (demonitorScope st s b).rel x =
      if x = b then (get st.rel b).map (fun r => { r with wmon := del s r.wmon }) else get st.rel x := by
    intro x; simp [demonitorScope]
  constructor
  · intro k x; simp [demonitorScopeEff, membersOf, demonitorScope]
  · intro x k; unfold relMem relOf; rw [hrel]
    by_cases e : x = b
    · rw [if_pos e, e]; cases get st.rel b <;> simp [demonitorScopeEff]
    · rw [if_neg e]; simp [demonitorScopeEff]
  · intro k x; simp [demonitorScopeEff, listenersOf, demonitorScope]
  · intro x k; unfold relGmon relOf; rw [hrel]
    by_cases e : x = b
    · rw [if_pos e, e]; cases get st.rel b <;> simp [demonitorScopeEff]
    · rw [if_neg e]; simp [demonitorScopeEff]
  · intro s' x; unfold worldOf; rw [hworld]
    by_cases e : s' = s
    · rw [if_pos e, dropWorld_list, e]; simp [demonitorScopeEff]
    · rw [if_neg e]; simp [demonitorScopeEff, e]
  · intro x s'; unfold relWmon relOf; rw [hrel]
    by_cases e : x = b
    · rw [if_pos e, e]; cases get st.rel b <;> simp [demonitorScopeEff, Rel.empty]
    · rw [if_neg e]; simp [demonitorScopeEff, e]
  · intro x h; exact h

theorem wb_demonitorScope (a : Nat) (st : State) (s b : Nat) : WB a st (demonitorScopeEff s b) := by
  constructor <;> simp [demonitorScopeEff]

/-! ### the regions of an exit -/

def demonTakeEff (b : Nat) : Eff := { delRG := fun x _ => x = b, delRW := fun x _ => x = b }

theorem trans_demonTake (st : State) (b : Nat) : Trans st (demonTake st b) (demonTakeEff b) := by
  have hrel : ∀ x, get (demonTake st b).rel x =
      if x = b then (get st.rel b).map (fun r => { r with gmon := [], wmon := [] }) else get st.rel x := by
    intro x; simp [demonTake]
  constructor
  · intro k x; simp [demonTakeEff, membersOf, demonTake]
  · intro x k; unfold relMem relOf; rw [hrel]
    by_cases e : x = b
    · rw [if_pos e, e]; cases get st.rel b <;> simp [demonTakeEff]
    · rw [if_neg e]; simp [demonTakeEff]
  · intro k x; simp [demonTakeEff, listenersOf, demonTake]
  · intro x k; unfold relGmon relOf; rw [hrel]
    by_cases e : x = b
    · rw [if_pos e, e]; cases get st.rel b <;> simp [demonTakeEff, Rel.empty]
    · rw [if_neg e]; simp [demonTakeEff, e]
  · intro s x; simp [demonTakeEff, worldOf, demonTake]
  · intro x s; unfold relWmon relOf; rw [hrel]
    by_cases e : x = b
    · rw [if_pos e, e]; cases get st.rel b <;> simp [demonTakeEff, Rel.empty]
    · rw [if_neg e]; simp [demonTakeEff, e]
  · intro x h; exact h

def takeMemEff (b : Nat) : Eff := { delRM := fun x _ => x = b }

theorem trans_takeMem (st : State) (b : Nat) : Trans st (takeMem st b) (takeMemEff b) := by
  have hrel : ∀ x, get (takeMem st b).rel x =
      if x = b then (get st.rel b).map (fun r => { r with mem := [] }) else get st.rel x := by
    intro x; simp [takeMem]
  constructor
  · intro k x; simp [takeMemEff, membersOf, takeMem]
  · intro x k; unfold relMem relOf; rw [hrel]
    by_cases e : x = b
    · rw [if_pos e, e]; cases get st.rel b <;> simp [takeMemEff, Rel.empty]
    · rw [if_neg e]; simp [takeMemEff, e]
  · intro k x; simp [takeMemEff, listenersOf, takeMem]
  · intro x k; unfold relGmon relOf; rw [hrel]
    by_cases e : x = b
    · rw [if_pos e, e]; cases get st.rel b <;> simp [takeMemEff]
    · rw [if_neg e]; simp [takeMemEff]
  · intro s x; simp [takeMemEff, worldOf, takeMem]
  · intro x s; unfold relWmon relOf; rw [hrel]
    by_cases e : x = b
    · rw [if_pos e, e]; cases get st.rel b <;> simp [takeMemEff]
    · rw [if_neg e]; simp [takeMemEff]
  · intro x h; exact h

def demonKeyEff (b : Nat) (k0 : Key) : Eff := { delL := fun k x => k = k0 ∧ x = b }

theorem trans_demonKey (st : State) (b : Nat) (k0 : Key) : Trans st (demonKey st b k0) (demonKeyEff b k0) := by
  obtain ⟨hM, hL, hW, hR, hD⟩ := demonKey_acc st b k0
  constructor
  · intro k x; rw [hM]; simp [demonKeyEff]
  · intro x k; unfold relMem relOf; rw [hR]; simp [demonKeyEff]
  · intro k x; rw [hL]
    by_cases e : k = k0
    · rw [if_pos e, e]; simp [demonKeyEff]
    · rw [if_neg e]; simp [demonKeyEff, e]
  · intro x k; unfold relGmon relOf; rw [hR]; simp [demonKeyEff]
  · intro s x; unfold worldOf; rw [hW]; simp [demonKeyEff]
  · intro x s; unfold relWmon relOf; rw [hR]; simp [demonKeyEff]
  · intro x h; rw [hD]; exact h

def demonWKeyEff (b s0 : Nat) : Eff := { delW := fun s x => s = s0 ∧ x = b }

theorem trans_demonWKey (st : State) (b s0 : Nat) : Trans st (demonWKey st b s0) (demonWKeyEff b s0) := by
  obtain ⟨hMp, hW, hR, hD⟩ := demonWKey_acc st b s0
  constructor
  · intro k x; unfold membersOf; rw [hMp]; simp [demonWKeyEff]
  · intro x k; unfold relMem relOf; rw [hR]; simp [demonWKeyEff]
  · intro k x; unfold listenersOf; rw [hMp]; simp [demonWKeyEff]
  · intro x k; unfold relGmon relOf; rw [hR]; simp [demonWKeyEff]
  · intro s x; rw [hW]
    by_cases e : s = s0
    · rw [if_pos e, e]; simp [demonWKeyEff]
    · rw [if_neg e]; simp [demonWKeyEff, e]
  · intro x s; unfold relWmon relOf; rw [hR]; simp [demonWKeyEff]
  · intro x h; rw [hD]; exact h

def leaveKeyEff (b : Nat) (k0 : Key) : Eff := { delM := fun k x => k = k0 ∧ x = b }

theorem leaveKey_rel (st : State) (b : Nat) (k0 : Key) : (leaveKey st b k0).1.rel = st.rel := by
  unfold leaveKey; split <;> rfl

theorem trans_leaveKey (st : State) (b : Nat) (k0 : Key) : Trans st (leaveKey st b k0).1 (leaveKeyEff b k0) := by
  obtain ⟨hM, hL, hW, hD⟩ := leaveKey_acc st b k0
  have hR := leaveKey_rel st b k0
  constructor
  · intro k x; rw [hM]
    by_cases e : k = k0
    · rw [if_pos e, e]; simp [leaveKeyEff]
    · rw [if_neg e]; simp [leaveKeyEff, e]
  · intro x k; unfold relMem relOf; rw [hR]; simp [leaveKeyEff]
  · intro k x; rw [hL]; simp [leaveKeyEff]
  · intro x k; unfold relGmon relOf; rw [hR]; simp [leaveKeyEff]
  · intro s x; unfold worldOf; rw [hW]; simp [leaveKeyEff]
  · intro x s; unfold relWmon relOf; rw [hR]; simp [leaveKeyEff]
  · intro x h; rw [hD]; exact h

/-- an exit region of another actor `b ≠ a` is well-behaved towards `a` -/
theorem wb_demonTake {a b : Nat} (h : b ≠ a) (st : State) : WB a st (demonTakeEff b) := by
  constructor <;> simp [demonTakeEff, Ne.symm h]
theorem wb_takeMem {a b : Nat} (h : b ≠ a) (st : State) : WB a st (takeMemEff b) := by
  constructor <;> simp [takeMemEff, Ne.symm h]
theorem wb_demonKey {a b : Nat} (h : b ≠ a) (st : State) (k : Key) : WB a st (demonKeyEff b k) := by
  constructor <;> simp [demonKeyEff, Ne.symm h]
theorem wb_demonWKey {a b : Nat} (h : b ≠ a) (st : State) (s : Nat) : WB a st (demonWKeyEff b s) := by
  constructor <;> simp [demonWKeyEff, Ne.symm h]
theorem wb_leaveKey {a b : Nat} (h : b ≠ a) (st : State) (k : Key) : WB a st (leaveKeyEff b k) := by
  constructor <;> simp [leaveKeyEff, Ne.symm h]

end Pg.Conc
