import RactorModel.Lemmas.OutPortV2

/-!
Accounting invariant of the v2 output port (public configuration, duplicates allowed): the
subscription records held anywhere in the machine (`V2.all`) are, up to order, exactly the
`subscribe` calls made — none lost, none duplicated, none invented — and the subscription
keys are distinct. Consequence: a subscription that was removed is never served again.
-/

namespace OutPort
variable {M O : Type}

/-- what identifies a subscription: its label, its position in the channel history, its
subscriber and its converter (the ghost progress fields are left out) -/
def Sub.ident (s : Sub M O) : Nat × Nat × Nat × (M → Option O) := (s.key, s.pos, s.actor, s.conv)

def idents (l : List (Sub M O)) : List (Nat × Nat × Nat × (M → Option O)) := l.map Sub.ident

@[simp] theorem idents_append (a b : List (Sub M O)) : idents (a ++ b) = idents a ++ idents b := by
  simp [idents]
@[simp] theorem idents_cons (s : Sub M O) (l : List (Sub M O)) : idents (s :: l) = s.ident :: idents l := rfl
@[simp] theorem idents_nil : idents ([] : List (Sub M O)) = [] := rfl

theorem cmdSubs_spanData (l : List (Cmd M O)) : cmdSubs l = cmdSubs (spanData l).2 := by
  conv => lhs; rw [spanData_eq l]
  rw [cmdSubs_append, cmdSubs_map_data]; rfl

/-- entering the next segment only moves subscriptions around -/
theorem nextSeg_perm (subs gone : List (Sub M O)) (b : List (Cmd M O)) :
    (idents ((nextSeg true subs gone b).1.subs ++ (nextSeg true subs gone b).2 ++
        cmdSubs (nextSeg true subs gone b).1.rest)).Perm
      (idents (subs ++ gone ++ cmdSubs b)) := by
  cases b with
  | nil => simp [nextSeg, Pc.subs, Pc.rest]
  | cons c r =>
    cases c with
    | data m =>
      simp only [nextSeg, Pc.subs, Pc.rest, List.nil_append]
      rw [← cmdSubs_spanData]
    | sub s =>
      simp only [nextSeg, applySub, ↓reduceIte, Pc.subs, Pc.rest, List.nil_append, Option.toList,
        List.append_nil, cmdSubs_sub_cons]
      rw [← cmdSubs_spanData]
      simp only [idents_append, idents_cons, idents_nil, List.append_assoc]
      apply List.Perm.append_left
      simp only [List.singleton_append]
      exact (List.perm_middle (a := s.ident) (l₁ := idents gone) (l₂ := idents (cmdSubs r))).symm

/-- a port-task step only moves subscription records around (and updates ghost fields) -/
theorem task_perm (st : V2 M O) (had : st.allowDup = true) :
    (idents st.task.1.all).Perm (idents st.all) := by
  have happ : ∀ (subs gone : List (Sub M O)) (b q : List (Cmd M O)),
      (idents ((nextSeg true subs gone b).1.subs ++ (nextSeg true subs gone b).2 ++
          cmdSubs (nextSeg true subs gone b).1.rest ++ cmdSubs q)).Perm
        (idents (subs ++ gone ++ cmdSubs (b ++ q))) := by
    intro subs gone b q
    rw [cmdSubs_append, ← List.append_assoc, idents_append, idents_append (subs ++ gone ++ cmdSubs b)]
    exact (nextSeg_perm subs gone b).append_right _
  cases hpc : st.pc with
  | top subs =>
    simp only [V2.task, hpc, had]
    split
    · simp [V2.all, hpc, Pc.subs, Pc.rest]
    · have := happ subs st.gone (st.queue.take (max 1 (min st.queue.length maxBatch)))
        (st.queue.drop (max 1 (min st.queue.length maxBatch)))
      rw [List.take_append_drop] at this
      simpa [V2.all, hpc, Pc.subs, Pc.rest] using this
  | wait subs l =>
    simp only [V2.task, hpc, had]
    split
    · simp [V2.all, hpc, Pc.subs, Pc.rest]
    · have := happ subs st.gone (st.queue.take l) (st.queue.drop l)
      rw [List.take_append_drop] at this
      simpa [V2.all, hpc, Pc.subs, Pc.rest] using this
  | disp srv todo seg left rest =>
    cases todo with
    | nil =>
      simp only [V2.task, hpc, had]
      have := happ srv st.gone rest st.queue
      simpa [V2.all, hpc, Pc.subs, Pc.rest, cmdSubs_append] using this
    | cons s todo =>
      cases left with
      | nil => simp [V2.task, hpc, V2.all, Pc.subs, Pc.rest]
      | cons m left =>
        -- the subscriber is removed: todo ++ (gone ++ [s] ++ X)  ~  s :: todo ++ (gone ++ X)
        have hperm : ∀ X : List (Nat × Nat × Nat × (M → Option O)),
            (idents todo ++ (idents st.gone ++ (s.ident :: X))).Perm
              (s.ident :: (idents todo ++ (idents st.gone ++ X))) := by
          intro X
          rw [← List.append_assoc, ← List.append_assoc]
          exact List.perm_middle
        cases hc : s.conv m with
        | none =>
          cases hd : st.dead.contains s.actor with
          | false =>
            have hd' : s.actor ∉ st.dead := by simpa using hd
            simp [V2.task, hpc, hc, hd', V2.all, Pc.subs, Pc.rest, Sub.ident]
          | true =>
            simp only [V2.task, hpc, hc, hd, ↓reduceIte, V2.all, Pc.subs, Pc.rest, idents_append,
              idents_cons, idents_nil, List.append_assoc]
            apply List.Perm.append_left
            simpa using hperm _
        | some o =>
          cases hd : st.dead.contains s.actor with
          | false =>
            have hd' : s.actor ∉ st.dead := by simpa using hd
            simp [V2.task, hpc, hc, hd', V2.all, Pc.subs, Pc.rest, Sub.ident]
          | true =>
            simp only [V2.task, hpc, hc, hd, ↓reduceIte, V2.all, Pc.subs, Pc.rest, idents_append,
              idents_cons, idents_nil, List.append_assoc]
            apply List.Perm.append_left
            -- todo ++ (gone ++ [s] ++ X)  ~  s :: todo ++ (gone ++ X)
            have : ∀ X : List (Nat × Nat × Nat × (M → Option O)),
                (idents todo ++ (idents st.gone ++ (s.ident :: X))).Perm
                  (s.ident :: (idents todo ++ (idents st.gone ++ X))) := by
              intro X
              rw [← List.append_assoc, ← List.append_assoc]
              exact List.perm_middle
            simpa using this _

structure AInv (st : V2 M O) : Prop where
  keys : (cmdSubs st.hist).map (·.key) = List.range st.nsub
  perm : (idents st.all).Perm (idents (cmdSubs st.hist))

theorem ainv_init : AInv (V2.init M O true) := ⟨by simp [V2.init], by simp [V2.init, V2.all, Pc.subs, Pc.rest]⟩

theorem task_nsub (st : V2 M O) : st.task.1.nsub = st.nsub := by
  unfold V2.task
  split <;> (try split) <;> (try split) <;> rfl

theorem AInv.step {st : V2 M O} (had : st.allowDup = true) (op : Op2 M O) (h : AInv st) : AInv (st.step op) := by
  cases op with
  | publish m =>
    refine ⟨?_, ?_⟩
    · simpa [V2.step, V2.publish, cmdSubs_append] using h.keys
    · simpa [V2.step, V2.publish, V2.all, cmdSubs_append] using h.perm
  | subscribe a c =>
    refine ⟨?_, ?_⟩
    · simp [V2.step, V2.subscribe, cmdSubs_append, h.keys, List.range_succ]
    · have := h.perm.append_right (idents [({ key := st.nsub, actor := a, conv := c, pos := st.hist.length } : Sub M O)])
      simpa [V2.step, V2.subscribe, V2.all, cmdSubs_append] using this
  | exit a => exact ⟨h.keys, h.perm⟩
  | task =>
    refine ⟨?_, ?_⟩
    · simpa [V2.step, task_hist, task_nsub] using h.keys
    · simp only [V2.step, task_hist]
      exact (task_perm st had).trans h.perm

theorem AInv.run {st : V2 M O} (had : st.allowDup = true) (ops : List (Op2 M O)) (h : AInv st) :
    AInv (st.run ops) := by
  induction ops generalizing st with
  | nil => exact h
  | cons op ops ih =>
    exact ih (by rw [step_allowDup]; exact had) (h.step had op)

/-- the keys of all subscription records are distinct -/
theorem AInv.keys_nodup {st : V2 M O} (h : AInv st) : (st.all.map (·.key)).Nodup := by
  have hp : (st.all.map (·.key)).Perm ((cmdSubs st.hist).map (·.key)) := by
    have := h.perm.map (·.1)
    simpa [idents, Sub.ident, Function.comp_def] using this
  rw [hp.nodup_iff, h.keys]
  exact List.nodup_range

/-- the subscription a port-task step serves is not one that was removed earlier -/
theorem served_not_gone {st : V2 M O} (h : AInv st) (c : Call M) (hc : st.task.2 = some c) :
    ∀ g ∈ st.gone, g.key ≠ c.key := by
  intro g hg
  have hnd := h.keys_nodup
  cases hpc : st.pc with
  | top subs => simp only [V2.task, hpc] at hc; split at hc <;> simp at hc
  | wait subs l => simp only [V2.task, hpc] at hc; split at hc <;> simp at hc
  | disp srv todo seg left rest =>
    cases todo with
    | nil => simp [V2.task, hpc] at hc
    | cons s todo =>
      cases left with
      | nil => simp [V2.task, hpc] at hc
      | cons m left =>
        have hck : c.key = s.key := by
          simp only [V2.task, hpc] at hc
          split at hc
          · split at hc <;> (simp at hc; rw [← hc])
          · split at hc <;> (simp at hc; rw [← hc])
        rw [hck]
        simp only [V2.all, hpc, Pc.subs, Pc.rest, List.map_append, List.map_cons] at hnd
        -- (srv ++ s :: todo) ++ gone ++ …  has distinct keys
        intro he
        have h1 : (List.map (·.key) srv ++ s.key :: List.map (·.key) todo ++ List.map (·.key) st.gone).Nodup := by
          have := hnd.sublist (List.sublist_append_left _ (List.map (·.key) (cmdSubs st.queue)))
          exact this.sublist (List.sublist_append_left _ (List.map (·.key) (cmdSubs rest)))
        rw [List.nodup_append] at h1
        exact h1.2.2 s.key (by simp) g.key (List.mem_map.mpr ⟨g, hg, rfl⟩) he.symm

/-- once removed, a subscription record stays in `gone` -/
theorem gone_mono_step (st : V2 M O) (op : Op2 M O) : ∀ g ∈ st.gone, g ∈ (st.step op).gone := by
  intro g hg
  cases op with
  | publish m => exact hg
  | subscribe a c => exact hg
  | exit a => exact hg
  | task =>
    have hn : ∀ (ad : Bool) (subs : List (Sub M O)) (b : List (Cmd M O)), g ∈ (nextSeg ad subs st.gone b).2 := by
      intro ad subs b
      cases b with
      | nil => exact hg
      | cons c r =>
        cases c with
        | data m => exact hg
        | sub s => simp only [nextSeg]; exact List.mem_append_left _ hg
    simp only [V2.step]
    unfold V2.task
    split
    · split
      · exact hg
      · exact hn _ _ _
    · split
      · exact hg
      · exact hn _ _ _
    · exact hn _ _ _
    · exact hg
    · split
      · split
        · exact List.mem_append_left _ hg
        · exact hg
      · split
        · exact List.mem_append_left _ hg
        · exact hg

/-! ### a batch always finishes: no step waits for a subscriber -/

theorem spanData_snd_length (l : List (Cmd M O)) : (spanData l).2.length ≤ l.length := by
  induction l with
  | nil => simp [spanData]
  | cons c r ih =>
    cases c with
    | data m => simp only [spanData, List.length_cons]; omega
    | sub s => simp [spanData]

/-- lexicographic measure of the work left in the current batch -/
def Pc.measure : Pc M O → Nat × Nat × Nat
  | .disp _ todo _ left rest => (rest.length, todo.length, left.length)
  | _ => (0, 0, 0)

abbrev lex3 : Nat × Nat × Nat → Nat × Nat × Nat → Prop :=
  Prod.Lex (· < ·) (Prod.Lex (· < ·) (· < ·))

theorem nextSeg_measure (ad : Bool) (subs gone : List (Sub M O)) (b : List (Cmd M O)) (k j : Nat)
    (hb : b ≠ []) :
    (∃ s, (nextSeg ad subs gone b).1 = .top s) ∨ lex3 (nextSeg ad subs gone b).1.measure (b.length, k, j) := by
  cases b with
  | nil => exact absurd rfl hb
  | cons c r =>
    right
    cases c with
    | data m =>
      simp only [nextSeg, Pc.measure, spanData]
      apply Prod.Lex.left
      have := spanData_snd_length r
      simp only [List.length_cons]; omega
    | sub s =>
      simp only [nextSeg, Pc.measure]
      apply Prod.Lex.left
      have := spanData_snd_length r
      simp only [List.length_cons]; omega

theorem batch_progress (st : V2 M O) (srv todo : List (Sub M O)) (seg left : List M) (rest : List (Cmd M O))
    (hpc : st.pc = .disp srv todo seg left rest) :
    (∃ subs, st.task.1.pc = .top subs) ∨ lex3 st.task.1.pc.measure st.pc.measure := by
  cases todo with
  | nil =>
    simp only [V2.task, hpc, Pc.measure]
    cases rest with
    | nil => left; exact ⟨srv, rfl⟩
    | cons c r => exact nextSeg_measure _ _ _ (c :: r) 0 left.length (by simp)
  | cons s todo =>
    right
    cases left with
    | nil =>
      simp only [V2.task, hpc, Pc.measure]
      exact Prod.Lex.right _ (Prod.Lex.left _ _ (by simp))
    | cons m left =>
      cases hc : s.conv m with
      | none =>
        cases hd : st.dead.contains s.actor with
        | true =>
          simp only [V2.task, hpc, hc, hd, ↓reduceIte, Pc.measure]
          exact Prod.Lex.right _ (Prod.Lex.left _ _ (by simp))
        | false =>
          simp only [V2.task, hpc, hc, hd, Bool.false_eq_true, ↓reduceIte, Pc.measure]
          exact Prod.Lex.right _ (Prod.Lex.right _ (by simp))
      | some o =>
        cases hd : st.dead.contains s.actor with
        | true =>
          simp only [V2.task, hpc, hc, hd, ↓reduceIte, Pc.measure]
          exact Prod.Lex.right _ (Prod.Lex.left _ _ (by simp))
        | false =>
          simp only [V2.task, hpc, hc, hd, Bool.false_eq_true, ↓reduceIte, Pc.measure]
          exact Prod.Lex.right _ (Prod.Lex.right _ (by simp))

end OutPort
