import RactorModel.Lemmas.FactoryLimitRun

/-! High-water mark: the factory queue under ARBITRARY changes of the discard settings during a run. If every limit ever
configured (at start and by every `UpdateSettings`) is at most `H` — and load shedding is never switched off — the number
of discardable jobs in the factory queue never exceeds `H`. Same run argument as `FactoryLimitRun.lean`, with the settings
allowed to vary. -/

namespace Factory

/-- discardable jobs in the queue -/
def dcount (cfg : Cfg) (q : List Job) : Nat := (q.filter (discardable cfg)).length

theorem dcount_sub (cfg : Cfg) (q r : List Job) (h : List.Sublist r q) : dcount cfg r ≤ dcount cfg q :=
  (h.filter (discardable cfg)).length_le

/-- settings with a limit of at most `H` -/
def okD (H : Nat) : Option (Nat × Mode) → Bool
  | some (l, _) => decide (l ≤ H)
  | none => false

theorem okD_spec {H : Nat} {d : Option (Nat × Mode)} (h : okD H d = true) : ∃ l m, d = some (l, m) ∧ l ≤ H := by
  cases d with
  | none => simp [okD] at h
  | some x => exact ⟨x.1, x.2, rfl, by simpa [okD] using h⟩

/-- the operation configures no limit above `H` and does not switch load shedding off -/
def Op.limitsWithin (H : Nat) : Op → Bool
  | .settings (some d) _ => okD H d
  | _ => true

theorem maybeEnqueue_dcount (w : W) (j : Job) (l : Nat) (m : Mode) (hd : w.disc = some (l, m)) :
    dcount w.cfg (w.maybeEnqueue j).queue ≤ max l (dcount w.cfg w.queue) := by
  cases m with
  | newest => exact maybeEnqueue_newest_discardable w j l hd
  | oldest =>
    have h1 := maybeEnqueue_oldest_le w j l hd
    have h2 : dcount w.cfg (w.maybeEnqueue j).queue ≤ (w.maybeEnqueue j).queue.length := List.length_filter_le _ _
    omega

/-- the settings in force and every settings update still in the mailbox have a limit `≤ H`; the queue holds at most `H`
discardable jobs -/
structure HwInv (H : Nat) (w : W) : Prop where
  disc : ∃ l m, w.disc = some (l, m) ∧ l ≤ H
  bound : dcount w.cfg w.queue ≤ H
  inbox : ∀ m ∈ w.inbox, ∀ d n, m = .updateSettings (some d) n → okD H d = true

variable {H : Nat}

theorem HwInv.qsub {w w' : W} (h : HwInv H w) (q : QSub w w') : HwInv H w' :=
  ⟨by rw [q.disc]; exact h.disc, by rw [q.cfg]; exact Nat.le_trans (dcount_sub _ _ _ q.queue) h.bound, by rw [q.inbox]; exact h.inbox⟩

theorem hw_dispatch (w : W) (j : Job) (h : HwInv H w) : HwInv H (w.dispatch j) := by
  unfold W.dispatch
  split
  · exact ⟨h.disc, h.bound, h.inbox⟩
  · split
    · have hf := routeMessage_frame w j none
      cases hrm : w.routeMessage j none with
      | mk r w2 =>
        rw [hrm] at hf
        simp only at hf
        have h2 : HwInv H w2 := ⟨by rw [hf.disc]; exact h.disc, by rw [hf.cfg, hf.queue]; exact h.bound, by rw [hf.inbox]; exact h.inbox⟩
        cases r with
        | handled => exact h2
        | rateLimited => exact ⟨h2.disc, h2.bound, h2.inbox⟩
        | backlog =>
          obtain ⟨f1, f2, f3⟩ := maybeEnqueue_fields w2 j
          refine ⟨by rw [f1]; exact h2.disc, ?_, by rw [f3]; exact h2.inbox⟩
          have hb := h2.bound
          show dcount (w2.maybeEnqueue j).cfg (w2.maybeEnqueue j).queue ≤ H
          rw [f2]
          obtain ⟨l, m, hd, hl⟩ := h2.disc
          have he := maybeEnqueue_dcount w2 j l m hd
          omega
    · exact ⟨h.disc, h.bound, h.inbox⟩

theorem hw_handleMsg (w : W) (m : FMsg) (hm : ∀ d n, m = .updateSettings (some d) n → okD H d = true)
    (h : HwInv H w) : HwInv H (w.handleMsg m) := by
  cases m with
  | dispatch j => exact hw_dispatch w j h
  | finished who key => exact h.qsub (qsub_workerFinishedJob w who key)
  | adjust n => exact h.qsub (qsub_resizePool w n)
  | updateSettings d n =>
    cases d with
    | some d =>
      have hd := hm d n rfl
      have h1 : HwInv H ({ w with pool := w.pool.map (fun p => { p with disc := w.workerDiscard d }), disc := d } : W) :=
        ⟨okD_spec hd, h.bound, h.inbox⟩
      cases n with
      | none => exact h1
      | some n => exact h1.qsub (qsub_resizePool _ n)
    | none =>
      cases n with
      | none => exact h
      | some n => exact h.qsub (qsub_resizePool w n)
  | setHandler hd => exact ⟨h.disc, h.bound, h.inbox⟩
  | drainRequests => exact ⟨h.disc, h.bound, h.inbox⟩
  | calculate =>
    show HwInv H (if w.cfg.hasCC && w.armed then { w with armed := false, blocked := true } else w.calcRest)
    split
    · exact ⟨h.disc, h.bound, h.inbox⟩
    · exact h.qsub (qsub_calcRest w)
  | getQueueDepth => exact ⟨h.disc, h.bound, h.inbox⟩
  | getNumActiveWorkers => exact ⟨h.disc, h.bound, h.inbox⟩
  | getAvailableCapacity => exact ⟨h.disc, h.bound, h.inbox⟩

theorem hw_loopStep (w w' : W) (h : HwInv H w) (hl : w.loopStep = some w') : HwInv H w' := by
  unfold W.loopStep at hl
  split at hl
  · simp at hl
  · split at hl
    · simp only [Option.some.injEq] at hl; subst hl
      refine ⟨h.disc, ?_, h.inbox⟩
      exact Nat.le_trans (dcount_sub _ _ _ (List.nil_sublist _)) h.bound
    · split at hl
      · rename_i who rest _
        simp only [Option.some.injEq] at hl; subst hl
        have h1 : HwInv H ({ w with env := { w.env with sup := rest } } : W) := ⟨h.disc, h.bound, h.inbox⟩
        exact h1.qsub (qsub_handleSupervisorEvt _ who)
      · split at hl
        · rename_i m rest hin
          simp only [Option.some.injEq] at hl; subst hl
          have hm : ∀ d n, m = .updateSettings (some d) n → okD H d = true :=
            fun d n => h.inbox m (by rw [hin]; exact List.mem_cons_self ..) d n
          have h1 : HwInv H ({ w with inbox := rest } : W) :=
            ⟨h.disc, h.bound, fun x hx => h.inbox x (by rw [hin]; exact List.mem_cons_of_mem _ hx)⟩
          exact (hw_handleMsg _ m hm h1).qsub (qsub_afterHandle _)
        · simp at hl

theorem hw_runQ (fuel : Nat) (w : W) (h : HwInv H w) : HwInv H (W.runQ fuel w) := by
  induction fuel generalizing w with
  | zero => exact h
  | succ fuel ih =>
    unfold W.runQ
    cases hl : w.loopStep with
    | some w' => simp only; exact ih _ (hw_loopStep w w' h hl)
    | none =>
      simp only
      have hs : HwInv H (W.tryFinishStop { w with env := w.env.settle }) := by
        unfold W.tryFinishStop
        split
        · exact ⟨h.disc, h.bound, fun m hm => by cases hm⟩
        · exact ⟨h.disc, h.bound, h.inbox⟩
      split
      · exact hs
      · exact ih _ hs

theorem hw_send (w : W) (m : FMsg) (hm : ∀ d n, m = .updateSettings (some d) n → okD H d = true) (h : HwInv H w) :
    HwInv H (w.send m) := by
  unfold W.send
  split
  · exact h
  · refine ⟨h.disc, h.bound, ?_⟩
    intro x hx
    rcases List.mem_append.mp hx with hx | hx
    · exact h.inbox x hx
    · simp only [List.mem_singleton] at hx; subst hx; exact hm

theorem hw_advanceTo (t fuel : Nat) (w : W) (h : HwInv H w) : HwInv H (W.advanceTo t fuel w) := by
  induction fuel generalizing w with
  | zero => exact ⟨h.disc, h.bound, h.inbox⟩
  | succ fuel ih =>
    unfold W.advanceTo
    split
    · simp only
      apply ih
      apply hw_runQ
      apply hw_send _ _ (fun _ _ hc => by cases hc)
      exact ⟨h.disc, h.bound, h.inbox⟩
    · exact ⟨h.disc, h.bound, h.inbox⟩

theorem hw_finish (w : W) (aid : Nat) (ok : Bool) (h : HwInv H w) : HwInv H (w.finish aid ok) := by
  unfold W.finish
  cases ha : w.env.getActor aid with
  | none => exact h
  | some a =>
    simp only
    cases hr : a.running with
    | none => exact h
    | some j =>
      simp only
      split
      · exact h
      · split
        · exact ⟨h.disc, h.bound, h.inbox⟩
        · have h1 : HwInv H (W.send { w with env := (w.env.emit (.finishOk aid)).emit (.handled aid j.id) } (.finished a.wid j.key)) :=
            hw_send _ _ (fun _ _ hc => by cases hc) ⟨h.disc, h.bound, h.inbox⟩
          exact ⟨h1.disc, h1.bound, h1.inbox⟩

theorem hw_applyOp (w : W) (op : Op) (hk : op.limitsWithin H = true) (h : HwInv H w) :
    HwInv H (w.applyOp op) := by
  cases op with
  | dispatch id key hash ttl acc =>
    simp only [W.applyOp]
    split
    · exact h
    · exact hw_send _ _ (fun _ _ hc => by cases hc) ⟨h.disc, h.bound, h.inbox⟩
  | finish aid ok => exact hw_finish w aid ok h
  | kill aid => exact ⟨h.disc, h.bound, h.inbox⟩
  | resize n => exact hw_send _ _ (fun _ _ hc => by cases hc) ⟨h.disc, h.bound, h.inbox⟩
  | settings d n =>
    cases d with
    | some d =>
      simp only [W.applyOp]
      apply hw_send _ _ (fun d' n' hc => by
        simp only [FMsg.updateSettings.injEq, Option.some.injEq] at hc
        rw [← hc.1]; exact hk)
      cases n with
      | none => exact ⟨h.disc, h.bound, h.inbox⟩
      | some n => exact ⟨h.disc, h.bound, h.inbox⟩
    | none =>
      simp only [W.applyOp]
      apply hw_send _ _ (fun _ _ hc => by cases hc)
      cases n with
      | none => exact h
      | some n => exact ⟨h.disc, h.bound, h.inbox⟩
  | drain => exact hw_send _ _ (fun _ _ hc => by cases hc) ⟨h.disc, h.bound, h.inbox⟩
  | setHandler hd => exact hw_send _ _ (fun _ _ hc => by cases hc) ⟨h.disc, h.bound, h.inbox⟩
  | advance => exact h
  | block => exact ⟨h.disc, h.bound, h.inbox⟩
  | release n =>
    simp only [W.applyOp]
    split
    · have h0 : HwInv H ({ w.emit (.released n) with blocked := false } : W) := ⟨h.disc, h.bound, h.inbox⟩
      have h1 : HwInv H (if ({ w.emit (.released n) with blocked := false } : W).poolSize != n
          then ({ w.emit (.released n) with blocked := false } : W).resizePool n
          else ({ w.emit (.released n) with blocked := false } : W)) := by
        split
        · exact h0.qsub (qsub_resizePool _ n)
        · exact h0
      exact (h1.qsub (qsub_calcRest _)).qsub (qsub_afterHandle _)
    · exact h
  | nop => exact h

theorem hw_ask (w : W) (m : FMsg) (hm : ∀ d n, m = .updateSettings (some d) n → okD H d = true) (h : HwInv H w) :
    HwInv H (w.ask m) := by
  unfold W.ask
  split
  · exact ⟨h.disc, h.bound, h.inbox⟩
  · simp only
    have h1 := hw_runQ RUN_FUEL _ (hw_send w m hm h)
    split
    · exact ⟨h1.disc, h1.bound, h1.inbox⟩
    · exact h1

theorem hw_queries (w : W) (h : HwInv H w) : HwInv H w.queries := by
  unfold W.queries
  split
  · exact ⟨h.disc, h.bound, h.inbox⟩
  · exact hw_ask _ _ (fun _ _ hc => by cases hc) (hw_ask _ _ (fun _ _ hc => by cases hc)
      (hw_ask _ _ (fun _ _ hc => by cases hc) ⟨h.disc, h.bound, h.inbox⟩))

theorem hw_stepOp (w : W) (op : Op) (t0 tq te : Nat) (hk : op.limitsWithin H = true) (h : HwInv H w) :
    HwInv H (w.stepOp op t0 tq te) := by
  unfold W.stepOp
  simp only
  generalize hw1 : W.advanceTo t0 (advanceFuel w t0) w = w1
  have h1 : HwInv H w1 := by rw [← hw1]; exact hw_advanceTo _ _ _ h
  generalize hw2 : W.runQ RUN_FUEL (w1.applyOp op) = w2
  have h2 : HwInv H w2 := by rw [← hw2]; exact hw_runQ _ _ (hw_applyOp _ _ hk h1)
  generalize hw3 : W.advanceTo tq (advanceFuel w2 tq) w2 = w3
  have h3 : HwInv H w3 := by rw [← hw3]; exact hw_advanceTo _ _ _ h2
  generalize hw4 : w3.queries = w4
  have h4 : HwInv H w4 := by rw [← hw4]; exact hw_queries _ h3
  generalize hw5 : W.advanceTo te (advanceFuel w4 te) w4 = w5
  have h5 : HwInv H w5 := by rw [← hw5]; exact hw_advanceTo _ _ _ h4
  exact ⟨h5.disc, h5.bound, h5.inbox⟩

theorem hw_runSteps (w : W) (steps : List Step) (hk : steps.all (fun s => s.op.limitsWithin H) = true)
    (h : HwInv H w) : HwInv H (w.runSteps steps) := by
  induction steps generalizing w with
  | nil => exact h
  | cons s rest ih =>
    simp only [List.all_cons, Bool.and_eq_true] at hk
    exact ih _ hk.2 (hw_stepOp w s.op s.t0 s.tq s.te hk.1 h)


/-- HIGH-WATER MARK: for every case whose initial limit is `≤ H` and EVERY op sequence whose settings updates all configure a
limit `≤ H` (any mode, changed as often as one likes, never switched off): at every quiescent point the factory queue holds
at most `H` discardable jobs. -/
theorem hw_always (c : CaseCfg) (hd : okD H c.disc = true) (steps : List Step)
    (hk : steps.all (fun s => s.op.limitsWithin H) = true) : HwInv H ((init c).runSteps steps) := by
  obtain ⟨f1, f2, f3, f4⟩ := init_fields c
  apply hw_runSteps _ steps hk
  exact ⟨by rw [f1]; exact okD_spec hd, by rw [f2]; exact Nat.zero_le _, by rw [f3]; intro m hm; cases hm⟩

end Factory
