"""
Target table of extract/rs2lean.py: WHICH Rust functions are translated and how names that
are not defined in the translated text itself are read (foreign types, library calls,
nondeterministic sources). Part of the trusted base of the translator tie.
"""

AREAS = []

# ---- C17: the two handshake state machines --------------------------------------------
AREAS.append({
    "area": "Auth",
    "properties": ["C17"],
    "file": "ractor_cluster/src/node/auth.rs",
    "type_params": "(D : Type)",
    "fn_params": "{D : Type} [DecidableEq D] (H : String → Nat → D) (fresh : Nat)",
    "fn_args": "H fresh",
    "doc": """
Foreign declarations (prost output of `protocol/auth.proto`, restated in the target spec):
`Digest = [u8; 32]` and the `Vec<u8>` digest fields of the messages are both the abstract type
`D` (only equality is used); `NodeFlags` is not kept. `crate::hash::challenge_digest` is the
uninterpreted `H`; `rand::rng().next_u32()` is the parameter `fresh` (at most one draw per call).""",
    "foreign_rust": """
        struct NameMessage { name: String, connection_string: String, connection_id: u64 }
        struct ServerStatus { status: i32n }
        struct ClientStatus { status: bool }
        struct Challenge { name: String, challenge: u32, connection_string: String }
        struct ChallengeReply { challenge: u32, digest: Digest }
        struct ChallengeAck { digest: Digest }
        enum Msg { Name(NameMessage), ServerStatus(ServerStatus), ClientStatus(ClientStatus),
                   ServerChallenge(Challenge), ClientChallenge(ChallengeReply), ServerAck(ChallengeAck) }
        struct AuthenticationMessage { msg: Option<Msg> }
    """,
    "types": {"Digest": "D", "i32n": "Nat"},
    "source_types": [{"name": "ServerAuthenticationProcess"}, {"name": "ClientAuthenticationProcess"}],
    "calls": {"crate::hash::challenge_digest": ("H {0} {1}", "Digest")},
    "nondet": {"rand::rng().next_u32()": ("fresh", "u32")},
    "fns": [
        {"container": "ServerAuthenticationProcess", "name": "init", "theorem": "C17.generated_server_init_eq_model"},
        {"container": "ServerAuthenticationProcess", "name": "start_challenge", "draws": True,
         "theorem": "C17.generated_server_start_challenge_eq_model"},
        {"container": "ServerAuthenticationProcess", "name": "next", "theorem": "C17.generated_server_next_eq_model"},
        {"container": "ClientAuthenticationProcess", "name": "init", "theorem": "C17.generated_client_init_eq_model"},
        {"container": "ClientAuthenticationProcess", "name": "next", "theorem": "C17.generated_client_next_eq_model"},
    ],
})

# ---- C18: elect_sessions --------------------------------------------------------------
AREAS.append({
    "area": "Election",
    "properties": ["C18"],
    "file": "ractor_cluster/src/node.rs",
    "doc": """
`ActorId` is `Nat` (session actors are `ActorId::Local(n)`, ordered by `n`), `NonZeroU64` is `Nat`
(the value; `NonZeroU64::new(0) = None` happens before `elect_sessions`). `str::cmp` is Lean's
`compare` on `String` (both lexicographic by code point / UTF-8 bytes).""",
    "types": {"ActorId": "Nat", "NonZeroU64": "Nat"},
    "source_types": [{"name": "SessionElectionCandidate"}],
    "fns": [
        {"container": None, "name": "elect_sessions", "theorem": "C18.generated_elect_sessions_eq_model"},
    ],
})

# ---- C19: frame length check ----------------------------------------------------------
AREAS.append({
    "area": "Frame",
    "properties": ["C19"],
    "file": "ractor_cluster/src/net/session.rs",
    "error_type": "(String × String)",
    "doc": """
`tokio::io::Error::new(kind, msg)` is the pair `(kind, msg)`; `format!` is its template string
(arguments not interpolated). `NetworkMessage` is its protobuf encoding (`List UInt8`:
`encoded_len` = its length, `encode(buf)` appends it), `u64::to_be_bytes` = `Codec.encodeBE 8`,
`Vec::write_all` appends.""",
    "imports": ["RactorModel.Model.RustSem", "RactorModel.Model.Codec"],
    "calls": {"Error::new": ("({0}, {1})", None)},
    "paths": {"ErrorKind::InvalidData": ('"InvalidData"', "String")},
    "types": {"NetworkMessage": "(List UInt8)", "u8": "UInt8"},
    "methods": [
        {"name": "encoded_len", "on": "NetworkMessage", "lean": "{0}.length", "ty": "usize"},
        {"name": "to_be_bytes", "on": "u64", "lean": "(Codec.encodeBE 8 {0} : List UInt8)", "ty": "Vec<u8>"},
    ],
    "mut_methods": {"write_all": "{0} ++ {1}"},
    "mutarg_methods": {"encode": "{1} ++ {0}"},
    "consts": [{"name": "FRAME_READ_CHUNK_SIZE", "theorem": "C19.generated_frame_constants"},
               {"name": "DEFAULT_MAX_INBOUND_FRAME_SIZE", "file": "ractor_cluster/src/node.rs",
                "theorem": "C19.generated_frame_constants"}],
    "fns": [
        {"container": None, "name": "checked_frame_length", "theorem": "C19.generated_checked_frame_length_eq_model"},
        {"container": None, "name": "encode_network_message", "theorem": "C19.generated_encode_network_message_eq_model"},
    ],
})

# ---- C15: leaky bucket ----------------------------------------------------------------
AREAS.append({
    "area": "LeakyBucket",
    "properties": ["C15"],
    "file": "ractor/src/factory/ratelim.rs",
    "fn_params": "(instLim clock : Nat)",
    "fn_args": "instLim clock",
    "doc": """
`Instant` and `Duration` are `Nat` nanoseconds (offset from an arbitrary origin / length);
`Duration::as_nanos` (u128) is the identity, `Duration::new(s, n) = s * 10^9 + n`,
`Instant::saturating_duration_since` and `Duration::saturating_sub` are truncated subtraction,
`Instant::checked_add` fails beyond the platform limit `instLim`; `Instant::now()` is the
parameter `clock` (at most one reading per call).""",
    "types": {"Instant": "Nat", "Duration": "Nat"},
    "source_types": [{"name": "LeakyBucketRateLimiter"}],
    "consts": [{"name": "MAX_LB_BALANCE", "theorem": "C15.generated_leaky_refresh_eq_model"}],
    "nondet": {"Instant::now()": ("clock", "Instant")},
    "calls": {"Duration::new": ("({0} * 1000000000 + {1})", "Duration")},
    "methods": [
        {"name": "as_nanos", "on": "Duration", "lean": "{0}", "ty": "u128"},
        {"name": "saturating_duration_since", "on": "Instant", "lean": "({0} - {1})", "ty": "Duration"},
        {"name": "saturating_sub", "on": "Duration", "lean": "({0} - {1})", "ty": "Duration"},
        {"name": "checked_add", "on": "Instant", "lean": "Rust.instantCheckedAdd instLim {0} {1}", "ty": "Option<Instant>"},
    ],
    "fns": [
        {"container": "LeakyBucketRateLimiter", "name": "new", "theorem": "C15.generated_leaky_new_eq_model"},
        {"container": "LeakyBucketRateLimiter", "name": "refresh", "theorem": "C15.generated_leaky_refresh_eq_model"},
        {"container": "RateLimiter for LeakyBucketRateLimiter", "name": "check", "theorem": "C15.generated_leaky_check_eq_model"},
        {"container": "RateLimiter for LeakyBucketRateLimiter", "name": "bump", "theorem": "C15.generated_leaky_bump_eq_model"},
    ],
})

# ---- C07/C02: admission word arithmetic, ActorStatus --------------------------------------
AREAS.append({
    "area": "Admission",
    "properties": ["C07"],
    "file": "ractor/src/actor/actor_properties.rs",
    "error_type": "MessagingErr",
    "doc": """
Atomics: a method that works on `self.message_admission: AtomicUsize` is translated as a function
of the word it observes (the field of `self`), `fetch_or`/`fetch_sub` as the new word plus the old
value; a compare-exchange retry loop as ONE iteration (`Rust.CasStep`). The interleaving of these
atomic steps is the hand-written small-step model (`Model/Admission.lean`); what is tied here is
the word arithmetic of each step. `MessageAdmission(self)` (the ticket) is `()`, the outcome of
`self.message.send(MuxedMessage::Drain)` is the parameter `enqueue`. `ActorProperties` keeps only
`message_admission`; `ActorCell` is restated as its status.""",
    "foreign_after_source": True,
    "fn_params": "(enqueue : Except MessagingErr Unit)",
    "fn_args": "enqueue",
    "foreign_rust": """
        enum MessagingErr { SendErr(()), ChannelClosed, InvalidActorType }
        struct ActorCell { status: ActorStatus }
    """,
    "types": {"MessageAdmission": "Unit"},
    "source_types": [{"name": "ActorStatus", "file": "ractor/src/actor/actor_cell.rs"},
                     {"name": "ActorProperties", "fields": ["message_admission"]}],
    "consts": [{"name": "MESSAGE_ADMISSION_CLOSED", "theorem": "C07.generated_admission_constants"},
               {"name": "DRAIN_MARKER_SENT", "theorem": "C07.generated_admission_constants"},
               {"name": "MESSAGE_ADMISSION_COUNT_MASK", "theorem": "C07.generated_admission_constants"}],
    "calls": {"MessageAdmission": ("()", "MessageAdmission")},
    "nondet": {"self.message.send(MuxedMessage::Drain)": ("enqueue", "Result<()>")},
    "methods": [{"name": "get_status", "on": "ActorCell", "lean": "{0}.status", "ty": "ActorStatus"}],
    "fns": [
        {"container": "ActorProperties", "name": "try_admit_message", "atomic_self": False,
         "theorem": "C07.generated_try_admit_eq_model"},
        {"container": "ActorProperties", "name": "close_message_admission", "atomic_self": True,
         "theorem": "C07.generated_close_admission_eq_model"},
        {"container": "ActorProperties", "name": "send_drain_marker", "theorem": "C07.generated_send_drain_marker_eq_model"},
        {"container": "Drop for MessageAdmission", "name": "drop", "lean": "MessageAdmission.drop", "self_ty": "ActorProperties",
         "self_is_tuple_of_self": True, "mode": "tail_if_condition", "theorem": "C07.generated_ticket_release_eq_model"},
        {"container": "ActorProperties", "name": "drain", "lean": "ActorProperties.drain_status_update", "mode": "closure_arg",
         "method": "fetch_update", "closure_params": ["u8"], "closure_ret": "Option<u8>",
         "theorem": "C07.generated_drain_status_update_eq_model"},
        {"container": "ActorProperties", "name": "send_message_unchecked", "lean": "ActorProperties.send_rejects_status",
         "mode": "if_condition", "index": 0, "bind": [["status", "ActorStatus"]],
         "theorem": "C07.generated_send_status_check_eq_model"},
        {"container": "ActorCell", "name": "set_status", "file": "ractor/src/actor/actor_cell.rs",
         "lean": "ActorCell.set_status_runs_cleanup", "mode": "if_condition", "mentions": "Stopping",
         "bind": [["status", "ActorStatus"], ["previous_status", "ActorStatus"]],
         "properties": ["C06"], "theorem": "C06.generated_set_status_cleanup_condition_eq_model"},
        {"container": "ActorCell", "name": "set_status", "file": "ractor/src/actor/actor_cell.rs",
         "lean": "ActorCell.set_status_notifies", "mode": "if_condition", "mentions": "Stopped",
         "bind": [["status", "ActorStatus"], ["previous_status", "ActorStatus"]],
         "properties": ["C06"], "theorem": "C06.generated_set_status_notify_condition_eq_model"},
        {"container": "ActorCell", "name": "terminate", "file": "ractor/src/actor/actor_cell.rs", "lean": "ActorCell.terminate_kills",
         "mode": "if_condition", "index": 0, "bind": [["actor", "ActorCell"]],
         "properties": ["C05"], "theorem": "C05.generated_terminate_kill_condition_eq_model"},
    ],
})

# ---- C14: worker choice of the push routers ------------------------------------------------
AREAS.append({
    "area": "Routing",
    "properties": ["C14"],
    "file": "ractor/src/factory/routing.rs",
    "imports": ["RactorModel.Model.RustSem", "RactorModel.Model.Factory"],
    "doc": """
`worker_pool: &HashMap<WorkerId, WorkerProperties>` is the model's pool `List Factory.WP`
(`contains_key` = `Factory.hasW`, `get` = `Factory.getW`, `iter()` = the list of `(wid, worker)`
pairs in list order — a real `HashMap` iterates in an unspecified order); the observers of
`WorkerProperties` (`is_available`, `has_pending_key`, `is_processing_key`) are the model's;
`Job` is `Factory.Job` (only `key` is read), job keys are `Nat`. `DefaultHasher` is the last value
fed (`Option Nat`), `finish()` the uninterpreted `sip`; the custom hasher is the uninterpreted `h`.
Of `QueuerRouting`/`StickyQueuerRouting::choose_target_worker` only the early-return prefix before
the `while let … pop_front()` loop is translated (mode `before_loop`: `some r` = returned `r`,
`none` = the deque loop is reached); the loop itself (index assignment) is outside the subset.""",
    "fn_params": "(sip : Option Nat → Nat) (h : Nat → Nat → Nat)",
    "fn_args": "sip h",
    "aliases": {"WorkerId": "usize"},
    "types": {"Job": "Factory.Job", "WorkerProperties": "Factory.WP", "HashMap": "(List Factory.WP)", "TKey": "Nat",
              "THasher": "Unit", "DefaultHasher": "(Option Nat)"},
    "field_types": {"Job": {"key": "TKey"}},
    "foreign_rust": "struct KeyPersistentRouting {}",
    "source_types": [{"name": "RoundRobinRouting", "fields": ["last_worker"]},
                     {"name": "CustomRouting", "fields": ["hasher"]},
                     {"name": "QueuerRouting", "fields": []},
                     {"name": "StickyQueuerRouting", "fields": []}],
    "calls": {"DefaultHasher::new": ("(none : Option Nat)", "DefaultHasher")},
    "mutarg_methods": {"hash": "(some {0})"},
    "methods": [
        {"name": "finish", "on": "DefaultHasher", "lean": "sip {0}", "ty": "u64"},
        {"name": "hash", "on": "THasher", "lean": "h {1} {2}", "ty": "usize"},
        {"name": "contains_key", "on": "HashMap", "lean": "Factory.hasW {0} {1}", "ty": "bool"},
        {"name": "get", "on": "HashMap", "lean": "Factory.getW {0} {1}", "ty": "Option<WorkerProperties>"},
        {"name": "iter", "on": "HashMap", "lean": "List.map (fun p => (p.wid, p)) {0}", "ty": "Iter<(WorkerId, WorkerProperties)>"},
        {"name": "is_available", "on": "WorkerProperties", "lean": "Factory.WP.isAvailable {0}", "ty": "bool"},
        {"name": "has_pending_key", "on": "WorkerProperties", "lean": "Factory.WP.hasPendingKey {0} {1}", "ty": "bool"},
        {"name": "is_processing_key", "on": "WorkerProperties", "lean": "Factory.WP.isProcessingKey {0} {1}", "ty": "bool"},
    ],
    "fns": [
        {"container": None, "name": "hash_with_max", "file": "ractor/src/factory/hash.rs",
         "theorem": "C14.generated_hash_with_max_eq_model"},
        {"container": "Router for KeyPersistentRouting", "name": "choose_target_worker",
         "theorem": "C14.generated_key_persistent_choice_eq_model"},
        {"container": "Router for RoundRobinRouting", "name": "choose_target_worker",
         "theorem": "C14.generated_round_robin_choice_eq_model"},
        {"container": "Router for CustomRouting", "name": "choose_target_worker",
         "theorem": "C14.generated_custom_choice_eq_model"},
        {"container": "Router for QueuerRouting", "name": "choose_target_worker", "mode": "before_loop",
         "lean": "QueuerRouting.choose_before_deque", "theorem": "C14.generated_queuer_prefix_eq_model"},
        {"container": "Router for StickyQueuerRouting", "name": "choose_target_worker", "mode": "before_loop",
         "lean": "StickyQueuerRouting.choose_before_deque", "theorem": "C14.generated_sticky_queuer_prefix_eq_model"},
    ],
})

# ---- C19: job metadata on the wire ---------------------------------------------------------
AREAS.append({
    "area": "JobMeta",
    "properties": ["C19"],
    "file": "ractor/src/factory/job.rs",
    "imports": ["RactorModel.Model.RustSem", "RactorModel.Model.Codec"],
    "error_type": "Unit",
    "deriving": "Repr",
    "doc": """
`SystemTime` is `Nat` nanoseconds since `UNIX_EPOCH` (`duration_since(UNIX_EPOCH).expect(..)` is the
identity: clocks before the epoch are out of scope), `Duration` is `Nat` nanoseconds
(`as_nanos`/`from_nanos` = identity), bytes are `UInt8`, `u64::to_be_bytes`/`from_be_bytes` are
`Codec.encodeBE 8`/`Codec.beVal`, `Vec → [u8; 8]` `try_into().unwrap()` is the identity (the vectors
have 8 elements on every path, see the theorems). `JobOptions` keeps `submit_time` and `ttl`;
`Default::default()` is the parameter `dflt`; `reset_ttl_timer` only touches `ttl_timer` (not kept).
The job key is its `into_bytes` image (`TKey` = `Vec<u8>`), the message is `()`.""",
    "fn_params": "(dflt : JobOptions)",
    "fn_args": "dflt",
    "types": {"u8": "UInt8", "SystemTime": "Nat", "Duration": "Nat", "TMsg": "Unit", "BoxedDowncastErr": "Unit"},
    "aliases": {"TKey": "Vec<u8>"},
    "source_types": [{"name": "JobOptions", "fields": ["submit_time", "ttl"]},
                     {"name": "Job", "fields": ["key", "msg", "options"]}],
    "paths": {"UNIX_EPOCH": ("0", "SystemTime"), "BoxedDowncastErr": ("()", "BoxedDowncastErr")},
    "calls": {"Default::default": ("dflt", "JobOptions"), "Duration::from_nanos": ("{0}", "Duration"),
              "u64::from_be_bytes": ("Codec.beVal {0}", "u64"), "TKey::from_bytes": ("{0}", "Vec<u8>")},
    "operators": {("+", "SystemTime"): ("({0} + {1})", "SystemTime")},
    "mut_methods": {"reset_ttl_timer": "{0}"},
    "methods": [
        {"name": "duration_since", "on": "SystemTime", "lean": "({0} - {1})", "ty": "DurationResult"},
        {"name": "expect", "on": "DurationResult", "lean": "{0}", "ty": "Duration", "arity": 1},
        {"name": "as_nanos", "on": "Duration", "lean": "{0}", "ty": "u128"},
        {"name": "to_be_bytes", "on": "u64", "lean": "(Codec.encodeBE 8 {0} : List UInt8)", "ty": "Vec<u8>"},
        {"name": "try_into", "on": "Vec", "lean": "{0}", "ty": "ArrayResult"},
        {"name": "unwrap", "on": "ArrayResult", "lean": "{0}", "ty": "Vec<u8>"},
        {"name": "into_bytes", "on": "Vec", "lean": "{0}", "ty": "Vec<u8>"},
    ],
    "fns": [
        {"container": "BytesConvertable for JobOptions", "name": "into_bytes", "theorem": "C19.generated_job_options_into_bytes_eq_model"},
        {"container": "BytesConvertable for JobOptions", "name": "from_bytes", "theorem": "C19.generated_deserialize_meta_eq_model"},
        {"container": "Job", "name": "serialize_meta", "theorem": "C19.generated_serialize_meta_eq_model"},
        {"container": "Job", "name": "deserialize_meta", "theorem": "C19.generated_deserialize_meta_eq_model"},
    ],
})
