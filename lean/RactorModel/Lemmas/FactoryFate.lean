import RactorModel.Model.FactoryOracle

/-! Lemmas for C13 (fates of jobs). -/

namespace Factory

theorem getActor_setActor_other (e : Env) (a : Actor) (aid : Nat) (h : aid ≠ a.aid) :
    (e.setActor a).getActor aid = (e.getActor aid) := by
  unfold Env.getActor Env.setActor
  simp only
  induction e.actors with
  | nil => rfl
  | cons x xs ih =>
    simp only [List.map_cons, List.find?_cons]
    by_cases hx : x.aid = a.aid
    · have hxa : (x.aid == aid) = false := by
        rw [hx]; exact beq_false_of_ne (Ne.symm h)
      have haa : (a.aid == aid) = false := beq_false_of_ne (Ne.symm h)
      have hxe : (x.aid == a.aid) = true := by simp [hx]
      simp only [hxe, if_true, haa, hxa]
      exact ih
    · have hxe : (x.aid == a.aid) = false := beq_false_of_ne hx
      simp only [hxe, Bool.false_eq_true, if_false]
      cases hxa : x.aid == aid
      · exact ih
      · rfl

end Factory
