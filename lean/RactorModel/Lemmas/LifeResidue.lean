import RactorModel.Lemmas.Life

/-! Simulation of the `Life` actor by the `Residue` automaton: once a spawn failed (`pre_start`
Err / panic, kill during start-up, refused link) or its future was dropped, nothing of the actor is
left and nothing of it ever happens again. (Extra oracle of the `Life` driver; C08 itself is
decided by a separate check.) -/

namespace Life.Residue

/-- The actor is gone and left nothing behind. -/
structure Dead (a : Actor) : Prop where
  phase : a.phase = .done
  status : a.status = .stopped
  sup : a.sup = none
  name : a.nameHeld = false
  groups : a.groups = []
  calls : ∀ p ∈ a.calls, p.2 = .dropped

/-- No reply port addressed to the actor was taken out of the mailbox yet. -/
def CallsFresh (a : Actor) : Prop := ∀ p ∈ a.calls, p.2 = .queued ∨ p.2 = .dropped

/-- The loop task was spawned (or the actor is done). -/
def started : Phase → Bool
  | .fresh | .cell | .pre => false
  | _ => true

def Inv (a : Actor) (s : St) : Prop :=
  (s.failed = true ∧ Dead a) ∨
  (s.failed = false ∧
    ((a.phase = .fresh ∧ s.entered = false ∧ a.calls = []) ∨
     (a.phase = .pre ∧ s.entered = true ∧ a.armed = true ∧ CallsFresh a) ∨
     started a.phase = true))

/-! ### events that cannot make the automaton fail while `failed = false` -/

/-- Events that set `failed`. -/
def isFail : Ev → Bool
  | .dropped => true
  | .spawnRet .ok => false
  | .spawnRet .registered => false
  | .spawnRet _ => true
  | _ => false

theorem next_nf (s : St) (e : Ev) (h : s.failed = false) (he : isFail e = false) :
    ∃ s', next s e = .ok s' ∧ s'.failed = false ∧ (s.entered = true → s'.entered = true) := by
  cases e with
  | spawnRet r => cases r <;> simp [isFail] at he <;> exact ⟨s, by simp [next, h], h, id⟩
  | dropped => simp [isFail] at he
  | enter cb x => exact ⟨{ s with entered := s.entered || cb == .preStart }, by simp [next, h], h, by intro h'; simp [h']⟩
  | tick cb => exact ⟨s, by simp [next, h], h, id⟩
  | exit cb r => exact ⟨s, by simp [next, h], h, id⟩
  | emit p x => exact ⟨s, by simp [next, h], h, id⟩
  | monFan r t x => exact ⟨s, by simp [next, h], h, id⟩
  | snap sn => exact ⟨s, by simp [next, h], h, id⟩
  | sendRet b m ok => cases ok <;> exact ⟨s, by simp [next, h], h, id⟩
  | callRet k r => cases r <;> exact ⟨s, by simp [next, h], h, id⟩
  | waitRet w r => cases r <;> exact ⟨s, by simp [next, h], h, id⟩
  | _ => exact ⟨s, rfl, h, id⟩

theorem accepts_nf (tr : List Ev) (s : St) (h : s.failed = false) (hno : ∀ e ∈ tr, isFail e = false) :
    ∃ s', accepts next s tr = .ok s' ∧ s'.failed = false ∧ (s.entered = true → s'.entered = true) := by
  induction tr generalizing s with
  | nil => exact ⟨s, rfl, h, id⟩
  | cons e es ih =>
    obtain ⟨s1, h1, hf1, he1⟩ := next_nf s e h (hno e (List.mem_cons_self ..))
    obtain ⟨s2, h2, hf2, he2⟩ := ih s1 hf1 (fun x hx => hno x (List.mem_cons_of_mem _ hx))
    exact ⟨s2, by rw [accepts_cons_ok next _ h1]; exact h2, hf2, fun h' => he2 (he1 h')⟩

/-! ### the helpers of the task phases emit no failing event and stay `started` -/

/-- Postcondition of a task-phase helper: no failing event, the phase stays `started`. -/
def Ok (x : M) : Prop := (∀ e ∈ evs x.2, isFail e = false) ∧ started x.1.phase = true

theorem Ok.andThen {x : M} {f : Actor → M} (hx : ∀ e ∈ evs x.2, isFail e = false) (hf : Ok (f x.1)) :
    Ok (andThen x f) := by
  refine ⟨?_, hf.2⟩
  intro e he
  simp only [andThen_snd, evs_append, List.mem_append] at he
  rcases he with he | he
  · exact hx e he
  · exact hf.1 e he

theorem noise_noFail {l : List Ev} (h : ∀ x ∈ l, x.isExitNoise = true)
    (hs : ∀ r, Ev.spawnRet r ∉ l) : ∀ e ∈ l, isFail e = false := by
  intro e he
  have := h e he
  cases e <;> simp [Ev.isExitNoise] at this <;> try rfl
  rename_i r
  exact absurd he (hs r)

theorem cleanup_noSpawnRet (a : Actor) (e : Option SupEv) : ∀ r, Ev.spawnRet r ∉ evs (cleanup a e).2 := by
  intro r
  unfold cleanup
  split
  · simp
  · cases e <;> cases hs : a.sup <;> cases hm : a.mons <;> simp [Actor.setStatus, hs, hm, notifyOuts]

theorem finish_ok (a : Actor) (e : SupEv) : Ok (finish a e) := by
  refine ⟨?_, by simp [finish_phase, started]⟩
  refine noise_noFail (finish_noise a e) ?_
  intro r hr
  simp only [finish, andThen_snd, evs_append, List.mem_append] at hr
  rcases hr with hr | hr
  · exact cleanup_noSpawnRet _ _ r hr
  · simp at hr

theorem killedInLoop_ok (a : Actor) : Ok (killedInLoop a) := by
  unfold killedInLoop
  exact Ok.andThen (by simp [handleSignal]) (finish_ok _ _)

theorem killedOutsideLoop_ok (a : Actor) : Ok (killedOutsideLoop a) := by
  unfold killedOutsideLoop
  exact Ok.andThen (by simp [handleSignal]) (finish_ok _ _)

theorem enterPostStop_ok (a : Actor) (r : Reason) : Ok (enterPostStop a r) :=
  ⟨by simp [enterPostStop, isFail], by simp [enterPostStop, started]⟩

theorem listen_ok (a : Actor) : Ok (listen a) := by
  unfold listen
  split
  · exact killedInLoop_ok _
  · simp only []
    split
    · exact enterPostStop_ok _ _
    · split
      · exact ⟨by simp [isFail], by simp [started]⟩
      · split
        · exact ⟨by simp [isFail], by simp [started]⟩
        · exact ⟨by simp [isFail], by simp [started]⟩
        · exact enterPostStop_ok _ _
        · exact ⟨by simp, by simp [started]⟩

theorem afterExit_ok (a : Actor) (r : Res) : Ok (afterExit a r) := by
  unfold afterExit
  split
  · refine Ok.andThen ?_ (listen_ok _)
    intro e he
    cases hs : a.sup <;> cases hm : a.mons <;> simp [Actor.setStatus, hs, hm, notifyOuts] at he <;>
      first | (subst he; rfl) | (rcases he with he | he <;> subst he <;> rfl)
  · exact listen_ok _
  · exact listen_ok _
  · exact finish_ok _ _
  · exact finish_ok _ _
  · exact finish_ok _ _
  · exact finish_ok _ _

theorem runFx_noFail (a : Actor) (f : Fx) : (∀ e ∈ evs (runFx a f).2, isFail e = false) ∧ (runFx a f).1.phase = a.phase := by
  cases f with
  | sendSelf m => exact ⟨by simp [runFx, isFail], by simp only [runFx, apiSend]; (repeat' split) <;> rfl⟩
  | stopSelf r => exact ⟨by simp [runFx, isFail], by simp only [runFx, apiStop]; (repeat' split) <;> rfl⟩
  | killSelf => exact ⟨by simp [runFx, isFail], by simp only [runFx, apiKill]; (repeat' split) <;> rfl⟩
  | joinGroup g => exact ⟨by simp [runFx, isFail], by simp only [runFx]; split <;> rfl⟩
  | reply k v => simp only [runFx]; split <;> exact ⟨by simp [isFail], rfl⟩
  | forget k => simp only [runFx]; split <;> exact ⟨by simp [isFail], rfl⟩
  | spawnChild c => exact ⟨by simp [runFx, isFail], rfl⟩

theorem runFxs_noFail (fs : List Fx) (a : Actor) :
    (∀ e ∈ evs (runFxs a fs).2, isFail e = false) ∧ (runFxs a fs).1.phase = a.phase := by
  induction fs generalizing a with
  | nil => exact ⟨by simp [runFxs], rfl⟩
  | cons f fs ih =>
    unfold runFxs
    obtain ⟨h1, p1⟩ := runFx_noFail a f
    obtain ⟨h2, p2⟩ := ih (runFx a f).1
    refine ⟨?_, by simp only [andThen_fst]; rw [p2, p1]⟩
    intro e he
    simp only [andThen_snd, evs_append, List.mem_append] at he
    rcases he with he | he
    · exact h1 e he
    · exact h2 e he

theorem runSeg_ok (a : Actor) (cb : Cb) (sg : Seg) (k : Actor → Res → M) (hst : started a.phase = true)
    (hk : ∀ a1 r, a1.phase = a.phase → Ok (k a1 r)) : Ok (runSeg a cb sg k) := by
  unfold runSeg
  refine Ok.andThen (by simp [say, isFail]) ?_
  simp only [say]
  obtain ⟨h1, p1⟩ := runFxs_noFail sg.fx a
  refine Ok.andThen h1 ?_
  cases ht : sg.term with
  | tick => exact ⟨by simp, by simpa [p1] using hst⟩
  | ok => exact Ok.andThen (by simp [say, isFail]) (hk _ _ p1)
  | err n => exact Ok.andThen (by simp [say, isFail]) (hk _ _ p1)
  | panic n => exact Ok.andThen (by simp [say, isFail]) (hk _ _ p1)

theorem pollOpen_ok (a : Actor) (cb : Cb) (hst : started a.phase = true) : Ok (pollOpen a cb) := by
  unfold pollOpen
  simp only []
  split
  · refine Ok.andThen (by simp [say, isFail]) ?_
    simp only [say]
    split
    · exact killedInLoop_ok _
    · exact killedInLoop_ok _
    · exact killedOutsideLoop_ok _
  · split
    · exact ⟨by simp, by simpa using hst⟩
    · exact runSeg_ok _ cb _ afterExit (by simpa using hst) (fun a1 r _ => afterExit_ok a1 r)

theorem opPoll_ok (a : Actor) (hst : started a.phase = true) : Ok (opPoll a) := by
  unfold opPoll
  split
  · simp only []
    split
    · exact killedOutsideLoop_ok _
    · exact ⟨by simp [isFail], by simp [started]⟩
  · exact listen_ok _
  · exact pollOpen_ok a _ hst
  · exact pollOpen_ok a _ hst
  · exact pollOpen_ok a _ hst
  · exact pollOpen_ok a _ hst
  · exact ⟨by simp, hst⟩

theorem opAbort_ok (a : Actor) (hst : started a.phase = true) : Ok (opAbort a) := by
  unfold opAbort
  split
  · refine Ok.andThen ?_ ?_
    · cases a.phase.openCb <;> simp [isFail]
    · simp only []
      refine Ok.andThen ?_ ⟨by simp [isFail], by simp [Actor.dropPorts, started]⟩
      exact noise_noFail (cleanup_noise _ _) (cleanup_noSpawnRet _ _)
  · exact ⟨by simp, hst⟩

theorem opResume_ok (a : Actor) (sg : Seg) (hst : started a.phase = true) : Ok (opResume a sg) := by
  unfold opResume
  split
  · exact ⟨by simp, hst⟩
  · split
    · exact ⟨by simp, hst⟩
    · exact ⟨by simp, by simpa using hst⟩

/-- API calls and environment ops: no failing event, the phase does not move, the guard flag and
the reply ports only change as stated. -/
theorem envOp_frame (a : Actor) (op : AOp) :
    (∀ e ∈ evs (a.envOp op).2, isFail e = false) ∧ (a.envOp op).1.phase = a.phase ∧
    (a.envOp op).1.armed = a.armed ∧
    (CallsFresh a → CallsFresh (a.envOp op).1) := by
  cases op with
  | send m =>
    refine ⟨by simp [Actor.envOp, isFail], ?_, ?_, ?_⟩ <;>
      (simp only [Actor.envOp, apiSend]; (repeat' split) <;> first | rfl | exact id)
  | stop r =>
    refine ⟨by simp [Actor.envOp, isFail], ?_, ?_, ?_⟩ <;>
      (simp only [Actor.envOp, apiStop]; (repeat' split) <;> first | rfl | exact id)
  | kill =>
    refine ⟨by simp [Actor.envOp, isFail], ?_, ?_, ?_⟩ <;>
      (simp only [Actor.envOp, apiKill]; (repeat' split) <;> first | rfl | exact id)
  | drain =>
    refine ⟨by simp [Actor.envOp, isFail], ?_, ?_, ?_⟩ <;>
      (simp only [Actor.envOp, apiDrain]; (repeat' split) <;> first | rfl | exact id)
  | supArrive e =>
    refine ⟨?_, ?_, ?_, ?_⟩ <;>
      (simp only [Actor.envOp, opSupArrive]; split <;> first | rfl | exact id | simp [isFail])
  | treeTaken =>
    refine ⟨?_, ?_, ?_, ?_⟩
    · simp only [Actor.envOp, opTreeTaken]
      split
      · cases (apiKill { a with sup := none }).2 <;> simp [isFail]
      · simp
    all_goals (simp only [Actor.envOp, opTreeTaken, apiKill]; (repeat' split) <;> first | rfl | exact id)
  | link p ok =>
    refine ⟨?_, ?_, ?_, ?_⟩ <;>
      (simp only [Actor.envOp, opLink]; split <;> first | rfl | exact id | simp)
  | unlink p =>
    refine ⟨?_, ?_, ?_, ?_⟩ <;>
      (simp only [Actor.envOp, opUnlink]; split <;> first | rfl | exact id | simp)
  | kidAdd c => exact ⟨by simp [Actor.envOp], rfl, rfl, id⟩
  | monAdd m => exact ⟨by simp [Actor.envOp], rfl, rfl, id⟩
  | monDel m => exact ⟨by simp [Actor.envOp], rfl, rfl, id⟩
  | monDrop m => exact ⟨by simp [Actor.envOp], rfl, rfl, id⟩
  | kidDel c => exact ⟨by simp [Actor.envOp], rfl, rfl, id⟩
  | call k =>
    refine ⟨?_, ?_, ?_, ?_⟩
    · simp only [Actor.envOp]; intro e he; simp at he; rcases he with he | he <;> subst he
      · rfl
      · split <;> rfl
    · simp only [Actor.envOp, apiCall]; (repeat' split) <;> rfl
    · simp only [Actor.envOp, apiCall]; (repeat' split) <;> rfl
    · simp only [Actor.envOp, apiCall]
      (repeat' split) <;> first
        | exact id
        | (intro h p hp
           simp only [List.mem_append, List.mem_singleton] at hp
           rcases hp with hp | hp
           · exact h p hp
           · subst hp; exact Or.inl rfl)
  | pollCall k =>
    simp only [Actor.envOp]
    split
    · exact ⟨by simp [isFail], rfl, rfl, fun h p hp => h p (List.mem_filter.mp hp).1⟩
    · exact ⟨by simp [isFail], rfl, rfl, fun h p hp => h p (List.mem_filter.mp hp).1⟩
    · exact ⟨by simp [isFail], rfl, rfl, id⟩
    · exact ⟨by simp, rfl, rfl, id⟩
  | pollWait w => exact ⟨by simp [Actor.envOp, isFail], rfl, rfl, id⟩
  | spawn _ _ _ _ _ => exact ⟨by simp [Actor.envOp], rfl, rfl, id⟩
  | spawnInstant _ _ _ _ => exact ⟨by simp [Actor.envOp], rfl, rfl, id⟩
  | pollSpawn _ => exact ⟨by simp [Actor.envOp], rfl, rfl, id⟩
  | dropSpawn => exact ⟨by simp [Actor.envOp], rfl, rfl, id⟩
  | poll => exact ⟨by simp [Actor.envOp], rfl, rfl, id⟩
  | abort => exact ⟨by simp [Actor.envOp], rfl, rfl, id⟩
  | resume _ => exact ⟨by simp [Actor.envOp], rfl, rfl, id⟩


/-! ### a failed start-up leaves a dead actor -/

theorem max_stopped (st : Status) : st.max .stopped = .stopped := by
  cases st <;> rfl

theorem cleanup_fields (a : Actor) (e : Option SupEv) (harmed : a.armed = true) :
    (cleanup a e).1.status = .stopped ∧ (cleanup a e).1.sup = none ∧ (cleanup a e).1.nameHeld = false ∧
    (cleanup a e).1.groups = [] ∧ (cleanup a e).1.calls = a.calls ∧ (cleanup a e).1.phase = a.phase := by
  unfold cleanup
  simp only [harmed, Bool.not_true, Bool.false_eq_true, ↓reduceIte]
  refine ⟨?_, ?_, ?_, ?_, ?_, ?_⟩
  · simp [Actor.setStatus, max_stopped]
  · trivial
  · simp [Actor.setStatus, max_stopped, Status.rank]
  · simp [Actor.setStatus, max_stopped, Status.rank]
  · trivial
  · trivial

theorem cleanup_none_evs (a : Actor) : evs (cleanup a none).2 = [] := by
  unfold cleanup
  split
  · simp
  · cases hs : a.sup <;> simp [Actor.setStatus, hs]

theorem dropPorts_dead (a : Actor) (h1 : a.status = .stopped) (h2 : a.sup = none) (h3 : a.nameHeld = false)
    (h4 : a.groups = []) (hcf : CallsFresh a) : Dead a.dropPorts := by
  refine ⟨rfl, h1, h2, h3, h4, ?_⟩
  intro p hp
  simp only [Actor.dropPorts, List.mem_map] at hp
  obtain ⟨q, hq, rfl⟩ := hp
  split
  · rfl
  · rcases hcf q hq with h | h
    · rename_i hne; exact absurd h hne
    · exact h

theorem failSpawn_dead (a : Actor) (r : SpawnRet) (harmed : a.armed = true) (hcf : CallsFresh a) :
    Dead (failSpawn a r).1 ∧ evs (failSpawn a r).2 = [.spawnRet r] := by
  obtain ⟨h1, h2, h3, h4, h5, _⟩ := cleanup_fields a none harmed
  refine ⟨?_, by simp [failSpawn, cleanup_none_evs]⟩
  simp only [failSpawn, andThen_fst]
  exact dropPorts_dead _ h1 h2 h3 h4 (by unfold CallsFresh; rw [h5]; exact hcf)

theorem snap_clean {a : Actor} (hd : Dead a) : clean a.snap = .ok () := by
  simp [clean, Actor.snap, hd.status, hd.sup, hd.name, hd.groups]

/-- The automaton after a failing `spawnRet`. -/
theorem next_spawnRet_fail (s : St) (r : SpawnRet) (h1 : r ≠ .ok) (h2 : r ≠ .registered) :
    next s (.spawnRet r) = .ok { s with failed := s.entered } := by
  cases r <;> first | rfl | exact absurd rfl h1 | exact absurd rfl h2

theorem fateOf_mem {l : List (Nat × Fate)} {k : Nat} {f : Fate} (h : fateOf l k = some f) : ∃ p ∈ l, p.2 = f := by
  unfold fateOf at h
  cases hf : l.find? (fun p => decide (p.1 = k)) with
  | none => simp [hf] at h
  | some p =>
    simp [hf] at h
    exact ⟨p, List.mem_of_find?_eq_some hf, h⟩

/-- Side effects of a `pre_start` segment keep the guard armed and the reply ports untouched. -/
theorem runFx_pre (a : Actor) (f : Fx) (hcf : CallsFresh a) :
    (runFx a f).1.armed = a.armed ∧ CallsFresh (runFx a f).1 := by
  cases f with
  | sendSelf m => constructor <;> (simp only [runFx, apiSend]; (repeat' split) <;> first | rfl | exact hcf)
  | stopSelf r => constructor <;> (simp only [runFx, apiStop]; (repeat' split) <;> first | rfl | exact hcf)
  | killSelf => constructor <;> (simp only [runFx, apiKill]; (repeat' split) <;> first | rfl | exact hcf)
  | joinGroup g => constructor <;> (simp only [runFx]; split <;> first | rfl | exact hcf)
  | reply k v =>
    simp only [runFx]
    split
    · rename_i h
      obtain ⟨p, hp, hh⟩ := fateOf_mem h
      rcases hcf p hp with h' | h' <;> rw [h'] at hh <;> cases hh
    · exact ⟨rfl, hcf⟩
  | forget k =>
    simp only [runFx]
    split
    · rename_i h
      obtain ⟨p, hp, hh⟩ := fateOf_mem h
      rcases hcf p hp with h' | h' <;> rw [h'] at hh <;> cases hh
    · exact ⟨rfl, hcf⟩
  | spawnChild c => exact ⟨rfl, hcf⟩

theorem runFxs_pre (fs : List Fx) (a : Actor) (hcf : CallsFresh a) :
    (runFxs a fs).1.armed = a.armed ∧ CallsFresh (runFxs a fs).1 := by
  induction fs generalizing a with
  | nil => exact ⟨rfl, hcf⟩
  | cons f fs ih =>
    unfold runFxs
    obtain ⟨h1, h2⟩ := runFx_pre a f hcf
    obtain ⟨h3, h4⟩ := ih _ h2
    exact ⟨by simp only [andThen_fst]; rw [h3, h1], h4⟩

/-- What follows the return of `pre_start`: either the loop task is spawned or the actor is dead and
the only event is the failing spawn result. -/
theorem afterPre_cases (a : Actor) (supOk : Bool) (r : Res) (harmed : a.armed = true) (hcf : CallsFresh a) :
    (started (afterPre a supOk r).1.phase = true ∧ ∀ e ∈ evs (afterPre a supOk r).2, isFail e = false) ∨
    (Dead (afterPre a supOk r).1 ∧ ∃ x, x ≠ .ok ∧ x ≠ .registered ∧ evs (afterPre a supOk r).2 = [.spawnRet x]) := by
  unfold afterPre
  split
  · exact Or.inr ⟨(failSpawn_dead a _ harmed hcf).1, _, by simp, by simp, (failSpawn_dead a _ harmed hcf).2⟩
  · exact Or.inr ⟨(failSpawn_dead a _ harmed hcf).1, _, by simp, by simp, (failSpawn_dead a _ harmed hcf).2⟩
  · split
    · split
      · exact Or.inr ⟨(failSpawn_dead a _ harmed hcf).1, _, by simp, by simp, (failSpawn_dead a _ harmed hcf).2⟩
      · exact Or.inl ⟨by simp [started], by simp [isFail]⟩
    · exact Or.inl ⟨by simp [started], by simp [isFail]⟩


/-! ### the three regimes -/

theorem Dead.congr {a a' : Actor} (hd : Dead a) (h0 : a'.phase = a.phase) (h1 : a'.status = a.status)
    (h2 : a'.sup = none) (h3 : a'.nameHeld = a.nameHeld) (h4 : a'.groups = a.groups)
    (h5 : ∀ p ∈ a'.calls, p ∈ a.calls) : Dead a' :=
  ⟨by rw [h0]; exact hd.phase, by rw [h1]; exact hd.status, h2, by rw [h3]; exact hd.name,
   by rw [h4]; exact hd.groups, fun p hp => hd.calls p (h5 p hp)⟩

/-- A dead actor stays dead and silent. -/
theorem dead_core (a : Actor) (op : AOp) (hd : Dead a) (s : St) (hf : s.failed = true) :
    ∃ s', accepts next s (evs (a.stepCore op).2) = .ok s' ∧ s'.failed = true ∧ Dead (a.stepCore op).1 := by
  have hph := hd.phase
  have hnf : a.phase ≠ .fresh := by rw [hph]; simp
  cases op with
  | spawn sup name nf loc sok => exact ⟨s, by simp [Actor.stepCore, opSpawn, hph], hf, by simpa [Actor.stepCore, opSpawn, hph] using hd⟩
  | spawnInstant sup name nf loc => exact ⟨s, by simp [Actor.stepCore, opSpawnInstant, hph], hf, by simpa [Actor.stepCore, opSpawnInstant, hph] using hd⟩
  | link p ok =>
    have hr : opLink a p ok = (a, []) := by simp [opLink, hd.status, Status.rank]
    exact ⟨s, by simp [Actor.stepCore, hnf, Actor.envOp, hr], hf, by simpa [Actor.stepCore, hnf, Actor.envOp, hr] using hd⟩
  | unlink p =>
    have hr : opUnlink a p = (a, []) := by simp [opUnlink, hd.sup]
    exact ⟨s, by simp [Actor.stepCore, hnf, Actor.envOp, hr], hf, by simpa [Actor.stepCore, hnf, Actor.envOp, hr] using hd⟩
  | pollSpawn sok => exact ⟨s, by simp [Actor.stepCore, opPollSpawn, hph], hf, by simpa [Actor.stepCore, opPollSpawn, hph] using hd⟩
  | dropSpawn => exact ⟨s, by simp [Actor.stepCore, opDropSpawn, hph], hf, by simpa [Actor.stepCore, opDropSpawn, hph] using hd⟩
  | poll => exact ⟨s, by simp [Actor.stepCore, opPoll, pollMark, Phase.isTask, hph], hf, by simpa [Actor.stepCore, opPoll, pollMark, Phase.isTask, hph] using hd⟩
  | abort => exact ⟨s, by simp [Actor.stepCore, opAbort, hph, Phase.isTask], hf, by simpa [Actor.stepCore, opAbort, hph, Phase.isTask] using hd⟩
  | resume sg => exact ⟨s, by simp [Actor.stepCore, opResume, hph, Phase.openCb], hf, by simpa [Actor.stepCore, opResume, hph, Phase.openCb] using hd⟩
  | send m =>
    have hr : apiSend a m = (a, false) := by simp [apiSend, hd.status, Status.rank]
    exact ⟨s, by simp [Actor.stepCore, hnf, Actor.envOp, hr, accepts_cons, next], hf, by simpa [Actor.stepCore, hnf, Actor.envOp, hr] using hd⟩
  | stop r =>
    refine ⟨s, by simp [Actor.stepCore, hnf, Actor.envOp, accepts_cons, next], hf, ?_⟩
    simp only [Actor.stepCore, hnf, ↓reduceIte, Actor.envOp, apiStop, Actor.portsOpen, hph]
    (repeat' split) <;> first | exact hd | exact ⟨by simp [hph], by simp [hd.status], by simp [hd.sup], by simp [hd.name], by simp [hd.groups], by simpa using hd.calls⟩
  | kill =>
    refine ⟨s, ?_, hf, ?_⟩
    · simp only [Actor.stepCore, hnf, ↓reduceIte, Actor.envOp, evs_cons_ev, evs_nil]
      rw [accepts_cons]
      cases (apiKill a).2 <;> rfl
    · simp only [Actor.stepCore, hnf, ↓reduceIte, Actor.envOp, apiKill, Actor.portsOpen, hph]
      (repeat' split) <;> first | exact hd | exact ⟨by simp [hph], by simp [hd.status], by simp [hd.sup], by simp [hd.name], by simp [hd.groups], by simpa using hd.calls⟩
  | drain =>
    refine ⟨s, by simp [Actor.stepCore, hnf, Actor.envOp, accepts_cons, next], hf, ?_⟩
    simp only [Actor.stepCore, hnf, ↓reduceIte, Actor.envOp, apiDrain, Actor.portsOpen, hph, hd.status, Status.rank]
    (repeat' split) <;> first
      | exact hd
      | (exfalso; omega)
      | exact ⟨by simp [hph], by simp [hd.status], by simp [hd.sup], by simp [hd.name], by simp [hd.groups], by simpa using hd.calls⟩
  | supArrive e =>
    have hpo : a.portsOpen = false := by simp [Actor.portsOpen, hph]
    exact ⟨s, by simp [Actor.stepCore, hnf, Actor.envOp, opSupArrive, hpo, accepts_cons, next], hf,
      by simpa [Actor.stepCore, hnf, Actor.envOp, opSupArrive, hpo] using hd⟩
  | treeTaken =>
    refine ⟨s, by simp [Actor.stepCore, hnf, Actor.envOp, opTreeTaken, hd.status, Status.rank], hf, ?_⟩
    simp only [Actor.stepCore, hnf, ↓reduceIte, Actor.envOp, opTreeTaken, hd.status, Status.rank]
    simp only [show ¬ (6 < 5) by omega, ↓reduceIte]
    exact ⟨by simp [hph], by simp [hd.status], by simp, by simp [hd.name], by simp [hd.groups], by simpa using hd.calls⟩
  | kidAdd c => exact ⟨s, by simp [Actor.stepCore, hnf, Actor.envOp], hf, by
      simp only [Actor.stepCore, hnf, ↓reduceIte, Actor.envOp]; exact ⟨by simp [hph], by simp [hd.status], by simp [hd.sup], by simp [hd.name], by simp [hd.groups], by simpa using hd.calls⟩⟩
  | monAdd m => exact ⟨s, by simp [Actor.stepCore, hnf, Actor.envOp], hf, by
      simp only [Actor.stepCore, hnf, ↓reduceIte, Actor.envOp]; exact ⟨by simp [hph], by simp [hd.status], by simp [hd.sup], by simp [hd.name], by simp [hd.groups], by simpa using hd.calls⟩⟩
  | monDel m => exact ⟨s, by simp [Actor.stepCore, hnf, Actor.envOp], hf, by
      simp only [Actor.stepCore, hnf, ↓reduceIte, Actor.envOp]; exact ⟨by simp [hph], by simp [hd.status], by simp [hd.sup], by simp [hd.name], by simp [hd.groups], by simpa using hd.calls⟩⟩
  | monDrop m => exact ⟨s, by simp [Actor.stepCore, hnf, Actor.envOp], hf, by
      simp only [Actor.stepCore, hnf, ↓reduceIte, Actor.envOp]; exact ⟨by simp [hph], by simp [hd.status], by simp [hd.sup], by simp [hd.name], by simp [hd.groups], by simpa using hd.calls⟩⟩
  | kidDel c => exact ⟨s, by simp [Actor.stepCore, hnf, Actor.envOp], hf, by
      simp only [Actor.stepCore, hnf, ↓reduceIte, Actor.envOp]; exact ⟨by simp [hph], by simp [hd.status], by simp [hd.sup], by simp [hd.name], by simp [hd.groups], by simpa using hd.calls⟩⟩
  | call k =>
    have hr : apiCall a k = (a, false) := by simp [apiCall, hd.status, Status.rank]
    exact ⟨s, by simp [Actor.stepCore, hnf, Actor.envOp, hr, accepts_cons, next], hf, by simpa [Actor.stepCore, hnf, Actor.envOp, hr] using hd⟩
  | pollCall k =>
    simp only [Actor.stepCore, hnf, ↓reduceIte, Actor.envOp]
    split
    · rename_i v h
      obtain ⟨p, hp, hh⟩ := fateOf_mem h
      have := hd.calls p hp; rw [this] at hh; cases hh
    · exact ⟨s, by simp [accepts_cons, next], hf, hd.congr rfl rfl hd.sup rfl rfl (fun p hp => (List.mem_filter.mp hp).1)⟩
    · rename_i f hne1 hne2 h
      obtain ⟨p, hp, hh⟩ := fateOf_mem h
      have := hd.calls p hp; rw [this] at hh
      exact absurd hh.symm hne2
    · exact ⟨s, by simp, hf, hd⟩
  | pollWait w =>
    exact ⟨s, by simp [Actor.stepCore, hnf, Actor.envOp, hd.status, accepts_cons, next], hf,
      by simpa [Actor.stepCore, hnf, Actor.envOp] using hd⟩


/-- Not failed, loop task spawned (or done): every op keeps it that way. -/
theorem started_core (a : Actor) (op : AOp) (hst : started a.phase = true) :
    Ok (a.stepCore op) := by
  have hnf : a.phase ≠ .fresh := by intro h; simp [h, started] at hst
  have hnp : a.phase ≠ .pre := by intro h; simp [h, started] at hst
  have hnc : a.phase ≠ .cell := by intro h; simp [h, started] at hst
  cases op with
  | spawnInstant sup name nf loc =>
    simp only [Actor.stepCore, opSpawnInstant]
    first
      | exact ⟨by simp, hst⟩
      | (split
         · rename_i h; exact absurd h hnf
         · exact ⟨by simp, hst⟩)
  | spawn sup name nf loc sok =>
    simp only [Actor.stepCore, opSpawn]
    first
      | exact ⟨by simp, hst⟩
      | (split
         · rename_i h; exact absurd h hnf
         · exact ⟨by simp, hst⟩)
  | pollSpawn sok =>
    simp only [Actor.stepCore, opPollSpawn]
    first
      | exact ⟨by simp, hst⟩
      | (split
         · rename_i h; exact absurd h hnc
         · rename_i h; exact absurd h hnp
         · exact ⟨by simp, hst⟩)
  | dropSpawn =>
    simp only [Actor.stepCore, opDropSpawn]
    first
      | exact ⟨by simp, hst⟩
      | (split
         · rename_i h; exact absurd h hnc
         · rename_i h; exact absurd h hnp
         · exact ⟨by simp, hst⟩)
  | poll =>
    simp only [Actor.stepCore, pollMark]
    split
    · obtain ⟨h1, h2⟩ := opPoll_ok a hst
      refine ⟨?_, h2⟩
      intro e he
      simp only [evs_append, List.mem_append, evs_cons_ev, evs_nil, List.mem_singleton] at he
      rcases he with he | he
      · exact h1 e he
      · subst he; rfl
    · exact opPoll_ok a hst
  | abort => exact opAbort_ok a hst
  | resume sg => exact opResume_ok a sg hst
  | _ =>
    simp only [Actor.stepCore, hnf, ↓reduceIte]
    obtain ⟨h1, h2, _, _⟩ := envOp_frame a _
    exact ⟨h1, by rw [h2]; exact hst⟩

/-- The ops of the residue analysis: every op but `spawn_instant*` (clause (iv) of C04 is about the
awaited `spawn` forms; an instant spawn is visible to the outside before its start can fail). -/
def AOp.notInstant : AOp → Bool
  | .spawnInstant _ _ _ _ => false
  | _ => true

theorem stepCore_inv (a : Actor) (s : St) (op : AOp) (hop : AOp.notInstant op = true) (h : Inv a s) :
    ∃ s', accepts next s (evs (a.stepCore op).2) = .ok s' ∧ Inv (a.stepCore op).1 s' := by
  rcases h with ⟨hf, hd⟩ | ⟨hf, hfr | hpre | hst⟩
  · -- dead
    obtain ⟨s', h1, h2, h3⟩ := dead_core a op hd s hf
    exact ⟨s', h1, Or.inl ⟨h2, h3⟩⟩
  · -- fresh
    obtain ⟨hph, hent, hcalls⟩ := hfr
    have hfresh : Inv a s := Or.inr ⟨hf, Or.inl ⟨hph, hent, hcalls⟩⟩
    have hsame : ({ s with failed := s.entered } : St) = s := by
      cases s; simp_all
    cases op with
    | spawn sup name nf loc sok =>
      simp only [Actor.stepCore, opSpawn, hph]
      have hpre : ∀ (a' : Actor) (s' : St), a'.phase = .pre → a'.armed = true → a'.calls = a.calls →
          s'.failed = false → s'.entered = true → Inv a' s' := by
        intro a' s' h0 h1 h2 h3 h4
        exact Or.inr ⟨h3, Or.inr (Or.inl ⟨h0, h4, h1, by unfold CallsFresh; rw [h2, hcalls]; simp⟩)⟩
      split
      · exact ⟨s, by simp [accepts_cons, next, hf], hfresh⟩
      · split
        · split
          · split
            · refine ⟨s, ?_, hfresh⟩
              simp only [evs_cons_ev, evs_nil]
              rw [accepts_cons_ok next _ (next_spawnRet_fail s .nolink (by simp) (by simp)), hsame]
              rfl
            · exact ⟨{ s with entered := true }, by simp [accepts_cons, next, hf, hent], hpre _ _ rfl rfl rfl hf rfl⟩
          · exact ⟨{ s with entered := true }, by simp [accepts_cons, next, hf, hent], hpre _ _ rfl rfl rfl hf rfl⟩
        · exact ⟨{ s with entered := true }, by simp [accepts_cons, next, hf, hent], hpre _ _ rfl rfl rfl hf rfl⟩
    | spawnInstant sup name nf loc => simp [AOp.notInstant] at hop
    | pollSpawn sok => exact ⟨s, by simp [Actor.stepCore, opPollSpawn, hph], by simpa [Actor.stepCore, opPollSpawn, hph] using hfresh⟩
    | dropSpawn => exact ⟨s, by simp [Actor.stepCore, opDropSpawn, hph], by simpa [Actor.stepCore, opDropSpawn, hph] using hfresh⟩
    | poll => exact ⟨s, by simp [Actor.stepCore, opPoll, pollMark, Phase.isTask, hph], by simpa [Actor.stepCore, opPoll, pollMark, Phase.isTask, hph] using hfresh⟩
    | abort => exact ⟨s, by simp [Actor.stepCore, opAbort, hph, Phase.isTask], by simpa [Actor.stepCore, opAbort, hph, Phase.isTask] using hfresh⟩
    | resume sg => exact ⟨s, by simp [Actor.stepCore, opResume, hph, Phase.openCb], by simpa [Actor.stepCore, opResume, hph, Phase.openCb] using hfresh⟩
    | _ => exact ⟨s, by simp [Actor.stepCore, hph], by simpa [Actor.stepCore, hph] using hfresh⟩
  · -- pre
    obtain ⟨hph, hent, harmed, hcf⟩ := hpre
    have hnf : a.phase ≠ .fresh := by rw [hph]; simp
    have hkeep : Inv a s := Or.inr ⟨hf, Or.inr (Or.inl ⟨hph, hent, harmed, hcf⟩)⟩
    cases op with
    | spawn sup name nf loc sok => exact ⟨s, by simp [Actor.stepCore, opSpawn, hph], by simpa [Actor.stepCore, opSpawn, hph] using hkeep⟩
    | spawnInstant sup name nf loc => simp [AOp.notInstant] at hop
    | poll => exact ⟨s, by simp [Actor.stepCore, opPoll, pollMark, Phase.isTask, hph], by simpa [Actor.stepCore, opPoll, pollMark, Phase.isTask, hph] using hkeep⟩
    | abort => exact ⟨s, by simp [Actor.stepCore, opAbort, hph, Phase.isTask], by simpa [Actor.stepCore, opAbort, hph, Phase.isTask] using hkeep⟩
    | resume sg =>
      have hcb : a.phase.openCb = some .preStart := by simp [hph, Phase.openCb]
      simp only [Actor.stepCore, opResume, hcb]
      split
      · exact ⟨s, rfl, hkeep⟩
      · exact ⟨s, rfl, Or.inr ⟨hf, Or.inr (Or.inl ⟨hph, hent, harmed, hcf⟩)⟩⟩
    | dropSpawn =>
      simp only [Actor.stepCore]
      unfold opDropSpawn
      split
      case h_1 hc => rw [hph] at hc; cases hc
      case h_3 _ hne => exact absurd hph (hne)
      obtain ⟨h1, h2, h3, h4, h5, _⟩ := cleanup_fields a none harmed
      refine ⟨{ s with failed := true }, ?_, Or.inl ⟨rfl, ?_⟩⟩
      · simp only [andThen_snd, andThen_fst, evs_append, evs_cons_ev, evs_nil, cleanup_none_evs, List.append_nil, evs_ite_note]
        rw [accepts_cons_ok next _ (show next s .dropped = .ok { s with failed := true } from rfl)]
        rw [accepts_cons_ok next _ (show next { s with failed := true } (.cancelled .preStart) = .ok { s with failed := true } from rfl)]
        rfl
      · simp only [andThen_fst]
        exact dropPorts_dead _ h1 h2 h3 h4 (by unfold CallsFresh; rw [h5]; exact hcf)
    | pollSpawn sok =>
      simp only [Actor.stepCore]
      unfold opPollSpawn
      split
      case h_1 hc => rw [hph] at hc; cases hc
      case h_3 _ hne => exact absurd hph (hne)
      split
      · -- killed during start-up
        have hd := failSpawn_dead ({ a with sigVal := false, kids := none } : Actor) .killed harmed hcf
        refine ⟨{ s with failed := true }, ?_, Or.inl ⟨rfl, ?_⟩⟩
        · simp only [andThen_snd, andThen_fst, say, handleSignal, evs_append, evs_cons_ev, evs_cons_eff, evs_nil,
            List.nil_append, List.append_nil]
          rw [hd.2]
          rw [List.singleton_append]
          rw [accepts_cons_ok next _ (show next s (.cancelled .preStart) = .ok s from rfl)]
          rw [accepts_cons_ok next _ (next_spawnRet_fail s .killed (by simp) (by simp)), hent]
          rfl
        · simpa [andThen_fst, say, handleSignal] using hd.1
      · split
        · exact ⟨s, rfl, hkeep⟩
        · rename_i sg hsg
          -- the segment: tick, side effects, then tick / return
          unfold runSeg
          simp only [say, andThen_snd, andThen_fst, evs_append, evs_cons_ev, evs_nil, List.cons_append, List.nil_append]
          obtain ⟨hfx, hpfx⟩ := runFxs_noFail sg.fx ({ a with seg := none } : Actor)
          obtain ⟨harm2, hcf2⟩ := runFxs_pre sg.fx ({ a with seg := none } : Actor) hcf
          rw [accepts_cons_ok next _ (show next s (.tick .preStart) = .ok s by simp [next, hf])]
          obtain ⟨s1, hacc1, hf1, he1⟩ := accepts_nf _ s hf hfx
          have hent1 : s1.entered = true := he1 hent
          have hph2 : (runFxs ({ a with seg := none } : Actor) sg.fx).1.phase = .pre := by rw [hpfx]; exact hph
          have harm2' : (runFxs ({ a with seg := none } : Actor) sg.fx).1.armed = true := by rw [harm2]; exact harmed
          cases ht : sg.term with
          | tick =>
            refine ⟨s1, by simpa using hacc1, Or.inr ⟨hf1, Or.inr (Or.inl ⟨?_, hent1, ?_, ?_⟩)⟩⟩
            · simpa using hph2
            · simpa using harm2'
            · simpa [CallsFresh] using hcf2
          | ok =>
            simp only [Term.res, say, andThen_snd, andThen_fst, evs_append, evs_cons_ev, evs_nil, List.cons_append, List.nil_append]
            rw [accepts_append next _ hacc1]
            rw [accepts_cons_ok next _ (show next s1 (.exit .preStart .ok) = .ok s1 by simp [next, hf1])]
            rcases afterPre_cases _ sok .ok harm2' hcf2 with ⟨hs, hno⟩ | ⟨hdd, x, hx1, hx2, hev⟩
            · obtain ⟨s2, hacc2, hf2, _⟩ := accepts_nf _ s1 hf1 hno
              exact ⟨s2, hacc2, Or.inr ⟨hf2, Or.inr (Or.inr hs)⟩⟩
            · refine ⟨{ s1 with failed := true }, ?_, Or.inl ⟨rfl, hdd⟩⟩
              rw [hev, accepts_cons_ok next _ (next_spawnRet_fail s1 x hx1 hx2), hent1]
              rfl
          | err n =>
            simp only [Term.res, say, andThen_snd, andThen_fst, evs_append, evs_cons_ev, evs_nil, List.cons_append, List.nil_append]
            rw [accepts_append next _ hacc1]
            rw [accepts_cons_ok next _ (show next s1 (.exit .preStart (.err n)) = .ok s1 by simp [next, hf1])]
            rcases afterPre_cases _ sok (.err n) harm2' hcf2 with ⟨hs, hno⟩ | ⟨hdd, x, hx1, hx2, hev⟩
            · obtain ⟨s2, hacc2, hf2, _⟩ := accepts_nf _ s1 hf1 hno
              exact ⟨s2, hacc2, Or.inr ⟨hf2, Or.inr (Or.inr hs)⟩⟩
            · refine ⟨{ s1 with failed := true }, ?_, Or.inl ⟨rfl, hdd⟩⟩
              rw [hev, accepts_cons_ok next _ (next_spawnRet_fail s1 x hx1 hx2), hent1]
              rfl
          | panic n =>
            simp only [Term.res, say, andThen_snd, andThen_fst, evs_append, evs_cons_ev, evs_nil, List.cons_append, List.nil_append]
            rw [accepts_append next _ hacc1]
            rw [accepts_cons_ok next _ (show next s1 (.exit .preStart (.panic n)) = .ok s1 by simp [next, hf1])]
            rcases afterPre_cases _ sok (.panic n) harm2' hcf2 with ⟨hs, hno⟩ | ⟨hdd, x, hx1, hx2, hev⟩
            · obtain ⟨s2, hacc2, hf2, _⟩ := accepts_nf _ s1 hf1 hno
              exact ⟨s2, hacc2, Or.inr ⟨hf2, Or.inr (Or.inr hs)⟩⟩
            · refine ⟨{ s1 with failed := true }, ?_, Or.inl ⟨rfl, hdd⟩⟩
              rw [hev, accepts_cons_ok next _ (next_spawnRet_fail s1 x hx1 hx2), hent1]
              rfl
    | _ =>
      simp only [Actor.stepCore, hnf, ↓reduceIte]
      obtain ⟨h1, h2, h3, h4⟩ := envOp_frame a _
      obtain ⟨s1, hacc1, hf1, he1⟩ := accepts_nf _ s hf h1
      exact ⟨s1, hacc1, Or.inr ⟨hf1, Or.inr (Or.inl ⟨by rw [h2]; exact hph, he1 hent, by rw [h3]; exact harmed, h4 hcf⟩)⟩⟩
  · -- started
    obtain ⟨hno, hst'⟩ := started_core a op hst
    obtain ⟨s1, hacc1, hf1, _⟩ := accepts_nf _ s hf hno
    exact ⟨s1, hacc1, Or.inr ⟨hf1, Or.inr (Or.inr hst')⟩⟩

theorem step_inv (a : Actor) (s : St) (op : AOp) (hop : AOp.notInstant op = true) (h : Inv a s) :
    ∃ s', accepts next s (evs (a.step op).2) = .ok s' ∧ Inv (a.step op).1 s' := by
  obtain ⟨s1, hacc, hinv⟩ := stepCore_inv a s op hop h
  refine ⟨s1, ?_, hinv⟩
  rw [step_eq]
  simp only [evs_append]
  rw [accepts_append next _ (by rw [accepts_append next _ hacc]; exact accepts_supTail next (fun _ _ => rfl) s1 a _)]
  unfold snapTail
  split
  · rfl
  · simp only [evs_cons_ev, evs_nil]
    rcases hinv with ⟨hf, hd⟩ | ⟨hf, _⟩
    · rw [accepts_cons_ok next _ (show next s1 (.snap _) = .ok s1 by simp [next, hf, snap_clean hd])]
      rfl
    · rw [accepts_cons_ok next _ (show next s1 (.snap _) = .ok s1 by simp [next, hf])]
      rfl

theorem run_inv (ops : List AOp) (hops : ∀ op ∈ ops, AOp.notInstant op = true) (a : Actor) (s : St) (h : Inv a s) :
    ∃ s', accepts next s (a.run ops).2 = .ok s' ∧ Inv (a.run ops).1 s' := by
  induction ops generalizing a s with
  | nil => exact ⟨s, rfl, h⟩
  | cons op ops ih =>
    obtain ⟨s1, hacc, hinv⟩ := step_inv a s op (hops op (by simp)) h
    obtain ⟨s2, hacc2, hinv2⟩ := ih (fun o ho => hops o (by simp [ho])) _ s1 hinv
    refine ⟨s2, ?_, hinv2⟩
    simp only [Actor.run]
    rw [accepts_append next _ hacc]
    exact hacc2

theorem inv_init (id : Nat) : Inv (Actor.init id) {} :=
  Or.inr ⟨rfl, Or.inl ⟨rfl, rfl, rfl⟩⟩

/-- **Residue, all schedules** (not a claimed property; C08 is decided by a separate check): for
every op sequence the actor's trace is accepted by the residue automaton — after a failed or
dropped spawn nothing of the actor is left and nothing of it ever happens. -/
theorem residue_ok (id : Nat) (ops : List AOp) (hops : ∀ op ∈ ops, AOp.notInstant op = true) :
    ok (trace id ops) = true := by
  obtain ⟨s', h, _⟩ := run_inv ops hops (Actor.init id) {} (inv_init id)
  simp [ok, trace, h, Except.isOk, Except.toBool]

end Life.Residue
