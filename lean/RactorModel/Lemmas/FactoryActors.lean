import RactorModel.Lemmas.FactorySlotInst
import RactorModel.Lemmas.FactoryStop
import RactorModel.Lemmas.FactoryFate

/-!
# The worker actors and the factory's bookkeeping agree (under `noStaleRun`)

`Core fk w` couples every pool slot with its worker actor: the keys the slot books as in flight
(`curr_jobs`) are exactly the keys of the jobs the actor holds (handler + mailbox) followed by the
keys of the `Finished` reports of that slot that still wait in the factory's mailbox (`fk wid`).
Together with `curr_jobs.len() ≤ 1` (`SlotOk`) this gives: a live worker actor never holds more than
one job, a job held by an actor is booked on its slot, every live actor that is no slot's actor is
idle and has been told to stop, and every slot has an actor that is alive or whose death the factory
has still to process.

The invariant is FALSE of the code in general (finding F4): it needs that no worker incarnation
dies while one of its `Finished` reports is still unprocessed — `noStaleRun`, the exact model-level
form of the oracle's classifier `noStaleCompletion`.
-/

namespace Factory

/-! ## `Finished` reports waiting in the factory's mailbox -/

theorem finKeys_append (wid : Nat) (l1 l2 : List FMsg) : finKeys wid (l1 ++ l2) = finKeys wid l1 ++ finKeys wid l2 := by
  induction l1 with
  | nil => rfl
  | cons m r ih =>
    cases m <;> simp only [List.cons_append, finKeys, ih]
    split <;> simp

/-! ## Environment frames -/

/-- only the log may differ -/
structure EnvEq (e e' : Env) : Prop where
  actors : e'.actors = e.actors
  sup : e'.sup = e.sup

theorem EnvEq.refl (e : Env) : EnvEq e e := ⟨rfl, rfl⟩
theorem EnvEq.trans {a b c : Env} (h1 : EnvEq a b) (h2 : EnvEq b c) : EnvEq a c :=
  ⟨h2.actors.trans h1.actors, h2.sup.trans h1.sup⟩
theorem envEq_emit (e : Env) (ev : Ev) : EnvEq e (e.emit ev) := ⟨rfl, rfl⟩
theorem envEq_discard (e : Env) (h : Option Nat) (r : Reason) (j : Job) : EnvEq e (e.discard h r j) := ⟨rfl, rfl⟩
theorem envEq_reject (e : Env) (j : Job) : EnvEq e (e.reject j) := by
  unfold Env.reject; split
  · exact envEq_emit e _
  · exact EnvEq.refl e
theorem envEq_accept (e : Env) (j : Job) : EnvEq e (e.accept j) := by
  unfold Env.accept; split
  · exact envEq_emit e _
  · exact EnvEq.refl e

theorem EnvEq.getActor {e e' : Env} (h : EnvEq e e') (aid : Nat) : e'.getActor aid = e.getActor aid := by
  unfold Env.getActor; rw [h.actors]

theorem getNextNonExpired_sup {h : Option Nat} (mq : List Job) (pend : List Nat) (e : Env) :
    (getNextNonExpired h mq pend e).2.2.2.sup = e.sup := by
  induction mq generalizing pend e with
  | nil => rfl
  | cons j rest ih =>
    unfold getNextNonExpired
    split
    · rfl
    · rw [ih]; rfl

theorem envEq_getNext (p : WP) (e : Env) : EnvEq e (p.getNext e).2.2 :=
  ⟨getNext_actors p e, getNextNonExpired_sup p.mq p.pending e⟩

theorem getNext_wid' (p : WP) (e : Env) : (p.getNext e).2.1.wid = p.wid := rfl

/-- one actor (`aid`) may have changed, nobody appeared or vanished -/
structure EnvStep (aid : Nat) (e e' : Env) : Prop where
  sup : e'.sup = e.sup
  other : ∀ b, b ≠ aid → e'.getActor b = e.getActor b
  self : (e'.getActor aid).isSome = (e.getActor aid).isSome
  alive : ∀ a a', e.getActor aid = some a → e'.getActor aid = some a' → a'.alive = a.alive

theorem EnvStep.refl (aid : Nat) (e : Env) : EnvStep aid e e :=
  ⟨rfl, fun _ _ => rfl, rfl, fun a a' h h' => by rw [h] at h'; cases h'; rfl⟩
theorem EnvStep.trans {aid : Nat} {a b c : Env} (h1 : EnvStep aid a b) (h2 : EnvStep aid b c) : EnvStep aid a c := by
  refine ⟨h2.sup.trans h1.sup, fun x hx => (h2.other x hx).trans (h1.other x hx), h2.self.trans h1.self, ?_⟩
  intro x z hx hz
  cases hy : b.getActor aid with
  | none => have := h1.self; rw [hy, hx] at this; cases this
  | some y => exact (h2.alive y z hy hz).trans (h1.alive x y hx hy)
theorem EnvEq.step {e e' : Env} (h : EnvEq e e') (aid : Nat) : EnvStep aid e e' :=
  ⟨h.sup, fun b _ => h.getActor b, by rw [h.getActor], fun a a' h1 h2 => by rw [h.getActor, h1] at h2; cases h2; rfl⟩

theorem find_setFirstActor_self (l : List Actor) (a a' : Actor) (h : l.find? (·.aid == a'.aid) = some a) :
    (setFirstActor a' l).find? (·.aid == a'.aid) = some a' := by
  induction l with
  | nil => simp at h
  | cons x xs ih =>
    unfold setFirstActor
    rw [List.find?_cons] at h
    cases hx : x.aid == a'.aid
    · rw [hx] at h
      simp only [Bool.false_eq_true, if_false, List.find?_cons, hx]
      exact ih h
    · simp only [if_true, List.find?_cons, beq_self_eq_true]

theorem getActor_setActor_self (e : Env) (a a' : Actor) (h : e.getActor a'.aid = some a) :
    (e.setActor a').getActor a'.aid = some a' :=
  find_setFirstActor_self e.actors a a' h

theorem envStep_setActor (e : Env) (a a' : Actor) (h : e.getActor a'.aid = some a) (hal : a'.alive = a.alive) :
    EnvStep a'.aid e (e.setActor a') := by
  refine
  ⟨rfl, fun b hb => getActor_setActor_other e a' b hb, by rw [getActor_setActor_self e a a' h, h]; rfl, ?_⟩
  intro x y hx hy
  rw [h] at hx; cases hx
  rw [getActor_setActor_self e a a' h] at hy; cases hy
  exact hal

/-! ## Coupling of one slot with its actor -/

def Cpl (p : WP) (e : Env) (fk : List Nat) : Prop :=
  ∃ a, e.getActor p.actor = some a ∧ a.wid = p.wid ∧
    (a.alive = true → a.stopReq = false ∧ p.curr.map (·.1) = a.heldJobs.map (·.key) ++ fk) ∧
    (a.alive = false → p.actor ∈ e.sup ∧ fk = [])

theorem Cpl.keep' {p p' : WP} {e e' : Env} {fk : List Nat} (h : Cpl p e fk) (h1 : p'.actor = p.actor)
    (h2 : p'.wid = p.wid) (h3 : p'.curr = p.curr) (h4 : e'.getActor p.actor = e.getActor p.actor)
    (h5 : ∀ x, x ∈ e.sup → x ∈ e'.sup) : Cpl p' e' fk := by
  obtain ⟨a, g, hw, ha, hd⟩ := h
  exact ⟨a, by rw [h1, h4]; exact g, by rw [h2]; exact hw, by rw [h3]; exact ha,
    fun hx => ⟨by rw [h1]; exact h5 _ (hd hx).1, (hd hx).2⟩⟩

theorem Cpl.keep {p p' : WP} {e e' : Env} {fk : List Nat} (h : Cpl p e fk) (h1 : p'.actor = p.actor)
    (h2 : p'.wid = p.wid) (h3 : p'.curr = p.curr) (h4 : e'.getActor p.actor = e.getActor p.actor) (h5 : e'.sup = e.sup) :
    Cpl p' e' fk := by
  obtain ⟨a, g, hw, ha, hd⟩ := h
  exact ⟨a, by rw [h1, h4]; exact g, by rw [h2]; exact hw, by rw [h3]; exact ha, by rw [h1, h5]; exact hd⟩

/-- (progress, safety form) a slot with queued jobs has a job booked in flight — or its worker is dead (the
hand-over failed; the replacement will take the queue head) -/
def Prog (p : WP) (e : Env) : Prop :=
  p.mq ≠ [] → p.curr ≠ [] ∨ ∃ a, e.getActor p.actor = some a ∧ a.alive = false

theorem Prog.of_curr {p : WP} {e : Env} (h : p.curr ≠ []) : Prog p e := fun _ => Or.inl h
theorem Prog.of_mq {p : WP} {e : Env} (h : p.mq = []) : Prog p e := fun hm => absurd h hm

theorem Prog.keep {p p' : WP} {e e' : Env} (h : Prog p e) (h1 : p'.actor = p.actor) (h3 : p'.curr = p.curr)
    (hmq : p'.mq ≠ [] → p.mq ≠ [])
    (h4 : ∀ a, e.getActor p.actor = some a → a.alive = false → ∃ a', e'.getActor p.actor = some a' ∧ a'.alive = false) :
    Prog p' e' := by
  intro hm
  rcases h (hmq hm) with hc | ⟨a, g, hd⟩
  · exact Or.inl (by rw [h3]; exact hc)
  · right; rw [h1]; exact h4 a g hd

/-- a dead actor stays dead -/
theorem EnvStep.dead {aid : Nat} {e e' : Env} (s : EnvStep aid e e') (b : Nat) (a : Actor) (g : e.getActor b = some a)
    (hd : a.alive = false) : ∃ a', e'.getActor b = some a' ∧ a'.alive = false := by
  by_cases hb : b = aid
  · subst hb
    have := s.self
    rw [g] at this
    cases hx : e'.getActor b with
    | none => rw [hx] at this; cases this
    | some x => exact ⟨x, rfl, (s.alive a x g hx).trans hd⟩
  · exact ⟨a, by rw [s.other b hb]; exact g, hd⟩

/-- result of a `WorkerProperties` function on slot `p` -/
structure SRes (p : WP) (e : Env) (p' : WP) (e' : Env) (fk : List Nat) : Prop where
  actor : p'.actor = p.actor
  wid : p'.wid = p.wid
  cpl : Cpl p' e' fk
  env : EnvStep p.actor e e'
  prog : Prog p e → Prog p' e'

theorem sres_keep {p p' : WP} {e e' : Env} {fk : List Nat} (h : Cpl p e fk) (h1 : p'.actor = p.actor)
    (h2 : p'.wid = p.wid) (h3 : p'.curr = p.curr) (h4 : EnvEq e e') (hmq : p'.mq ≠ [] → p.mq ≠ []) : SRes p e p' e' fk :=
  ⟨h1, h2, h.keep h1 h2 h3 (h4.getActor _) h4.sup, h4.step _,
    fun hp => hp.keep h1 h3 hmq (fun a g d => ⟨a, by rw [h4.getActor]; exact g, d⟩)⟩

/-- the slot keeps a job booked in flight: nothing to show for progress -/
theorem sres_busy {p p' : WP} {e e' : Env} {fk : List Nat} (h : Cpl p e fk) (h1 : p'.actor = p.actor)
    (h2 : p'.wid = p.wid) (h3 : p'.curr = p.curr) (h4 : EnvEq e e') (hb : p.curr ≠ []) : SRes p e p' e' fk :=
  ⟨h1, h2, h.keep h1 h2 h3 (h4.getActor _) h4.sup, h4.step _, fun _ => Prog.of_curr (by rw [h3]; exact hb)⟩

theorem SRes.trans {p p1 p2 : WP} {e e1 e2 : Env} {fk fk' : List Nat} (h1 : SRes p e p1 e1 fk) (h2 : SRes p1 e1 p2 e2 fk') :
    SRes p e p2 e2 fk' :=
  ⟨h2.actor.trans h1.actor, h2.wid.trans h1.wid, h2.cpl, h1.env.trans (by rw [← h1.actor]; exact h2.env),
    fun hp => h2.prog (h1.prog hp)⟩

theorem getNext_mq_ne (p : WP) (e : Env) (h : (p.getNext e).2.1.mq ≠ []) : p.mq ≠ [] := by
  intro hc
  have := getNext_length p e
  rw [hc] at this
  simp only [List.length_nil, Nat.le_zero_eq, Nat.add_eq_zero_iff] at this
  exact h (List.eq_nil_of_length_eq_zero this.1)

theorem heldJobs_append_mailbox (a : Actor) (j : Job) :
    ({ a with mailbox := a.mailbox ++ [j] } : Actor).heldJobs = a.heldJobs ++ [j] := by
  unfold Actor.heldJobs; simp only [List.append_assoc]

/-- `dispatch_job` on a slot with nothing booked in flight -/
theorem sres_dispatchJob (p : WP) (e : Env) (j : Job) (fk : List Nat) (hc : p.curr = []) (h : Cpl p e fk) :
    SRes p e (p.dispatchJob e j).1 (p.dispatchJob e j).2 fk := by
  obtain ⟨a, g, hw, ha, hd⟩ := h
  have haid := getActor_aid g
  unfold WP.dispatchJob Env.cast
  simp only [g]
  by_cases hal : a.alive = true
  · have hn : ¬ ((!a.alive) = true) := by rw [hal]; exact Bool.false_ne_true
    rw [if_neg hn]
    simp only
    obtain ⟨hs, heq⟩ := ha hal
    rw [hc] at heq
    simp only [List.map_nil] at heq
    have hh : a.heldJobs.map (·.key) = [] ∧ fk = [] := by
      cases hx : a.heldJobs.map (·.key) with
      | nil => rw [hx] at heq; exact ⟨rfl, by simpa using heq.symm⟩
      | cons x xs => rw [hx] at heq; simp at heq
    have hheld : a.heldJobs = [] := by simpa using hh.1
    generalize ha' : ({ a with mailbox := a.mailbox ++ [j] } : Actor) = a'
    have haid' : a'.aid = p.actor := by subst ha'; exact haid
    have g' : e.getActor a'.aid = some a := by rw [haid']; exact g
    refine ⟨rfl, rfl, ⟨a', ?_, ?_, ?_, ?_⟩, ?_, fun _ => Prog.of_curr (currInsert_ne_nil _ _ _)⟩
    · have := getActor_setActor_self e a a' g'
      rw [haid'] at this; exact this
    · subst ha'; exact hw
    · intro _
      refine ⟨by subst ha'; exact hs, ?_⟩
      have : a'.heldJobs = a.heldJobs ++ [j] := by subst ha'; exact heldJobs_append_mailbox a j
      rw [this, hheld, hh.2]
      simp only [hc, currInsert_nil]
      rfl
    · intro hdead; subst ha'; rw [hal] at hdead; cases hdead
    · have := envStep_setActor e a a' g' (by subst ha'; rfl)
      rw [haid'] at this; exact this
  · have hal' : a.alive = false := by simpa using hal
    have hn : (!a.alive) = true := by rw [hal']; rfl
    rw [if_pos hn]
    have hcp : Cpl p e fk := ⟨a, g, hw, ha, hd⟩
    exact ⟨rfl, rfl, hcp.keep rfl rfl rfl rfl rfl, EnvStep.refl _ _, fun _ _ => Or.inr ⟨a, g, hal'⟩⟩

/-- after `dispatch_job` the slot has a job booked in flight, or its worker is dead -/
theorem prog_dispatchJob (p : WP) (e : Env) (j : Job) (fk : List Nat) (h : Cpl p e fk) :
    Prog (p.dispatchJob e j).1 (p.dispatchJob e j).2 := by
  obtain ⟨a, g, _, _, _⟩ := h
  unfold WP.dispatchJob Env.cast
  simp only [g]
  by_cases hal : a.alive = true
  · have hn : ¬ ((!a.alive) = true) := by rw [hal]; exact Bool.false_ne_true
    rw [if_neg hn]
    exact Prog.of_curr (currInsert_ne_nil _ _ _)
  · have hal' : a.alive = false := by simpa using hal
    have hn : (!a.alive) = true := by rw [hal']; rfl
    rw [if_pos hn]
    exact fun _ => Or.inr ⟨a, g, hal'⟩

theorem shedOldest_envEq (limit fuel : Nat) (p : WP) (e : Env) : EnvEq e (shedOldest limit fuel p e).2 := by
  induction fuel generalizing p e with
  | zero => exact EnvEq.refl e
  | succ fuel ih =>
    unfold shedOldest
    split
    · have hn := envEq_getNext p e
      cases hg : p.getNext e with
      | mk r pe =>
        obtain ⟨p', e'⟩ := pe
        rw [hg] at hn
        simp only at hn
        cases r with
        | none => exact hn.trans (ih _ _)
        | some d => exact (hn.trans (envEq_discard e' _ _ d)).trans (ih _ _)
    · exact EnvEq.refl e

theorem shedOldest_actor (limit fuel : Nat) (p : WP) (e : Env) : (shedOldest limit fuel p e).1.actor = p.actor := by
  induction fuel generalizing p e with
  | zero => rfl
  | succ fuel ih =>
    unfold shedOldest
    split
    · cases hg : p.getNext e with
      | mk r pe =>
        obtain ⟨p', e'⟩ := pe
        have hp' : p'.actor = p.actor := by
          have := getNext_actor p e; rw [hg] at this; exact this
        cases r with
        | none => simp only; rw [ih]; exact hp'
        | some d => simp only; rw [ih]; exact hp'
    · rfl

/-- `enqueue_job` -/
theorem sres_enqueueJob (p : WP) (e : Env) (j : Job) (fk : List Nat) (h : Cpl p e fk) :
    SRes p e (p.enqueueJob e j).1 (p.enqueueJob e j).2 fk := by
  unfold WP.enqueueJob
  split
  · exact sres_keep h rfl rfl rfl ((envEq_discard e _ _ j).trans (envEq_reject _ j)) id
  · have h0 : SRes p e (p.track j.key) (e.accept j) fk := sres_keep h rfl rfl rfl (envEq_accept e j) id
    refine h0.trans ?_
    generalize p.track j.key = p1 at h0 ⊢
    generalize e.accept j = e1 at h0 ⊢
    generalize ({ j with port := false } : Job) = j1
    have hc1 := h0.cpl
    unfold WP.enqueueAccepted
    split
    · rename_i hemp
      have hcurr : p1.curr = [] := by simpa using hemp
      have hn := envEq_getNext p1 e1
      cases hg : p1.getNext e1 with
      | mk r pe =>
        obtain ⟨p2, e2⟩ := pe
        have ha2 : p2.actor = p1.actor := by have := getNext_actor p1 e1; rw [hg] at this; exact this
        have hw2 : p2.wid = p1.wid := by have := getNext_wid' p1 e1; rw [hg] at this; exact this
        have hc2 : p2.curr = p1.curr := by have := getNext_curr p1 e1; rw [hg] at this; exact this
        rw [hg] at hn
        simp only at hn
        have hmq2 : p2.mq ≠ [] → p1.mq ≠ [] := by
          have := getNext_mq_ne p1 e1; rw [hg] at this; exact this
        have s2 : SRes p1 e1 p2 e2 fk := sres_keep hc1 ha2 hw2 hc2 hn hmq2
        cases r with
        | none =>
          simp only
          exact s2.trans (sres_dispatchJob p2 e2 j1 fk (by rw [hc2]; exact hcurr) s2.cpl)
        | some older =>
          simp only
          have c3 : Cpl { p2 with mq := p2.mq ++ [j1] } e2 fk := s2.cpl.keep rfl rfl rfl rfl rfl
          have sd := sres_dispatchJob { p2 with mq := p2.mq ++ [j1] } e2 older fk (by simp only; rw [hc2]; exact hcurr) c3
          have pd := prog_dispatchJob { p2 with mq := p2.mq ++ [j1] } e2 older fk c3
          exact s2.trans ⟨sd.actor, sd.wid, sd.cpl, sd.env, fun _ => pd⟩
    · rename_i hne
      have hb : p1.curr ≠ [] := by
        intro hc; rw [hc] at hne; simp at hne
      simp only
      split
      · exact sres_busy hc1 (by rw [shedOldest_actor]) (by rw [shedOldest_wid]) (by rw [shedOldest_curr])
          (shedOldest_envEq _ _ _ _) hb
      · exact sres_busy hc1 rfl rfl rfl (EnvEq.refl _) hb

/-- the tail shared by `worker_complete` and `replace_worker`: hand the next queued job over -/
def WP.nextJob (p : WP) (e : Env) : WP × Env :=
  match p.getNext e with
  | (some j, p, e) => p.dispatchJob e j
  | (none, p, e) => (p, e)

/-- afterwards the slot's queue is empty, or a job is booked in flight, or the worker is dead -/
theorem prog_nextJob (p0 : WP) (e : Env) (fk : List Nat) (c0 : Cpl p0 e fk) : Prog (p0.nextJob e).1 (p0.nextJob e).2 := by
  unfold WP.nextJob
  have hn := envEq_getNext p0 e
  have hnil := getNextNonExpired_none_nil (hd := p0.handler) p0.mq p0.pending e
  cases hg : p0.getNext e with
  | mk r pe =>
    obtain ⟨p2, e2⟩ := pe
    have ha2 : p2.actor = p0.actor := by have := getNext_actor p0 e; rw [hg] at this; exact this
    have hw2 : p2.wid = p0.wid := by have := getNext_wid' p0 e; rw [hg] at this; exact this
    have hc2 : p2.curr = p0.curr := by have := getNext_curr p0 e; rw [hg] at this; exact this
    rw [hg] at hn
    simp only at hn
    have c2 : Cpl p2 e2 fk := c0.keep ha2 hw2 hc2 (hn.getActor _) hn.sup
    cases r with
    | none =>
      simp only
      apply Prog.of_mq
      have h1 : (p0.getNext e).1 = none := by rw [hg]
      have h2 : (p0.getNext e).2.1.mq = [] := hnil h1
      rw [hg] at h2; exact h2
    | some j => exact prog_dispatchJob p2 e2 j fk c2

theorem sres_nextJob (p0 : WP) (e : Env) (fk : List Nat) (hc0 : p0.curr = []) (c0 : Cpl p0 e fk) :
    SRes p0 e (p0.nextJob e).1 (p0.nextJob e).2 fk := by
  have hp := prog_nextJob p0 e fk c0
  unfold WP.nextJob at hp ⊢
  have hn := envEq_getNext p0 e
  cases hg : p0.getNext e with
  | mk r pe =>
    obtain ⟨p2, e2⟩ := pe
    have ha2 : p2.actor = p0.actor := by have := getNext_actor p0 e; rw [hg] at this; exact this
    have hw2 : p2.wid = p0.wid := by have := getNext_wid' p0 e; rw [hg] at this; exact this
    have hc2 : p2.curr = p0.curr := by have := getNext_curr p0 e; rw [hg] at this; exact this
    have hmq2 : p2.mq ≠ [] → p0.mq ≠ [] := by have := getNext_mq_ne p0 e; rw [hg] at this; exact this
    rw [hg] at hn hp
    simp only at hn hp
    have s2 : SRes p0 e p2 e2 fk := sres_keep c0 ha2 hw2 hc2 hn hmq2
    cases r with
    | none => exact ⟨s2.actor, s2.wid, s2.cpl, s2.env, fun _ => hp⟩
    | some j =>
      have sd := sres_dispatchJob p2 e2 j fk (by rw [hc2]; exact hc0) s2.cpl
      exact s2.trans sd

theorem replaceWorker_eq (p : WP) (e : Env) (naid : Nat) :
    p.replaceWorker e naid =
      WP.nextJob { p with curr := [], pending := p.curr.foldl (fun acc x => acc.erase x.1) p.pending, actor := naid } e := rfl

/-- `worker_complete` for a slot whose own `Finished(key)` report is being handled -/
theorem sres_workerComplete (p : WP) (e : Env) (key : Nat) (fk : List Nat) (hone : p.curr.length ≤ 1)
    (h : Cpl p e (key :: fk)) : SRes p e (p.workerComplete e key).1 (p.workerComplete e key).2 fk := by
  obtain ⟨a, g, hw, ha, hd⟩ := h
  have hal : a.alive = true := by
    cases hx : a.alive with
    | true => rfl
    | false => have := (hd hx).2; simp at this
  obtain ⟨hs, heq⟩ := ha hal
  -- the slot books exactly this key, the actor holds nothing, no other report waits
  have hlen : (p.curr.map (·.1)).length ≤ 1 := by simpa using hone
  have hheld : a.heldJobs = [] ∧ fk = [] ∧ p.curr.map (·.1) = [key] := by
    rw [heq] at hlen
    simp only [List.length_append, List.length_map, List.length_cons] at hlen
    have h1 : a.heldJobs = [] := List.eq_nil_of_length_eq_zero (by omega)
    have h2 : fk = [] := List.eq_nil_of_length_eq_zero (by omega)
    rw [h1, h2] at heq
    exact ⟨h1, h2, by simpa using heq⟩
  obtain ⟨h1, h2, h3⟩ := hheld
  have hany : p.curr.any (·.1 == key) = true := by
    cases hc : p.curr with
    | nil => rw [hc] at h3; simp at h3
    | cons x xs =>
      rw [hc] at h3
      simp only [List.map_cons, List.cons.injEq] at h3
      simp [h3.1]
  have hfil : p.curr.filter (fun x => x.1 != key) = [] := by
    cases hc : p.curr with
    | nil => rfl
    | cons x xs =>
      rw [hc] at h3 hone
      simp only [List.map_cons, List.cons.injEq, List.map_eq_nil_iff] at h3
      rw [h3.2]
      simp [h3.1]
  unfold WP.workerComplete
  simp only [hany, if_true]
  generalize hp0 : ({ p with curr := p.curr.filter (fun x => x.1 != key), pending := p.pending.erase key } : WP) = p0
  have hc0 : p0.curr = [] := by subst hp0; exact hfil
  have c0 : Cpl p0 e fk := by
    refine ⟨a, by subst hp0; exact g, by subst hp0; exact hw, ?_, ?_⟩
    · intro _; exact ⟨hs, by rw [hc0, h1, h2]; rfl⟩
    · intro hx; rw [hal] at hx; cases hx
  have sn := sres_nextJob p0 e fk hc0 c0
  have pn := prog_nextJob p0 e fk c0
  have hpa : p0.actor = p.actor := by subst hp0; rfl
  have hpw : p0.wid = p.wid := by subst hp0; rfl
  show SRes p e (p0.nextJob e).1 (p0.nextJob e).2 fk
  exact ⟨sn.actor.trans hpa, sn.wid.trans hpw, sn.cpl, by rw [← hpa]; exact sn.env, fun _ => pn⟩

/-! ## The world invariant -/

structure CoreE (ex : List Nat) (fk : Nat → List Nat) (w : W) : Prop where
  slot : PoolAll SlotOk w
  nodupW : NodupW w.pool
  aidLt : ∀ aid a, w.env.getActor aid = some a → aid < w.nextAid
  supDead : ∀ aid ∈ w.env.sup, ∃ a, w.env.getActor aid = some a ∧ a.alive = false
  by1 : ∀ p ∈ w.pool, (p.actor, p.wid) ∈ w.byActor
  by2 : ∀ x ∈ w.byActor, ∃ p ∈ w.pool, p.actor = x.1 ∧ p.wid = x.2
  sa : ∀ p ∈ w.pool, Cpl p w.env (fk p.wid)
  free : ∀ aid a, w.env.getActor aid = some a → a.alive = true → (∀ p ∈ w.pool, p.actor ≠ aid) →
    a.heldJobs = [] ∧ a.stopReq = true
  fin : ∀ wid, (∀ p ∈ w.pool, p.wid ≠ wid) → fk wid = []
  /-- (progress) queued jobs wait behind a job in flight, or behind a death still to be handled; `ex`: the slot
  whose worker is being replaced right now -/
  prog : ∀ p ∈ w.pool, p.wid ∉ ex → Prog p w.env

/-- the invariant between two steps of the factory -/
abbrev Core (fk : Nat → List Nat) (w : W) : Prop := CoreE [] fk w

theorem Core.of_eq {fk : Nat → List Nat} {w w' : W} (h : Core fk w) (h1 : w'.pool = w.pool) (h2 : w'.byActor = w.byActor)
    (h3 : w'.nextAid = w.nextAid) (h4 : EnvEq w.env w'.env) : Core fk w' := by
  refine ⟨h.slot.of_pool h1, by rw [h1]; exact h.nodupW, ?_, ?_, ?_, ?_, ?_, ?_, ?_, ?_⟩
  · intro aid a ha; rw [h3]; rw [h4.getActor] at ha; exact h.aidLt aid a ha
  · intro aid ha; rw [h4.sup] at ha; rw [h4.getActor]; exact h.supDead aid ha
  · intro p hp; rw [h1] at hp; rw [h2]; exact h.by1 p hp
  · intro x hx; rw [h2] at hx; rw [h1]; exact h.by2 x hx
  · intro p hp; rw [h1] at hp; exact (h.sa p hp).keep rfl rfl rfl (h4.getActor _) h4.sup
  · intro aid a ha hal hn; rw [h4.getActor] at ha; rw [h1] at hn; exact h.free aid a ha hal hn
  · intro wid hn; rw [h1] at hn; exact h.fin wid hn
  · intro p hp hne; rw [h1] at hp
    exact (h.prog p hp hne).keep rfl rfl id (fun a g d => ⟨a, by rw [h4.getActor]; exact g, d⟩)

/-- two slots never share an actor -/
theorem CoreE.actor_inj {ex : List Nat} {fk : Nat → List Nat} {w : W} (h : CoreE ex fk w) {p q : WP} (hp : p ∈ w.pool) (hq : q ∈ w.pool)
    (ha : p.actor = q.actor) : p = q := by
  obtain ⟨a, g, hw, _, _⟩ := h.sa p hp
  obtain ⟨b, g', hw', _, _⟩ := h.sa q hq
  rw [ha, g'] at g; cases g
  exact nodupW_eq_of_wid h.nodupW hp hq (hw.symm.trans hw')

theorem mem_setW_of_ne {pool : List WP} {wid : Nat} {p' x : WP} (hx : x ∈ pool) (hne : x.wid ≠ wid) :
    x ∈ setW pool wid p' := by
  induction pool with
  | nil => cases hx
  | cons y ys ih =>
    unfold setW
    cases hy : y.wid == wid
    · simp only [Bool.false_eq_true, if_false]
      rcases List.mem_cons.mp hx with h | h
      · subst h; exact List.mem_cons_self ..
      · exact List.mem_cons_of_mem _ (ih h)
    · simp only [if_true]
      rcases List.mem_cons.mp hx with h | h
      · subst h; exact absurd (by simpa using hy) hne
      · exact List.mem_cons_of_mem _ h

theorem mem_removeW_of_ne {pool : List WP} {wid : Nat} {x : WP} (hx : x ∈ pool) (hne : x.wid ≠ wid) :
    x ∈ removeW pool wid := by
  induction pool with
  | nil => cases hx
  | cons y ys ih =>
    unfold removeW
    cases hy : y.wid == wid
    · simp only [Bool.false_eq_true, if_false]
      rcases List.mem_cons.mp hx with h | h
      · subst h; exact List.mem_cons_self ..
      · exact List.mem_cons_of_mem _ (ih h)
    · simp only [if_true]
      rcases List.mem_cons.mp hx with h | h
      · subst h; exact absurd (by simpa using hy) hne
      · exact h

/-- a `WorkerProperties` function ran on slot `wid`; `fk'` may differ from `fk` at `wid` only -/
theorem core_slotUpdate {ex : List Nat} {fk fk' : Nat → List Nat} {w w' : W} {wid : Nat} {p p' : WP} (h : CoreE ex fk w)
    (hex : ∀ x ∈ ex, x = wid)
    (hg : getW w.pool wid = some p) (r : SRes p w.env p' w'.env (fk' wid)) (hso : SlotOk p') (hp' : Prog p' w'.env)
    (hagree : ∀ x, x ≠ wid → fk' x = fk x)
    (h1 : w'.pool = setW w.pool wid p') (h2 : w'.byActor = w.byActor) (h3 : w'.nextAid = w.nextAid) : Core fk' w' := by
  have hpw : p.wid = wid := getW_wid hg
  have hp'w : p'.wid = wid := r.wid.trans hpw
  have hpm : p ∈ w.pool := getW_mem hg
  have hp'm : p' ∈ w'.pool := by rw [h1]; exact mem_setW_self hg
  -- other slots have other actors
  have hother : ∀ q ∈ w.pool, q.wid ≠ wid → q.actor ≠ p.actor := by
    intro q hq hne hqa
    have := h.actor_inj hq hpm hqa
    subst this; exact hne hpw
  have hmem : ∀ q, q ∈ w'.pool → q = p' ∨ (q ∈ w.pool ∧ q.wid ≠ wid) := by
    intro q hq; rw [h1] at hq; exact mem_setW_ne h.nodupW hg hp'w hq
  refine ⟨h.slot.setW hso h1, by rw [h1]; exact nodupW_setW hp'w h.nodupW, ?_, ?_, ?_, ?_, ?_, ?_, ?_, ?_⟩
  rotate_right
  · intro q hq _
    rcases hmem q hq with h' | ⟨h', hne⟩
    · subst h'; exact hp'
    · exact (h.prog q h' (fun hin => hne (hex _ hin))).keep rfl rfl id (fun a g d => r.env.dead _ a g d)
  · intro aid a ha
    rw [h3]
    by_cases hb : aid = p.actor
    · subst hb
      have := r.env.self
      rw [ha] at this
      cases hx : w.env.getActor p.actor with
      | none => rw [hx] at this; cases this
      | some x => exact h.aidLt _ x hx
    · rw [r.env.other aid hb] at ha; exact h.aidLt aid a ha
  · intro aid ha
    rw [r.env.sup] at ha
    obtain ⟨a, g, hd⟩ := h.supDead aid ha
    by_cases hb : aid = p.actor
    · subst hb
      have := r.env.self
      rw [g] at this
      cases hx : w'.env.getActor p.actor with
      | none => rw [hx] at this; cases this
      | some x => exact ⟨x, rfl, (r.env.alive a x g hx).trans hd⟩
    · exact ⟨a, by rw [r.env.other aid hb]; exact g, hd⟩
  · intro q hq
    rw [h2]
    rcases hmem q hq with h' | ⟨h', _⟩
    · subst h'; rw [r.actor, r.wid]; exact h.by1 p hpm
    · exact h.by1 q h'
  · intro x hx
    rw [h2] at hx
    obtain ⟨q, hq, hqa, hqw⟩ := h.by2 x hx
    by_cases hqw' : q.wid = wid
    · have : q = p := nodupW_eq_of_wid h.nodupW hq hpm (hqw'.trans hpw.symm)
      subst this
      exact ⟨p', hp'm, r.actor.trans hqa, r.wid.trans hqw⟩
    · exact ⟨q, by rw [h1]; exact mem_setW_of_ne hq hqw', hqa, hqw⟩
  · intro q hq
    rcases hmem q hq with h' | ⟨h', hne⟩
    · subst h'; rw [hp'w]; exact r.cpl
    · rw [hagree _ hne]
      exact (h.sa q h').keep rfl rfl rfl (r.env.other _ (hother q h' hne)) r.env.sup
  · intro aid a ha hal hn
    have hb : aid ≠ p.actor := by
      intro hb; exact hn p' hp'm (r.actor.trans hb.symm)
    rw [r.env.other aid hb] at ha
    refine h.free aid a ha hal ?_
    intro q hq
    by_cases hqw' : q.wid = wid
    · have : q = p := nodupW_eq_of_wid h.nodupW hq hpm (hqw'.trans hpw.symm)
      subst this; exact fun hc => hb hc.symm
    · exact hn q (by rw [h1]; exact mem_setW_of_ne hq hqw')
  · intro x hn
    have hx : x ≠ wid := fun hc => hn p' hp'm (hp'w.trans hc.symm)
    rw [hagree x hx]
    refine h.fin x ?_
    intro q hq
    by_cases hqw' : q.wid = wid
    · rw [hqw']; exact fun hc => hx hc.symm
    · exact hn q (by rw [h1]; exact mem_setW_of_ne hq hqw')


/-! ## stop / die / spawn -/

theorem stop_spec (e : Env) (aid : Nat) :
    EnvStep aid e (e.stop aid) ∧
    ∀ a, e.getActor aid = some a → ∃ a', (e.stop aid).getActor aid = some a' ∧ a'.wid = a.wid ∧ a'.alive = a.alive ∧
      a'.heldJobs = a.heldJobs ∧ (a.alive = true → a'.stopReq = true) := by
  unfold Env.stop
  cases g : e.getActor aid with
  | none => exact ⟨EnvStep.refl _ _, fun a ha => by cases ha⟩
  | some a =>
    simp only
    have haid := getActor_aid g
    by_cases hal : a.alive = true
    · have hn : ¬ ((!a.alive) = true) := by rw [hal]; exact Bool.false_ne_true
      rw [if_neg hn]
      generalize ha' : ({ a with stopReq := true } : Actor) = a'
      have haid' : a'.aid = aid := by subst ha'; exact haid
      have g' : e.getActor a'.aid = some a := by rw [haid']; exact g
      have hs := envStep_setActor e a a' g' (by subst ha'; rfl)
      have hg := getActor_setActor_self e a a' g'
      rw [haid'] at hs hg
      refine ⟨hs, ?_⟩
      intro x hx; cases hx
      exact ⟨a', hg, by subst ha'; rfl, by subst ha'; rfl, by subst ha'; rfl, fun _ => by subst ha'; rfl⟩
    · have hal' : a.alive = false := by simpa using hal
      have hn : (!a.alive) = true := by rw [hal']; rfl
      rw [if_pos hn]
      refine ⟨EnvStep.refl _ _, ?_⟩
      intro x hx; cases hx
      exact ⟨a, g, rfl, rfl, rfl, fun h => by rw [hal'] at h; cases h⟩

theorem die_noop (e : Env) (aid : Nat) (h : ∀ a, e.getActor aid = some a → a.alive = false) : e.die aid = e := by
  unfold Env.die
  cases g : e.getActor aid with
  | none => rfl
  | some a => simp only [h a g, Bool.not_false, if_true]

theorem die_spec (e : Env) (aid : Nat) (a : Actor) (g : e.getActor aid = some a) (hal : a.alive = true) :
    (e.die aid).sup = e.sup ++ [aid] ∧ (∀ b, b ≠ aid → (e.die aid).getActor b = e.getActor b) ∧
    ∃ a', (e.die aid).getActor aid = some a' ∧ a'.alive = false ∧ a'.wid = a.wid := by
  unfold Env.die
  simp only [g]
  have hn : ¬ ((!a.alive) = true) := by rw [hal]; exact Bool.false_ne_true
  rw [if_neg hn]
  have haid := getActor_aid g
  generalize ha' : ({ a with alive := false, running := none, mailbox := [], stopReq := false } : Actor) = a'
  have haid' : a'.aid = aid := by subst ha'; exact haid
  have g' : e.getActor a'.aid = some a := by rw [haid']; exact g
  have hg := getActor_setActor_self e a a' g'
  rw [haid'] at hg
  refine ⟨rfl, ?_, a', hg, by subst ha'; rfl, by subst ha'; rfl⟩
  intro b hb
  have := getActor_setActor_other e a' b (by rw [haid']; exact hb)
  exact this

theorem find_append_some {α : Type} (l1 l2 : List α) (f : α → Bool) (a : α) (h : l1.find? f = some a) :
    (l1 ++ l2).find? f = some a := by
  rw [List.find?_append, h]; rfl

theorem getActor_spawn_old (e : Env) (wid aid b : Nat) (a : Actor) (h : e.getActor b = some a) :
    (e.spawn wid aid).getActor b = some a :=
  find_append_some _ _ _ _ h

theorem getActor_spawn_inv (e : Env) (wid aid b : Nat) (a : Actor) (h : (e.spawn wid aid).getActor b = some a) :
    e.getActor b = some a ∨ (e.getActor b = none ∧ b = aid ∧ a = { aid := aid, wid := wid }) := by
  unfold Env.getActor Env.spawn at h
  simp only [List.find?_append] at h
  unfold Env.getActor
  cases hx : e.actors.find? (·.aid == b) with
  | some x => rw [hx] at h; left; simpa using h
  | none =>
    rw [hx] at h
    simp only [Option.none_or, List.find?_cons, List.find?_nil] at h
    right
    cases hb : aid == b
    · rw [hb] at h; cases h
    · rw [hb] at h
      simp only [Option.some.injEq] at h
      exact ⟨rfl, ((by simpa using hb : aid = b)).symm, h.symm⟩

theorem getActor_spawn_new (e : Env) (wid aid : Nat) (h : e.getActor aid = none) :
    (e.spawn wid aid).getActor aid = some { aid := aid, wid := wid } := by
  unfold Env.getActor Env.spawn
  unfold Env.getActor at h
  simp only [List.find?_append, h, Option.none_or, List.find?_cons, beq_self_eq_true]

/-! ## Generic world updates -/

theorem core_die {fk : Nat → List Nat} {w w' : W} (h : Core fk w) (aid : Nat)
    (hns : ∀ p ∈ w.pool, p.actor = aid → fk p.wid = [])
    (h1 : w'.pool = w.pool) (h2 : w'.byActor = w.byActor) (h3 : w'.nextAid = w.nextAid) (h4 : w'.env = w.env.die aid) :
    Core fk w' := by
  by_cases hnoop : ∀ a, w.env.getActor aid = some a → a.alive = false
  · exact h.of_eq h1 h2 h3 (by rw [h4, die_noop _ _ hnoop]; exact EnvEq.refl _)
  · have : ∃ a, w.env.getActor aid = some a ∧ a.alive = true := by
      apply Classical.byContradiction
      intro hc
      apply hnoop
      intro a ha
      cases hx : a.alive with
      | false => rfl
      | true => exact absurd ⟨a, ha, hx⟩ hc
    obtain ⟨a, g, hal⟩ := this
    obtain ⟨hsup, hoth, a', g', hd', hw'⟩ := die_spec w.env aid a g hal
    rw [← h4] at hsup hoth g'
    refine ⟨h.slot.of_pool h1, by rw [h1]; exact h.nodupW, ?_, ?_, ?_, ?_, ?_, ?_, ?_, ?_⟩
    rotate_right
    · intro q hq hne
      rw [h1] at hq
      by_cases hqa : q.actor = aid
      · exact fun _ => Or.inr ⟨a', by rw [hqa]; exact g', hd'⟩
      · exact (h.prog q hq hne).keep rfl rfl id (fun x gx d => ⟨x, by rw [hoth _ hqa]; exact gx, d⟩)
    · intro b x hb
      rw [h3]
      by_cases hba : b = aid
      · subst hba; exact h.aidLt _ a g
      · rw [hoth b hba] at hb; exact h.aidLt b x hb
    · intro b hb
      rw [hsup] at hb
      by_cases hba : b = aid
      · subst hba; exact ⟨a', g', hd'⟩
      · rcases List.mem_append.mp hb with hb | hb
        · obtain ⟨x, gx, hx⟩ := h.supDead b hb
          exact ⟨x, by rw [hoth b hba]; exact gx, hx⟩
        · simp at hb; exact absurd hb hba
    · intro p hp; rw [h1] at hp; rw [h2]; exact h.by1 p hp
    · intro x hx; rw [h2] at hx; rw [h1]; exact h.by2 x hx
    · intro p hp
      rw [h1] at hp
      by_cases hpa : p.actor = aid
      · obtain ⟨x, gx, hxw, _, _⟩ := h.sa p hp
        rw [hpa, g] at gx; cases gx
        refine ⟨a', by rw [hpa]; exact g', hw'.trans hxw, ?_, ?_⟩
        · intro hc; rw [hd'] at hc; cases hc
        · intro _
          exact ⟨by rw [hsup, hpa]; exact List.mem_append_right _ (List.mem_singleton_self _), hns p hp hpa⟩
      · exact (h.sa p hp).keep' rfl rfl rfl (hoth _ hpa) (fun x hx => by rw [hsup]; exact List.mem_append_left _ hx)
    · intro b x hb hxl hn
      by_cases hba : b = aid
      · subst hba; rw [g'] at hb; cases hb; rw [hd'] at hxl; cases hxl
      · rw [hoth b hba] at hb; rw [h1] at hn; exact h.free b x hb hxl hn
    · intro wid hn; rw [h1] at hn; exact h.fin wid hn

/-- an idle slot is dropped from the pool and its worker told to stop -/
theorem core_removeSlot {fk : Nat → List Nat} {w w' : W} {wid : Nat} {p : WP} (h : Core fk w)
    (hg : getW w.pool wid = some p) (hidle : p.curr = [])
    (h1 : w'.pool = removeW w.pool wid) (h2 : w'.byActor = w.byActor.filter (fun x => x.1 != p.actor))
    (h3 : w'.nextAid = w.nextAid) (h4 : w'.env = w.env.stop p.actor) : Core fk w' := by
  have hpw : p.wid = wid := getW_wid hg
  have hpm : p ∈ w.pool := getW_mem hg
  obtain ⟨st, hself⟩ := stop_spec w.env p.actor
  rw [← h4] at st hself
  obtain ⟨a, g, haw, hal, hdead⟩ := h.sa p hpm
  have hfk : fk wid = [] := by
    cases hx : a.alive with
    | true =>
      have := (hal hx).2
      rw [hidle] at this
      simp only [List.map_nil] at this
      rw [← hpw]
      exact (List.append_eq_nil_iff.mp this.symm).2
    | false => rw [← hpw]; exact (hdead hx).2
  have hother : ∀ q ∈ w.pool, q.wid ≠ wid → q.actor ≠ p.actor := by
    intro q hq hne hqa
    have := h.actor_inj hq hpm hqa
    subst this; exact hne hpw
  have hmem : ∀ q, q ∈ w'.pool → q ∈ w.pool ∧ q.wid ≠ wid := by
    intro q hq; rw [h1] at hq; exact mem_removeW_ne h.nodupW hq
  refine ⟨h.slot.removeW h1, by rw [h1]; exact nodupW_removeW wid h.nodupW, ?_, ?_, ?_, ?_, ?_, ?_, ?_, ?_⟩
  rotate_right
  · intro q hq hne
    obtain ⟨hq1, _⟩ := hmem q hq
    exact (h.prog q hq1 hne).keep rfl rfl id (fun a g d => st.dead _ a g d)
  · intro aid x ha
    rw [h3]
    by_cases hb : aid = p.actor
    · subst hb; exact h.aidLt _ a g
    · rw [st.other aid hb] at ha; exact h.aidLt aid x ha
  · intro aid ha
    rw [st.sup] at ha
    obtain ⟨x, gx, hd⟩ := h.supDead aid ha
    by_cases hb : aid = p.actor
    · subst hb
      obtain ⟨a', g', _, hal', _, _⟩ := hself x gx
      exact ⟨a', g', hal'.trans hd⟩
    · exact ⟨x, by rw [st.other aid hb]; exact gx, hd⟩
  · intro q hq
    obtain ⟨hq1, hq2⟩ := hmem q hq
    rw [h2]
    refine List.mem_filter.mpr ⟨h.by1 q hq1, ?_⟩
    simpa using hother q hq1 hq2
  · intro x hx
    rw [h2] at hx
    obtain ⟨hx1, hx2⟩ := List.mem_filter.mp hx
    obtain ⟨q, hq, hqa, hqw⟩ := h.by2 x hx1
    have hne : q.wid ≠ wid := by
      intro hc
      have : q = p := nodupW_eq_of_wid h.nodupW hq hpm (hc.trans hpw.symm)
      subst this
      rw [hqa] at hx2; simp at hx2
    exact ⟨q, by rw [h1]; exact mem_removeW_of_ne hq hne, hqa, hqw⟩
  · intro q hq
    obtain ⟨hq1, hq2⟩ := hmem q hq
    exact (h.sa q hq1).keep rfl rfl rfl (st.other _ (hother q hq1 hq2)) st.sup
  · intro aid x ha hxl hn
    by_cases hb : aid = p.actor
    · subst hb
      obtain ⟨a', g', _, hal', hheld, hstop⟩ := hself a g
      rw [g'] at ha; cases ha
      have haal : a.alive = true := hal'.symm.trans hxl
      have := (hal haal).2
      rw [hidle] at this
      simp only [List.map_nil] at this
      have hh : a.heldJobs = [] := by simpa using (List.append_eq_nil_iff.mp this.symm).1
      exact ⟨hheld.trans hh, hstop haal⟩
    · rw [st.other aid hb] at ha
      refine h.free aid x ha hxl ?_
      intro q hq
      by_cases hqw : q.wid = wid
      · have : q = p := nodupW_eq_of_wid h.nodupW hq hpm (hqw.trans hpw.symm)
        subst this; exact fun hc => hb hc.symm
      · exact hn q (by rw [h1]; exact mem_removeW_of_ne hq hqw)
  · intro x hn
    by_cases hx : x = wid
    · subst hx; exact hfk
    · refine h.fin x ?_
      intro q hq
      by_cases hqw : q.wid = wid
      · rw [hqw]; exact fun hc => hx hc.symm
      · exact hn q (by rw [h1]; exact mem_removeW_of_ne hq hqw)

/-- `grow_pool` builds a worker for a new slot -/
theorem core_addSlot {fk : Nat → List Nat} {w w' : W} {wid : Nat} {d : Option (Nat × Mode)} {hd : Option Nat} (h : Core fk w)
    (hg : getW w.pool wid = none)
    (h1 : w'.pool = w.pool ++ [({ wid := wid, actor := w.nextAid, disc := d, handler := hd } : WP)])
    (h2 : w'.byActor = w.byActor ++ [(w.nextAid, wid)])
    (h3 : w'.nextAid = w.nextAid + 1) (h4 : w'.env = w.env.spawn wid w.nextAid) : Core fk w' := by
  have hnone : w.env.getActor w.nextAid = none := by
    cases hx : w.env.getActor w.nextAid with
    | none => rfl
    | some x => exact absurd (h.aidLt _ x hx) (Nat.lt_irrefl _)
  have hnw : ∀ q ∈ w.pool, q.wid ≠ wid := by
    intro q hq hc
    exact getW_none_not_mem hg (List.mem_map.mpr ⟨q, hq, hc⟩)
  have hfk : fk wid = [] := h.fin wid hnw
  generalize hp0 : ({ wid := wid, actor := w.nextAid, disc := d, handler := hd } : WP) = p0 at h1
  have hp0w : p0.wid = wid := by subst hp0; rfl
  have hp0a : p0.actor = w.nextAid := by subst hp0; rfl
  have hp0c : p0.curr = [] := by subst hp0; rfl
  refine ⟨?_, ?_, ?_, ?_, ?_, ?_, ?_, ?_, ?_, ?_⟩
  rotate_right
  · intro q hq hne
    rw [h1] at hq
    rcases List.mem_append.mp hq with hq | hq
    · exact (h.prog q hq hne).keep rfl rfl id
        (fun a g d => ⟨a, by rw [h4]; exact getActor_spawn_old _ _ _ _ _ g, d⟩)
    · simp only [List.mem_singleton] at hq; subst hq
      exact Prog.of_mq (by subst hp0; rfl)
  · intro q hq
    rw [h1] at hq
    rcases List.mem_append.mp hq with hq | hq
    · exact h.slot q hq
    · simp only [List.mem_singleton] at hq; subst hq; subst hp0; exact slotOk_inv.fresh _ _ _ _
  · rw [h1]; subst hp0; exact nodupW_append_new hg h.nodupW
  · intro b x hb
    rw [h4] at hb; rw [h3]
    rcases getActor_spawn_inv _ _ _ _ _ hb with hb | ⟨_, hb, _⟩
    · exact Nat.lt_succ_of_lt (h.aidLt b x hb)
    · rw [hb]; exact Nat.lt_succ_self _
  · intro b hb
    rw [h4] at hb ⊢
    obtain ⟨x, gx, hx⟩ := h.supDead b hb
    exact ⟨x, getActor_spawn_old _ _ _ _ _ gx, hx⟩
  · intro q hq
    rw [h1] at hq; rw [h2]
    rcases List.mem_append.mp hq with hq | hq
    · exact List.mem_append_left _ (h.by1 q hq)
    · simp only [List.mem_singleton] at hq; subst hq
      rw [hp0w, hp0a]; exact List.mem_append_right _ (List.mem_singleton_self _)
  · intro x hx
    rw [h2] at hx; rw [h1]
    rcases List.mem_append.mp hx with hx | hx
    · obtain ⟨q, hq, hqa, hqw⟩ := h.by2 x hx
      exact ⟨q, List.mem_append_left _ hq, hqa, hqw⟩
    · simp only [List.mem_singleton] at hx; subst hx
      exact ⟨p0, List.mem_append_right _ (List.mem_singleton_self _), hp0a, hp0w⟩
  · intro q hq
    rw [h1] at hq
    rcases List.mem_append.mp hq with hq | hq
    · obtain ⟨x, gx, hxw, hxa, hxd⟩ := h.sa q hq
      exact ⟨x, by rw [h4]; exact getActor_spawn_old _ _ _ _ _ gx, hxw, hxa, by rw [h4]; exact hxd⟩
    · simp only [List.mem_singleton] at hq; subst hq
      refine ⟨{ aid := w.nextAid, wid := wid }, by rw [h4, hp0a]; exact getActor_spawn_new _ _ _ hnone, hp0w.symm, ?_, ?_⟩
      · intro _; exact ⟨rfl, by rw [hp0c, hp0w, hfk]; rfl⟩
      · intro hc; cases hc
  · intro b x hb hxl hn
    rw [h4] at hb
    rcases getActor_spawn_inv _ _ _ _ _ hb with hb | ⟨_, hb, _⟩
    · exact h.free b x hb hxl (fun q hq => hn q (by rw [h1]; exact List.mem_append_left _ hq))
    · exact absurd (hp0a.trans hb.symm) (hn p0 (by rw [h1]; exact List.mem_append_right _ (List.mem_singleton_self _)))
  · intro x hn
    exact h.fin x (fun q hq => hn q (by rw [h1]; exact List.mem_append_left _ hq))


/-! ## The factory's functions keep the invariant -/

/-- pool, actor map, id counter and actors untouched (the log may grow) -/
structure ActFrame (w w' : W) : Prop where
  pool : w'.pool = w.pool
  byActor : w'.byActor = w.byActor
  nextAid : w'.nextAid = w.nextAid
  env : EnvEq w.env w'.env

theorem ActFrame.refl (w : W) : ActFrame w w := ⟨rfl, rfl, rfl, EnvEq.refl _⟩
theorem ActFrame.trans {a b c : W} (h1 : ActFrame a b) (h2 : ActFrame b c) : ActFrame a c :=
  ⟨h2.pool.trans h1.pool, h2.byActor.trans h1.byActor, h2.nextAid.trans h1.nextAid, h1.env.trans h2.env⟩
theorem Core.frame {fk : Nat → List Nat} {w w' : W} (h : Core fk w) (f : ActFrame w w') : Core fk w' :=
  h.of_eq f.pool f.byActor f.nextAid f.env
theorem RouterFrame.act {w w' : W} (f : RouterFrame w w') : ActFrame w w' :=
  ⟨f.pool, f.byActor, f.nextAid, by rw [f.env]; exact EnvEq.refl _⟩

variable {fk : Nat → List Nat}

theorem core_routeInner (w : W) (j : Job) (hint : Option Nat) (h : Core fk w) : Core fk (w.routeInner j hint).2 := by
  unfold W.routeInner
  have hs := chooseTargetWorker_frame w j hint
  cases hc : w.chooseTargetWorker j hint with
  | mk t w1 =>
    rw [hc] at hs
    simp only at hs ⊢
    have h1 : Core fk w1 := h.frame hs.act
    cases t with
    | none => exact h1
    | some wid =>
      simp only
      cases hg : getW w1.pool wid with
      | none => exact h1
      | some p =>
        simp only
        have hpw : p.wid = wid := getW_wid hg
        have r := sres_enqueueJob p w1.env j (fk wid) (by rw [← hpw]; exact h1.sa p (getW_mem hg))
        have hso := slotOk_inv.enqueue p w1.env j (h1.slot p (getW_mem hg))
        cases he : p.enqueueJob w1.env j with
        | mk p' e' =>
          rw [he] at r hso
          have hp := r.prog (h1.prog p (getW_mem hg) (by simp))
          exact core_slotUpdate (w' := { w1 with pool := setW w1.pool wid p', env := e' }) h1 (fun _ hx => by cases hx) hg r hso hp
            (fun _ _ => rfl) rfl rfl rfl

theorem core_routeLimited (w : W) (j : Job) (hint : Option Nat) (h : Core fk w) : Core fk (w.routeLimited j hint).2 := by
  unfold W.routeLimited
  split
  · exact core_routeInner w j hint h
  · rename_i c lb _
    simp only
    have h0 : Core fk { w with rl := some (c, (LeakyBucket.check c lb w.env.now).1) } := h.frame ⟨rfl, rfl, rfl, EnvEq.refl _⟩
    split
    · split
      · split
        · rename_i hh _
          exact h0.frame (availChange_frame { w with rl := some (c, (LeakyBucket.check c lb w.env.now).1) } hh true).act
        · exact h0
      · exact h0
    · have hi := core_routeInner _ j hint h0
      cases hr : W.routeInner { w with rl := some (c, (LeakyBucket.check c lb w.env.now).1) } j hint with
      | mk r w2 =>
        rw [hr] at hi
        simp only at hi ⊢
        split
        · exact hi.frame ⟨rfl, rfl, rfl, EnvEq.refl _⟩
        · exact hi

theorem core_routeMessage (w : W) (j : Job) (hint : Option Nat) (h : Core fk w) : Core fk (w.routeMessage j hint).2 := by
  unfold W.routeMessage
  have hi := core_routeLimited w j hint h
  cases hr : w.routeLimited j hint with
  | mk r w2 => rw [hr] at hi; exact hi.frame ⟨rfl, rfl, rfl, EnvEq.refl _⟩

theorem dropExpiredHead_act (fuel : Nat) (w : W) : ActFrame w (W.dropExpiredHead fuel w) := by
  induction fuel generalizing w with
  | zero => exact ActFrame.refl w
  | succ fuel ih =>
    unfold W.dropExpiredHead
    split
    · split
      · split
        · rename_i j' q _
          refine ActFrame.trans ?_ (ih _)
          exact ⟨rfl, rfl, rfl, (envEq_discard _ _ _ _).trans (envEq_reject _ _)⟩
        · exact ActFrame.refl w
      · exact ActFrame.refl w
    · exact ActFrame.refl w

theorem core_routeLoop (hint : Option Nat) (fuel : Nat) (w : W) (h : Core fk w) : Core fk (W.routeLoop hint fuel w) := by
  induction fuel generalizing w with
  | zero => exact h
  | succ fuel ih =>
    unfold W.routeLoop
    split
    · exact h
    · rename_i j _
      have hs := chooseTargetWorker_frame w j hint
      cases hc : w.chooseTargetWorker j hint with
      | mk t w1 =>
        rw [hc] at hs
        simp only at hs ⊢
        have h1 : Core fk w1 := h.frame hs.act
        cases t with
        | none => exact h1
        | some worker =>
          simp only
          cases hp : qPopFront w1.cfg w1.queue with
          | none => exact h1
          | some jq =>
            obtain ⟨j', q⟩ := jq
            simp only
            have hr := core_routeMessage { w1 with queue := q } j' (some worker) (h1.frame ⟨rfl, rfl, rfl, EnvEq.refl _⟩)
            cases hrm : W.routeMessage { w1 with queue := q } j' (some worker) with
            | mk r w2 =>
              rw [hrm] at hr
              cases r with
              | handled => exact hr
              | rateLimited =>
                exact ih _ (hr.frame ⟨rfl, rfl, rfl, (envEq_discard _ _ _ _).trans (envEq_reject _ _)⟩)
              | backlog => exact hr.frame ⟨rfl, rfl, rfl, (envEq_emit _ _).trans (envEq_emit _ _)⟩

theorem core_tryRoute (w : W) (hint : Option Nat) (h : Core fk w) : Core fk (w.tryRouteNextActiveJob hint) := by
  unfold W.tryRouteNextActiveJob
  exact core_routeLoop _ _ _ (h.frame (dropExpiredHead_act _ _))

theorem shedQueueOldest_act (limit fuel : Nat) (w : W) : ActFrame w (W.shedQueueOldest limit fuel w) := by
  induction fuel generalizing w with
  | zero => exact ActFrame.refl w
  | succ fuel ih =>
    unfold W.shedQueueOldest
    split
    · split
      · refine ActFrame.trans ?_ (ih _)
        exact ⟨rfl, rfl, rfl, envEq_discard _ _ _ _⟩
      · exact ih w
    · exact ActFrame.refl w

theorem maybeEnqueue_act (w : W) (j : Job) : ActFrame w (w.maybeEnqueue j) := by
  unfold W.maybeEnqueue
  split
  · split
    · exact ⟨rfl, rfl, rfl, (envEq_discard _ _ _ _).trans (envEq_reject _ _)⟩
    · exact ⟨rfl, rfl, rfl, envEq_accept _ _⟩
  · dsimp only
    refine ActFrame.trans ?_ (shedQueueOldest_act _ _ _)
    exact ⟨rfl, rfl, rfl, envEq_accept _ _⟩
  · exact ⟨rfl, rfl, rfl, envEq_accept _ _⟩

theorem slotOk_draining (p : WP) (b : Bool) (h : SlotOk p) : SlotOk { p with draining := b } := slotOk_inv.draining p b h

/-- a slot's flags / settings change (nothing the coupling looks at) -/
theorem core_setFlags {w w' : W} {wid : Nat} {p p' : WP} (h : Core fk w) (hg : getW w.pool wid = some p)
    (ha : p'.actor = p.actor) (hw : p'.wid = p.wid) (hc : p'.curr = p.curr) (hm : p'.mq = p.mq) (hso : SlotOk p')
    (h1 : w'.pool = setW w.pool wid p') (h2 : w'.byActor = w.byActor) (h3 : w'.nextAid = w.nextAid)
    (h4 : EnvEq w.env w'.env) : Core fk w' := by
  have hpw : p.wid = wid := getW_wid hg
  have r : SRes p w.env p' w'.env (fk wid) :=
    sres_keep (by rw [← hpw]; exact h.sa p (getW_mem hg)) ha hw hc h4 (by rw [hm]; exact id)
  exact core_slotUpdate h (fun _ hx => by cases hx) hg r hso (r.prog (h.prog p (getW_mem hg) (by simp)))
    (fun _ _ => rfl) h1 h2 h3

theorem core_growOne (w : W) (wid : Nat) (h : Core fk w) : Core fk (w.growOne wid) := by
  unfold W.growOne
  split
  · rename_i p hg
    dsimp only
    have h1 : Core fk { w with pool := setW w.pool wid { p with draining := false } } :=
      core_setFlags (p' := { p with draining := false }) h hg rfl rfl rfl rfl (slotOk_inv.draining p false (h.slot p (getW_mem hg))) rfl rfl rfl (EnvEq.refl _)
    split
    · exact h1.frame (availChange_frame _ _ _).act
    · exact h1
  · rename_i hg
    dsimp only
    refine Core.frame (w := { w with
        nextAid := w.nextAid + 1
        env := w.env.spawn wid w.nextAid
        pool := w.pool ++ [({ wid := wid, actor := w.nextAid, disc := w.workerDiscard w.disc, handler := w.handler } : WP)]
        byActor := w.byActor ++ [(w.nextAid, wid)] }) ?_ (availChange_frame _ _ _).act
    exact core_addSlot h hg rfl rfl rfl rfl

theorem core_foldl {f : W → Nat → W} (hf : ∀ w k, Core fk w → Core fk (f w k)) (l : List Nat) (w : W)
    (h : Core fk w) : Core fk (l.foldl f w) := by
  induction l generalizing w with
  | nil => exact h
  | cons a l ih => exact ih _ (hf _ _ h)

theorem core_growPool (w : W) (n : Nat) (h : Core fk w) : Core fk (w.growPool n) := by
  unfold W.growPool
  exact core_foldl (fun w k hw => core_growOne w _ hw) _ w h

theorem curr_of_notWorking {p : WP} (h : ¬ (p.isWorking = true)) : p.curr = [] := by
  unfold WP.isWorking WP.isAvailable at h
  cases hc : p.curr with
  | nil => rfl
  | cons x xs => rw [hc] at h; simp at h

theorem core_shrinkOne (w : W) (wid : Nat) (h : Core fk w) : Core fk (w.shrinkOne wid) := by
  unfold W.shrinkOne
  split
  · rename_i p hg
    split
    · exact core_setFlags (p' := { p with draining := true }) h hg rfl rfl rfl rfl (slotOk_inv.draining p true (h.slot p (getW_mem hg))) rfl rfl rfl (EnvEq.refl _)
    · rename_i hnw
      have hf := (availChange_frame w wid false)
      have h1 : Core fk (w.availChange wid false) := h.frame hf.act
      have hg1 : getW (w.availChange wid false).pool wid = some p := by rw [hf.pool]; exact hg
      exact core_removeSlot h1 hg1 (curr_of_notWorking hnw) rfl rfl rfl rfl
  · exact h

theorem core_shrinkPool (w : W) (n : Nat) (h : Core fk w) : Core fk (w.shrinkPool n) := by
  unfold W.shrinkPool
  exact core_foldl (fun w k hw => core_shrinkOne w _ hw) _ w h

theorem core_flushAfterGrow (fuel : Nat) (w : W) (h : Core fk w) : Core fk (W.flushAfterGrow fuel w) := by
  induction fuel generalizing w with
  | zero => exact h
  | succ fuel ih =>
    unfold W.flushAfterGrow
    simp only
    split
    · exact h
    · split
      · exact core_tryRoute w none h
      · exact ih _ (core_tryRoute w none h)

theorem core_resizePool (w : W) (n : Nat) (h : Core fk w) : Core fk (w.resizePool n) := by
  unfold W.resizePool
  split
  · exact h
  · simp only
    split
    · exact core_flushAfterGrow _ _ ((core_growPool w _ h).frame ⟨rfl, rfl, rfl, EnvEq.refl _⟩)
    · split
      · exact (core_shrinkPool w _ h).frame ⟨rfl, rfl, rfl, EnvEq.refl _⟩
      · exact h.frame ⟨rfl, rfl, rfl, EnvEq.refl _⟩

theorem core_dispatch (w : W) (j : Job) (h : Core fk w) : Core fk (w.dispatch j) := by
  unfold W.dispatch
  split
  · exact h.frame ⟨rfl, rfl, rfl, (envEq_discard _ _ _ _).trans (envEq_reject _ _)⟩
  · split
    · have hr := core_routeMessage w j none h
      cases hrm : w.routeMessage j none with
      | mk r w2 =>
        rw [hrm] at hr
        cases r with
        | handled => exact hr
        | rateLimited => exact hr.frame ⟨rfl, rfl, rfl, (envEq_discard _ _ _ _).trans (envEq_reject _ _)⟩
        | backlog => exact hr.frame (maybeEnqueue_act w2 j)
    · exact h.frame ⟨rfl, rfl, rfl, (envEq_discard _ _ _ _).trans (envEq_reject _ _)⟩

theorem core_ite (c : Prop) [Decidable c] (a b : W) (ha : Core fk a) (hb : Core fk b) : Core fk (if c then a else b) := by
  split <;> assumption

/-- the pending-report function with the head report `Finished(who, key)` put back -/
def fkCons (fk : Nat → List Nat) (who key : Nat) : Nat → List Nat := fun x => if x = who then key :: fk x else fk x

theorem core_workerFinishedJob (w : W) (who key : Nat) (h : Core (fkCons fk who key) w) :
    Core fk (w.workerFinishedJob who key) := by
  unfold W.workerFinishedJob
  split
  · rename_i p hg
    have hpw : p.wid = who := getW_wid hg
    have hpm := getW_mem hg
    have hcp : Cpl p w.env (key :: fk who) := by
      have := h.sa p hpm
      rw [hpw] at this
      simpa [fkCons] using this
    have r := sres_workerComplete p w.env key (fk who) (h.slot p hpm).one hcp
    have hso := slotOk_inv.complete p w.env key (h.slot p hpm)
    cases hwc : p.workerComplete w.env key with
    | mk p' e' =>
      rw [hwc] at r hso
      simp only at r hso ⊢
      have h1 : Core fk { w with pool := setW w.pool who p', env := e' } :=
        core_slotUpdate (w' := { w with pool := setW w.pool who p', env := e' }) h (fun _ hx => by cases hx) hg r hso
          (r.prog (h.prog p hpm (by simp)))
          (fun x hx => by simp [fkCons, hx]) rfl rfl rfl
      have hg1 : getW (setW w.pool who p') who = some p' := getW_setW_same hg (r.wid.trans hpw)
      split
      · split
        · rename_i hnw
          exact core_removeSlot (w := { w with pool := setW w.pool who p', env := e' }) h1 hg1
            (curr_of_notWorking (by simpa using hnw)) rfl rfl rfl rfl
        · exact h1
      · apply core_ite
        · exact (core_tryRoute _ _ h1).frame (availChange_frame _ _ _).act
        · exact core_tryRoute _ _ h1
  · rename_i hg
    -- no such slot: no report of it can be waiting
    have hnw : ∀ q ∈ w.pool, q.wid ≠ who := by
      intro q hq hc
      exact getW_none_not_mem hg (List.mem_map.mpr ⟨q, hq, hc⟩)
    have := h.fin who hnw
    simp [fkCons] at this

theorem core_removeExpired (w : W) (h : Core fk w) : Core fk w.removeExpired := by
  unfold W.removeExpired
  split
  · refine h.frame ⟨rfl, rfl, rfl, ?_⟩
    simp only
    generalize expiredInOrder w.cfg w.env.now w.queue = ex
    generalize w.env = e
    induction ex generalizing e with
    | nil => exact EnvEq.refl _
    | cons x xs ih => exact (envEq_discard e _ _ x).trans (ih _)
  · exact h

theorem core_calcRest (w : W) (h : Core fk w) : Core fk w.calcRest := by
  unfold W.calcRest
  exact (core_removeExpired w h).frame ⟨rfl, rfl, rfl, EnvEq.refl _⟩

/-- every record gets new settings / a new handler: nothing the coupling looks at -/
theorem core_mapPool {w w' : W} (f : WP → WP) (h : Core fk w) (ha : ∀ p, (f p).actor = p.actor) (hw : ∀ p, (f p).wid = p.wid)
    (hc : ∀ p, (f p).curr = p.curr) (hm : ∀ p, (f p).mq = p.mq) (hso : ∀ p, SlotOk p → SlotOk (f p))
    (h1 : w'.pool = w.pool.map f) (h2 : w'.byActor = w.byActor) (h3 : w'.nextAid = w.nextAid)
    (h4 : EnvEq w.env w'.env) : Core fk w' := by
  refine ⟨?_, ?_, ?_, ?_, ?_, ?_, ?_, ?_, ?_, ?_⟩
  rotate_right
  · intro x hx hne; rw [h1] at hx
    obtain ⟨y, hy, rfl⟩ := List.mem_map.mp hx
    exact (h.prog y hy (by rw [← hw y]; exact hne)).keep (ha y) (hc y) (by rw [hm y]; exact id)
      (fun a g d => ⟨a, by rw [h4.getActor]; exact g, d⟩)
  · intro x hx; rw [h1] at hx
    obtain ⟨y, hy, rfl⟩ := List.mem_map.mp hx
    exact hso y (h.slot y hy)
  · rw [h1]; unfold NodupW
    rw [List.map_map]
    have : ((fun x => x.wid) ∘ f) = (fun x : WP => x.wid) := by funext x; exact hw x
    rw [this]; exact h.nodupW
  · intro aid a ha'; rw [h3]; rw [h4.getActor] at ha'; exact h.aidLt aid a ha'
  · intro aid ha'; rw [h4.sup] at ha'; rw [h4.getActor]; exact h.supDead aid ha'
  · intro x hx; rw [h1] at hx
    obtain ⟨y, hy, rfl⟩ := List.mem_map.mp hx
    rw [h2, ha, hw]; exact h.by1 y hy
  · intro x hx; rw [h2] at hx
    obtain ⟨q, hq, hqa, hqw⟩ := h.by2 x hx
    exact ⟨f q, by rw [h1]; exact List.mem_map_of_mem hq, (ha q).trans hqa, (hw q).trans hqw⟩
  · intro x hx; rw [h1] at hx
    obtain ⟨y, hy, rfl⟩ := List.mem_map.mp hx
    rw [hw]
    exact (h.sa y hy).keep (ha y) (hw y) (hc y) (h4.getActor _) h4.sup
  · intro aid a ha' hal hn
    rw [h4.getActor] at ha'
    exact h.free aid a ha' hal (fun q hq => by rw [← ha q]; exact hn (f q) (by rw [h1]; exact List.mem_map_of_mem hq))
  · intro x hn
    exact h.fin x (fun q hq => by rw [← hw q]; exact hn (f q) (by rw [h1]; exact List.mem_map_of_mem hq))

theorem core_updateSettings (w : W) (d : Option (Option (Nat × Mode))) (n : Option Nat) (h : Core fk w) :
    Core fk (w.updateSettings d n) := by
  unfold W.updateSettings
  have h1 : Core fk (match d with
      | some d => { w with pool := w.pool.map (fun p => { p with disc := w.workerDiscard d }), disc := d }
      | none => w) := by
    cases d with
    | none => exact h
    | some d =>
      exact core_mapPool (fun p => { p with disc := w.workerDiscard d }) h (fun _ => rfl) (fun _ => rfl) (fun _ => rfl)
        (fun _ => rfl) (fun p hp => slotOk_inv.disc p _ hp) rfl rfl rfl (EnvEq.refl _)
  cases n with
  | none => exact h1
  | some n => exact core_resizePool _ n h1

theorem core_afterReplace (w : W) (wid : Nat) (h : Core fk w) : Core fk (w.afterReplace wid) := by
  unfold W.afterReplace
  cases hret : w.retireIdleDrainingWorker wid with
  | some w2 =>
    simp only
    unfold W.retireIdleDrainingWorker at hret
    split at hret
    · rename_i p hg
      split at hret
      · rename_i hc
        simp only [Option.some.injEq] at hret; subst hret
        have hnw : ¬ (p.isWorking = true) := by
          simp only [Bool.and_eq_true, Bool.not_eq_eq_eq_not, Bool.not_true] at hc
          rw [hc.2]; exact Bool.false_ne_true
        exact core_removeSlot h hg (curr_of_notWorking hnw) rfl rfl rfl rfl
      · simp at hret
    · simp at hret
  | none =>
    simp only
    apply core_ite
    · exact (core_tryRoute _ _ h).frame (availChange_frame _ _ _).act
    · exact core_tryRoute _ _ h


/-! ## Worker replacement -/

/-- the supervision event of actor `who` is taken from the queue; no slot refers to it -/
theorem core_dropSup {w0 w : W} {who : Nat} {rest : List Nat} (h : Core fk w0) (hs : w0.env.sup = who :: rest)
    (hno : ∀ p ∈ w0.pool, p.actor ≠ who)
    (h1 : w.pool = w0.pool) (h2 : w.byActor = w0.byActor) (h3 : w.nextAid = w0.nextAid)
    (h4 : w.env.actors = w0.env.actors) (h5 : w.env.sup = rest) : Core fk w := by
  have hga : ∀ b, w.env.getActor b = w0.env.getActor b := fun b => by unfold Env.getActor; rw [h4]
  refine ⟨h.slot.of_pool h1, by rw [h1]; exact h.nodupW, ?_, ?_, ?_, ?_, ?_, ?_, ?_, ?_⟩
  rotate_right
  · intro p hp hne; rw [h1] at hp
    exact (h.prog p hp hne).keep rfl rfl id (fun a g d => ⟨a, by rw [hga]; exact g, d⟩)
  · intro aid a ha; rw [h3]; rw [hga] at ha; exact h.aidLt aid a ha
  · intro aid ha; rw [h5] at ha; rw [hga]; exact h.supDead aid (by rw [hs]; exact List.mem_cons_of_mem _ ha)
  · intro p hp; rw [h1] at hp; rw [h2]; exact h.by1 p hp
  · intro x hx; rw [h2] at hx; rw [h1]; exact h.by2 x hx
  · intro p hp
    rw [h1] at hp
    obtain ⟨a, g, hw, ha, hd⟩ := h.sa p hp
    refine ⟨a, by rw [hga]; exact g, hw, ha, ?_⟩
    intro hx
    obtain ⟨hm, hf⟩ := hd hx
    rw [hs] at hm
    rcases List.mem_cons.mp hm with hm | hm
    · exact absurd hm (hno p hp)
    · exact ⟨by rw [h5]; exact hm, hf⟩
  · intro aid a ha hal hn; rw [hga] at ha; rw [h1] at hn; exact h.free aid a ha hal hn
  · intro wid hn; rw [h1] at hn; exact h.fin wid hn

/-- the dead worker `who` of slot `wid` is replaced by a freshly built actor -/
theorem core_replace {w0 w1 : W} {who wid : Nat} {rest : List Nat} {p p1 : WP} (h : Core fk w0)
    (hs : w0.env.sup = who :: rest) (hg : getW w0.pool wid = some p) (hpa : p.actor = who)
    (hw1 : p1.wid = p.wid) (ha1 : p1.actor = w0.nextAid) (hc1 : p1.curr = []) (hso : SlotOk p1)
    (h1 : w1.pool = setW w0.pool wid p1)
    (h2 : w1.byActor = w0.byActor.filter (fun (x : Nat × Nat) => x.1 != who) ++ [(w0.nextAid, wid)])
    (h3 : w1.nextAid = w0.nextAid + 1)
    (h4 : w1.env = ({ w0.env with sup := rest } : Env).spawn wid w0.nextAid) : CoreE [wid] fk w1 := by
  have hpw : p.wid = wid := getW_wid hg
  have hp1w : p1.wid = wid := hw1.trans hpw
  have hpm : p ∈ w0.pool := getW_mem hg
  have hp1m : p1 ∈ w1.pool := by rw [h1]; exact mem_setW_self hg
  generalize he0 : ({ w0.env with sup := rest } : Env) = e0 at h4
  have hga0 : ∀ b, e0.getActor b = w0.env.getActor b := fun b => by subst he0; rfl
  have hsup1 : w1.env.sup = rest := by rw [h4]; subst he0; rfl
  have hnone : e0.getActor w0.nextAid = none := by
    rw [hga0]
    cases hx : w0.env.getActor w0.nextAid with
    | none => rfl
    | some x => exact absurd (h.aidLt _ x hx) (Nat.lt_irrefl _)
  -- the old actor is dead, so no report of the slot is pending
  obtain ⟨a, g, haw, hal, hdead⟩ := h.sa p hpm
  obtain ⟨a2, g2, hd2⟩ := h.supDead who (by rw [hs]; exact List.mem_cons_self ..)
  rw [hpa] at g
  rw [g] at g2; cases g2
  have hfk : fk wid = [] := by rw [← hpw]; exact (hdead hd2).2
  have hother : ∀ q ∈ w0.pool, q.wid ≠ wid → q.actor ≠ who := by
    intro q hq hne hqa
    have := h.actor_inj hq hpm (hqa.trans hpa.symm)
    subst this; exact hne hpw
  have hmem : ∀ q, q ∈ w1.pool → q = p1 ∨ (q ∈ w0.pool ∧ q.wid ≠ wid) := by
    intro q hq; rw [h1] at hq; exact mem_setW_ne h.nodupW hg hp1w hq
  have hold : ∀ b x, w0.env.getActor b = some x → w1.env.getActor b = some x := by
    intro b x hb; rw [h4]; exact getActor_spawn_old _ _ _ _ _ (by rw [hga0]; exact hb)
  refine ⟨h.slot.setW hso h1, by rw [h1]; exact nodupW_setW hp1w h.nodupW, ?_, ?_, ?_, ?_, ?_, ?_, ?_, ?_⟩
  rotate_right
  · intro q hq hne
    rcases hmem q hq with h' | ⟨h', _⟩
    · subst h'; exact absurd (List.mem_singleton.mpr hp1w) hne
    · exact (h.prog q h' (by simp)).keep rfl rfl id (fun x gx d => ⟨x, hold _ x gx, d⟩)
  · intro b x hb
    rw [h4] at hb; rw [h3]
    rcases getActor_spawn_inv _ _ _ _ _ hb with hb | ⟨_, hb, _⟩
    · rw [hga0] at hb; exact Nat.lt_succ_of_lt (h.aidLt b x hb)
    · rw [hb]; exact Nat.lt_succ_self _
  · intro b hb
    rw [hsup1] at hb
    obtain ⟨x, gx, hx⟩ := h.supDead b (by rw [hs]; exact List.mem_cons_of_mem _ hb)
    exact ⟨x, hold b x gx, hx⟩
  · intro q hq
    rw [h2]
    rcases hmem q hq with h' | ⟨h', hne⟩
    · subst h'; rw [ha1, hp1w]; exact List.mem_append_right _ (List.mem_singleton_self _)
    · refine List.mem_append_left _ (List.mem_filter.mpr ⟨h.by1 q h', ?_⟩)
      simpa using hother q h' hne
  · intro x hx
    rw [h2] at hx
    rcases List.mem_append.mp hx with hx | hx
    · obtain ⟨hx1, hx2⟩ := List.mem_filter.mp hx
      obtain ⟨q, hq, hqa, hqw⟩ := h.by2 x hx1
      have hne : q.wid ≠ wid := by
        intro hc
        have : q = p := nodupW_eq_of_wid h.nodupW hq hpm (hc.trans hpw.symm)
        subst this
        rw [← hqa, hpa] at hx2; simp at hx2
      exact ⟨q, by rw [h1]; exact mem_setW_of_ne hq hne, hqa, hqw⟩
    · simp only [List.mem_singleton] at hx; subst hx
      exact ⟨p1, hp1m, ha1, hp1w⟩
  · intro q hq
    rcases hmem q hq with h' | ⟨h', hne⟩
    · subst h'
      refine ⟨{ aid := w0.nextAid, wid := wid }, by rw [h4, ha1]; exact getActor_spawn_new _ _ _ hnone, hp1w.symm, ?_, ?_⟩
      · intro _; exact ⟨rfl, by rw [hc1, hp1w, hfk]; rfl⟩
      · intro hc; cases hc
    · obtain ⟨x, gx, hxw, hxa, hxd⟩ := h.sa q h'
      refine ⟨x, hold _ x gx, hxw, hxa, ?_⟩
      intro hx
      obtain ⟨hm, hf⟩ := hxd hx
      rw [hs] at hm
      rcases List.mem_cons.mp hm with hm | hm
      · exact absurd hm (hother q h' hne)
      · exact ⟨by rw [hsup1]; exact hm, hf⟩
  · intro b x hb hxl hn
    rw [h4] at hb
    rcases getActor_spawn_inv _ _ _ _ _ hb with hb | ⟨_, hb, _⟩
    · rw [hga0] at hb
      have hbw : b ≠ who := by
        intro hc; subst hc; rw [g] at hb; cases hb; rw [hd2] at hxl; cases hxl
      refine h.free b x hb hxl ?_
      intro q hq
      by_cases hqw : q.wid = wid
      · have : q = p := nodupW_eq_of_wid h.nodupW hq hpm (hqw.trans hpw.symm)
        subst this; rw [hpa]; exact fun hc => hbw hc.symm
      · exact hn q (by rw [h1]; exact mem_setW_of_ne hq hqw)
    · exact absurd (ha1.trans hb.symm) (hn p1 hp1m)
  · intro x hn
    have hx : x ≠ wid := fun hc => hn p1 hp1m (hp1w.trans hc.symm)
    refine h.fin x ?_
    intro q hq
    by_cases hqw : q.wid = wid
    · rw [hqw]; exact fun hc => hx hc.symm
    · exact hn q (by rw [h1]; exact mem_setW_of_ne hq hqw)

theorem setW_setW (pool : List WP) (wid : Nat) (p1 p' : WP) (h1 : p1.wid = wid) :
    setW (setW pool wid p1) wid p' = setW pool wid p' := by
  induction pool with
  | nil => rfl
  | cons x xs ih =>
    by_cases hx : (x.wid == wid) = true
    · have h1' : (p1.wid == wid) = true := by simp [h1]
      simp only [setW, hx, if_true, h1']
    · have hx' : (x.wid == wid) = false := by simpa using hx
      simp only [setW, hx', Bool.false_eq_true, if_false, ih]

theorem core_handleSupervisorEvt (w0 : W) (who : Nat) (rest : List Nat) (h : Core fk w0) (hs : w0.env.sup = who :: rest) :
    Core fk (({ w0 with env := { w0.env with sup := rest } } : W).handleSupervisorEvt who) := by
  unfold W.handleSupervisorEvt
  simp only
  split
  · rename_i hf
    refine core_dropSup h hs ?_ rfl rfl rfl rfl rfl
    intro p hp hpa
    have := List.find?_eq_none.mp hf _ (h.by1 p hp)
    simp [hpa] at this
  · rename_i x wid hf
    have hx1 : x = who := by
      have := List.find?_some hf
      simpa using this
    subst hx1
    have hxm : (x, wid) ∈ w0.byActor := List.mem_of_find?_eq_some hf
    obtain ⟨p, hpm, hpa, hpw⟩ := h.by2 _ hxm
    simp only at hpa hpw
    have hg : getW w0.pool wid = some p := by
      have := getW_of_mem_nodup hpm h.nodupW
      rw [hpw] at this; exact this
    rw [hg]
    simp only
    rw [replaceWorker_eq]
    generalize hp1 : ({ p with curr := [], pending := p.curr.foldl (fun acc x => acc.erase x.1) p.pending, actor := w0.nextAid } : WP) = p1
    have hp1w : p1.wid = p.wid := by subst hp1; rfl
    have hp1a : p1.actor = w0.nextAid := by subst hp1; rfl
    have hp1c : p1.curr = [] := by subst hp1; rfl
    have hso1 : SlotOk p1 := by
      refine ⟨by rw [hp1c]; simp, ?_⟩
      intro k
      subst hp1
      have hh := h.slot p hpm
      have := hh.tracks k
      have h1 := hh.one
      cases hc : p.curr with
      | nil => simp only [hc, keysCurr, keysMq, List.map_nil, List.count_nil, List.foldl_nil, Nat.zero_add] at this ⊢; exact this
      | cons y ys =>
        rw [hc] at h1
        have : ys = [] := by
          cases ys with
          | nil => rfl
          | cons _ _ => simp at h1
        subst this
        simp only [hc, keysCurr, keysMq, List.map_cons, List.map_nil, List.count_cons, List.count_nil, List.foldl_cons,
          List.foldl_nil] at this ⊢
        rw [count_erase_nat]
        by_cases hk : k = y.1
        · subst hk; simp only [if_true, beq_self_eq_true] at this ⊢; omega
        · have hy : (y.1 == k) = false := by simp; exact fun h' => hk h'.symm
          simp only [hk, if_false, hy, Bool.false_eq_true] at this ⊢; omega
    generalize he1 : (({ w0.env with sup := rest } : Env).spawn wid w0.nextAid) = e1
    -- the world with the fresh actor installed, before the next queued job is handed over
    have hc1 : CoreE [wid] fk { w0 with
        nextAid := w0.nextAid + 1, env := e1, pool := setW w0.pool wid p1
        byActor := w0.byActor.filter (fun (y : Nat × Nat) => y.1 != x) ++ [(w0.nextAid, wid)] } :=
      core_replace h hs hg hpa hp1w hp1a hp1c hso1 rfl rfl rfl he1.symm
    have hpw' : p.wid = wid := getW_wid hg
    have hg1 : getW (setW w0.pool wid p1) wid = some p1 := getW_setW_same hg (hp1w.trans hpw')
    have hcp1 : Cpl p1 e1 (fk wid) := by
      have := hc1.sa p1 (getW_mem hg1)
      rw [hp1w, hpw'] at this; exact this
    have r := sres_nextJob p1 e1 (fk wid) hp1c hcp1
    have hso' : SlotOk (p1.nextJob e1).1 := by
      have := slotOk_inv.replace p e1 w0.nextAid (h.slot p hpm)
      rw [replaceWorker_eq, hp1] at this; exact this
    have pn := prog_nextJob p1 e1 (fk wid) hcp1
    cases hnj : p1.nextJob e1 with
    | mk p' e' =>
      rw [hnj] at r hso' pn
      simp only at r hso' ⊢
      apply core_afterReplace
      refine core_slotUpdate (w := { w0 with
        nextAid := w0.nextAid + 1, env := e1, pool := setW w0.pool wid p1
        byActor := w0.byActor.filter (fun (y : Nat × Nat) => y.1 != x) ++ [(w0.nextAid, wid)] }) hc1
        (fun y hy => by simpa using hy) hg1 r hso' pn
        (fun _ _ => rfl) ?_ rfl rfl
      exact (setW_setW w0.pool wid p1 p' (hp1w.trans hpw')).symm


/-! ## The factory actor's loop -/

def fkOf (inbox : List FMsg) : Nat → List Nat := fun x => finKeys x inbox

theorem fkOf_finished (who key : Nat) (rest : List FMsg) :
    fkOf (.finished who key :: rest) = fkCons (fkOf rest) who key := by
  funext x
  simp only [fkOf, finKeys, fkCons]
  by_cases hx : x = who
  · subst hx; simp
  · have : (who == x) = false := by simp; exact fun h => hx h.symm
    simp [this, hx]

theorem handleMsg_inbox (w : W) (m : FMsg) : (w.handleMsg m).inbox = w.inbox := by
  cases m with
  | dispatch j => exact (ctl_dispatch w j).inbox
  | finished who key => exact (ctl_workerFinishedJob w who key).inbox
  | adjust n => exact (ctl_resizePool w n).inbox
  | updateSettings d n => exact (ctl_updateSettings w d n).inbox
  | setHandler hd => rfl
  | drainRequests => rfl
  | calculate =>
    show (if w.cfg.hasCC && w.armed then { w with armed := false, blocked := true } else w.calcRest).inbox = _
    split
    · rfl
    · exact (ctl_calcRest w).inbox
  | getQueueDepth => rfl
  | getNumActiveWorkers => rfl
  | getAvailableCapacity => rfl

theorem core_handleMsg (w : W) (m : FMsg) (rest : List FMsg) (h : Core (fkOf (m :: rest)) w) :
    Core (fkOf rest) (w.handleMsg m) := by
  cases m with
  | dispatch j => exact core_dispatch w j h
  | finished who key =>
    rw [fkOf_finished] at h
    exact core_workerFinishedJob w who key h
  | adjust n => exact core_resizePool w n h
  | updateSettings d n => exact core_updateSettings w d n h
  | setHandler hd =>
    exact core_mapPool (fun p => { p with handler := hd }) (fk := fkOf rest) h (fun _ => rfl) (fun _ => rfl) (fun _ => rfl)
      (fun _ => rfl) (fun p hp => slotOk_inv.handler p _ hp) rfl rfl rfl (envEq_emit _ _)
  | drainRequests => exact Core.frame (fk := fkOf rest) h ⟨rfl, rfl, rfl, envEq_emit _ _⟩
  | calculate =>
    show Core (fkOf rest) (if w.cfg.hasCC && w.armed then { w with armed := false, blocked := true } else w.calcRest)
    split
    · exact Core.frame (fk := fkOf rest) h ⟨rfl, rfl, rfl, EnvEq.refl _⟩
    · exact core_calcRest w h
  | getQueueDepth => exact Core.frame (fk := fkOf rest) h ⟨rfl, rfl, rfl, EnvEq.refl _⟩
  | getNumActiveWorkers => exact Core.frame (fk := fkOf rest) h ⟨rfl, rfl, rfl, EnvEq.refl _⟩
  | getAvailableCapacity => exact Core.frame (fk := fkOf rest) h ⟨rfl, rfl, rfl, EnvEq.refl _⟩

theorem isDrained_act (w : W) : ActFrame w w.isDrained.2 ∧ w.isDrained.2.inbox = w.inbox ∧ w.isDrained.2.stopped = w.stopped := by
  unfold W.isDrained
  split
  · exact ⟨ActFrame.refl _, rfl, rfl⟩
  · exact ⟨ActFrame.refl _, rfl, rfl⟩
  · split
    · exact ⟨⟨rfl, rfl, rfl, EnvEq.refl _⟩, rfl, rfl⟩
    · exact ⟨ActFrame.refl _, rfl, rfl⟩

theorem afterHandle_act (w : W) : ActFrame w w.afterHandle ∧ w.afterHandle.inbox = w.inbox ∧ w.afterHandle.stopped = w.stopped := by
  unfold W.afterHandle
  split
  · exact ⟨ActFrame.refl _, rfl, rfl⟩
  · obtain ⟨f, hi, hs⟩ := isDrained_act w
    cases hd : w.isDrained with
    | mk d w2 =>
      rw [hd] at f hi hs
      simp only at f hi hs ⊢
      split
      · exact ⟨f.trans ⟨rfl, rfl, rfl, EnvEq.refl _⟩, hi, hs⟩
      · exact ⟨f, hi, hs⟩

/-- the invariant of a run: the factory has entered `post_stop` (it hands out nothing any more)
or bookkeeping and actors agree -/
def J (w : W) : Prop := w.stopped = true ∨ Core (fkOf w.inbox) w

theorem j_loopStep (w w' : W) (h : J w) (hl : w.loopStep = some w') : J w' := by
  unfold W.loopStep at hl
  split at hl
  · simp at hl
  · rename_i hsb
    have hst : w.stopped = false := by
      cases hx : w.stopped with
      | false => rfl
      | true => simp [hx] at hsb
    have hc : Core (fkOf w.inbox) w := by
      rcases h with h | h
      · rw [hst] at h; cases h
      · exact h
    split at hl
    · simp only [Option.some.injEq] at hl; subst hl; left; rfl
    · split at hl
      · rename_i who rest hsup
        simp only [Option.some.injEq] at hl; subst hl
        right
        have hi := (ctl_handleSupervisorEvt ({ w with env := { w.env with sup := rest } } : W) who).inbox
        rw [hi]
        exact core_handleSupervisorEvt w who rest hc hsup
      · split at hl
        · rename_i m rest hin
          simp only [Option.some.injEq] at hl; subst hl
          right
          obtain ⟨f, hi, _⟩ := afterHandle_act (W.handleMsg { w with inbox := rest } m)
          rw [hi, handleMsg_inbox]
          refine Core.frame ?_ f
          apply core_handleMsg
          rw [hin] at hc
          exact Core.frame (fk := fkOf (m :: rest)) hc ⟨rfl, rfl, rfl, EnvEq.refl _⟩
        · simp at hl

/-- an actor's record changes in a way the coupling cannot see -/
theorem core_actorSame {w w' : W} {a a' : Actor} (h : Core fk w) (g : w.env.getActor a'.aid = some a)
    (hw : a'.wid = a.wid) (hal : a'.alive = a.alive) (hs : a'.stopReq = a.stopReq) (hh : a'.heldJobs = a.heldJobs)
    (h1 : w'.pool = w.pool) (h2 : w'.byActor = w.byActor) (h3 : w'.nextAid = w.nextAid)
    (h4 : EnvEq (w.env.setActor a') w'.env) : Core fk w' := by
  have st := envStep_setActor w.env a a' g hal
  have gs := getActor_setActor_self w.env a a' g
  have hga : ∀ b, w'.env.getActor b = (w.env.setActor a').getActor b := fun b => h4.getActor b
  have hsup : w'.env.sup = w.env.sup := h4.sup.trans st.sup
  refine ⟨h.slot.of_pool h1, by rw [h1]; exact h.nodupW, ?_, ?_, ?_, ?_, ?_, ?_, ?_, ?_⟩
  rotate_right
  · intro q hq hne
    rw [h1] at hq
    by_cases hqa : q.actor = a'.aid
    · refine (h.prog q hq hne).keep rfl rfl id ?_
      intro x gx d
      rw [hqa, g] at gx; cases gx
      exact ⟨a', by rw [hga, hqa]; exact gs, hal.trans d⟩
    · exact (h.prog q hq hne).keep rfl rfl id (fun x gx d => ⟨x, by rw [hga, st.other _ hqa]; exact gx, d⟩)
  · intro b x hb
    rw [h3]; rw [hga] at hb
    by_cases hba : b = a'.aid
    · subst hba; exact h.aidLt _ a g
    · rw [st.other b hba] at hb; exact h.aidLt b x hb
  · intro b hb
    rw [hsup] at hb
    obtain ⟨x, gx, hx⟩ := h.supDead b hb
    by_cases hba : b = a'.aid
    · subst hba; rw [g] at gx; cases gx
      exact ⟨a', by rw [hga]; exact gs, hal.trans hx⟩
    · exact ⟨x, by rw [hga, st.other b hba]; exact gx, hx⟩
  · intro p hp; rw [h1] at hp; rw [h2]; exact h.by1 p hp
  · intro x hx; rw [h2] at hx; rw [h1]; exact h.by2 x hx
  · intro p hp
    rw [h1] at hp
    by_cases hpa : p.actor = a'.aid
    · obtain ⟨x, gx, hxw, hxa, hxd⟩ := h.sa p hp
      rw [hpa, g] at gx; cases gx
      refine ⟨a', by rw [hga, hpa]; exact gs, hw.trans hxw, ?_, ?_⟩
      · intro hx; rw [hs, hh]; exact hxa (hal.symm.trans hx)
      · intro hx; rw [hsup]; exact hxd (hal.symm.trans hx)
    · exact (h.sa p hp).keep rfl rfl rfl (by rw [hga]; exact st.other _ hpa) hsup
  · intro b x hb hxl hn
    rw [hga] at hb; rw [h1] at hn
    by_cases hba : b = a'.aid
    · subst hba; rw [gs] at hb; cases hb
      rw [hh, hs]
      exact h.free _ a g (hal.symm.trans hxl) hn
    · rw [st.other b hba] at hb; exact h.free b x hb hxl hn
  · intro wid hn; rw [h1] at hn; exact h.fin wid hn

theorem core_settleOne (w : W) (aid : Nat) (h : Core fk w) : Core fk { w with env := w.env.settleOne aid } := by
  unfold Env.settleOne
  cases g : w.env.getActor aid with
  | none => exact h
  | some a =>
    simp only
    have haid := getActor_aid g
    split
    · exact h
    · rename_i hcond
      have hal : a.alive = true := by
        cases hx : a.alive with
        | true => rfl
        | false => simp [hx] at hcond
      have hrun : a.running = none := by
        cases hx : a.running with
        | none => rfl
        | some j => simp [hx] at hcond
      split
      · rename_i hstop
        -- a worker told to stop is no slot's worker: its exit is nobody's stale completion
        refine core_die (w' := { w with env := w.env.die aid }) h aid ?_ rfl rfl rfl rfl
        intro p hp hpa
        obtain ⟨x, gx, _, hxa, _⟩ := h.sa p hp
        rw [hpa, g] at gx; cases gx
        have := (hxa hal).1
        rw [hstop] at this; cases this
      · split
        · exact h
        · rename_i j rest hm
          generalize ha' : ({ a with running := some j, mailbox := rest } : Actor) = a'
          have haid' : a'.aid = aid := by subst ha'; exact haid
          refine core_actorSame (a := a) (a' := a') h (by rw [haid']; exact g) (by subst ha'; rfl) (by subst ha'; rfl)
            (by subst ha'; rfl) ?_ rfl rfl rfl (envEq_emit _ _)
          subst ha'
          simp only [Actor.heldJobs, hrun, hm, List.nil_append, List.cons_append]

theorem core_settle (w : W) (h : Core fk w) : Core fk { w with env := w.env.settle } := by
  unfold Env.settle
  generalize w.env.actors.map (·.aid) = l
  have : ∀ (l : List Nat) (w : W), Core fk w → Core fk { w with env := l.foldl Env.settleOne w.env } := by
    intro l
    induction l with
    | nil => intro w h; exact h
    | cons x xs ih => intro w h; exact ih _ (core_settleOne w x h)
  exact this l w h

theorem j_runQ (fuel : Nat) (w : W) (h : J w) : J (W.runQ fuel w) := by
  induction fuel generalizing w with
  | zero => exact h
  | succ fuel ih =>
    unfold W.runQ
    cases hl : w.loopStep with
    | some w' => simp only; exact ih _ (j_loopStep w w' h hl)
    | none =>
      simp only
      have hs : J (W.tryFinishStop { w with env := w.env.settle }) := by
        unfold W.tryFinishStop
        rcases h with h | h
        · left; split <;> exact h
        · split
          · rename_i hc
            left
            simp only [Bool.and_eq_true] at hc
            exact hc.1.1
          · right; exact core_settle w h
      split
      · exact hs
      · exact ih _ hs

/-- a message that is no `Finished` report joins the factory's mailbox -/
theorem j_send (w : W) (m : FMsg) (hm : ∀ x, finKeys x [m] = []) (h : J w) : J (w.send m) := by
  unfold W.send
  split
  · exact h
  · rcases h with h | h
    · left; exact h
    · right
      have : fkOf (w.inbox ++ [m]) = fkOf w.inbox := by
        funext x; simp only [fkOf, finKeys_append, hm, List.append_nil]
      show Core (fkOf (w.inbox ++ [m])) _
      rw [this]
      exact h.frame ⟨rfl, rfl, rfl, EnvEq.refl _⟩

theorem j_frame {w w' : W} (h : J w) (f : ActFrame w w') (hi : w'.inbox = w.inbox) (hs : w'.stopped = w.stopped) : J w' := by
  rcases h with h | h
  · left; rw [hs]; exact h
  · right; rw [hi]; exact h.frame f

theorem j_advanceTo (t fuel : Nat) (w : W) (h : J w) : J (W.advanceTo t fuel w) := by
  induction fuel generalizing w with
  | zero => exact j_frame h ⟨rfl, rfl, rfl, ⟨rfl, rfl⟩⟩ rfl rfl
  | succ fuel ih =>
    unfold W.advanceTo
    split
    · simp only
      apply ih
      apply j_runQ
      apply j_send _ _ (fun _ => rfl)
      exact j_frame h ⟨rfl, rfl, rfl, ⟨rfl, rfl⟩⟩ rfl rfl
    · exact j_frame h ⟨rfl, rfl, rfl, ⟨rfl, rfl⟩⟩ rfl rfl


/-! ## Harness operations; the excluded histories -/

theorem staleKill_false {w : W} {aid : Nat} (hs : w.staleKill aid = false) (hst : Core (fkOf w.inbox) w) :
    ∀ p ∈ w.pool, p.actor = aid → fkOf w.inbox p.wid = [] := by
  intro p hp hpa
  obtain ⟨a, g, _, hal, hdead⟩ := hst.sa p hp
  rw [hpa] at g
  unfold W.staleKill at hs
  rw [g] at hs
  simp only [Bool.and_eq_false_imp] at hs
  cases hx : a.alive with
  | false => exact (hdead hx).2
  | true =>
    have := hs hx
    have h2 := List.any_eq_false.mp this p hp
    simp only [hpa, beq_self_eq_true, Bool.true_and, Bool.not_eq_true', Bool.not_eq_false] at h2
    simpa [fkOf] using h2

theorem j_emit (w : W) (ev : Ev) (h : J w) : J (w.emit ev) :=
  j_frame h ⟨rfl, rfl, rfl, envEq_emit _ _⟩ rfl rfl

theorem j_finish (w : W) (aid : Nat) (ok : Bool) (h : J w) : J (w.finish aid ok) := by
  unfold W.finish
  cases g : w.env.getActor aid with
  | none => exact h
  | some a =>
    simp only
    cases hr : a.running with
    | none => exact h
    | some j =>
      simp only
      split
      · exact h
      · rename_i hal0
        have hal : a.alive = true := by simpa using hal0
        have haid := getActor_aid g
        rcases h with h | h
        · left
          split
          · exact h
          · unfold W.send; simp only [h, if_true]
        · -- the actor runs a job: it is the worker of a slot that books exactly this job
          have hheld : a.heldJobs = j :: a.mailbox := by simp only [Actor.heldJobs, hr, List.cons_append, List.nil_append]
          have hslot : ∃ p ∈ w.pool, p.actor = aid := by
            apply Classical.byContradiction
            intro hc
            have := (h.free aid a g hal (fun p hp hpa => hc ⟨p, hp, hpa⟩)).1
            rw [hheld] at this; cases this
          obtain ⟨p, hp, hpa⟩ := hslot
          obtain ⟨x, gx, hxw, hxa, _⟩ := h.sa p hp
          rw [hpa, g] at gx; cases gx
          obtain ⟨hstop, heq⟩ := hxa hal
          have hone := (h.slot p hp).one
          have hlen : (p.curr.map (·.1)).length ≤ 1 := by simpa using hone
          rw [heq, hheld] at hlen
          simp only [List.map_cons, List.cons_append, List.length_cons, List.length_append, List.length_map] at hlen
          have hmb : a.mailbox = [] := List.eq_nil_of_length_eq_zero (by omega)
          have hfk : fkOf w.inbox p.wid = [] := List.eq_nil_of_length_eq_zero (by omega)
          split
          · -- the worker fails: it dies holding its job, no report of its slot is pending
            right
            refine core_die (w := w.emit (.died aid)) (h.frame ⟨rfl, rfl, rfl, envEq_emit _ _⟩) aid ?_ rfl rfl rfl rfl
            intro q hq hqa
            have : q = p := h.actor_inj hq hp (hqa.trans hpa.symm)
            subst this; exact hfk
          · -- the worker returns Ok: it reports `Finished(wid, key)` and is idle
            by_cases hst : w.stopped = true
            · left; unfold W.send; simp only [hst, if_true]
            · right
              have hst' : w.stopped = false := by simpa using hst
              unfold W.send
              simp only [hst', Bool.false_eq_true, if_false]
              generalize ha' : ({ a with running := none } : Actor) = a'
              have haid' : a'.aid = aid := by subst ha'; exact haid
              have hheld' : a'.heldJobs = [] := by subst ha'; simp only [Actor.heldJobs, hmb, List.append_nil]
              -- its own task has nothing to take next
              have hsettle : ∀ e : Env, e.getActor aid = some a' → e.settleOne aid = e := by
                intro e ge
                unfold Env.settleOne
                rw [ge]
                have h1 : a'.alive = true := by subst ha'; exact hal
                have h2 : a'.running = none := by subst ha'; rfl
                have h3 : a'.stopReq = false := by subst ha'; exact hstop
                have h4 : a'.mailbox = [] := by subst ha'; exact hmb
                simp [h1, h2, h3, h4]
              generalize he1 : (w.env.emit (.finishOk aid)).emit (.handled aid j.id) = e1
              have ge1 : e1.getActor a'.aid = some a := by subst he1; rw [haid']; exact g
              have gs := getActor_setActor_self e1 a a' ge1
              rw [haid'] at gs
              rw [hsettle _ gs]
              have st := envStep_setActor e1 a a' ge1 (by subst ha'; rfl)
              rw [haid'] at st
              have hsup : (e1.setActor a').sup = w.env.sup := by rw [st.sup]; subst he1; rfl
              have hoth : ∀ b, b ≠ aid → (e1.setActor a').getActor b = w.env.getActor b := by
                intro b hb; rw [st.other b hb]; subst he1; rfl
              have hfk' : ∀ x, fkOf (w.inbox ++ [.finished a.wid j.key]) x =
                  if x = a.wid then fkOf w.inbox x ++ [j.key] else fkOf w.inbox x := by
                intro x
                simp only [fkOf, finKeys_append, finKeys]
                by_cases hx : x = a.wid
                · subst hx; simp
                · have : (a.wid == x) = false := by simp; exact fun h => hx h.symm
                  simp [this, hx]
              refine ⟨h.slot.of_pool rfl, h.nodupW, ?_, ?_, h.by1, h.by2, ?_, ?_, ?_, ?_⟩
              rotate_right
              · intro q hq hne
                simp only at hq ⊢
                by_cases hqa : q.actor = aid
                · refine (h.prog q hq hne).keep rfl rfl id ?_
                  intro x gx d
                  rw [hqa, g] at gx; cases gx
                  rw [hal] at d; cases d
                · exact (h.prog q hq hne).keep rfl rfl id (fun x gx d => ⟨x, by rw [hoth _ hqa]; exact gx, d⟩)
              · intro b y hb
                by_cases hba : b = aid
                · subst hba; exact h.aidLt _ a g
                · simp only at hb; rw [hoth b hba] at hb; exact h.aidLt b y hb
              · intro b hb
                simp only at hb ⊢
                rw [hsup] at hb
                obtain ⟨y, gy, hy⟩ := h.supDead b hb
                by_cases hba : b = aid
                · subst hba; rw [g] at gy; cases gy; rw [hal] at hy; cases hy
                · exact ⟨y, by rw [hoth b hba]; exact gy, hy⟩
              · intro q hq
                simp only at hq ⊢
                by_cases hqa : q.actor = aid
                · have : q = p := h.actor_inj hq hp (hqa.trans hpa.symm)
                  subst this
                  refine ⟨a', by rw [hqa]; exact gs, by subst ha'; exact hxw, ?_, ?_⟩
                  · intro _
                    refine ⟨by subst ha'; exact hstop, ?_⟩
                    rw [hfk', hxw, if_pos rfl, hfk, hheld', heq, hheld, hmb, hfk]
                    rfl
                  · intro hx; subst ha'; rw [hal] at hx; cases hx
                · have hqw : q.wid ≠ a.wid := by
                    intro hc
                    have : q = p := nodupW_eq_of_wid h.nodupW hq hp (hc.trans hxw)
                    subst this; exact hqa hpa
                  rw [hfk', if_neg hqw]
                  exact (h.sa q hq).keep rfl rfl rfl (hoth _ hqa) hsup
              · intro b y hb hyl hn
                simp only at hb hn
                by_cases hba : b = aid
                · subst hba; exact absurd hpa (hn p hp)
                · rw [hoth b hba] at hb; exact h.free b y hb hyl hn
              · intro x hn
                simp only at hn
                have hx : x ≠ a.wid := fun hc => hn p hp (hxw.symm.trans hc.symm)
                rw [hfk', if_neg hx]
                exact h.fin x hn

theorem j_release_tail (w0 : W) (n : Nat) (h0 : J w0) :
    J ((if w0.poolSize != n then w0.resizePool n else w0).calcRest.afterHandle) := by
  have h1 : J (if w0.poolSize != n then w0.resizePool n else w0) := by
    split
    · rcases h0 with h0 | h0
      · left; rw [(ctl_resizePool w0 n).stopped]; exact h0
      · right; rw [(ctl_resizePool w0 n).inbox]; exact core_resizePool w0 n h0
    · exact h0
  generalize (if w0.poolSize != n then w0.resizePool n else w0) = w1 at h1
  have h2 : J w1.calcRest := by
    rcases h1 with h1 | h1
    · left; rw [(ctl_calcRest w1).stopped]; exact h1
    · right; rw [(ctl_calcRest w1).inbox]; exact core_calcRest w1 h1
  obtain ⟨f, hi, hs⟩ := afterHandle_act w1.calcRest
  exact j_frame h2 f hi hs

theorem j_applyOp (w : W) (op : Op) (h : J w) (hns : op.isStaleAt w = false) : J (w.applyOp op) := by
  cases op with
  | dispatch id key hash ttl acc =>
    simp only [W.applyOp]
    split
    · exact h
    · exact j_send _ _ (fun _ => rfl) (j_emit _ _ h)
  | finish aid ok => exact j_finish w aid ok h
  | kill aid =>
    simp only [W.applyOp]
    rcases h with h | h
    · left; exact h
    · right
      refine core_die (w := w.emit (.died aid)) (h.frame ⟨rfl, rfl, rfl, envEq_emit _ _⟩) aid ?_ rfl rfl rfl rfl
      exact staleKill_false (w := w) hns h
  | resize n => exact j_send _ _ (fun _ => rfl) (j_emit _ _ h)
  | settings d n =>
    simp only [W.applyOp]
    apply j_send _ _ (fun _ => rfl)
    cases d with
    | none => cases n with
      | none => exact h
      | some n => exact j_emit _ _ h
    | some d => cases n with
      | none => exact j_emit _ _ h
      | some n => exact j_emit _ _ (j_emit _ _ h)
  | drain => exact j_send _ _ (fun _ => rfl) (j_emit _ _ h)
  | setHandler hd => exact j_send _ _ (fun _ => rfl) (j_emit _ _ h)
  | advance => exact h
  | block => exact j_frame h ⟨rfl, rfl, rfl, EnvEq.refl _⟩ rfl rfl
  | release n =>
    simp only [W.applyOp]
    split
    · exact j_release_tail ({ w.emit (.released n) with blocked := false } : W) n
        (j_frame h ⟨rfl, rfl, rfl, envEq_emit _ _⟩ rfl rfl)
    · exact h
  | nop => exact h

theorem j_ask (w : W) (m : FMsg) (hm : ∀ x, finKeys x [m] = []) (h : J w) : J (w.ask m) := by
  unfold W.ask
  split
  · exact j_frame h ⟨rfl, rfl, rfl, EnvEq.refl _⟩ rfl rfl
  · simp only
    have h1 := j_runQ RUN_FUEL _ (j_send w m hm h)
    split
    · exact j_frame h1 ⟨rfl, rfl, rfl, EnvEq.refl _⟩ rfl rfl
    · exact h1

theorem j_queries (w : W) (h : J w) : J w.queries := by
  unfold W.queries
  split
  · exact j_frame h ⟨rfl, rfl, rfl, EnvEq.refl _⟩ rfl rfl
  · exact j_ask _ _ (fun _ => rfl) (j_ask _ _ (fun _ => rfl) (j_ask _ _ (fun _ => rfl)
      (j_frame h ⟨rfl, rfl, rfl, EnvEq.refl _⟩ rfl rfl)))

theorem j_stepOp (w : W) (op : Op) (t0 tq te : Nat) (h : J w)
    (hns : op.isStaleAt (W.advanceTo t0 (advanceFuel w t0) w) = false) : J (w.stepOp op t0 tq te) := by
  unfold W.stepOp
  simp only
  generalize hw1 : W.advanceTo t0 (advanceFuel w t0) w = w1 at hns
  have h1 : J w1 := by rw [← hw1]; exact j_advanceTo _ _ _ h
  generalize hw2 : W.runQ RUN_FUEL (w1.applyOp op) = w2
  have h2 : J w2 := by rw [← hw2]; exact j_runQ _ _ (j_applyOp _ _ h1 hns)
  generalize hw3 : W.advanceTo tq (advanceFuel w2 tq) w2 = w3
  have h3 : J w3 := by rw [← hw3]; exact j_advanceTo _ _ _ h2
  generalize hw4 : w3.queries = w4
  have h4 : J w4 := by rw [← hw4]; exact j_queries _ h3
  generalize hw5 : W.advanceTo te (advanceFuel w4 te) w4 = w5
  have h5 : J w5 := by rw [← hw5]; exact j_advanceTo _ _ _ h4
  exact j_frame h5 ⟨rfl, rfl, rfl, envEq_emit _ _⟩ rfl rfl

theorem j_runSteps (w : W) (steps : List Step) (h : J w) (hns : noStaleRun w steps = true) : J (w.runSteps steps) := by
  induction steps generalizing w with
  | nil => exact h
  | cons s rest ih =>
    unfold noStaleRun at hns
    simp only [Bool.and_eq_true, Bool.not_eq_eq_eq_not, Bool.not_true] at hns
    unfold W.runSteps
    exact ih _ (j_stepOp w s.op s.t0 s.tq s.te h hns.1) hns.2

theorem j_init (c : CaseCfg) : J (init c) := by
  right
  unfold init
  simp only
  generalize hw0 : ({
    cfg := c.cfg, poolSize := 0, pool := [], byActor := [], avail := [], inQ := [], last := 0
    rl := c.rl.map fun (r : Nat × Nat × Nat × Nat) =>
      let lc : LeakyBucket.Cfg := ⟨r.1, r.2.1, r.2.2.1, 10 ^ 40⟩
      (lc, LeakyBucket.new lc (some r.2.2.2) 0)
    queue := [], disc := c.disc, drain := .notDraining
    handler := if c.cfg.hasHandler then some 0 else none
    env := { actors := [], log := [], now := 0, sup := [] }
    nextAid := 0, stopSignal := false, stopped := false, inbox := [], blocked := false, armed := false
    nextCalc := CALCULATE_FREQUENCY, answers := [], lastWq := none } : W) = w0
  have hi0 : w0.inbox = [] := by subst hw0; rfl
  have h0 : Core (fkOf []) w0 := by
    subst hw0
    refine ⟨?_, List.nodup_nil, ?_, ?_, ?_, ?_, ?_, ?_, ?_, ?_⟩
    rotate_right
    · intro p hp; cases hp
    · intro p hp; cases hp
    · intro aid a ha; simp [Env.getActor] at ha
    · intro aid ha; cases ha
    · intro p hp; cases hp
    · intro x hx; cases hx
    · intro p hp; cases hp
    · intro aid a ha; simp [Env.getActor] at ha
    · intro _ _; rfl
  have h1 := core_growPool w0 c.n h0
  have hi1 : (w0.growPool c.n).inbox = [] := by
    have : ∀ (l : List Nat) (w : W) (f : W → Nat → Nat), (l.foldl (fun w i => w.growOne (f w i)) w).inbox = w.inbox := by
      intro l
      induction l with
      | nil => intro w f; rfl
      | cons x xs ih => intro w f; simp only [List.foldl_cons]; rw [ih]; exact (ctl_growOne w _).inbox
    unfold W.growPool
    rw [this _ _ (fun w i => w.poolSize + i)]
    exact hi0
  show Core (fkOf (W.emit { w0.growPool c.n with poolSize := c.n } (.hook .started)).inbox) _
  have : (W.emit { w0.growPool c.n with poolSize := c.n } (.hook .started)).inbox = [] := hi1
  rw [this]
  exact h1.frame ⟨rfl, rfl, rfl, envEq_emit _ _⟩

/-- (F4 excluded) bookkeeping and worker actors agree after every run without a stale completion -/
theorem j_always (c : CaseCfg) (steps : List Step) (hns : noStaleRun (init c) steps = true) :
    J ((init c).runSteps steps) :=
  j_runSteps _ steps (j_init c) hns


/-! ## What the coupling says about the worker actors -/

/-- a live actor that holds a job is the worker of a slot that books exactly this job; it holds
nothing else and no report of the slot is pending -/
theorem Core.held_booked {w : W} (h : Core fk w) {aid : Nat} {a : Actor} {j : Job} (g : w.env.getActor aid = some a)
    (hal : a.alive = true) (hj : j ∈ a.heldJobs) :
    a.heldJobs = [j] ∧ ∃ p ∈ w.pool, p.actor = aid ∧ p.wid = a.wid ∧ p.curr.map (·.1) = [j.key] ∧ fk p.wid = [] := by
  have hslot : ∃ p ∈ w.pool, p.actor = aid := by
    apply Classical.byContradiction
    intro hc
    have := (h.free aid a g hal (fun p hp hpa => hc ⟨p, hp, hpa⟩)).1
    rw [this] at hj; cases hj
  obtain ⟨p, hp, hpa⟩ := hslot
  obtain ⟨x, gx, hxw, hxa, _⟩ := h.sa p hp
  rw [hpa, g] at gx; cases gx
  obtain ⟨_, heq⟩ := hxa hal
  have hone := (h.slot p hp).one
  have hlen : (p.curr.map (·.1)).length ≤ 1 := by simpa using hone
  rw [heq] at hlen
  simp only [List.length_append, List.length_map] at hlen
  have hpos : 0 < a.heldJobs.length := List.length_pos_of_mem hj
  have hfk : fk p.wid = [] := List.eq_nil_of_length_eq_zero (by omega)
  have hheld : a.heldJobs = [j] := by
    cases hh : a.heldJobs with
    | nil => rw [hh] at hj; cases hj
    | cons y ys =>
      rw [hh] at hlen hj
      have : ys = [] := List.eq_nil_of_length_eq_zero (by simp only [List.length_cons] at hlen; omega)
      subst this
      simp only [List.mem_singleton] at hj
      rw [hj]
  refine ⟨hheld, p, hp, hpa, hxw.symm, ?_, hfk⟩
  rw [heq, hheld, hfk]; rfl

theorem Core.held_le_one {w : W} (h : Core fk w) {aid : Nat} {a : Actor} (g : w.env.getActor aid = some a)
    (hal : a.alive = true) : a.heldJobs.length ≤ 1 := by
  cases hh : a.heldJobs with
  | nil => simp
  | cons j js =>
    have := (h.held_booked g hal (j := j) (by rw [hh]; exact List.mem_cons_self ..)).1
    rw [hh] at this
    rw [this]; simp

/-- J at the instant an operation is applied -/
theorem j_at (c : CaseCfg) (steps : List Step) (t : Nat) (hns : noStaleRun (init c) steps = true) :
    J (W.advanceTo t (advanceFuel ((init c).runSteps steps) t) ((init c).runSteps steps)) :=
  j_advanceTo _ _ _ (j_always c steps hns)

theorem J.core {w : W} (h : J w) (hs : w.stopped = false) : Core (fkOf w.inbox) w := by
  rcases h with h | h
  · rw [hs] at h; cases h
  · exact h

end Factory
