import RactorModel.Model.Registry

/-!
# The constructor window of `ActorCell::new` as two ops of the `Registry` model (C10, E-THR)

`Registry.step (.register a n)` is the whole constructor region (name insert and pid insert in one
atomic op). In the cluster build the constructor has a schedule point `new.reg_pid` between its two
registry operations; when a random E-THR schedule leaves a thread parked there, the harness logs
the two halves separately:

* `regNameOnly s a n`  `registry::register(n, cell)` alone: the answers of `register`, but on `.ok`
                       the pid table is left as it was (the cell exists, owns the name, is not yet
                       known to `where_is_pid`).
* `regPidOnly s a`     `pid_registry::register_pid(a)` of a cell that sits in the window.

This file is the executable reference of the replay only (no theorems here); the interleaving
theorems about the window are those of `Model/RegistryConc`.
-/

namespace Registry

/-- the name half of `ActorCell::new(Some n)` -/
def regNameOnly (s : State) (a n : Nat) : State × Obs :=
  match step false s (.register a n) with
  | (s', .ok) => ({ s' with pids := s.pids }, .ok)
  | r => r

/-- is `a` a cell between the two registry operations of its constructor? -/
def inWindow (s : State) (a : Nat) : Bool :=
  match getA s a with
  | some x => !x.remote && x.status == 0 && !s.pids.contains a
  | none => false

/-- the pid half of `ActorCell::new` -/
def regPidOnly (s : State) (a : Nat) : State × Obs :=
  if inWindow s a then ({ s with pids := s.pids ++ [a] }, .ok) else (s, .bad)

/-- `register_pid` notifies the listeners after a successful insert -/
def regPidEvents (s : State) (a : Nat) : List (Bool × Nat) :=
  if (regPidOnly s a).2 == .ok then [(true, a)] else []

/-- `okPids` with its third clause ("every live local actor is in the pid table") waived for the
cells `win` that are inside the constructor window; the other two clauses are unchanged. -/
def okPidsW (win : List Nat) (v : View) : Bool :=
  match v.pids with
  | none => true
  | some ps =>
    ps.Pairwise (· ≠ ·) &&
    (ps.all fun a => v.actors.any fun x => x.id == a && !x.remote && decide (x.status < stopped)) &&
    (v.actors.all fun x => win.contains x.id || x.remote || decide (x.status ≥ stopping) || ps.contains x.id)

/-- a cell inside the window is NOT in the pid table (the name insert comes first) -/
def okWindow (win : List Nat) (v : View) : Bool :=
  match v.pids with
  | none => true
  | some ps => win.all fun a => !ps.contains a

/-- `failing` for a view taken while the cells `win` are inside the window: identical to
`Registry.failing` when `win = []`. -/
def failingW (win : List Nat) (v : View) : List String :=
  (if okUnique v then [] else ["two-entries-for-one-name"]) ++
  (if okHolder v then [] else ["where-is-returns-stopped-or-foreign-actor"]) ++
  (if okVisible v then [] else ["live-actor-lost-its-name"]) ++
  (if okOneLive v then [] else ["two-live-actors-one-name"]) ++
  (if okPidsW win v then [] else ["pid-table"]) ++
  (if okPidEvents v then [] else ["pid-event-for-a-rejected-or-remote-cell"])

end Registry
