import RactorModel.Model.PidRegistry
import Driver.Common

/-! Driver for the `PidRegistry` model (C10, engine `pidmon`: hcluster `registry_cl --mode pid`).

  `case`                              new case: fresh model state, then `spawn 900` (hidden supervisor)
  `spawn k ok|fail <flavour>`         `[spawn k]` / `[spawn k, exitBegin k, exitEnd k]`   → `ok` | `fail`
  `spawnremote k`                     `[remote k]`                                        → `ok`
  `exit k how`                        `[exitBegin k, exitEnd k]`                          → `ok`
  `exitbegin k` / `exitend k`         `[exitBegin k]` / `[exitEnd k]`                     → `ok`
  `monitor k` / `demonitor k`         `[monitor k]` / `[demonitor k]`                     → `ok`
  `getall`                            → `pids …`          `whereis k` → `found` | `none`

impl line: `<ans> | pids=… mons=… actors=k:L|R:phase,… found=… ev=to:S|T:who,…` (events grouped by
recipient, in the order that recipient handled them). The oracle is `PidRegistry.failingStep` on the
implementation's own views around the op and the events its listeners handled, plus
`PidRegistry.failingHist` on all events handled so far in the case.
-/

namespace Driver.PidRegistry
open _root_.PidRegistry Driver

structure DState where
  s : State := init
  prev : Option View := none      -- previous implementation view in this case
  hist : List Ev := []            -- every event the implementation's listeners handled in this case

def sortNats (l : List Nat) : List Nat := (l.toArray.qsort (· < ·)).toList

/-- group by recipient (ascending), keeping each recipient's own order -/
def groupEvs (l : List Ev) : List Ev :=
  let tos := sortNats (l.map (·.to)).eraseDups
  tos.flatMap (fun m => l.filter (·.to == m))

def showEvs (l : List Ev) : String :=
  if l.isEmpty then "-" else ",".intercalate (l.map fun e => s!"{e.to}:{if e.spawn then "S" else "T"}:{e.who}")

def showView (v : View) (evs : List Ev) : String :=
  let acts := (v.actors.toArray.qsort (fun a b => a.id < b.id)).toList
  let as := if acts.isEmpty then "-" else ",".intercalate (acts.map fun x =>
    s!"{x.id}:{if x.remote then "R" else "L"}:{x.phase}")
  s!"pids={showNats (sortNats v.pids)} mons={showNats (sortNats v.mons)} actors={as} found={showNats (sortNats v.found)} ev={showEvs (groupEvs evs)}"

def parseActor? (e : String) : Option Actor :=
  match splitOnChar e ':' with
  | [k, r, ph] => do pure ⟨← k.toNat?, r == "R", ← ph.toNat?⟩
  | _ => none

def parseEv? (e : String) : Option Ev :=
  match splitOnChar e ':' with
  | [t, k, w] => do
    if k != "S" && k != "T" then none
    pure ⟨← t.toNat?, k == "S", ← w.toNat?⟩
  | _ => none

def field? (w pre : String) : Option String :=
  if w.startsWith pre then some (w.drop pre.length).toString else none

def parseView? (s : String) : Option (View × List Ev) :=
  match words s with
  | [ps, ms, as, fs, es] => do
    let ps ← field? ps "pids="
    let ms ← field? ms "mons="
    let as ← field? as "actors="
    let fs ← field? fs "found="
    let es ← field? es "ev="
    let pids ← natList? ps
    let mons ← natList? ms
    let actors ← if as == "-" then some [] else (splitOnChar as ',').mapM parseActor?
    let found ← natList? fs
    let evs ← if es == "-" then some [] else (splitOnChar es ',').mapM parseEv?
    pure ({ pids, mons, actors, found }, evs)
  | _ => none

def splitImpl (impl : String) : String × String :=
  match impl.splitOn " | " with
  | [a, v] => (a.trimAscii.toString, v.trimAscii.toString)
  | _ => (impl, "")

/-- model ops and the model's answer for one op line -/
def modelOps (s : State) (w : List String) : Option (List Op × String) :=
  match w with
  | "spawn" :: k :: how :: _ => do
    let k ← k.toNat?
    if known s k then pure ([], "bad")
    else if how == "fail" then pure ([.spawn k, .exitBegin k, .exitEnd k], "fail")
    else pure ([.spawn k], "ok")
  | ["spawnremote", k] => do
    let k ← k.toNat?
    if known s k then pure ([], "bad") else pure ([.remote k], "ok")
  | ["exit", k, _] => do
    let k ← k.toNat?
    if known s k then pure (exitOps k, "ok") else pure ([], "noactor")
  | ["exitbegin", k] => do
    let k ← k.toNat?
    if known s k then pure ([.exitBegin k], "ok") else pure ([], "noactor")
  | ["exitend", k] => do
    let k ← k.toNat?
    if known s k then pure ([.exitEnd k], "ok") else pure ([], "noactor")
  | ["monitor", k] => do
    let k ← k.toNat?
    if known s k then pure ([.monitor k], "ok") else pure ([], "noactor")
  | ["demonitor", k] => do
    let k ← k.toNat?
    if known s k then pure ([.demonitor k], "ok") else pure ([], "noactor")
  | ["getall"] =>
    match obs s .getAll with
    | .pids l => some ([.getAll], s!"pids {showNats (sortNats l)}")
    | _ => none
  | ["whereis", k] => do
    let k ← k.toNat?
    pure ([.whereIs k], if whereIsPid s k then "found" else "none")
  | _ => none

/-- The oracle on the implementation's own observations: the ops of one line are judged one after the
other; for the one multi-event macro (`spawn k fail`) the view between the registration and the exit
is the view before plus the new live local actor, and the handled events are split by kind. -/
def judge (before : View) (ops : List Op) (after : View) (evs : List Ev) : List String :=
  match ops with
  | [.spawn k, .exitBegin _, .exitEnd _] =>
    let mid : View := { before with pids := before.pids ++ [k], actors := before.actors ++ [⟨k, false, 0⟩],
                                    found := before.found ++ [k] }
    failingStep before (.spawn k) mid (evs.filter (·.spawn)) ++
    failingStep mid (.exitBegin k) after (evs.filter (!·.spawn))
  | [] => failingStep before .getAll after evs
  | op :: _ => failingStep before op after evs

def step (d : DState) (op impl : String) : DState × StepOut :=
  let w := words op
  let (ians, iv) := splitImpl impl
  let pv := parseView? iv
  match w with
  | "case" :: _ =>
    let s := _root_.PidRegistry.step init (.spawn 900)
    let orc := match pv with
      | some (v, evs) => judge (view init) [.spawn 900] v evs
      | none => ["unparsable-view"]
    ({ s, prev := pv.map (·.1), hist := [] }, { model := s!"ok | {showView (view s) []}", oracle := orc })
  | _ =>
    match modelOps d.s w with
    | none => (d, { model := "bad-op" })
    | some (ops, ans) =>
      let s' := run d.s ops
      let mevs := dtrace d.s ops
      let stale := d.s.mons.any (fun m => !alive d.s m)
      let (orc, hist) := match pv, d.prev with
        | some (v, evs), some p =>
          let hist := d.hist ++ evs
          let orcQ := match w with
            | ["getall"] =>
              if ians == s!"pids {showNats (sortNats (vLiveLocals v))}" then [] else ["get-all-pids-not-live-locals"]
            | ["whereis", k] =>
              match k.toNat? with
              | some k => if (ians == "found") == vLiveLocal v k then [] else ["where-is-pid-disagrees"]
              | none => []
            | _ => []
          (judge p ops v evs ++ failingHist hist ++ orcQ, hist)
        | _, _ => (["unparsable-view"], d.hist)
      let exitsMonitor := ops.any fun
        | .exitBegin a => d.s.mons.contains a && alive d.s a
        | _ => false
      ({ s := s', prev := pv.map (·.1), hist },
       { model := s!"{ans} | {showView (view s') mevs}",
         oracle := orc.eraseDups,
         nontrivial := !mevs.isEmpty || exitsMonitor || (stale && !(trace d.s ops).isEmpty) })

def run (ops impl : Array String) : IO Tally :=
  replay ({} : DState) step ops impl

end Driver.PidRegistry
