//! C15 (bucket clause) correspondence harness, E-PURE: drives the real
//! `LeakyBucketRateLimiter::{new, check, bump}` on tokio's paused clock and records every
//! call with the observed result, balance and (through the `verif` accessor) refill deadline.
//!
//! usage: factory_pure --seed S --cases N --out DIR [--replay-ops f1,f2,..] [--only-replay 1]
//!
//! ops:  `lbnew <refill> <interval_ns> <max|-> <initial|-> <now_ns> <inst_lim_ns> <MAX_LB_BALANCE>`
//!                                             -> `bal=<b> dl=<ns|none>`
//!       `lbcheck <now_ns>`                    -> `<true|false> bal=<b> dl=<ns|none>`
//!       `lbbump`                              -> `bal=<b> dl=<ns|none>`
//! All times are nanosecond offsets from the harness' first `Instant::now()`.

use hutil::{Args, Log, Rng, Stats};
use ractor::factory::ratelim::{LeakyBucketRateLimiter, RateLimiter, MAX_LB_BALANCE};
use std::time::Duration;
use tokio::time::Instant;

/// Largest `d` with `t0.checked_add(d).is_some()` (the platform's `Instant` range), found by
/// bisection on seconds, then on nanoseconds.
fn instant_limit(t0: Instant) -> Duration {
    let ok = |d: Duration| t0.checked_add(d).is_some();
    let (mut lo, mut hi) = (0u64, u64::MAX); // lo ok, hi maybe
    if ok(Duration::new(hi, 0)) {
        lo = hi;
    } else {
        while hi - lo > 1 {
            let mid = lo + (hi - lo) / 2;
            if ok(Duration::new(mid, 0)) {
                lo = mid;
            } else {
                hi = mid;
            }
        }
    }
    let (mut nlo, mut nhi) = (0u32, 1_000_000_000u32);
    while nhi - nlo > 1 {
        let mid = nlo + (nhi - nlo) / 2;
        if ok(Duration::new(lo, mid)) {
            nlo = mid;
        } else {
            nhi = mid;
        }
    }
    Duration::new(lo, nlo)
}

fn dur_ns(ns: u128) -> Duration {
    Duration::new((ns / 1_000_000_000) as u64, (ns % 1_000_000_000) as u32)
}

struct Ctx {
    t0: Instant,
    lim: u128,
    log: Log,
    st: Stats,
}

impl Ctx {
    fn now_ns(&self) -> u128 {
        Instant::now().saturating_duration_since(self.t0).as_nanos()
    }
    fn obs(&self, l: &LeakyBucketRateLimiter) -> String {
        let dl = match l.verif_deadline() {
            Some(d) => d.saturating_duration_since(self.t0).as_nanos().to_string(),
            None => "none".into(),
        };
        format!("bal={} dl={}", l.balance, dl)
    }
}

async fn one_case(cx: &mut Ctx, rng: &mut Rng, corner: Option<(usize, u128, Option<usize>, Option<usize>)>) {
    let um = usize::MAX;
    let refills = [0usize, 1, 1, 2, 3, 7, 1000, um / 2, um - 1, um];
    let now = cx.now_ns();
    let room = cx.lim - now; // largest interval that keeps the first deadline representable
    let dmax = Duration::MAX.as_nanos();
    let intervals: [u128; 16] = [
        0,
        1,
        999,
        500_000,
        1_000_000,
        1_000_000,
        100_000_000,
        1_000_000_000,
        3_600_000_000_000,
        room,
        room + 1,
        room - 1_000_000,
        (u64::MAX as u128 / 2) * 1_000_000_000,
        dmax,
        dmax - 1,
        7_777_777,
    ];
    let maxes = [None, Some(0usize), Some(1), Some(1), Some(2), Some(10), Some(MAX_LB_BALANCE), Some(um), Some(1000)];
    let (refill, interval, max, initial) = match corner {
        Some(c) => c,
        None => {
            let max = *rng.pick(&maxes);
            let m = max.unwrap_or(MAX_LB_BALANCE);
            let initials = [None, Some(0usize), Some(1), Some(m), Some(m.saturating_add(5)), Some(um), Some(m / 2)];
            (*rng.pick(&refills), *rng.pick(&intervals), max, *rng.pick(&initials))
        }
    };
    let mut l = LeakyBucketRateLimiter::builder()
        .refill(refill)
        .interval(dur_ns(interval))
        .maybe_max(max)
        .maybe_initial(initial)
        .build();
    let show = |o: Option<usize>| o.map(|v| v.to_string()).unwrap_or_else(|| "-".into());
    cx.st.bump("lbnew");
    cx.st.bump(match interval {
        0 => "interval_zero",
        i if i < 1_000_000 => "interval_sub_ms",
        i if i > 1_000_000_000_000_000 => "interval_huge",
        _ => "interval_normal",
    });
    if refill >= um / 2 {
        cx.st.bump("refill_huge");
    }
    if refill == 0 {
        cx.st.bump("refill_zero");
    }
    cx.log.rec(
        format!("lbnew {refill} {interval} {} {} {now} {} {MAX_LB_BALANCE}", show(max), show(initial), cx.lim),
        cx.obs(&l),
    );
    let n_calls = rng.range(4, 40);
    // arrival pattern for this case
    let pattern = rng.below(6);
    let base: u128 = if interval == 0 || interval > 1_000_000_000_000_000 { 1_000_000 } else { interval };
    for _ in 0..n_calls {
        // advance the virtual clock
        let adv: u128 = match pattern {
            0 => 0,                                              // burst at one instant
            1 => rng.below(3) as u128,                           // nanosecond steps
            2 => base / 3 + rng.below(5) as u128,                // sub-interval steps
            3 => base * rng.range(0, 3) as u128 + rng.below(2) as u128 * (base / 2), // whole/half intervals
            4 => {
                if rng.chance(1, 5) {
                    base * rng.range(1, 1000) as u128 + rng.below(1000) as u128
                } else {
                    rng.below(base as u64 + 1) as u128
                }
            }
            _ => *rng.pick(&[0u128, 1, base - 1, base, base + 1, 2 * base - 1, 2 * base, 10 * base + 7, 3_000_000_000_000_000]),
        };
        let adv = adv.min(4_000_000_000_000_000); // keep the tokio clock far away from its own range
        if adv > 0 {
            tokio::time::advance(dur_ns(adv)).await;
        }
        match rng.below(10) {
            0..=5 => {
                // the router's pattern: check, and bump when admitted (mostly)
                let r = l.check();
                cx.st.bump(if r { "check_true" } else { "check_false" });
                cx.log.rec(format!("lbcheck {}", cx.now_ns()), format!("{r} {}", cx.obs(&l)));
                if r && rng.chance(9, 10) {
                    l.bump();
                    cx.st.bump("bump");
                    cx.log.rec("lbbump", cx.obs(&l));
                }
            }
            6..=7 => {
                let r = l.check();
                cx.st.bump(if r { "check_true" } else { "check_false" });
                cx.log.rec(format!("lbcheck {}", cx.now_ns()), format!("{r} {}", cx.obs(&l)));
            }
            _ => {
                l.bump();
                cx.st.bump("bump_unchecked");
                cx.log.rec("lbbump", cx.obs(&l));
            }
        }
    }
}

/// Re-execute recorded op lines (times are absolute offsets; the clock is advanced to them).
async fn replay_file(cx: &mut Ctx, path: &str) {
    let txt = std::fs::read_to_string(path).unwrap_or_default();
    let mut cur: Option<LeakyBucketRateLimiter> = None;
    let opt = |s: &str| -> Option<usize> { if s == "-" { None } else { s.parse().ok() } };
    for line in txt.lines() {
        let w: Vec<&str> = line.split_whitespace().collect();
        match w.as_slice() {
            ["lbnew", refill, interval, max, initial, now, ..] => {
                let now: u128 = now.parse().unwrap_or(0);
                let cur_now = cx.now_ns();
                if now > cur_now {
                    tokio::time::advance(dur_ns(now - cur_now)).await;
                }
                let (max, initial) = (opt(max), opt(initial));
                let l = LeakyBucketRateLimiter::builder()
                    .refill(refill.parse().unwrap_or(0))
                    .interval(dur_ns(interval.parse().unwrap_or(0)))
                    .maybe_max(max)
                    .maybe_initial(initial)
                    .build();
                let show = |o: Option<usize>| o.map(|v| v.to_string()).unwrap_or_else(|| "-".into());
                cx.log.rec(
                    format!("lbnew {refill} {interval} {} {} {} {} {MAX_LB_BALANCE}", show(max), show(initial), cx.now_ns(), cx.lim),
                    cx.obs(&l),
                );
                cur = Some(l);
            }
            ["lbcheck", now] => {
                if let Some(l) = cur.as_mut() {
                    let now: u128 = now.parse().unwrap_or(0);
                    let cur_now = cx.now_ns();
                    if now > cur_now {
                        tokio::time::advance(dur_ns(now - cur_now)).await;
                    }
                    let r = l.check();
                    cx.log.rec(format!("lbcheck {}", cx.now_ns()), format!("{r} {}", cx.obs(l)));
                }
            }
            ["lbbump"] => {
                if let Some(l) = cur.as_mut() {
                    l.bump();
                    cx.log.rec("lbbump", cx.obs(l));
                }
            }
            _ => {}
        }
    }
}

fn main() {
    let args = Args::parse();
    let seed = args.u64("seed", 1);
    let cases = if args.u64("only-replay", 0) == 1 { 0 } else { args.u64("cases", 300) };
    let replay = args.str("replay-ops", "");
    let out = args.str("out", "/tmp/factory-pure-out");
    let rt = tokio::runtime::Builder::new_current_thread().enable_time().start_paused(true).build().unwrap();
    rt.block_on(async move {
        let t0 = Instant::now();
        let lim = instant_limit(t0).as_nanos();
        let mut cx = Ctx { t0, lim, log: Log::create(std::path::Path::new(&out)).unwrap(), st: Stats::default() };
        let mut rng = Rng::new(seed);
        for f in replay.split(',').filter(|s| !s.is_empty()) {
            replay_file(&mut cx, f).await;
        }
        let only_replay = cases == 0 && !replay.is_empty();
        // fixed corners first: the repo's own unit-test vectors and the saturation corners
        let um = usize::MAX;
        let dmax = Duration::MAX.as_nanos();
        let corners: Vec<(usize, u128, Option<usize>, Option<usize>)> = vec![
            (1, 100_000_000, None, Some(1)),
            (1, 100_000_000, Some(1), Some(1)),
            (um, 0, Some(2), Some(um)),
            (1, 500_000, Some(10), Some(0)),
            (1, dmax, Some(10), Some(0)),
            (um, 1, None, Some(0)),
            (um, 1, Some(um), Some(um)),
            (um / 2 + 1, 1, Some(um), Some(um - 1)),
            (0, 1_000_000, Some(5), Some(5)),
            (3, 1_000_000, Some(0), None),
            (1, 0, Some(3), Some(0)),
        ];
        for c in corners {
            if only_replay {
                break;
            }
            one_case(&mut cx, &mut rng, Some(c)).await;
        }
        for _ in 0..cases {
            let mut r = rng.fork();
            one_case(&mut cx, &mut r, None).await;
        }
        cx.st.write_json(&cx.log.dir.join("stats.json"));
        cx.log.finish();
    });
}
