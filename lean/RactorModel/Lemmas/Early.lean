import RactorModel.Model.Early

namespace Early

/-- invariant of runs in which nothing but casts, drains and a successful start happens -/
structure UInv (s : S) : Prop where
  noStop : s.stopReq = false
  noKill : s.killReq = false
  split : s.handled ++ s.queue = s.accepted
  un : s.phase = .unstarted → s.handled = [] ∧ s.drainCalled = s.marker ∧ s.marker = s.markerSent ∧ s.closed = s.drainCalled
  sg : s.phase = .starting → s.handled = [] ∧ s.drainCalled = s.marker ∧ s.marker = s.markerSent ∧ s.closed = s.drainCalled
  ru : s.phase = .running → s.queue = [] ∧ s.markerSent = false ∧ s.closed = false ∧ s.drainCalled = false
  st : s.phase = .stopped → s.queue = [] ∧ s.reason = some "T:Drained" ∧ s.drainCalled = true

theorem uinv_init : UInv ({} : S) := by
  constructor <;> simp

def okOp : Op → Bool
  | .cast => true | .drain => true | .poll ok => ok | .enter => true | _ => false

theorem uinv_finishStart (s : S) (h : UInv s) (hp : s.phase = .unstarted ∨ s.phase = .starting) :
    UInv (finishStart s true).1 := by
  obtain ⟨h1, h2, h3, h4, h4', h5, h6⟩ := h
  have hh : s.handled = [] ∧ s.drainCalled = s.marker ∧ s.marker = s.markerSent ∧ s.closed = s.drainCalled := by
    rcases hp with hp | hp
    · exact h4 hp
    · exact h4' hp
  cases hm : s.marker <;> simp [finishStart, hm, h1, h2] <;> constructor <;> simp_all

theorem uinv_step (s : S) (op : Op) (h : UInv s) (hop : okOp op = true) : UInv (step s op).1 := by
  cases op with
  | stop => simp [okOp] at hop
  | kill => simp [okOp] at hop
  | cast =>
    obtain ⟨h1, h2, h3, h4, h4', h5, h6⟩ := h
    cases hp : s.phase <;> cases hc : s.closed <;>
      simp [step, hp, hc] <;> constructor <;> simp_all <;> grind
  | drain =>
    obtain ⟨h1, h2, h3, h4, h4', h5, h6⟩ := h
    cases hp : s.phase <;> cases hm : s.markerSent <;>
      simp [step, hp, hm] <;> constructor <;> simp_all
  | enter =>
    obtain ⟨h1, h2, h3, h4, h4', h5, h6⟩ := h
    cases hp : s.phase
    · simp [step, hp, h2]; constructor <;> simp_all
    · simp [step, hp]; exact ⟨h1, h2, h3, h4, h4', h5, h6⟩
    · simp [step, hp]; exact ⟨h1, h2, h3, h4, h4', h5, h6⟩
    · simp [step, hp]; exact ⟨h1, h2, h3, h4, h4', h5, h6⟩
  | poll ok =>
    simp [okOp] at hop
    subst hop
    cases hp : s.phase
    · simp only [step, hp]; exact uinv_finishStart s h (Or.inl hp)
    · simp only [step, hp]; exact uinv_finishStart s h (Or.inr hp)
    · obtain ⟨h1, h2, h3, h4, h4', h5, h6⟩ := h
      cases hj : s.joined <;> simp [step, hp, hj] <;> constructor <;> simp_all
    · obtain ⟨h1, h2, h3, h4, h4', h5, h6⟩ := h
      cases hj : s.joined <;> simp [step, hp, hj] <;> constructor <;> simp_all

theorem uinv_fold (ops : List Op) (hops : ∀ op ∈ ops, okOp op = true) :
    ∀ s, UInv s → UInv (ops.foldl (fun s op => (step s op).1) s) := by
  induction ops with
  | nil => intro s h; exact h
  | cons op t ih =>
    intro s h
    exact ih (fun o ho => hops o (by simp [ho])) _ (uinv_step s op h (hops op (by simp)))

theorem undisturbed_iff (ops : List Op) : undisturbed ops = true ↔ ∀ op ∈ ops, okOp op = true := by
  unfold undisturbed
  rw [List.all_eq_true]
  constructor <;> intro h op ho <;> have := h op ho <;> cases op <;> simp_all [okOp]

/-- the start has run to its end (or failed): neither `Unstarted` nor parked in `pre_start` -/
def started (s : S) : Prop := s.phase = .running ∨ s.phase = .stopped

theorem finishStart_started (s : S) (ok : Bool) : started (finishStart s ok).1 := by
  unfold finishStart started
  simp only
  split
  · simp
  · split
    · simp
    · split <;> simp

/-- once started (or failed to start) an actor is never `Unstarted` or `Starting` again -/
theorem started_stays (s : S) (op : Op) (h : started s) : started (step s op).1 := by
  unfold started at *
  rcases h with hp | hp <;> cases op <;> simp [step, hp] <;> (try split) <;> simp_all

theorem poll_starts (s : S) (ok : Bool) : started (step s (.poll ok)).1 := by
  cases hp : s.phase
  · simp only [step, hp]; exact finishStart_started s ok
  · simp only [step, hp]; exact finishStart_started s ok
  · exact started_stays s _ (Or.inl hp)
  · exact started_stays s _ (Or.inr hp)

theorem started_fold (ops : List Op) : ∀ s : S, started s →
    started (ops.foldl (fun s op => (step s op).1) s) := by
  induction ops with
  | nil => intro s h; exact h
  | cons op t ih => intro s h; exact ih _ (started_stays s op h)

theorem polled_fold (ops : List Op) (ok : Bool) (hmem : Op.poll ok ∈ ops) : ∀ s : S,
    started (ops.foldl (fun s op => (step s op).1) s) := by
  induction ops with
  | nil => simp at hmem
  | cons op t ih =>
    intro s
    rcases List.mem_cons.mp hmem with rfl | hm
    · exact started_fold t _ (poll_starts s ok)
    · exact ih hm _

/-- every cast issued after a drain returned is refused — for ALL op sequences -/
theorem refused_step (s : S) (op : Op) (h : s.refusedAfterDrain = true ∧ (s.drainCalled = true → s.closed = true)) :
    (step s op).1.refusedAfterDrain = true ∧ ((step s op).1.drainCalled = true → (step s op).1.closed = true) := by
  obtain ⟨h1, h2⟩ := h
  cases op with
  | cast =>
    cases hc : s.closed <;> cases hp : s.phase <;> cases hd : s.drainCalled <;> simp_all [step]
  | drain =>
    cases hp : s.phase <;> cases hm : s.markerSent <;> simp_all [step]
  | stop => cases hp : s.phase <;> simp_all [step]
  | kill => cases hp : s.phase <;> simp_all [step]
  | enter => cases hp : s.phase <;> cases hk : s.killReq <;> simp_all [step]
  | poll ok =>
    have hf : (finishStart s ok).1.refusedAfterDrain = true ∧
        ((finishStart s ok).1.drainCalled = true → (finishStart s ok).1.closed = true) := by
      unfold finishStart
      simp only
      split
      · exact ⟨h1, h2⟩
      · split
        · exact ⟨h1, h2⟩
        · split <;> exact ⟨h1, h2⟩
    cases hp : s.phase
    · simp only [step, hp]; exact hf
    · simp only [step, hp]; exact hf
    · cases hj : s.joined <;> simp_all [step]
    · cases hj : s.joined <;> simp_all [step]

theorem refused_fold (ops : List Op) : ∀ s : S,
    (s.refusedAfterDrain = true ∧ (s.drainCalled = true → s.closed = true)) →
    (ops.foldl (fun s op => (step s op).1) s).refusedAfterDrain = true := by
  induction ops with
  | nil => intro s h; exact h.1
  | cons op t ih => intro s h; exact ih _ (refused_step s op h)

end Early
