import RactorModel.Model.OutPort
import Driver.Common

/-! Driver for the `OutPort` model (C16). Ops as written by `harness/hcore/src/bin/outport.rs`:

  `case v1|v2 <n> <actors> [<k>]`      → `ok`   (the first k actors are held in pre_start)
  `release <actor>`                     → `ok`
  `pub <m>`                             → `ok`
  `sub <key> <actor> <conv>`            → v2 `ok` · v1 `held=<h> fin=<f> rx=<r>`
  `stop <actor>`                        → `ok`
  `grant port` / `grant <key>`          → `calls=<key:msg,…|-> done=<bool>` (+ v1 counts)
  `seq <key>`                           → `<o,o,…|->`   (oracle `C16.okV1/okV2` on the impl's sequence)
  `dispatch <ad> <dead> <subs> <batch>` → `<key:msg:ok,…|-> | <keys|->`
  `drop`                                → `ok`   (the port handle is dropped; afterwards `pub`/`sub` → `closed`,
                                          grants print no v1 counts and must end with `done=true`)

Converter `echo` = identity that, called with an original message `m` (`m < echoBase`, `m % 4 == 0`),
publishes `m + echoBase * (key + 1)` on the same port from inside the converter call: a publication
landing in the middle of the port task's / forwarding task's poll.
-/

namespace Driver.C16
open OutPort Driver

def echoBase : Nat := 100000

def convOf : String → Option (Nat → Option Nat)
  | "all" => some some
  | "even" => some fun m => if m % 2 == 0 then some m else none
  | "odd" => some fun m => if m % 2 == 1 then some m else none
  | "none" => some fun _ => none
  | "dbl" => some fun m => some (2 * m)
  | "m3" => some fun m => if m % 3 == 0 then some (m + 1000) else none
  | "echo" => some some
  | "dropper" => some some
  | "suicide" => some some
  | "from" => some some     -- `OutputPortSubscriberTrait::subscribe_to_port`: `|m| Some(O::from(m))`
  | _ => none

/-- what the oracle needs to know about one subscription, from the ops alone -/
structure SubInfo where
  key : Nat
  actor : Nat
  conv : Nat → Option Nat
  /-- number of `pub` ops before the `sub` op -/
  pstart : Nat
  /-- number of `pub` ops when its task was last granted (v1) -/
  grantedAt : Nat := 0
  /-- the forwarding task was reported done (v1) -/
  done : Bool := false
  /-- a converter call of this subscription produced `Some` while its actor was stopped:
  the send failed, the subscription must have been dropped -/
  rejected : Bool := false
  /-- converter calls of this subscription reported by the implementation in grants that began
  after its subscriber had stopped: the first one is how the port finds out; a second one means
  the stopped subscriber was not dropped -/
  callsAfterStop : Nat := 0
  /-- the converter publishes re-entrantly (kind `echo`) -/
  echo : Bool := false
  /-- the converter drops the port from inside a call (kind `dropper`) -/
  dropper : Bool := false
  /-- the converter makes its OWN subscriber refuse messages (`drain()`) from inside the call, before
  returning `Some` (kind `suicide`): the subscriber dies in the middle of a batch -/
  suicide : Bool := false
  /-- v1: at some grant the task was more than the ring capacity behind -/
  lagged : Bool := false

structure St where
  isV2 : Bool := false
  s2 : V2c Nat Nat := {}
  s1 : V1c Nat Nat := {}
  /-- the port handle has been dropped -/
  dropped : Bool := false
  /-- v1: publishers parked between `receiver_count()` and `tx.send` (E-THR point) -/
  pend : List Nat := []
  pubs : List Nat := []
  subs : List SubInfo := []
  stopped : List Nat := []
  /-- v2: something was enqueued since the port task last parked -/
  dirty : Bool := false
  /-- (key used in the ops, ordinal of the subscription in the model): they differ only in
  shrunk replays, where some `sub` ops were deleted -/
  keyMap : List (Nat × Nat) := []
  /-- subscriber actors still held in `pre_start`: their mailbox accepts messages (the model
  counts them as delivered) but nothing has been handled, so nothing can be observed yet -/
  heldActors : List Nat := []

/-- model ordinal of an op key -/
def St.toModel (st : St) (k : Nat) : Option Nat := (st.keyMap.find? (·.1 == k)).map (·.2)
/-- op key of a model ordinal -/
def St.toOp (st : St) (k : Nat) : Nat := ((st.keyMap.find? (·.2 == k)).map (·.1)).getD k

/-- what converter call `(op key, msg)` publishes re-entrantly (if the port is still there) -/
def St.echoOf (st : St) (opk m : Nat) : Option Nat :=
  match st.subs.find? (·.key == opk) with
  | some i => if i.echo && m < echoBase && m % 4 == 0 then some (m + echoBase * (opk + 1)) else none
  | none => none

/-- converter call `(op key, msg)` drops the port (kind `dropper`) -/
def St.dropsAt (st : St) (opk m : Nat) : Bool :=
  match st.subs.find? (·.key == opk) with
  | some i => i.dropper && m < echoBase && m % 8 == 4
  | none => false

/-- converter call `(op key, msg)` drains its own subscriber actor before it returns: that actor -/
def St.suicideAt (st : St) (opk m : Nat) : Option Nat :=
  match st.subs.find? (·.key == opk) with
  | some i => if i.suicide && m < echoBase && m % 8 == 6 then some i.actor else none
  | none => none

def St.pre2 (st : St) (km : Nat × Nat) : List (Op2c Nat Nat) :=
  ((st.suicideAt (st.toOp km.1) km.2).map fun a => Op2c.op (.exit a)).toList
def St.pre1 (st : St) (km : Nat × Nat) : List (Op1c Nat Nat) :=
  ((st.suicideAt (st.toOp km.1) km.2).map fun a => Op1c.op (.exit a)).toList

/-- the subscriber actors that drained themselves during the converter calls of a grant -/
def St.suicides (st : St) (cs : List (Nat × Nat)) : List Nat :=
  cs.filterMap fun km => st.suicideAt km.1 km.2

/-- the port operations a model call performs re-entrantly (model ordinal → op key) -/
def St.re2 (st : St) (c : Call Nat) : List (Op2c Nat Nat) :=
  ((st.echoOf (st.toOp c.key) c.msg).map fun m => Op2c.op (.publish m)).toList ++
    (if st.dropsAt (st.toOp c.key) c.msg then [.drop] else [])

def St.re1 (st : St) (c : Call Nat) : List (Op1c Nat Nat) :=
  ((st.echoOf (st.toOp c.key) c.msg).map fun m => Op1c.op (.publish m)).toList ++
    (if st.dropsAt (st.toOp c.key) c.msg then [.drop] else [])

/-- Walk through the converter calls of a grant in order: the publications made from inside
them (none once the port is gone) and whether the port is gone afterwards. -/
def St.scanCalls (st : St) (cs : List (Nat × Nat)) : List Nat × Bool :=
  cs.foldl (fun (acc : List Nat × Bool) km =>
    let (ech, gone) := acc
    let ech := match st.echoOf km.1 km.2 with
      | some m => if gone then ech else ech ++ [m]
      | none => ech
    (ech, gone || st.dropsAt km.1 km.2)) ([], st.dropped)

def showCalls (st : St) (cs : List (Call Nat)) : String :=
  if cs.isEmpty then "-" else ",".intercalate (cs.map fun c => s!"{st.toOp c.key}:{c.msg}")

def showCallsOk (cs : List (Call Nat)) : String :=
  if cs.isEmpty then "-" else ",".intercalate (cs.map fun c => s!"{c.key}:{c.msg}:{if c.ok then 1 else 0}")

def v1Counts (st : V1 Nat Nat) : String :=
  let held := st.fwds.filter (·.held)
  s!"held={held.length} fin={(held.filter (·.ended)).length} rx={(st.fwds.filter (!·.ended)).length}"

/-- fuel for running a task to its parking point: every step consumes a queue entry, a
subscriber of a segment or a message of a segment -/
def fuelOf (st : St) : Nat := 1000 + 64 * (st.pubs.length + st.subs.length + 4) * (st.subs.length + 4)

def oracleSeq (st : St) (key : Nat) (impl : String) : List String :=
  match st.subs.find? (·.key == key), natList? impl with
  | some i, some got =>
    let after := st.pubs.drop i.pstart
    let alive := !st.stopped.contains i.actor
    let v := judge i.conv after got
    if st.isV2 then
      (if v.subseq then [] else ["subsequence"]) ++
      (if v.pre then [] else ["prefix"]) ++
      (if !(alive && !st.dirty) || v.exact then [] else [if st.dropped then "drop-complete" else "complete"])
    else
      -- caught up: parked with nothing left to read, or returned on `Closed` after the drop
      let parked := i.grantedAt == st.pubs.length && (!i.done || st.dropped)
      (if v.subseq then [] else ["subsequence"]) ++
      (if !(alive && parked) || recentOk ringCap i.conv after got then [] else ["recent"]) ++
      -- dropped port, task returned, subscriber alive, never more than the ring behind: everything
      (if !(alive && parked && st.dropped && i.done && !i.lagged) || v.exact then [] else ["drop-complete"])
  | none, _ => []
  | _, none => ["unparsable"]

/-- `calls=<k:m,…>` of the implementation's observation of a grant -/
def parseCalls? (impl : String) : Option (List (Nat × Nat)) :=
  match (words impl).find? (·.startsWith "calls=") with
  | none => none
  | some w =>
    let body := (w.drop 6).toString
    if body == "-" then some []
    else (splitOnChar body ',').mapM fun p =>
      match splitOnChar p ':' with
      | [k, m] => do pure (← k.toNat?, ← m.toNat?)
      | _ => none

/-- (dropped) judged on the implementation's own converter calls: once a send to a stopped
subscriber has failed, that subscription's converter is never called again. Returns the
updated bookkeeping and the violations. -/
def oracleCalls (st : St) (impl : String) : List SubInfo × List String :=
  match parseCalls? impl with
  | none => (st.subs, ["unparsable"])
  | some cs =>
    cs.foldl (fun (acc : List SubInfo × List String) (km : Nat × Nat) =>
      let (subs, bad) := acc
      match subs.find? (·.key == km.1) with
      | none => (subs, bad ++ ["unknown-subscription"])
      | some i =>
        let bad := if i.rejected then bad ++ ["dead-dropped"] else bad
        let isStopped := st.stopped.contains i.actor
        let bad := if isStopped && i.callsAfterStop ≥ 1 then bad ++ ["stopped-not-dropped"] else bad
        let rej := (i.conv km.2).isSome && isStopped
        (subs.map fun j => if j.key == km.1 then
            { j with rejected := j.rejected || rej,
                     callsAfterStop := j.callsAfterStop + (if isStopped then 1 else 0) } else j, bad))
      (st.subs, [])

/-- `id:key:conv` -/
def parseSpec? (s : String) : Option (Sub Nat Nat) :=
  match splitOnChar s ':' with
  | [i, k, c] => do
    let i ← i.toNat?; let k ← k.toNat?; let c ← convOf c
    pure { key := k, actor := i, conv := c, pos := 0 }
  | _ => none

def parseItem? (s : String) : Option (Cmd Nat Nat) :=
  if s.startsWith "d" then (s.drop 1).toString.toNat?.map Cmd.data
  else if s.startsWith "s" then (parseSpec? (s.drop 1).toString).map Cmd.sub
  else none

def listOf? {α} (s : String) (f : String → Option α) : Option (List α) :=
  if s == "-" then some [] else (splitOnChar s ',').mapM f

/-- run `dispatch_batch`: the model's port task from the start of the batch until the
batch is finished -/
def finishBatch : Nat → V2 Nat Nat → List (Call Nat) → V2 Nat Nat × List (Call Nat)
  | 0, st, acc => (st, acc)
  | fuel + 1, st, acc =>
    match st.pc with
    | .disp .. =>
      let (st', c) := st.task
      finishBatch fuel st' (acc ++ c.toList)
    | _ => (st, acc)

def step (st : St) (op impl : String) : St × StepOut :=
  match words op with
  | ["case", v, _, _] =>
    ({ isV2 := v == "v2", s2 := V2c.init Nat Nat true, s1 := V1c.init Nat Nat ringCap }, { model := "ok" })
  | ["case", v, _, _, k] =>
    ({ isV2 := v == "v2", s2 := V2c.init Nat Nat true, s1 := V1c.init Nat Nat ringCap,
       heldActors := List.range (k.toNat?.getD 0) }, { model := "ok", nontrivial := true })
  | ["release", a] =>
    match a.toNat? with
    | some a => ({ st with heldActors := st.heldActors.filter (· != a) }, { model := "ok", nontrivial := st.heldActors.contains a })
    | none => (st, { model := "bad-op" })
  | ["pub", m] =>
    match m.toNat? with
    | some m =>
      if st.dropped then (st, { model := "closed" }) else
      -- (publishing never blocks / is never delayed by subscribers) the synchronous `send` returned
      -- while every forwarding task / the port task was gated, without running any converter
      ({ st with s2 := st.s2.step (.op (.publish m)), s1 := st.s1.step (.op (.publish m)),
                 pubs := st.pubs ++ [m], dirty := true },
       { model := "ok", oracle := if impl == "ok" then [] else ["publish-ran-subscriber-code"] })
    | none => (st, { model := "bad-op" })
  | ["sub", key, actor, kind] =>
    match key.toNat?, actor.toNat?, convOf kind with
    | some key, some actor, some c =>
      let info : SubInfo := { key := key, actor := actor, conv := c, pstart := st.pubs.length,
                              grantedAt := st.pubs.length, echo := kind == "echo", dropper := kind == "dropper", suicide := kind == "suicide" }
      let ord := if st.isV2 then st.s2.base.nsub else st.s1.base.fwds.length
      let st' := { st with subs := st.subs ++ [info], dirty := true, keyMap := st.keyMap ++ [(key, ord)] }
      if st.dropped then (st, { model := "closed" })
      else if (st.toModel key).isSome then (st, { model := "duplicate-key" })
      else if st.isV2 then
        ({ st' with s2 := st.s2.step (.op (.subscribe actor c)) }, { model := "ok", nontrivial := kind == "echo" || kind == "dropper" || kind == "suicide" })
      else
        let s1 := st.s1.step (.op (.subscribe actor c))
        ({ st' with s1 := s1 }, { model := v1Counts s1.base, nontrivial := kind == "echo" || kind == "dropper" || kind == "suicide" })
    | _, _, _ => (st, { model := "bad-op" })
  | ["stop", actor] =>
    match actor.toNat? with
    | some a =>
      ({ st with s2 := st.s2.step (.op (.exit a)), s1 := st.s1.step (.op (.exit a)), stopped := a :: st.stopped },
       { model := "ok" })
    | none => (st, { model := "bad-op" })
  | ["drain", actor] =>
    -- `drain()`: the actor refuses messages from now on (like a stopped one); a held actor
    -- stays `Draining` until it is released, the others are gone after the settle
    match actor.toNat? with
    | some a =>
      ({ st with s2 := st.s2.step (.op (.exit a)), s1 := st.s1.step (.op (.exit a)), stopped := a :: st.stopped },
       { model := if st.heldActors.contains a then "Draining" else "ok", nontrivial := st.heldActors.contains a })
    | none => (st, { model := "bad-op" })
  | ["pubcheck", m] =>
    -- a publisher THREAD runs the real `send` up to the schedule point after `receiver_count()`
    match m.toNat? with
    | some m =>
      if st.isV2 then (st, { model := "bad-op" }) else
      let t : V1t Nat Nat := { base := st.s1, pending := st.pend }
      let t' := t.step (.pubCheck m)
      if st.dropped then (st, { model := "closed" })
      else if t'.pending.length > st.pend.length then
        ({ st with pend := t'.pending }, { model := "parked", nontrivial := true })
      else
        -- saw no receiver: the publication is dropped here and now
        ({ st with s1 := t'.base, pubs := st.pubs ++ [m] }, { model := "skipped", nontrivial := true })
    | none => (st, { model := "bad-op" })
  | ["pubstore"] =>
    match st.pend with
    | [] => (st, { model := "none" })
    | m :: _ =>
      let t : V1t Nat Nat := { base := st.s1, pending := st.pend }
      let t' := t.step (.pubStore 0)
      let stored : Bool := decide (t'.base.base.log.length > st.s1.base.log.length)
      ({ st with s1 := t'.base, pend := t'.pending, pubs := st.pubs ++ [m] },
       { model := "ok", nontrivial := true,
         -- the publisher must come back from `send` whatever happened since its check
         oracle := if impl == "ok" then [] else ["publisher-failed"],
         key := some s!"pubstore stored={stored} fwds={st.s1.base.fwds.length} pend={st.pend.length}" })
  | ["drop"] =>
    if !st.pend.isEmpty then (st, { model := "busy" }) else
    ({ st with s2 := st.s2.step .drop, s1 := st.s1.step .drop, dropped := true },
     { model := "ok", nontrivial := !st.dropped && (st.dirty || !st.subs.isEmpty) })
  | ["grant", "port"] =>
    let (s2, calls) := V2c.runTask st.re2 st.pre2 (fuelOf st) st.s2 []
    let obs := s!"calls={showCalls st calls} done={s2.finished}"
    let (subs, bad) := oracleCalls st impl
    -- the publications made from inside converter calls (and a drop from inside one), as the
    -- implementation reported them
    let (echoes, gone) := st.scanCalls ((parseCalls? impl).getD (calls.map fun c => (st.toOp c.key, c.msg)))
    -- after the drop nothing can park the port task: it must run to its end
    let bad := if gone && !(words impl).contains "done=true" then bad ++ ["not-terminated-after-drop"] else bad
    let died := st.suicides ((parseCalls? impl).getD (calls.map fun c => (st.toOp c.key, c.msg)))
    ({ st with s2 := s2, dirty := false, subs := subs, pubs := st.pubs ++ echoes, dropped := gone,
               stopped := st.stopped ++ died },
     { model := obs, key := some s!"v2 {st.subs.length} {st.dropped} {gone} {echoes.length} {obs}", oracle := bad.eraseDups,
       nontrivial := (decide (calls.length > 1) && s2.base.live.length + s2.base.gone.length > 1)
         || !echoes.isEmpty || (gone && !st.s2.finished) })
  | ["grant", key] =>
    match key.toNat?.bind st.toModel with
    | some k =>
      let (s1, calls) := V1c.runTask st.re1 st.pre1 (fuelOf st) st.s1 k []
      match s1.base.fwds[k]? with
      | none => (st, { model := "no-such-task" })
      | some f =>
        let lagged := f.mask.any (·.isSome)
        let (subs, bad) := oracleCalls st impl
        -- a forwarding task may end only because its subscriber has stopped
        let (echoes, gone) := st.scanCalls ((parseCalls? impl).getD (calls.map fun c => (st.toOp c.key, c.msg)))
        let pubs := st.pubs ++ echoes
        let wasDone := st.s1.taskDone k
        let bad := if gone && !(words impl).contains "done=true" then bad ++ ["not-terminated-after-drop"] else bad
        let died := st.suicides ((parseCalls? impl).getD (calls.map fun c => (st.toOp c.key, c.msg)))
        let endedAlive := !gone && (words impl).contains "done=true" &&
          (match st.subs.find? (fun i => st.toModel i.key == some k) with
           | some i => !(st.stopped ++ died).contains i.actor
           | none => false)
        let bad := if endedAlive then bad ++ ["subscription-ended-alive"] else bad
        let subs := subs.map fun i =>
          if st.toModel i.key == some k then
            { i with grantedAt := pubs.length, done := s1.taskDone k,
                     lagged := i.lagged || (!wasDone && st.pubs.length - i.grantedAt > ringCap) }
          else i
        let obs := s!"calls={showCalls st calls} done={s1.taskDone k}" ++
          (if s1.closed then "" else s!" {v1Counts s1.base}")
        ({ st with s1 := s1, subs := subs, pubs := pubs, dropped := gone, stopped := st.stopped ++ died },
         { model := obs, key := some s!"v1 {k} {st.dropped} {gone} {echoes.length} {obs}", oracle := bad.eraseDups,
           nontrivial := (!calls.isEmpty && (lagged || f.ended || st.s1.base.fwds.length > 1))
             || !echoes.isEmpty || (gone && !wasDone) })
    | none => (st, { model := "no-such-task" })
  | ["seq", key] =>
    match key.toNat?, key.toNat?.bind st.toModel with
    | some opk, some k =>
      let got := if st.isV2 then (st.s2.base.all.find? (·.key == k)).map (·.got)
                 else (st.s1.base.fwds[k]?).map (·.got)
      let heldNow := match st.subs.find? (·.key == opk) with
        | some i => st.heldActors.contains i.actor
        | none => false
      match got with
      | some g =>
        if heldNow then
          -- delivered to the mailbox of an actor that has not started handling yet
          (st, { model := "-", oracle := if impl == "-" then [] else ["subsequence"] })
        else
        (st, { model := showNats g, oracle := oracleSeq st opk impl, nontrivial := !g.isEmpty,
               key := some s!"seq {st.isV2} {k} {st.dropped} {st.pubs.length} {showNats g}" })
      | none => (st, { model := "no-such-subscription" })
    | some _, none => (st, { model := "-", oracle := if impl == "-" then [] else ["subsequence"] })
    | _, _ => (st, { model := "bad-op" })
  | ["dispatch", ad, dead, subs, batch, dying] =>
    -- a subscriber dies in the middle of the batch: only the step machine can say what happens
    let dy := match splitOnChar dying ':' with
      | [i, n] => do pure (← i.toNat?, ← n.toNat?)
      | _ => none
    match parseBool? ad, natList? dead, listOf? subs parseSpec?, listOf? batch parseItem?, dy with
    | some ad, some dead, some subs, some batch, some (did, dn) =>
      let (pc, gone) := nextSeg ad subs [] batch
      let st0 : V2 Nat Nat := { allowDup := ad, dead := if dn == 0 then did :: dead else dead, pc := pc, gone := gone }
      let fuel := 1000 + 4 * (batch.length + 1) * (subs.length + batch.length + 1)
      let rec go : Nat → V2 Nat Nat → List (Call Nat) → V2 Nat Nat × List (Call Nat)
        | 0, st, acc => (st, acc)
        | f + 1, st, acc =>
          match st.pc with
          | .disp .. =>
            let (st', c) := st.task
            let acc' := acc ++ c.toList
            -- the subscriber actor exits once `dn` sends have been made
            let st' := if c.isSome && acc'.length == dn then st'.step (.exit did) else st'
            go f st' acc'
          | _ => (st, acc)
      let (st1, calls) := go fuel st0 []
      let fin := match st1.pc with | .top _ => true | _ => false
      (st, { model := if fin then s!"{showCallsOk calls} | {showNats (st1.pc.subs.map (·.key))}" else "out-of-fuel",
             nontrivial := decide (calls.length > 1) && calls.any (!·.ok) })
    | _, _, _, _, _ => (st, { model := "bad-op" })
  | ["dispatch", ad, dead, subs, batch] =>
    match parseBool? ad, natList? dead, listOf? subs parseSpec?, listOf? batch parseItem? with
    | some ad, some dead, some subs, some batch =>
      -- the closed form (`Props/C16.lean: v2_dispatch_batch_closed_form` ties it to the machine)
      let r := dispatchBatch ad dead subs [] [] batch
      -- and, as a cross-check of that theorem on this very input, the machine itself
      let (pc, gone) := nextSeg ad subs [] batch
      let st0 : V2 Nat Nat := { allowDup := ad, dead := dead, pc := pc, gone := gone }
      let (st1, calls) := finishBatch (1000 + 4 * (batch.length + 1) * (subs.length + batch.length + 1)) st0 []
      let same := showCallsOk calls == showCallsOk r.2.2 && st1.pc.subs.map (·.key) == r.1.map (·.key)
      (st, { model := if same then s!"{showCallsOk r.2.2} | {showNats (r.1.map (·.key))}" else "closed-form-differs-from-machine",
             nontrivial := decide (r.2.2.length > 1) })
    | _, _, _, _ => (st, { model := "bad-op" })
  | _ => (st, { model := "bad-op" })

def run (ops impl : Array String) : IO Tally := replay ({} : St) step ops impl

end Driver.C16
