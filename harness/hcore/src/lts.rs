//! E-LTS — controlled-task engine.
//!
//! * `run_paused` starts a `current_thread` tokio runtime with the clock paused and the
//!   default panic hook silenced (panics inside callbacks are caught by ractor).
//! * `Engine` installs `ractor::verif::install()`: every task ractor spawns afterwards is gated;
//!   `Engine::poll_task` grants exactly one poll of the inner future and yields until it happened.
//! * `Hand<T>` is a future polled by hand with a no-op waker (spawn futures, join handles), so it
//!   can be cut at any await point by dropping it.
//! * `Scripted` is an actor whose every callback logs `enter`, then suspends at a gate until the
//!   harness supplies the next *segment* (`Seg`): optional side effects followed by
//!   `tick` (suspend again) / `ok` / `err` / `panic`. A drop guard inside the callback future logs
//!   `cancelled` when the future is dropped while open.
//! * `World` bundles the per-case actors and offers one method per primitive operation; all
//!   observations go through one ordered note log (`ractor::verif::note` / `note_sup`).
//!
//! Observation vocabulary (notes, in the order they happened inside one op):
//!   `enter a cb [arg]`, `tick a cb` (a segment started executing: the callback passed its
//!   suspension point), `fx <what> <result>`, `exit a cb ok|err:n|panic:n`, `cancelled a cb`,
//!   `ret Ok|Err(kind)`, `emit p Started|Terminated|Failed c …` (hook in `notify_supervisor`),
//!   `join a Ok|Cancelled|Panic`.

use std::collections::HashMap;
use std::future::Future;
use std::pin::Pin;
use std::sync::{Arc, Mutex};
use std::task::{Context, Poll, Waker};

use ractor::concurrency::JoinHandle;
use ractor::verif::{self, Controller, Note, TaskCtl};
use ractor::{
    Actor, ActorProcessingErr, ActorRef, ActorStatus, MessagingErr, RpcReplyPort, SpawnErr,
    SupervisionEvent,
};

// -----------------------------------------------------------------------------------------
// runtime + controller
// -----------------------------------------------------------------------------------------

/// Run `f` on a paused single-thread runtime; panics are silent (they are caught by ractor).
#[cfg(not(feature = "async-std"))]
pub fn run_paused<F: Future>(f: F) -> F::Output {
    std::panic::set_hook(Box::new(|_| {}));
    let rt = tokio::runtime::Builder::new_current_thread()
        .enable_time()
        .start_paused(true)
        .build()
        .expect("runtime");
    rt.block_on(f)
}

/// async-std backend (package `hcoreas`): the harness future runs under `async_std::task::block_on`,
/// every ractor task is spawned by ractor on async-std's global multi-thread executor. All of them are
/// gated (`verif::controlled` is hooked into async_std_primitives.rs too), so at any time at most the
/// one granted task is being polled, on whichever executor thread picks it up; `Engine::poll_task`
/// waits until that poll has happened. There is no clock to pause: the Life ops use no timer.
#[cfg(feature = "async-std")]
pub fn run_paused<F: Future>(f: F) -> F::Output {
    std::panic::set_hook(Box::new(|_| {}));
    async_std::task::block_on(f)
}

pub struct Engine {
    pub ctl: Arc<Controller>,
}

impl Default for Engine {
    fn default() -> Self {
        Self::new()
    }
}

impl Engine {
    pub fn new() -> Self {
        Engine {
            ctl: verif::install(),
        }
    }
    /// Fresh controller (task ids restart at 0); tasks of the old controller stay gated.
    pub fn reset(&mut self) {
        self.ctl = verif::install();
    }
    pub fn ntasks(&self) -> usize {
        self.ctl.len()
    }
    /// Exactly one poll of the task's inner future. Returns false if the task was already done.
    pub async fn poll_task(&self, t: &TaskCtl) -> bool {
        if t.is_done() {
            return false;
        }
        let before = t.polls();
        t.grant();
        for i in 0..2_000_000u32 {
            tokio::task::yield_now().await;
            if t.polls() != before || t.is_done() {
                return true;
            }
            // the task may live on another thread's runtime (thread-local actors)
            if i > 50 {
                std::thread::sleep(std::time::Duration::from_micros(20));
            } else {
                std::thread::yield_now();
            }
        }
        panic!("granted task {} was never polled", t.id);
    }
    /// Yield until the task's future is gone (after `JoinHandle::abort`).
    pub async fn settle_done(&self, t: &TaskCtl) {
        for i in 0..2_000_000u32 {
            if t.is_done() {
                return;
            }
            tokio::task::yield_now().await;
            if i > 50 {
                std::thread::sleep(std::time::Duration::from_micros(20));
            } else {
                std::thread::yield_now();
            }
        }
        panic!("aborted task {} never went away", t.id);
    }
}

/// A future polled by hand with a no-op waker, outside tokio's cooperative budget.
pub struct Hand<T> {
    fut: Option<Pin<Box<dyn Future<Output = T>>>>,
}

impl<T> Hand<T> {
    pub fn new(f: impl Future<Output = T> + 'static) -> Self {
        Hand {
            fut: Some(Box::pin(tokio::task::unconstrained(f))),
        }
    }
    pub fn alive(&self) -> bool {
        self.fut.is_some()
    }
    /// One poll. `Some(v)` when it completed (the future is dropped then).
    pub fn poll_once(&mut self) -> Option<T> {
        let fut = self.fut.as_mut()?;
        let mut cx = Context::from_waker(Waker::noop());
        match fut.as_mut().poll(&mut cx) {
            Poll::Ready(v) => {
                self.fut = None;
                Some(v)
            }
            Poll::Pending => None,
        }
    }
    /// Cancel at the current await point.
    pub fn drop_now(&mut self) {
        self.fut = None;
    }
}

// -----------------------------------------------------------------------------------------
// scripted actors
// -----------------------------------------------------------------------------------------

pub enum Msg {
    User(u32),
    /// RPC request `k` (the harness-chosen call id) with its reply port
    Call(u32, RpcReplyPort<u32>),
}

// with ractor's `cluster` feature (needed by other binaries of this package) there is no blanket
// `Message` impl: a local-only message type needs the empty one
#[cfg(feature = "cluster")]
impl ractor::Message for Msg {}

#[derive(Clone, Debug, PartialEq, Eq)]
pub enum Fx {
    SendSelf(u32),
    StopSelf(Option<String>),
    KillSelf,
    /// reply `v` on the held reply port of call `k`
    Reply(u32, u32),
    /// drop the held reply port of call `k` without replying
    Forget(u32),
    /// `pg::join(group, [myself])`
    Join(String),
    /// spawn child `c` from inside the callback: `spawn_linked_instant(None, child, args, myself)`
    SpawnChild(usize),
}

#[derive(Clone, Debug, PartialEq, Eq)]
pub enum Term {
    Tick,
    Ok,
    Err(u32),
    Panic(u32),
}

#[derive(Clone, Debug, PartialEq, Eq)]
pub struct Seg {
    pub fx: Vec<Fx>,
    pub term: Term,
}

impl std::fmt::Display for Seg {
    fn fmt(&self, f: &mut std::fmt::Formatter<'_>) -> std::fmt::Result {
        for x in &self.fx {
            match x {
                Fx::SendSelf(m) => write!(f, "sendself:{m} ")?,
                Fx::StopSelf(None) => write!(f, "stopself ")?,
                Fx::StopSelf(Some(r)) => write!(f, "stopself:{r} ")?,
                Fx::KillSelf => write!(f, "killself ")?,
                Fx::Reply(k, v) => write!(f, "reply:{k}:{v} ")?,
                Fx::Forget(k) => write!(f, "forget:{k} ")?,
                Fx::Join(g) => write!(f, "join:{g} ")?,
                Fx::SpawnChild(c) => write!(f, "spawnchild:{c} ")?,
            }
        }
        match self.term {
            Term::Tick => write!(f, "tick"),
            Term::Ok => write!(f, "ok"),
            Term::Err(n) => write!(f, "err:{n}"),
            Term::Panic(n) => write!(f, "panic:{n}"),
        }
    }
}

impl Seg {
    pub fn parse(toks: &[&str]) -> Option<Seg> {
        let (last, init) = toks.split_last()?;
        let mut fx = Vec::new();
        for t in init {
            let p: Vec<&str> = t.split(':').collect();
            fx.push(match p.as_slice() {
                ["sendself", m] => Fx::SendSelf(m.parse().ok()?),
                ["stopself"] => Fx::StopSelf(None),
                ["stopself", r] => Fx::StopSelf(Some(r.to_string())),
                ["killself"] => Fx::KillSelf,
                ["reply", k, v] => Fx::Reply(k.parse().ok()?, v.parse().ok()?),
                ["forget", k] => Fx::Forget(k.parse().ok()?),
                ["join", g] => Fx::Join(g.to_string()),
                ["spawnchild", c] => Fx::SpawnChild(c.parse().ok()?),
                _ => return None,
            });
        }
        let p: Vec<&str> = last.split(':').collect();
        let term = match p.as_slice() {
            ["tick"] => Term::Tick,
            ["ok"] => Term::Ok,
            ["err", n] => Term::Err(n.parse().ok()?),
            ["panic", n] => Term::Panic(n.parse().ok()?),
            _ => return None,
        };
        Some(Seg { fx, term })
    }
}

#[derive(Default)]
pub struct Slot {
    pub seg: Option<Seg>,
    pub waker: Option<Waker>,
    pub me: Option<ActorRef<Msg>>,
    pub held: HashMap<u32, RpcReplyPort<u32>>,
}

#[derive(Default)]
pub struct Shared {
    pub slots: Mutex<Vec<Slot>>,
    /// pid -> case-local actor index
    pub pids: Mutex<HashMap<u64, usize>>,
    /// prefix that makes registry names / group names unique per case (`c<case>-`)
    pub tag: Mutex<String>,
    /// what a callback needs to spawn a child itself (`Fx::SpawnChild`): the task controller of the
    /// case, the thread-local spawner / adapter flavour; the children born inside callbacks since the
    /// last `collect`
    pub ctl: Mutex<Option<Arc<Controller>>>,
    pub spawner: Mutex<Option<ractor::thread_local::ThreadLocalActorSpawner>>,
    pub adapter: std::sync::atomic::AtomicBool,
    pub born: Mutex<Vec<Born>>,
}

/// A child spawned from inside a callback with `spawn_linked_instant`.
pub struct Born {
    pub idx: usize,
    pub sup: usize,
    pub inst: InstHandle,
    pub task: Option<Arc<TaskCtl>>,
}

impl Shared {
    pub fn real(&self, n: &str) -> String {
        format!("{}{}", self.tag.lock().unwrap(), n)
    }
    pub fn idx_of(&self, id: ractor::ActorId) -> String {
        match self.pids.lock().unwrap().get(&id.pid()) {
            Some(i) => i.to_string(),
            None => format!("?{}", id.pid()),
        }
    }
}

pub struct ScriptState;

pub struct Scripted {
    pub idx: usize,
    pub sh: Arc<Shared>,
}

struct Gate<'a> {
    sh: &'a Shared,
    a: usize,
}

impl Future for Gate<'_> {
    type Output = Seg;
    fn poll(self: Pin<&mut Self>, cx: &mut Context<'_>) -> Poll<Seg> {
        let mut s = self.sh.slots.lock().unwrap();
        let slot = &mut s[self.a];
        if let Some(seg) = slot.seg.take() {
            Poll::Ready(seg)
        } else {
            slot.waker = Some(cx.waker().clone());
            Poll::Pending
        }
    }
}

struct CbGuard {
    a: usize,
    cb: &'static str,
    armed: bool,
}

impl Drop for CbGuard {
    fn drop(&mut self) {
        if self.armed {
            verif::note(format!("cancelled {} {}", self.a, self.cb));
        }
    }
}

fn show_send<T>(r: &Result<(), MessagingErr<T>>) -> &'static str {
    match r {
        Ok(()) => "Ok",
        Err(MessagingErr::SendErr(_)) => "Err(SendErr)",
        Err(MessagingErr::ChannelClosed) => "Err(Closed)",
        Err(MessagingErr::InvalidActorType) => "Err(Type)",
    }
}

fn ok_err(b: bool) -> &'static str {
    if b {
        "Ok"
    } else {
        "Err"
    }
}

/// The body shared by all five callbacks (of the Send and of the thread-local scripted actor).
pub async fn run_cb(sh: &Arc<Shared>, a: usize, cb: &'static str, arg: String) -> Result<(), ActorProcessingErr> {
    {
        verif::note(format!("enter {a} {cb}{arg}"));
        let mut guard = CbGuard { a, cb, armed: true };
        loop {
            let seg = Gate { sh, a }.await;
            verif::note(format!("tick {a} {cb}"));
            let me = sh.slots.lock().unwrap()[a].me.clone().expect("me");
            for fx in &seg.fx {
                match fx {
                    Fx::SendSelf(m) => {
                        let r = me.cast(Msg::User(*m));
                        verif::note(format!("fx sendself {m} {}", show_send(&r)));
                    }
                    Fx::StopSelf(r) => {
                        // the PUBLIC `stop()`; acceptance = the stop port was open just before
                        let ok = me.get_cell().verif_ports_open().0;
                        me.get_cell().stop(r.clone());
                        verif::note(format!("fx stopself {} {}", reason_str(r), ok_err(ok)));
                    }
                    Fx::KillSelf => {
                        let ok = me.get_cell().verif_ports_open().1;
                        me.get_cell().kill();
                        verif::note(format!("fx killself {}", ok_err(ok)));
                    }
                    Fx::Reply(k, v) => {
                        let port = sh.slots.lock().unwrap()[a].held.remove(k);
                        let r = match port {
                            None => "NoPort",
                            Some(p) => {
                                if p.send(*v).is_ok() {
                                    "Ok"
                                } else {
                                    "Err"
                                }
                            }
                        };
                        verif::note(format!("fx reply {k} {v} {r}"));
                    }
                    Fx::Forget(k) => {
                        let had = sh.slots.lock().unwrap()[a].held.remove(k).is_some();
                        verif::note(format!("fx forget {k} {}", if had { "Ok" } else { "NoPort" }));
                    }
                    Fx::Join(g) => {
                        ractor::pg::join(sh.real(g), vec![me.get_cell()]);
                        verif::note(format!("fx join {g}"));
                    }
                    Fx::SpawnChild(c) => {
                        let c = *c;
                        {
                            let mut s = sh.slots.lock().unwrap();
                            while s.len() <= c {
                                s.push(Slot::default());
                            }
                        }
                        let ctl = sh.ctl.lock().unwrap().clone().expect("controller");
                        let before = ctl.len();
                        let spawner = sh.spawner.lock().unwrap().clone();
                        let res = if let Some(spawner) = spawner.clone() {
                            use ractor::thread_local::ThreadLocalActor;
                            let args = (c, sh.clone());
                            if sh.adapter.load(std::sync::atomic::Ordering::SeqCst) {
                                <ScriptedSend as ThreadLocalActor>::spawn_linked_instant(None, args, me.get_cell(), spawner)
                            } else {
                                ScriptedLocal::spawn_linked_instant(None, args, me.get_cell(), spawner)
                            }
                        } else {
                            ractor::ActorRuntime::<Scripted>::spawn_linked_instant(
                                None,
                                Scripted { idx: c, sh: sh.clone() },
                                (),
                                me.get_cell(),
                            )
                        };
                        match res {
                            Ok((r, h)) => {
                                sh.pids.lock().unwrap().insert(r.get_id().pid(), c);
                                sh.slots.lock().unwrap()[c].me = Some(r);
                                let task = if ctl.len() == before + 1 { ctl.task(before) } else { None };
                                sh.born.lock().unwrap().push(Born { idx: c, sup: a, inst: h, task });
                                verif::note(format!(
                                    "fx spawnchild {c}{}",
                                    if spawner.is_some() { " local" } else { "" }
                                ));
                            }
                            Err(e) => verif::note(format!("fx spawnchild {c} Err({})", spawn_err_str(&e))),
                        }
                    }
                }
            }
            match seg.term {
                Term::Tick => continue,
                Term::Ok => {
                    guard.armed = false;
                    verif::note(format!("exit {a} {cb} ok"));
                    return Ok(());
                }
                Term::Err(n) => {
                    guard.armed = false;
                    verif::note(format!("exit {a} {cb} err:{n}"));
                    return Err(format!("err-{n}").into());
                }
                Term::Panic(n) => {
                    guard.armed = false;
                    verif::note(format!("exit {a} {cb} panic:{n}"));
                    panic!("panic-{n}");
                }
            }
        }
    }
}

pub fn reason_str(r: &Option<String>) -> String {
    match r {
        Some(s) => s.replace(' ', "_"),
        None => "-".to_string(),
    }
}

fn sup_arg(sh: &Shared, message: &SupervisionEvent) -> String {
    match message {
        SupervisionEvent::ActorStarted(c) => format!(" Started {}", sh.idx_of(c.get_id())),
        SupervisionEvent::ActorTerminated(c, st, r) => format!(
            " Terminated {} s{} {}",
            sh.idx_of(c.get_id()),
            u8::from(st.is_some()),
            reason_str(r)
        ),
        SupervisionEvent::ActorFailed(c, e) => {
            format!(" Failed {} {}", sh.idx_of(c.get_id()), format!("{e}").replace(' ', "_"))
        }
        _ => " Other".to_string(),
    }
}

fn msg_arg(sh: &Shared, a: usize, message: Msg) -> String {
    match message {
        Msg::User(m) => format!(" {m}"),
        Msg::Call(k, port) => {
            sh.slots.lock().unwrap()[a].held.insert(k, port);
            format!(" call{k}")
        }
    }
}

#[cfg_attr(feature = "async-trait", ractor::async_trait)]
impl Actor for Scripted {
    type Msg = Msg;
    type State = ScriptState;
    type Arguments = ();

    async fn pre_start(
        &self,
        myself: ActorRef<Msg>,
        _: (),
    ) -> Result<ScriptState, ActorProcessingErr> {
        self.sh.pids.lock().unwrap().insert(myself.get_id().pid(), self.idx);
        self.sh.slots.lock().unwrap()[self.idx].me = Some(myself);
        run_cb(&self.sh, self.idx, "pre_start", String::new()).await?;
        Ok(ScriptState)
    }

    async fn post_start(
        &self,
        _myself: ActorRef<Msg>,
        _state: &mut ScriptState,
    ) -> Result<(), ActorProcessingErr> {
        run_cb(&self.sh, self.idx, "post_start", String::new()).await
    }

    async fn post_stop(
        &self,
        _myself: ActorRef<Msg>,
        _state: &mut ScriptState,
    ) -> Result<(), ActorProcessingErr> {
        run_cb(&self.sh, self.idx, "post_stop", String::new()).await
    }

    async fn handle(
        &self,
        _myself: ActorRef<Msg>,
        message: Msg,
        _state: &mut ScriptState,
    ) -> Result<(), ActorProcessingErr> {
        let arg = msg_arg(&self.sh, self.idx, message);
        run_cb(&self.sh, self.idx, "handle", arg).await
    }

    async fn handle_supervisor_evt(
        &self,
        _myself: ActorRef<Msg>,
        message: SupervisionEvent,
        _state: &mut ScriptState,
    ) -> Result<(), ActorProcessingErr> {
        let arg = sup_arg(&self.sh, &message);
        drop(message);
        run_cb(&self.sh, self.idx, "sup", arg).await
    }
}

/// The same scripted actor as a thread-local actor (`ractor::thread_local`): constructed by
/// `Default` on the spawner's thread, so its identity travels in the arguments / the state.
#[derive(Default)]
pub struct ScriptedLocal;

pub struct LocalState {
    pub idx: usize,
    pub sh: Arc<Shared>,
}

impl ractor::thread_local::ThreadLocalActor for ScriptedLocal {
    type Msg = Msg;
    type State = LocalState;
    type Arguments = (usize, Arc<Shared>);

    async fn pre_start(
        &self,
        myself: ActorRef<Msg>,
        (idx, sh): (usize, Arc<Shared>),
    ) -> Result<LocalState, ActorProcessingErr> {
        sh.pids.lock().unwrap().insert(myself.get_id().pid(), idx);
        sh.slots.lock().unwrap()[idx].me = Some(myself);
        run_cb(&sh, idx, "pre_start", String::new()).await?;
        Ok(LocalState { idx, sh })
    }

    async fn post_start(&self, _myself: ActorRef<Msg>, st: &mut LocalState) -> Result<(), ActorProcessingErr> {
        run_cb(&st.sh, st.idx, "post_start", String::new()).await
    }

    async fn post_stop(&self, _myself: ActorRef<Msg>, st: &mut LocalState) -> Result<(), ActorProcessingErr> {
        run_cb(&st.sh, st.idx, "post_stop", String::new()).await
    }

    async fn handle(&self, _myself: ActorRef<Msg>, message: Msg, st: &mut LocalState) -> Result<(), ActorProcessingErr> {
        let arg = msg_arg(&st.sh, st.idx, message);
        run_cb(&st.sh, st.idx, "handle", arg).await
    }

    async fn handle_supervisor_evt(
        &self,
        _myself: ActorRef<Msg>,
        message: SupervisionEvent,
        st: &mut LocalState,
    ) -> Result<(), ActorProcessingErr> {
        let arg = sup_arg(&st.sh, &message);
        drop(message);
        run_cb(&st.sh, st.idx, "sup", arg).await
    }
}

/// The scripted actor once more as a *Send* `Actor + Default`: spawned on a thread-local spawner it
/// runs through the blanket adapter `impl<T: Actor + Default> ThreadLocalActor for T`
/// (`ractor/src/thread_local.rs`), whose every hook must forward to the same-named hook. The callback
/// identity is logged from inside these bodies, so a forwarding mix-up shows as a wrong callback event.
#[derive(Default)]
pub struct ScriptedSend;

#[cfg_attr(feature = "async-trait", ractor::async_trait)]
impl Actor for ScriptedSend {
    type Msg = Msg;
    type State = LocalState;
    type Arguments = (usize, Arc<Shared>);

    async fn pre_start(
        &self,
        myself: ActorRef<Msg>,
        (idx, sh): (usize, Arc<Shared>),
    ) -> Result<LocalState, ActorProcessingErr> {
        sh.pids.lock().unwrap().insert(myself.get_id().pid(), idx);
        sh.slots.lock().unwrap()[idx].me = Some(myself);
        run_cb(&sh, idx, "pre_start", String::new()).await?;
        Ok(LocalState { idx, sh })
    }

    async fn post_start(&self, _myself: ActorRef<Msg>, st: &mut LocalState) -> Result<(), ActorProcessingErr> {
        run_cb(&st.sh, st.idx, "post_start", String::new()).await
    }

    async fn post_stop(&self, _myself: ActorRef<Msg>, st: &mut LocalState) -> Result<(), ActorProcessingErr> {
        run_cb(&st.sh, st.idx, "post_stop", String::new()).await
    }

    async fn handle(&self, _myself: ActorRef<Msg>, message: Msg, st: &mut LocalState) -> Result<(), ActorProcessingErr> {
        let arg = msg_arg(&st.sh, st.idx, message);
        run_cb(&st.sh, st.idx, "handle", arg).await
    }

    async fn handle_supervisor_evt(
        &self,
        _myself: ActorRef<Msg>,
        message: SupervisionEvent,
        st: &mut LocalState,
    ) -> Result<(), ActorProcessingErr> {
        let arg = sup_arg(&st.sh, &message);
        drop(message);
        run_cb(&st.sh, st.idx, "sup", arg).await
    }
}

// -----------------------------------------------------------------------------------------
// world: the actors of one case and the primitive operations
// -----------------------------------------------------------------------------------------

pub type SpawnRes = Result<(ActorRef<Msg>, JoinHandle<()>), SpawnErr>;
/// the start handle of `spawn_instant*`
pub type InstHandle = JoinHandle<Result<JoinHandle<()>, SpawnErr>>;

#[derive(Default)]
pub struct ActorSlot {
    /// thread-local variant: the gated task on the spawner's thread that runs `pre_start`
    pub start_task: Option<Arc<TaskCtl>>,
    pub spawn: Option<Hand<SpawnRes>>,
    pub handle: Option<JoinHandle<()>>,
    pub task: Option<Arc<TaskCtl>>,
    pub joined: bool,
    /// callback currently open (tracked from the notes)
    pub open: Option<String>,
    /// a segment was supplied and not yet consumed
    pub seg_pending: bool,
    /// `spawn_instant*`: the start handle, the gated task that runs `start()` (on the harness runtime),
    /// whether that task was polled at least once
    pub inst: Option<InstHandle>,
    pub inst_task: Option<Arc<TaskCtl>>,
    pub inst_started: bool,
    /// the supervisor requested at spawn time (the link is made when `start()` gets there)
    pub want_sup: Option<usize>,
}

impl ActorSlot {
    pub fn spawn_alive(&self) -> bool {
        self.spawn.as_ref().is_some_and(|s| s.alive()) || self.inst_task.as_ref().is_some_and(|t| !t.is_done())
    }
    /// an instant spawn whose start task was never polled
    pub fn unstarted_instant(&self) -> bool {
        self.inst_task.as_ref().is_some_and(|t| !t.is_done()) && !self.inst_started
    }
    pub fn task_live(&self) -> bool {
        self.task.as_ref().is_some_and(|t| !t.is_done())
    }
    pub fn runnable(&self) -> bool {
        self.task.as_ref().is_some_and(|t| t.runnable())
    }
}

pub type CallFut = Hand<Result<ractor::rpc::CallResult<u32>, MessagingErr<Msg>>>;

pub struct World {
    pub eng: Engine,
    pub sh: Arc<Shared>,
    pub actors: Vec<ActorSlot>,
    /// registry names / group names mentioned in this case (in order of first mention)
    pub names: Vec<String>,
    pub groups: Vec<String>,
    pub waits: HashMap<u32, Hand<Result<(), ractor::concurrency::Timeout>>>,
    pub calls: HashMap<u32, CallFut>,
    /// `Some`: every actor is spawned as a thread-local actor through this spawner
    pub local: Option<ractor::thread_local::ThreadLocalActorSpawner>,
    /// with `local`: the actors are Send `Actor + Default` types run through the blanket adapter
    pub adapter: bool,
}

pub fn status_str(s: ActorStatus) -> &'static str {
    match s {
        ActorStatus::Unstarted => "Un",
        ActorStatus::Starting => "St",
        ActorStatus::Running => "Ru",
        ActorStatus::Upgrading => "Up",
        ActorStatus::Draining => "Dr",
        ActorStatus::Stopping => "Sg",
        ActorStatus::Stopped => "Sd",
    }
}

pub fn spawn_err_str(e: &SpawnErr) -> String {
    match e {
        SpawnErr::StartupFailed(t) => {
            let t = format!("{t}");
            // the thread-local runtime wraps the start-up error / panic text like this
            let t = t
                .strip_prefix("Actor panicked during startup '")
                .and_then(|x| x.strip_suffix('\''))
                .map(|x| x.to_string())
                .unwrap_or(t);
            if t == "Actor killed during startup" {
                "killed".into()
            } else if t == "Supervisor is shutting down" {
                "nolink".into()
            } else {
                format!("startup:{}", t.replace(' ', "_"))
            }
        }
        SpawnErr::ActorAlreadyStarted => "already".into(),
        SpawnErr::ActorAlreadyRegistered(_) => "registered".into(),
    }
}

impl Default for World {
    fn default() -> Self {
        Self::new()
    }
}

impl World {
    pub fn new() -> Self {
        let _ = verif::take_notes();
        World {
            eng: Engine::new(),
            sh: Arc::new(Shared::default()),
            actors: Vec::new(),
            names: Vec::new(),
            groups: Vec::new(),
            waits: HashMap::new(),
            calls: HashMap::new(),
            local: None,
            adapter: false,
        }
    }

    /// Spawn every actor of the following cases as a thread-local actor.
    pub fn use_thread_local(&mut self) {
        self.local = Some(ractor::thread_local::ThreadLocalActorSpawner::new());
    }

    /// Like `use_thread_local`, but every actor is the Send actor `ScriptedSend` spawned through
    /// `<ScriptedSend as ThreadLocalActor>::spawn*`, i.e. through the blanket adapter.
    pub fn use_thread_local_adapter(&mut self) {
        self.use_thread_local();
        self.adapter = true;
    }

    fn spin_until(&self, what: &str, mut done: impl FnMut() -> bool) {
        for i in 0..2_000_000u32 {
            if done() {
                return;
            }
            if i > 50 {
                std::thread::sleep(std::time::Duration::from_micros(20));
            } else {
                std::thread::yield_now();
            }
        }
        panic!("timeout waiting for {what}");
    }

    /// Thread-local variant of `spawn_named`: the caller future only ships the builder to the
    /// spawner's thread; `pre_start` runs there inside a gated task.
    async fn spawn_local_named(&mut self, sup: Option<usize>, name: Option<&str>) -> usize {
        use ractor::thread_local::ThreadLocalActor;
        let spawner = self.local.clone().expect("local spawner");
        let a = self.actors.len();
        self.sh.slots.lock().unwrap().push(Slot::default());
        if let Some(n) = name {
            self.note_name(n);
        }
        let real = name.map(|n| self.sh.real(n));
        let args = (a, self.sh.clone());
        let before = self.eng.ntasks();
        let mut hand: Hand<SpawnRes> = match (self.adapter, sup.and_then(|p| self.me(p))) {
            (false, Some(p)) => Hand::new(ScriptedLocal::spawn_linked(real, args, p.get_cell(), spawner)),
            (false, None) => Hand::new(ScriptedLocal::spawn(real, args, spawner)),
            (true, Some(p)) => Hand::new(<ScriptedSend as ThreadLocalActor>::spawn_linked(
                real,
                args,
                p.get_cell(),
                spawner,
            )),
            (true, None) => Hand::new(<ScriptedSend as ThreadLocalActor>::spawn(real, args, spawner)),
        };
        // first poll: `new()`, `Starting`, link to the supervisor, ship the builder
        match hand.poll_once() {
            Some(Err(e)) => {
                verif::note(format!("ret Err({})", spawn_err_str(&e)));
                self.actors.push(ActorSlot::default());
                return a;
            }
            Some(Ok(_)) => unreachable!("thread-local spawn cannot complete in one poll"),
            None => {}
        }
        let eng_ctl = self.eng.ctl.clone();
        self.spin_until("start task", || eng_ctl.len() == before + 1);
        let st = self.eng.ctl.task(before).expect("start task");
        self.actors.push(ActorSlot {
            spawn: Some(hand),
            start_task: Some(st.clone()),
            want_sup: sup,
            ..Default::default()
        });
        // first granted poll of the start task: `pre_start` is entered
        self.eng.poll_task(&st).await;
        a
    }

    async fn pollspawn_local(&mut self, a: usize) {
        let Some(st) = self.actors[a].start_task.clone() else {
            verif::note("nospawn".into());
            return;
        };
        if !self.actors[a].spawn_alive() {
            verif::note("nospawn".into());
            return;
        }
        if !st.is_done() {
            let before = self.eng.ntasks();
            self.eng.poll_task(&st).await;
            if let Some(t) = self.new_loop_task(before) {
                self.actors[a].task = Some(t);
            }
        }
        if st.is_done() {
            // the start task finished: the caller's future now completes
            for i in 0..2_000_000u32 {
                let r = self.actors[a].spawn.as_mut().unwrap().poll_once();
                match r {
                    Some(Ok((_r, h))) => {
                        self.actors[a].handle = Some(h);
                        verif::note("ret Ok".into());
                        return;
                    }
                    Some(Err(e)) => {
                        verif::note(format!("ret Err({})", spawn_err_str(&e)));
                        return;
                    }
                    None => {
                        if i > 50 {
                            std::thread::sleep(std::time::Duration::from_micros(20));
                        } else {
                            std::thread::yield_now();
                        }
                    }
                }
            }
            panic!("caller future of a finished start task never completed");
        } else {
            let _ = self.actors[a].spawn.as_mut().unwrap().poll_once();
        }
    }

    async fn dropspawn_local(&mut self, a: usize) {
        match self.actors[a].spawn.as_mut() {
            Some(h) if h.alive() => h.drop_now(),
            _ => {
                verif::note("nospawn".into());
                return;
            }
        }
        if let Some(st) = self.actors[a].start_task.clone() {
            self.eng.settle_done(&st).await;
        }
    }

    /// `spawn_instant` / `spawn_linked_instant` (Send, thread-local or adapter flavour): only `new()`
    /// runs; the `ActorRef` is registered at once, the start task is gated and not yet polled.
    pub fn spawn_instant(&mut self, sup: Option<usize>, name: Option<&str>) -> usize {
        let a = self.actors.len();
        self.sh.slots.lock().unwrap().push(Slot::default());
        if let Some(n) = name {
            self.note_name(n);
        }
        let real = name.map(|n| self.sh.real(n));
        let before = self.eng.ntasks();
        let supcell = sup.and_then(|p| self.me(p)).map(|p| p.get_cell());
        let res = if let Some(spawner) = self.local.clone() {
            use ractor::thread_local::ThreadLocalActor;
            let args = (a, self.sh.clone());
            match (self.adapter, supcell) {
                (false, Some(p)) => ScriptedLocal::spawn_linked_instant(real, args, p, spawner),
                (false, None) => ScriptedLocal::spawn_instant(real, args, spawner),
                (true, Some(p)) => <ScriptedSend as ThreadLocalActor>::spawn_linked_instant(real, args, p, spawner),
                (true, None) => <ScriptedSend as ThreadLocalActor>::spawn_instant(real, args, spawner),
            }
        } else {
            let handler = Scripted {
                idx: a,
                sh: self.sh.clone(),
            };
            match supcell {
                Some(p) => ractor::ActorRuntime::<Scripted>::spawn_linked_instant(real, handler, (), p),
                None => ractor::ActorRuntime::<Scripted>::spawn_instant(real, handler, ()),
            }
        };
        match res {
            Err(e) => {
                verif::note(format!("ret Err({})", spawn_err_str(&e)));
                self.actors.push(ActorSlot::default());
            }
            Ok((r, h)) => {
                assert_eq!(self.eng.ntasks(), before + 1, "spawn_instant must create exactly one task");
                self.sh.pids.lock().unwrap().insert(r.get_id().pid(), a);
                self.sh.slots.lock().unwrap()[a].me = Some(r);
                self.actors.push(ActorSlot {
                    inst: Some(h),
                    inst_task: self.eng.ctl.task(before),
                    want_sup: sup,
                    ..Default::default()
                });
                verif::note("inst Ok".into());
            }
        }
        a
    }

    /// The start task of an instant spawn is over: report what its handle says.
    fn finish_instant(&mut self, a: usize) {
        let Some(h) = self.actors[a].inst.take() else { return };
        let mut hand = Hand::new(h);
        let mut res = hand.poll_once();
        let mut i = 0u32;
        while res.is_none() && i < 200_000 {
            if i > 50 {
                std::thread::sleep(std::time::Duration::from_micros(20));
            } else {
                std::thread::yield_now();
            }
            res = hand.poll_once();
            i += 1;
        }
        match res {
            Some(Ok(Ok(h))) => {
                self.actors[a].handle = Some(h);
                verif::note("ret Ok".into());
            }
            Some(Ok(Err(e))) => verif::note(format!("ret Err({})", spawn_err_str(&e))),
            #[cfg(not(feature = "async-std"))]
            Some(Err(e)) if e.is_cancelled() => verif::note("sjoin Cancelled".into()),
            #[cfg(not(feature = "async-std"))]
            Some(Err(_)) => verif::note("ret Panic".into()),
            // async-std backend: `Err(())` = the `Abortable` wrapper saw the abort flag
            #[cfg(feature = "async-std")]
            Some(Err(())) => verif::note("sjoin Cancelled".into()),
            None => verif::note("ret Pending".into()),
        }
    }

    /// One poll of the start task of an instant spawn (`pollspawn a` on such an actor).
    async fn pollspawn_instant(&mut self, a: usize) {
        let Some(ot) = self.actors[a].inst_task.clone() else {
            verif::note("nospawn".into());
            return;
        };
        if ot.is_done() {
            verif::note("nospawn".into());
            return;
        }
        let first = !self.actors[a].inst_started;
        self.actors[a].inst_started = true;
        if self.local.is_none() {
            let before = self.eng.ntasks();
            self.eng.poll_task(&ot).await;
            if ot.is_done() {
                if let Some(t) = self.new_loop_task(before) {
                    self.actors[a].task = Some(t);
                }
                self.finish_instant(a);
            }
            return;
        }
        // thread-local: the outer task (harness runtime) runs `start()`: status, link, ship the
        // builder; the inner start task (spawner thread) runs `pre_start`; then the loop task
        if first {
            let before = self.eng.ntasks();
            self.eng.poll_task(&ot).await;
            if ot.is_done() {
                self.finish_instant(a);
                return;
            }
            let eng_ctl = self.eng.ctl.clone();
            self.spin_until("instant start task", || eng_ctl.len() == before + 1);
            self.actors[a].start_task = self.eng.ctl.task(before);
        }
        let st = self.actors[a].start_task.clone().expect("inner start task");
        if !st.is_done() {
            let before = self.eng.ntasks();
            self.eng.poll_task(&st).await;
            if let Some(t) = self.new_loop_task(before) {
                self.actors[a].task = Some(t);
            }
        }
        if st.is_done() {
            // the outer task takes the reply / the inner join result and completes
            for i in 0..200_000u32 {
                self.eng.poll_task(&ot).await;
                if ot.is_done() {
                    break;
                }
                if i > 50 {
                    std::thread::sleep(std::time::Duration::from_micros(20));
                } else {
                    std::thread::yield_now();
                }
            }
            assert!(ot.is_done(), "outer start task of a finished instant start never completed");
            self.finish_instant(a);
        }
    }

    /// `dropspawn a` on an instant spawn: abort the start task through its handle.
    async fn dropspawn_instant(&mut self, a: usize) {
        let Some(ot) = self.actors[a].inst_task.clone() else {
            verif::note("nospawn".into());
            return;
        };
        if ot.is_done() {
            verif::note("nospawn".into());
            return;
        }
        if let Some(h) = self.actors[a].inst.as_mut() {
            h.abort();
        }
        self.eng.settle_done(&ot).await;
        if let Some(st) = self.actors[a].start_task.clone() {
            self.eng.settle_done(&st).await;
        }
        self.finish_instant(a);
    }

    /// The loop task created since the controller had `before` tasks: the new task that is not the start
    /// task of a child some callback spawned meanwhile (`Fx::SpawnChild`).
    fn new_loop_task(&self, before: usize) -> Option<Arc<TaskCtl>> {
        let born: Vec<usize> = self
            .sh
            .born
            .lock()
            .unwrap()
            .iter()
            .filter_map(|b| b.task.as_ref().map(|t| t.id))
            .collect();
        (before..self.eng.ntasks())
            .filter_map(|i| self.eng.ctl.task(i))
            .find(|t| !born.contains(&t.id))
    }

    /// Publish to the callbacks what they need to spawn children themselves (after every engine reset /
    /// change of flavour).
    pub fn sync_shared(&self) {
        *self.sh.ctl.lock().unwrap() = Some(self.eng.ctl.clone());
        *self.sh.spawner.lock().unwrap() = self.local.clone();
        self.sh.adapter.store(self.adapter, std::sync::atomic::Ordering::SeqCst);
    }

    /// Would `a.link(p)` close a supervision cycle? (`p` is `a` or has `a` among its ancestors,
    /// following the real supervisor links and the links that pending starts are going to make.)
    /// ractor does not refuse such a link; in a cycle a dying actor's own `terminate()` comes back
    /// to it and clears its supervisor before `notify_supervisor`. The harness never builds one.
    pub fn would_cycle(&self, a: usize, p: usize) -> bool {
        let mut seen = vec![false; self.actors.len()];
        let mut stack = vec![p];
        while let Some(x) = stack.pop() {
            if x == a {
                return true;
            }
            if x >= seen.len() || seen[x] {
                continue;
            }
            seen[x] = true;
            if let Some(me) = self.me(x) {
                if let Some(q) = me.get_cell().try_get_supervisor() {
                    if let Some(i) = self.sh.pids.lock().unwrap().get(&q.get_id().pid()) {
                        stack.push(*i);
                    }
                }
            }
            if self.actors[x].spawn_alive() {
                if let Some(q) = self.actors[x].want_sup {
                    stack.push(q);
                }
            }
        }
        false
    }

    /// Feature `monitors`: `m.monitor(a)` / `m.unmonitor(a)`. Without the feature: `nomon`.
    pub fn monitor(&mut self, m: usize, a: usize, on: bool) {
        #[cfg(feature = "monitors")]
        match (self.me(m), self.me(a)) {
            (Some(x), Some(y)) => {
                if on {
                    x.get_cell().monitor(y.get_cell())
                } else {
                    x.get_cell().unmonitor(y.get_cell())
                }
            }
            _ => verif::note("nocell".into()),
        }
        #[cfg(not(feature = "monitors"))]
        {
            let _ = (m, a, on);
            verif::note("nomon".into());
        }
    }
    pub fn monitors_enabled(&self) -> bool {
        cfg!(feature = "monitors")
    }

    /// The public `ActorCell::link` / `unlink`.
    pub fn link(&mut self, a: usize, p: usize) {
        match (self.me(a), self.me(p)) {
            (Some(x), Some(y)) => x.get_cell().link(y.get_cell()),
            _ => verif::note("nocell".into()),
        }
    }
    pub fn unlink(&mut self, a: usize, p: usize) {
        match (self.me(a), self.me(p)) {
            (Some(x), Some(y)) => x.get_cell().unlink(y.get_cell()),
            _ => verif::note("nocell".into()),
        }
    }

    /// Variant-independent entry points used by the harness binaries.
    pub async fn spawn_any(&mut self, sup: Option<usize>, name: Option<&str>) -> usize {
        if self.local.is_some() {
            self.spawn_local_named(sup, name).await
        } else {
            self.spawn_named(sup, name)
        }
    }
    pub async fn pollspawn_any(&mut self, a: usize) {
        if self.actors[a].inst_task.is_some() {
            self.pollspawn_instant(a).await
        } else if self.local.is_some() {
            self.pollspawn_local(a).await
        } else {
            self.pollspawn(a)
        }
    }
    pub async fn dropspawn_any(&mut self, a: usize) {
        if self.actors[a].inst_task.is_some() {
            self.dropspawn_instant(a).await
        } else if self.local.is_some() {
            self.dropspawn_local(a).await
        } else {
            self.dropspawn(a)
        }
    }

    pub fn me(&self, a: usize) -> Option<ActorRef<Msg>> {
        self.sh.slots.lock().unwrap().get(a).and_then(|s| s.me.clone())
    }

    /// Create actor `a = actors.len()` (optionally linked to `sup`) and poll the spawn future once:
    /// the cell is created and `pre_start` is entered.
    pub fn note_name(&mut self, n: &str) {
        if !self.names.iter().any(|x| x == n) {
            self.names.push(n.to_string());
        }
    }
    pub fn note_group(&mut self, g: &str) {
        if !self.groups.iter().any(|x| x == g) {
            self.groups.push(g.to_string());
        }
    }

    pub fn spawn(&mut self, sup: Option<usize>) -> usize {
        self.spawn_named(sup, None)
    }

    pub fn spawn_named(&mut self, sup: Option<usize>, name: Option<&str>) -> usize {
        let a = self.actors.len();
        self.sh.slots.lock().unwrap().push(Slot::default());
        let handler = Scripted {
            idx: a,
            sh: self.sh.clone(),
        };
        if let Some(n) = name {
            self.note_name(n);
        }
        let real = name.map(|n| self.sh.real(n));
        let hand: Hand<SpawnRes> = match sup.and_then(|p| self.me(p)) {
            Some(p) => Hand::new(Actor::spawn_linked(real, handler, (), p.get_cell())),
            None => Hand::new(Actor::spawn(real, handler, ())),
        };
        self.actors.push(ActorSlot {
            spawn: Some(hand),
            want_sup: sup,
            ..Default::default()
        });
        self.pollspawn(a);
        a
    }

    pub fn pollspawn(&mut self, a: usize) {
        let before = self.eng.ntasks();
        let Some(hand) = self.actors[a].spawn.as_mut() else {
            verif::note("nospawn".into());
            return;
        };
        if !hand.alive() {
            verif::note("nospawn".into());
            return;
        }
        match hand.poll_once() {
            None => {}
            Some(Ok((_r, h))) => {
                self.actors[a].handle = Some(h);
                self.actors[a].task = self.new_loop_task(before);
                assert!(self.actors[a].task.is_some(), "spawn must create the loop task");
                verif::note("ret Ok".into());
            }
            Some(Err(e)) => {
                assert!(self.new_loop_task(before).is_none());
                verif::note(format!("ret Err({})", spawn_err_str(&e)));
            }
        }
    }

    pub fn dropspawn(&mut self, a: usize) {
        match self.actors[a].spawn.as_mut() {
            Some(h) if h.alive() => h.drop_now(),
            _ => verif::note("nospawn".into()),
        }
    }

    pub async fn poll(&mut self, a: usize) {
        match self.actors[a].task.clone() {
            Some(t) if !t.is_done() => {
                self.eng.poll_task(&t).await;
            }
            _ => verif::note("notask".into()),
        }
    }

    pub async fn abort(&mut self, a: usize) {
        // `as_mut`: the async-std backend's `JoinHandle::abort` takes `&mut self`
        match (self.actors[a].task.clone(), self.actors[a].handle.as_mut()) {
            (Some(t), Some(h)) if !t.is_done() => {
                h.abort();
                self.eng.settle_done(&t).await;
            }
            _ => verif::note("notask".into()),
        }
    }

    pub fn resume(&mut self, a: usize, seg: Seg) {
        for x in &seg.fx {
            if let Fx::Join(g) = x {
                let g = g.clone();
                self.note_group(&g);
            }
        }
        if self.actors[a].open.is_none() {
            verif::note("noopen".into());
            return;
        }
        let w = {
            let mut s = self.sh.slots.lock().unwrap();
            let slot = &mut s[a];
            if slot.seg.is_some() {
                verif::note("busy".into());
                return;
            }
            slot.seg = Some(seg);
            slot.waker.take()
        };
        self.actors[a].seg_pending = true;
        if let Some(w) = w {
            w.wake();
        }
    }

    pub fn send(&mut self, a: usize, m: u32) {
        match self.me(a) {
            Some(me) => verif::note(format!("ret {}", show_send(&me.cast(Msg::User(m))))),
            None => verif::note("nocell".into()),
        }
    }

    pub fn stop(&mut self, a: usize, reason: Option<String>) {
        match self.me(a) {
            Some(me) => {
                // the PUBLIC `ActorCell::stop`; acceptance = the stop port was open just before
                let ok = me.get_cell().verif_ports_open().0;
                me.get_cell().stop(reason);
                verif::note(format!("ret {}", ok_err(ok)))
            }
            None => verif::note("nocell".into()),
        }
    }

    pub fn kill(&mut self, a: usize) {
        match self.me(a) {
            Some(me) => {
                let ok = me.get_cell().verif_ports_open().1;
                me.get_cell().kill();
                verif::note(format!("ret {}", ok_err(ok)))
            }
            None => verif::note("nocell".into()),
        }
    }

    pub fn drain(&mut self, a: usize) {
        match self.me(a) {
            Some(me) => {
                let r = me.get_cell().drain();
                verif::note(format!(
                    "ret {}",
                    match r {
                        Ok(()) => "Ok",
                        Err(_) => "Err(SendErr)",
                    }
                ))
            }
            None => verif::note("nocell".into()),
        }
    }

    /// `wait w a`: create `cell.wait(None)` and poll it once.
    pub fn wait(&mut self, w: u32, a: usize) {
        match self.me(a) {
            Some(me) => {
                let cell = me.get_cell();
                self.waits.insert(w, Hand::new(async move { cell.wait(None).await }));
                self.pollwait(w);
            }
            None => verif::note("nocell".into()),
        }
    }

    pub fn pollwait(&mut self, w: u32) {
        match self.waits.get_mut(&w) {
            Some(h) if h.alive() => match h.poll_once() {
                Some(_) => verif::note(format!("wait {w} Ready")),
                None => verif::note(format!("wait {w} Pending")),
            },
            _ => verif::note("nowait".into()),
        }
    }

    /// `call k a`: `actor.call(|port| Msg::Call(k, port), None)` polled once.
    pub fn call(&mut self, k: u32, a: usize) {
        match self.me(a) {
            Some(me) => {
                self.calls
                    .insert(k, Hand::new(async move { me.call(|port| Msg::Call(k, port), None).await }));
                self.pollcall(k);
            }
            None => verif::note("nocell".into()),
        }
    }

    pub fn pollcall(&mut self, k: u32) {
        use ractor::rpc::CallResult;
        match self.calls.get_mut(&k) {
            Some(h) if h.alive() => match h.poll_once() {
                None => verif::note(format!("call {k} Pending")),
                Some(Ok(CallResult::Success(v))) => verif::note(format!("call {k} Success({v})")),
                Some(Ok(CallResult::SenderError)) => verif::note(format!("call {k} SenderError")),
                Some(Ok(CallResult::Timeout)) => verif::note(format!("call {k} Timeout")),
                Some(Err(e)) => verif::note(format!("call {k} {}", show_send::<Msg>(&Err(e)))),
            },
            _ => verif::note("nocall".into()),
        }
    }

    fn fmt_note(&self, n: &Note) -> String {
        match n {
            Note::Text(s) => s.clone(),
            Note::Sup(s) => {
                let to = self.sh.idx_of(s.to);
                let who = s.who.map(|w| self.sh.idx_of(w)).unwrap_or_else(|| "-".into());
                match s.kind {
                    "Started" => format!("emit {to} Started {who}"),
                    "Terminated" => format!(
                        "emit {to} Terminated {who} s{} {}",
                        u8::from(s.has_state),
                        reason_str(&s.text)
                    ),
                    "Failed" => format!("emit {to} Failed {who} {}", reason_str(&s.text)),
                    k => format!("emit {to} {k} {who}"),
                }
            }
        }
    }

    /// Collect everything observable after one op: the ordered notes (plus join results of tasks
    /// that just finished), every actor's status / supervisor / number of children, the runnable set.
    pub fn collect(&mut self) -> String {
        // children born inside callbacks during this op get their slots
        for b in self.sh.born.lock().unwrap().drain(..) {
            assert_eq!(b.idx, self.actors.len(), "a callback-spawned child must take the next slot");
            self.actors.push(ActorSlot {
                inst: Some(b.inst),
                inst_task: b.task,
                want_sup: Some(b.sup),
                ..Default::default()
            });
        }
        let mut ev: Vec<String> = verif::take_notes().iter().map(|n| self.fmt_note(n)).collect();
        // join handles of tasks that are gone now
        for (a, s) in self.actors.iter_mut().enumerate() {
            if s.joined {
                continue;
            }
            let done = s.task.as_ref().is_some_and(|t| t.is_done());
            if !done {
                continue;
            }
            if let Some(h) = s.handle.take() {
                let mut hand = Hand::new(h);
                // the task's future is gone; its runtime (possibly on another thread) publishes
                // the join result right after, so allow it a moment
                let mut res = hand.poll_once();
                let mut i = 0u32;
                while res.is_none() && i < 200_000 {
                    if i > 50 {
                        std::thread::sleep(std::time::Duration::from_micros(20));
                    } else {
                        std::thread::yield_now();
                    }
                    res = hand.poll_once();
                    i += 1;
                }
                #[cfg(not(feature = "async-std"))]
                let r = match res {
                    Some(Ok(())) => "Ok",
                    Some(Err(e)) if e.is_cancelled() => "Cancelled",
                    Some(Err(_)) => "Panic",
                    None => "Pending",
                };
                // async-std backend: `JoinHandle<T>: Future<Output = Result<T, ()>>`, `Err(())` = the
                // `Abortable` wrapper saw the abort flag (a panic escaping a task is not reported as a value by this handle; ractor catches callback panics itself)
                #[cfg(feature = "async-std")]
                let r = match res {
                    Some(Ok(())) => "Ok",
                    Some(Err(())) => "Cancelled",
                    None => "Pending",
                };
                ev.push(format!("join {a} {r}"));
                s.joined = true;
            }
        }
        // feature `monitors`: `monemit <to pid> <kind> <who pid> s<0|1> <text>` (hook in `notify_supervisor`,
        // one per monitor, HashMap order): pids -> indices, each run of consecutive notes sorted by target;
        // `mondrop <who pid> <monitor pid>` (a send to a dead monitor failed): a sorted extra field
        let mut md: Vec<String> = Vec::new();
        {
            let pid_idx = |p: &str| -> String {
                match p.parse::<u64>().ok().and_then(|p| self.sh.pids.lock().unwrap().get(&p).copied()) {
                    Some(i) => i.to_string(),
                    None => format!("?{p}"),
                }
            };
            let mut out: Vec<String> = Vec::new();
            let mut run: Vec<(usize, String)> = Vec::new();
            let flush = |run: &mut Vec<(usize, String)>, out: &mut Vec<String>| {
                run.sort();
                out.extend(run.drain(..).map(|x| x.1));
            };
            for e in ev.drain(..) {
                let w: Vec<&str> = e.split(' ').collect();
                match w.as_slice() {
                    ["monemit", to, kind, who, st, text] => {
                        let to_i = pid_idx(to);
                        let who_i = pid_idx(who);
                        let line = match *kind {
                            "Started" => format!("monemit {to_i} Started {who_i}"),
                            "Terminated" => format!("monemit {to_i} Terminated {who_i} {st} {text}"),
                            "Failed" => format!("monemit {to_i} Failed {who_i} {text}"),
                            k => format!("monemit {to_i} {k} {who_i}"),
                        };
                        run.push((to_i.parse::<usize>().unwrap_or(usize::MAX), line));
                    }
                    ["mondrop", who, m] => md.push(format!("{}:{}", pid_idx(who), pid_idx(m))),
                    _ => {
                        flush(&mut run, &mut out);
                        out.push(e);
                    }
                }
            }
            flush(&mut run, &mut out);
            ev = out;
            md.sort();
        }
        // kills issued by a `terminate()` (hook note `treekill <pid>`): a sorted extra field
        let mut tk: Vec<usize> = Vec::new();
        let mut tk_unknown = false;
        ev.retain(|e| match e.strip_prefix("treekill ") {
            Some(pid) => {
                match pid.parse::<u64>().ok().and_then(|p| self.sh.pids.lock().unwrap().get(&p).copied()) {
                    Some(i) => tk.push(i),
                    None => tk_unknown = true,
                }
                false
            }
            None => true,
        });
        tk.sort();
        // track open callbacks / pending segments from the notes
        for e in &ev {
            let w: Vec<&str> = e.split(' ').collect();
            match w.as_slice() {
                ["enter", a, cb, ..] => {
                    if let Ok(a) = a.parse::<usize>() {
                        self.actors[a].open = Some(cb.to_string());
                    }
                }
                ["tick", a, _] => {
                    if let Ok(a) = a.parse::<usize>() {
                        self.actors[a].seg_pending = false;
                    }
                }
                ["exit", a, ..] | ["cancelled", a, ..] => {
                    if let Ok(a) = a.parse::<usize>() {
                        self.actors[a].open = None;
                        self.actors[a].seg_pending = false;
                    }
                }
                _ => {}
            }
        }
        let evs = if ev.is_empty() { "-".to_string() } else { ev.join("; ") };
        let mut st = Vec::new();
        for a in 0..self.actors.len() {
            if let Some(me) = self.me(a) {
                let cell = me.get_cell();
                let sup = cell
                    .try_get_supervisor()
                    .map(|p| self.sh.idx_of(p.get_id()))
                    .unwrap_or_else(|| "-".into());
                let mut kids: Vec<String> =
                    cell.get_children().iter().map(|c| self.sh.idx_of(c.get_id())).collect();
                kids.sort();
                // `x`: the child set was closed by a `terminate()` (hook `verif_children_open`)
                st.push(format!(
                    "{a}:{}/{sup}/{}",
                    status_str(cell.get_status()),
                    if !cell.verif_children_open() {
                        "x".to_string()
                    } else if kids.is_empty() {
                        "-".to_string()
                    } else {
                        kids.join(",")
                    }
                ));
            }
        }
        let run: Vec<String> = self
            .actors
            .iter()
            .enumerate()
            .filter(|(_, s)| s.runnable())
            .map(|(a, _)| a.to_string())
            .collect();
        let mut tables = Vec::new();
        for n in &self.names {
            let who = ractor::registry::where_is(self.sh.real(n))
                .map(|c| self.sh.idx_of(c.get_id()))
                .unwrap_or_else(|| "-".into());
            tables.push(format!("{n}={who}"));
        }
        for g in &self.groups {
            let mut m: Vec<String> = ractor::pg::get_members(&self.sh.real(g))
                .iter()
                .map(|c| self.sh.idx_of(c.get_id()))
                .collect();
            m.sort();
            tables.push(format!("{g}={}", if m.is_empty() { "-".to_string() } else { m.join(",") }));
        }
        let mut tail = if tk.is_empty() && !tk_unknown {
            String::new()
        } else {
            format!(
                " | tk={}{}",
                tk.iter().map(|i| i.to_string()).collect::<Vec<_>>().join(","),
                if tk_unknown { "?" } else { "" }
            )
        };
        if !md.is_empty() {
            tail.push_str(&format!(" | md={}", md.join(",")));
        }
        format!(
            "{evs} | {} | run={} | {}{tail}",
            if st.is_empty() { "-".to_string() } else { st.join(" ") },
            if run.is_empty() { "-".to_string() } else { run.join(",") },
            if tables.is_empty() { "-".to_string() } else { tables.join(" ") }
        )
    }

    /// Tear the case down (not part of the recorded ops): cancel every spawn future and task.
    pub async fn cleanup(&mut self) {
        for s in self.actors.iter_mut() {
            if let Some(h) = s.spawn.as_mut() {
                h.drop_now();
            }
            if let Some(h) = s.handle.as_mut() {
                h.abort();
            }
            if let Some(h) = s.inst.as_mut() {
                h.abort();
            }
        }
        for s in self.actors.iter() {
            if let Some(t) = s.inst_task.clone() {
                self.eng.settle_done(&t).await;
            }
            if let Some(t) = s.start_task.clone() {
                self.eng.settle_done(&t).await;
            }
            if let Some(t) = s.task.clone() {
                self.eng.settle_done(&t).await;
            }
        }
        self.waits.clear();
        self.calls.clear();
        self.sh.slots.lock().unwrap().clear();
        self.sh.born.lock().unwrap().clear();
        self.actors.clear();
        self.names.clear();
        self.groups.clear();
        let _ = verif::take_notes();
    }
}
