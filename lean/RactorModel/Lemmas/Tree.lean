import RactorModel.Model.Tree

/-! Lemmas for `Props/C05.lean`: the structural invariant of the supervision tree and its
preservation by `link`, `unlink`, `take_children`, `terminate`, the exit sequence. -/

namespace Tree

@[simp] theorem upd_same {α : Type} (f : Nat → α) (i : Nat) (v : α) : upd f i v i = v := by simp [upd]
theorem upd_ne {α : Type} (f : Nat → α) {i x : Nat} (v : α) (h : x ≠ i) : upd f i v x = f x := by simp [upd, h]
theorem upd_apply {α : Type} (f : Nat → α) (i x : Nat) (v : α) : upd f i v x = if x = i then v else f x := rfl

theorem upd_self_eq {α : Type} (f : Nat → α) (i : Nat) : upd f i (f i) = f := by
  funext x; simp only [upd]; split
  · next h => rw [h]
  · rfl

theorem mem_ins {c x : Nat} {ks : List Nat} : x ∈ ins c ks ↔ x = c ∨ x ∈ ks := by
  unfold ins; split
  · next h => constructor
              · exact .inr
              · rintro (rfl | h') <;> assumption
  · simp [or_comm]

theorem ins_of_mem {c : Nat} {ks : List Nat} (h : c ∈ ks) : ins c ks = ks := by simp [ins, h]

theorem nodup_ins {c : Nat} {ks : List Nat} (h : ks.Nodup) : (ins c ks).Nodup := by
  unfold ins; split
  · exact h
  · next hc => exact List.nodup_append.mpr ⟨h, by simp, by intro a ha b hb; simp at hb; subst hb; intro e; subst e; exact hc ha⟩

/-- the structural invariant: (1) two-sided consistency, bounded ids, duplicate-free sets,
(3) a stopped actor has no links -/
structure Inv (s : State) : Prop where
  bound : ∀ p ks c, s.kids p = some ks → c ∈ ks → p < s.n ∧ c < s.n
  links : ∀ c p, s.sup c = some p ↔ ∃ ks, s.kids p = some ks ∧ c ∈ ks
  nodup : ∀ p ks, s.kids p = some ks → ks.Nodup
  stopped : ∀ a, s.status a = .stopped → s.sup a = none ∧ (s.kids a = none ∨ s.kids a = some [])

theorem Inv.init : Inv init :=
  { bound := by intro p ks c h hc; simp [Tree.init] at h; subst h; cases hc
    links := by intro c p; simp [Tree.init]
    nodup := by intro p ks h; simp [Tree.init] at h; subst h; exact List.nodup_nil
    stopped := by intro a h; simp [Tree.init] at h }

theorem Inv.sup_lt {s : State} (h : Inv s) {c p : Nat} (hs : s.sup c = some p) : c < s.n ∧ p < s.n := by
  obtain ⟨ks, hk, hc⟩ := (h.links c p).mp hs
  exact (h.bound p ks c hk hc).symm

theorem Inv.spawn {s : State} (h : Inv s) : Inv (spawn s) :=
  { bound := fun p ks c hk hc => by
      obtain ⟨a, b⟩ := h.bound p ks c hk hc
      exact ⟨Nat.lt_succ_of_lt a, Nat.lt_succ_of_lt b⟩
    links := h.links
    nodup := h.nodup
    stopped := by
      intro a ha
      simp only [Tree.spawn, upd_apply] at ha
      split at ha
      · cases ha
      · exact h.stopped a ha }

end Tree

namespace Tree

/-- status gate of `link`: both sides below `Draining` -/
def gateB (lim : Nat) (s : State) (c p : Nat) : Prop :=
  c < s.n ∧ p < s.n ∧ (s.status c).toNat < lim ∧ (s.status p).toNat < Status.draining.toNat

def gate (s : State) (c p : Nat) : Prop := gateB Status.draining.toNat s c p

/-- the four outcomes of `link` -/
theorem linkB_cases (lim : Nat) (s : State) (c p : Nat) :
    (linkBelow lim s c p = (s, false) ∧ (¬ gateB lim s c p ∨ s.kids p = none)) ∨
    (∃ ks, gateB lim s c p ∧ s.kids p = some ks ∧
      ((s.sup c = some p ∧ linkBelow lim s c p = ({ s with kids := upd s.kids p (some (ins c ks)) }, true)) ∨
       (s.sup c = none ∧
          linkBelow lim s c p = ({ s with kids := upd s.kids p (some (ins c ks)), sup := upd s.sup c (some p) }, true)) ∨
       (∃ q, s.sup c = some q ∧ q ≠ p ∧
          linkBelow lim s c p = ({ s with kids := (match upd s.kids p (some (ins c ks)) q with
                                                   | none => upd s.kids p (some (ins c ks))
                                                   | some qs => upd (upd s.kids p (some (ins c ks))) q (some (qs.erase c))),
                                          sup := upd s.sup c (some p) }, true)))) := by
  unfold linkBelow gateB
  by_cases h1 : s.n ≤ c ∨ s.n ≤ p
  · left; simp only [h1, ↓reduceIte, true_and]; left; omega
  · simp only [h1, ↓reduceIte]
    by_cases h2 : lim ≤ (s.status c).toNat ∨ Status.draining.toNat ≤ (s.status p).toNat
    · left; simp only [h2, ↓reduceIte, true_and]; left; omega
    · simp only [h2, ↓reduceIte]
      cases hk : s.kids p with
      | none => left; simp
      | some ks =>
        right
        refine ⟨ks, by omega, rfl, ?_⟩
        simp only
        by_cases h3 : s.sup c = some p
        · left; simp [h3]
        · simp only [h3, ↓reduceIte]
          cases hq : s.sup c with
          | none => right; left; simp
          | some q =>
            right; right
            refine ⟨q, rfl, ?_, rfl⟩
            intro e; subst e; exact h3 hq

theorem link_cases (s : State) (c p : Nat) :
    (link s c p = (s, false) ∧ (¬ gate s c p ∨ s.kids p = none)) ∨
    (∃ ks, gate s c p ∧ s.kids p = some ks ∧
      ((s.sup c = some p ∧ link s c p = ({ s with kids := upd s.kids p (some (ins c ks)) }, true)) ∨
       (s.sup c = none ∧
          link s c p = ({ s with kids := upd s.kids p (some (ins c ks)), sup := upd s.sup c (some p) }, true)) ∨
       (∃ q, s.sup c = some q ∧ q ≠ p ∧
          link s c p = ({ s with kids := (match upd s.kids p (some (ins c ks)) q with
                                          | none => upd s.kids p (some (ins c ks))
                                          | some qs => upd (upd s.kids p (some (ins c ks))) q (some (qs.erase c))),
                                 sup := upd s.sup c (some p) }, true)))) :=
  linkB_cases Status.draining.toNat s c p

theorem Inv.linkBelow {s : State} (h : Inv s) (lim : Nat) (hlim : lim ≤ Status.stopped.toNat) (c p : Nat) :
    Inv (linkBelow lim s c p).1 := by
  rcases linkB_cases lim s c p with ⟨e, _⟩ | ⟨ks, hg, hk, hcase⟩
  · rw [e]; exact h
  · obtain ⟨hc, hp, hsc, hsp⟩ := hg
    have hnd := h.nodup p ks hk
    rcases hcase with ⟨hs, e⟩ | ⟨hs, e⟩ | ⟨q, hs, hqp, e⟩
    · -- already linked to this supervisor: the insert changes nothing
      rw [e]
      obtain ⟨ks', hk', hc'⟩ := (h.links c p).mp hs
      rw [hk] at hk'; cases hk'
      have : upd s.kids p (some (ins c ks)) = s.kids := by
        rw [ins_of_mem hc', ← hk]; exact upd_self_eq _ _
      simp only [this]; exact h
    · rw [e]
      have hcn : c ∉ ks := fun hm => by
        have := (h.links c p).mpr ⟨ks, hk, hm⟩
        rw [hs] at this; cases this
      exact {
        bound := by
          intro p' ks' c' hk' hc'
          simp only [upd_apply] at hk'
          split at hk'
          · next hpp =>
            cases hk'; subst hpp
            rcases mem_ins.mp hc' with rfl | hm
            · exact ⟨hp, hc⟩
            · exact h.bound _ ks c' hk hm
          · exact h.bound p' ks' c' hk' hc'
        links := by
          intro c' p'
          simp only [upd_apply]
          by_cases hcc : c' = c
          · subst hcc
            simp only [↓reduceIte, Option.some.injEq]
            constructor
            · intro e; subst e; exact ⟨ins c' ks, by simp, mem_ins.mpr (.inl rfl)⟩
            · rintro ⟨ks', hk', hc'⟩
              split at hk'
              · next hpp => exact hpp.symm
              · have := (h.links c' p').mpr ⟨ks', hk', hc'⟩
                rw [hs] at this; cases this
          · simp only [hcc, ↓reduceIte]
            rw [h.links c' p']
            constructor
            · rintro ⟨ks', hk', hc'⟩
              by_cases hpp : p' = p
              · subst hpp; rw [hk] at hk'; cases hk'
                exact ⟨ins c ks, by simp, mem_ins.mpr (.inr hc')⟩
              · exact ⟨ks', by simp [hpp, hk'], hc'⟩
            · rintro ⟨ks', hk', hc'⟩
              split at hk'
              · next hpp =>
                cases hk'; subst hpp
                rcases mem_ins.mp hc' with e | hm
                · exact absurd e hcc
                · exact ⟨ks, hk, hm⟩
              · exact ⟨ks', hk', hc'⟩
        nodup := by
          intro p' ks' hk'
          simp only [upd_apply] at hk'
          split at hk'
          · cases hk'; exact nodup_ins hnd
          · exact h.nodup p' ks' hk'
        stopped := by
          intro a ha
          have hac : a ≠ c := by rintro rfl; simp only at ha; rw [ha] at hsc; simp only [Status.toNat] at hsc hlim; omega
          have hap : a ≠ p := by rintro rfl; simp only at ha; rw [ha] at hsp; simp [Status.toNat] at hsp
          simp only [upd_ne _ _ hac, upd_ne _ _ hap]
          exact h.stopped a ha }
    · rw [e]
      have hcn : c ∉ ks := fun hm => by
        have := (h.links c p).mpr ⟨ks, hk, hm⟩
        rw [hs] at this; cases this; exact hqp rfl
      obtain ⟨qs, hkq, hcq⟩ := (h.links c q).mp hs
      have hk1 : upd s.kids p (some (ins c ks)) q = some qs := by rw [upd_ne _ _ hqp]; exact hkq
      simp only [hk1]
      have hndq := h.nodup q qs hkq
      have kids_at : ∀ x, upd (upd s.kids p (some (ins c ks))) q (some (qs.erase c)) x =
          if x = q then some (qs.erase c) else if x = p then some (ins c ks) else s.kids x := by
        intro x; simp only [upd_apply]
      exact {
        bound := by
          intro p' ks' c' hk' hc'
          simp only [kids_at] at hk'
          split at hk'
          · next hpq =>
            cases hk'; subst hpq
            exact h.bound _ qs c' hkq (List.mem_of_mem_erase hc')
          · split at hk'
            · next hpp =>
              cases hk'; subst hpp
              rcases mem_ins.mp hc' with rfl | hm
              · exact ⟨hp, hc⟩
              · exact h.bound _ ks c' hk hm
            · exact h.bound p' ks' c' hk' hc'
        links := by
          intro c' p'
          simp only [kids_at, upd_apply]
          by_cases hcc : c' = c
          · subst hcc
            simp only [↓reduceIte, Option.some.injEq]
            constructor
            · intro e; subst e
              exact ⟨ins c' ks, by simp [Ne.symm hqp], mem_ins.mpr (.inl rfl)⟩
            · rintro ⟨ks', hk', hc'⟩
              split at hk'
              · cases hk'
                exact absurd hc' (by
                  intro hm
                  exact (List.Nodup.mem_erase_iff hndq).mp hm |>.1 rfl)
              · split at hk'
                · next hpp => exact hpp.symm
                · have := (h.links c' p').mpr ⟨ks', hk', hc'⟩
                  rw [hs] at this; cases this
                  rename_i hne _; exact absurd rfl hne
          · simp only [hcc, ↓reduceIte]
            rw [h.links c' p']
            constructor
            · rintro ⟨ks', hk', hc'⟩
              by_cases hpq : p' = q
              · subst hpq; rw [hkq] at hk'; cases hk'
                exact ⟨qs.erase c, by simp, (List.mem_erase_of_ne hcc).mpr hc'⟩
              · by_cases hpp : p' = p
                · subst hpp; rw [hk] at hk'; cases hk'
                  exact ⟨ins c ks, by simp [hpq], mem_ins.mpr (.inr hc')⟩
                · exact ⟨ks', by simp [hpq, hpp, hk'], hc'⟩
            · rintro ⟨ks', hk', hc'⟩
              split at hk'
              · next hpq =>
                cases hk'; subst hpq
                exact ⟨qs, hkq, List.mem_of_mem_erase hc'⟩
              · split at hk'
                · next hpp =>
                  cases hk'; subst hpp
                  rcases mem_ins.mp hc' with e | hm
                  · exact absurd e hcc
                  · exact ⟨ks, hk, hm⟩
                · exact ⟨ks', hk', hc'⟩
        nodup := by
          intro p' ks' hk'
          simp only [kids_at] at hk'
          split at hk'
          · cases hk'; exact hndq.erase c
          · split at hk'
            · cases hk'; exact nodup_ins hnd
            · exact h.nodup p' ks' hk'
        stopped := by
          intro a ha
          have hac : a ≠ c := by rintro rfl; simp only at ha; rw [ha] at hsc; simp only [Status.toNat] at hsc hlim; omega
          have hap : a ≠ p := by rintro rfl; simp only at ha; rw [ha] at hsp; simp [Status.toNat] at hsp
          have haq : a ≠ q := by
            rintro rfl
            rcases (h.stopped a ha).2 with e | e
            · rw [e] at hkq; cases hkq
            · rw [e] at hkq; cases hkq; cases hcq
          simp only [kids_at, haq, hap, ↓reduceIte, upd_ne _ _ hac]
          exact h.stopped a ha }

end Tree

namespace Tree

theorem Inv.unlink {s : State} (h : Inv s) (c p : Nat) : Inv (unlink s c p) := by
  unfold Tree.unlink
  by_cases hs : s.sup c = some p
  · simp only [hs, ↓reduceIte]
    obtain ⟨ks, hk, hc⟩ := (h.links c p).mp hs
    have hnd := h.nodup p ks hk
    simp only [hk]
    exact {
      bound := by
        intro p' ks' c' hk' hc'
        simp only [upd_apply] at hk'
        split at hk'
        · next hpp => cases hk'; subst hpp; exact h.bound _ ks c' hk (List.mem_of_mem_erase hc')
        · exact h.bound p' ks' c' hk' hc'
      links := by
        intro c' p'
        simp only [upd_apply]
        by_cases hcc : c' = c
        · subst hcc
          simp only [↓reduceIte, reduceCtorEq, false_iff, not_exists, not_and]
          intro ks' hk' hc'
          split at hk'
          · cases hk'; exact (List.Nodup.mem_erase_iff hnd).mp hc' |>.1 rfl
          · next hpp =>
            have := (h.links c' p').mpr ⟨ks', hk', hc'⟩
            rw [hs] at this; cases this; exact hpp rfl
        · simp only [hcc, ↓reduceIte]
          rw [h.links c' p']
          constructor
          · rintro ⟨ks', hk', hc'⟩
            by_cases hpp : p' = p
            · subst hpp; rw [hk] at hk'; cases hk'
              exact ⟨ks.erase c, by simp, (List.mem_erase_of_ne hcc).mpr hc'⟩
            · exact ⟨ks', by simp [hpp, hk'], hc'⟩
          · rintro ⟨ks', hk', hc'⟩
            split at hk'
            · next hpp => cases hk'; subst hpp; exact ⟨ks, hk, List.mem_of_mem_erase hc'⟩
            · exact ⟨ks', hk', hc'⟩
      nodup := by
        intro p' ks' hk'
        simp only [upd_apply] at hk'
        split at hk'
        · cases hk'; exact hnd.erase c
        · exact h.nodup p' ks' hk'
      stopped := by
        intro a ha
        have hap : a ≠ p := by
          rintro rfl
          rcases (h.stopped a ha).2 with e | e
          · rw [e] at hk; cases hk
          · rw [e] at hk; cases hk; cases hc
        simp only [upd_apply, hap, ↓reduceIte]
        refine ⟨?_, (h.stopped a ha).2⟩
        split
        · rfl
        · exact (h.stopped a ha).1 }
  · simp only [hs, ↓reduceIte]; exact h

/-- the state part of `take_children` never depends on the list -/
theorem Inv.link {s : State} (h : Inv s) (c p : Nat) : Inv (link s c p).1 :=
  h.linkBelow Status.draining.toNat (by decide) c p

theorem Inv.linkStart {s : State} (h : Inv s) (c p : Nat) : Inv (linkStart s c p).1 :=
  h.linkBelow Status.stopping.toNat (by decide) c p

theorem takeChildren_none {s : State} {p : Nat} (hk : s.kids p = none) : takeChildren s p = (s, []) := by
  simp [takeChildren, hk]

theorem takeChildren_some {s : State} {p : Nat} {ks : List Nat} (hk : s.kids p = some ks) :
    takeChildren s p = ({ s with kids := upd s.kids p none,
                                 sup := fun x => if x ∈ ks ∧ s.sup x = some p then none else s.sup x }, ks) := by
  simp [takeChildren, hk]

theorem Inv.takeChildren {s : State} (h : Inv s) (p : Nat) : Inv (takeChildren s p).1 := by
  cases hk : s.kids p with
  | none => rw [takeChildren_none hk]; exact h
  | some ks =>
    rw [takeChildren_some hk]
    have hmem : ∀ x, x ∈ ks ↔ s.sup x = some p := fun x =>
      ⟨fun hx => (h.links x p).mpr ⟨ks, hk, hx⟩, fun hx => by
        obtain ⟨ks', hk', hx'⟩ := (h.links x p).mp hx
        rw [hk] at hk'; cases hk'; exact hx'⟩
    exact {
      bound := by
        intro p' ks' c' hk' hc'
        simp only [upd_apply] at hk'
        split at hk'
        · cases hk'
        · exact h.bound p' ks' c' hk' hc'
      links := by
        intro c' p'
        simp only [upd_apply]
        by_cases hc : c' ∈ ks
        · have hs := (hmem c').mp hc
          simp only [hc, hs, and_self, ↓reduceIte, reduceCtorEq, false_iff, not_exists, not_and]
          intro ks' hk' hc'
          split at hk'
          · cases hk'
          · next hpp =>
            have := (h.links c' p').mpr ⟨ks', hk', hc'⟩
            rw [hs] at this; cases this; exact hpp rfl
        · simp only [hc, false_and, ↓reduceIte]
          rw [h.links c' p']
          constructor
          · rintro ⟨ks', hk', hc'⟩
            have hpp : p' ≠ p := by
              rintro rfl; rw [hk] at hk'; cases hk'; exact hc hc'
            exact ⟨ks', by simp [hpp, hk'], hc'⟩
          · rintro ⟨ks', hk', hc'⟩
            split at hk'
            · cases hk'
            · exact ⟨ks', hk', hc'⟩
      nodup := by
        intro p' ks' hk'
        simp only [upd_apply] at hk'
        split at hk'
        · cases hk'
        · exact h.nodup p' ks' hk'
      stopped := by
        intro a ha
        obtain ⟨h1, h2⟩ := h.stopped a ha
        refine ⟨by simp only; split <;> simp [h1], ?_⟩
        simp only [upd_apply]
        split
        · exact .inl rfl
        · exact h2 }

/-- everything `visit` does, spelled out -/
theorem visit_spec (fixed : Bool) (s : State) (x : Nat) :
    (visit fixed s x).1.n = s.n ∧ (visit fixed s x).1.status = s.status ∧ (visit fixed s x).1.kids x = none ∧
    (∀ y, y ≠ x → (visit fixed s x).1.kids y = s.kids y) ∧
    (visit fixed s x).2 = (s.kids x).getD [] ∧
    (∀ z, (visit fixed s x).1.sup z = if z ∈ (visit fixed s x).2 ∧ s.sup z = some x then none else s.sup z) ∧
    (∀ z, (visit fixed s x).1.killed z = (s.killed z || (decide (z = x) && killCond fixed (s.status x)))) := by
  cases hk : s.kids x with
  | none =>
    by_cases hc : killCond fixed (s.status x) = true
    · have e : visit fixed s x = ({ s with killed := upd s.killed x true }, []) := by
        simp [visit, hc, takeChildren, hk]
      rw [e]
      refine ⟨rfl, rfl, hk, fun _ _ => rfl, rfl, fun z => by simp, fun z => ?_⟩
      simp only [upd_apply, hc, Bool.and_true]
      split <;> simp_all
    · have e : visit fixed s x = (s, []) := by simp [visit, hc, takeChildren, hk]
      rw [e]
      refine ⟨rfl, rfl, hk, fun _ _ => rfl, rfl, fun z => by simp, fun z => ?_⟩
      simp [hc]
  | some ks =>
    by_cases hc : killCond fixed (s.status x) = true
    · have e : visit fixed s x = (({ s with
          killed := upd s.killed x true, kids := upd s.kids x none,
          sup := fun z => if z ∈ ks ∧ s.sup z = some x then none else s.sup z } : State), ks) := by
        simp [visit, hc, takeChildren, hk]
      rw [e]
      refine ⟨rfl, rfl, by simp, fun y hy => upd_ne _ _ hy, rfl, fun z => rfl, fun z => ?_⟩
      simp only [upd_apply, hc, Bool.and_true]
      split <;> simp_all
    · have e : visit fixed s x = (({ s with
          kids := upd s.kids x none,
          sup := fun z => if z ∈ ks ∧ s.sup z = some x then none else s.sup z } : State), ks) := by
        simp [visit, hc, takeChildren, hk]
      rw [e]
      refine ⟨rfl, rfl, by simp, fun y hy => upd_ne _ _ hy, rfl, fun z => rfl, fun z => ?_⟩
      simp [hc]

theorem Inv.visit {s : State} (h : Inv s) (fixed : Bool) (x : Nat) : Inv (visit fixed s x).1 := by
  unfold Tree.visit
  split
  · exact Inv.takeChildren (s := { s with killed := upd s.killed x true })
      ⟨h.bound, h.links, h.nodup, h.stopped⟩ x
  · exact h.takeChildren x

theorem Inv.loop {fixed : Bool} : ∀ (f : Nat) {s : State} (pending : List Nat), Inv s → Inv (loop fixed f s pending) := by
  intro f
  induction f with
  | zero => intro s pending h; exact h
  | succ f ih =>
    intro s pending h
    cases pending with
    | nil => exact h
    | cons x rest => exact ih _ (h.visit fixed x)

theorem Inv.terminate {s : State} (h : Inv s) (fixed : Bool) (a : Nat) : Inv (terminate fixed s a) :=
  Inv.loop _ _ h

/-- (2) a closed child set stays closed through the loop -/
theorem loop_closed {fixed : Bool} {z : Nat} : ∀ (f : Nat) (s : State) (pending : List Nat),
    s.kids z = none → (loop fixed f s pending).kids z = none := by
  intro f
  induction f with
  | zero => intro s pending h; exact h
  | succ f ih =>
    intro s pending h
    cases pending with
    | nil => exact h
    | cons x rest =>
      apply ih
      obtain ⟨_, _, hx, hy, _⟩ := visit_spec fixed s x
      by_cases e : z = x
      · subst e; exact hx
      · rw [hy z e]; exact h

theorem loop_status {fixed : Bool} : ∀ (f : Nat) (s : State) (pending : List Nat),
    (loop fixed f s pending).status = s.status ∧ (loop fixed f s pending).n = s.n := by
  intro f
  induction f with
  | zero => intro s pending; exact ⟨rfl, rfl⟩
  | succ f ih =>
    intro s pending
    cases pending with
    | nil => exact ⟨rfl, rfl⟩
    | cons x rest =>
      obtain ⟨hn, hst, _⟩ := visit_spec fixed s x
      obtain ⟨a, b⟩ := ih (visit fixed s x).1 ((visit fixed s x).2 ++ rest)
      exact ⟨a.trans hst, b.trans hn⟩

theorem terminate_closes (fixed : Bool) (s : State) (a : Nat) : (terminate fixed s a).kids a = none := by
  unfold Tree.terminate
  show (loop fixed (totalKids s s.n + 1) s [a]).kids a = none
  simp only [Tree.loop]
  apply loop_closed
  exact (visit_spec fixed s a).2.2.1

theorem Inv.setStatus {s : State} (h : Inv s) (a : Nat) (st : Status) (hst : st ≠ .stopped) :
    Inv (setStatus s a st) :=
  { bound := h.bound, links := h.links, nodup := h.nodup
    stopped := by
      intro x hx
      simp only [Tree.setStatus, upd_apply] at hx
      split at hx
      · next e =>
        subst e
        have : s.status x = .stopped := by
          unfold Status.max at hx
          split at hx
          · exact absurd hx hst
          · exact hx
        exact h.stopped x this
      · exact h.stopped x hx }

theorem unlink_frame (s : State) (c p : Nat) :
    (unlink s c p).killed = s.killed ∧ (unlink s c p).status = s.status ∧ (unlink s c p).n = s.n := by
  unfold Tree.unlink; split <;> exact ⟨rfl, rfl, rfl⟩

theorem unlink_kids (s : State) (c p z : Nat) :
    (unlink s c p).kids z = s.kids z ∨ ∃ ks, s.kids z = some ks ∧ (unlink s c p).kids z = some (ks.erase c) := by
  unfold Tree.unlink
  split
  · cases hk : s.kids p with
    | none => exact .inl rfl
    | some ks =>
      simp only [upd_apply]
      split
      · next e => subst e; exact .inr ⟨ks, hk, rfl⟩
      · exact .inl rfl
  · exact .inl rfl

theorem unlink_sup (s : State) (c p z : Nat) :
    (unlink s c p).sup z = s.sup z ∨ (unlink s c p).sup z = none := by
  unfold Tree.unlink
  split
  · simp only [upd_apply]; split
    · exact .inr rfl
    · exact .inl rfl
  · exact .inl rfl

theorem unlink_closed {s : State} (c p : Nat) {z : Nat} (hz : s.kids z = none) : (unlink s c p).kids z = none := by
  rcases unlink_kids s c p z with e | ⟨ks, e, _⟩
  · exact e.trans hz
  · rw [hz] at e; cases e

theorem detachSelf_frame (s : State) (a : Nat) :
    (detachSelf s a).killed = s.killed ∧ (detachSelf s a).status = s.status ∧ (detachSelf s a).n = s.n := by
  unfold detachSelf; split
  · exact unlink_frame _ _ _
  · exact ⟨rfl, rfl, rfl⟩

theorem detachSelf_kids (s : State) (a z : Nat) :
    (detachSelf s a).kids z = s.kids z ∨ ∃ ks, s.kids z = some ks ∧ (detachSelf s a).kids z = some (ks.erase a) := by
  unfold detachSelf; split
  · exact unlink_kids _ _ _ _
  · exact .inl rfl

theorem detachSelf_sup (s : State) (a z : Nat) :
    (detachSelf s a).sup z = s.sup z ∨ (detachSelf s a).sup z = none := by
  unfold detachSelf; split
  · exact unlink_sup _ _ _ _
  · exact .inl rfl

theorem detachSelf_self (s : State) (a : Nat) : (detachSelf s a).sup a = none := by
  unfold detachSelf
  cases hs : s.sup a with
  | none => simpa using hs
  | some p => simp [Tree.unlink, hs]

theorem Inv.detachSelf {s : State} (h : Inv s) (a : Nat) : Inv (detachSelf s a) := by
  unfold Tree.detachSelf; split
  · exact h.unlink _ _
  · exact h

theorem Inv.exit {s : State} (h : Inv s) (fixed : Bool) (a : Nat) : Inv (exit fixed s a) := by
  unfold Tree.exit
  have h1 : Inv (Tree.setStatus s a .stopping) := h.setStatus a _ (by decide)
  have h2 : Inv (Tree.terminate fixed (Tree.setStatus s a .stopping) a) := h1.terminate fixed a
  have hk2 := terminate_closes fixed (Tree.setStatus s a .stopping) a
  generalize Tree.terminate fixed (Tree.setStatus s a .stopping) a = s2 at h2 hk2 ⊢
  have hi3 := h2.detachSelf a
  have hs3 := detachSelf_self s2 a
  have hk3 : (Tree.detachSelf s2 a).kids a = none := by
    rcases detachSelf_kids s2 a a with e | ⟨ks, e, _⟩
    · exact e.trans hk2
    · rw [hk2] at e; cases e
  generalize Tree.detachSelf s2 a = s3 at hi3 hs3 hk3 ⊢
  exact {
    bound := hi3.bound, links := hi3.links, nodup := hi3.nodup
    stopped := by
      intro x hx
      by_cases e : x = a
      · subst e; exact ⟨hs3, .inl hk3⟩
      · simp only [Tree.setStatus, upd_ne _ _ e] at hx
        exact hi3.stopped x hx }

theorem Inv.step {s : State} (h : Inv s) (fixed : Bool) (op : Op) : Inv (step fixed s op) := by
  cases op with
  | spawn => exact h.spawn
  | link c p => exact h.link c p
  | unlink c p => exact h.unlink c p
  | takeChildren p => exact h.takeChildren p
  | terminate a => exact h.terminate fixed a
  | exit a => exact h.exit fixed a
  | setStatus a st =>
    simp only [Tree.step]
    split
    · exact h
    · next hne => exact h.setStatus a st hne

theorem Inv.steps {s : State} (h : Inv s) (fixed : Bool) (ops : List Op) : Inv (steps fixed s ops) := by
  induction ops generalizing s with
  | nil => exact h
  | cons op ops ih => exact ih (h.step fixed op)

end Tree

namespace Tree

/-! ### descendants and the worklist -/

def child (s : State) (p c : Nat) : Prop := ∃ ks, s.kids p = some ks ∧ c ∈ ks

/-- `x` is `a` or linked beneath `a`, transitively -/
inductive Desc (s : State) (a : Nat) : Nat → Prop
  | refl : Desc s a a
  | tail {y x : Nat} : Desc s a y → child s y x → Desc s a x

theorem Desc.head {s : State} {a b x : Nat} (hab : child s a b) (h : Desc s b x) : Desc s a x := by
  induction h with
  | refl => exact .tail .refl hab
  | tail _ hc ih => exact .tail ih hc

theorem Desc.trans {s : State} {a b x : Nat} (h1 : Desc s a b) (h2 : Desc s b x) : Desc s a x := by
  induction h2 with
  | refl => exact h1
  | tail _ hc ih => exact .tail ih hc

/-- reachable from some actor of the worklist -/
def Reach (s : State) (pending : List Nat) (z : Nat) : Prop := ∃ y ∈ pending, Desc s y z

/-- edges of `s'` are the edges of `s` except those out of `x` -/
def CutAt (s s' : State) (x : Nat) : Prop :=
  s'.kids x = none ∧ ∀ y, y ≠ x → s'.kids y = s.kids y

theorem CutAt.child_iff {s s' : State} {x : Nat} (h : CutAt s s' x) {w z : Nat} :
    child s' w z ↔ w ≠ x ∧ child s w z := by
  unfold child
  by_cases e : w = x
  · subst e; simp [h.1]
  · simp [e, h.2 w e]

theorem CutAt.desc_sub {s s' : State} {x : Nat} (h : CutAt s s' x) {y z : Nat} (hd : Desc s' y z) : Desc s y z := by
  induction hd with
  | refl => exact .refl
  | tail _ hc ih => exact .tail ih (h.child_iff.mp hc).2

/-- removing the out-edges of `x`: whatever was reachable from `y` is still reachable from `y`, or is
`x` itself, or is reachable from one of `x`'s former children -/
theorem CutAt.desc_split {s s' : State} {x : Nat} (h : CutAt s s' x) {y z : Nat} (hd : Desc s y z) :
    Desc s' y z ∨ z = x ∨ ∃ k, child s x k ∧ Desc s' k z := by
  induction hd with
  | refl => exact .inl .refl
  | @tail w z _ hc ih =>
    by_cases e : w = x
    · subst e; exact .inr (.inr ⟨z, hc, .refl⟩)
    · have hc' : child s' w z := h.child_iff.mpr ⟨e, hc⟩
      rcases ih with ih | ih | ⟨k, hk, ih⟩
      · exact .inl (.tail ih hc')
      · exact absurd ih e
      · exact .inr (.inr ⟨k, hk, .tail ih hc'⟩)

/-- from an actor whose set is closed nothing but itself is reachable -/
theorem desc_of_closed {s : State} {x z : Nat} (hk : s.kids x = none) (hd : Desc s x z) : z = x := by
  induction hd with
  | refl => rfl
  | tail _ hc ih =>
    subst ih
    obtain ⟨ks, h1, _⟩ := hc
    rw [hk] at h1; cases h1

theorem visit_cut (fixed : Bool) (s : State) (x : Nat) : CutAt s (visit fixed s x).1 x :=
  ⟨(visit_spec fixed s x).2.2.1, (visit_spec fixed s x).2.2.2.1⟩

theorem mem_visit_kids {fixed : Bool} {s : State} {x k : Nat} : k ∈ (visit fixed s x).2 ↔ child s x k := by
  rw [(visit_spec fixed s x).2.2.2.2.1]
  unfold child
  cases s.kids x with
  | none => simp
  | some ks => simp

/-- one iteration: reachability from `x :: rest` before = `x` or reachability from `kids x ++ rest` after -/
theorem reach_step (fixed : Bool) (s : State) (x : Nat) (rest : List Nat) (z : Nat) :
    Reach s (x :: rest) z ↔ z = x ∨ Reach (visit fixed s x).1 ((visit fixed s x).2 ++ rest) z := by
  have hcut := visit_cut fixed s x
  constructor
  · rintro ⟨y, hy, hd⟩
    rcases hcut.desc_split hd with h1 | h1 | ⟨k, hk, h1⟩
    · rcases List.mem_cons.mp hy with rfl | hy
      · -- from `x` itself nothing but `x` is reachable any more
        exact .inl (desc_of_closed hcut.1 h1)
      · exact .inr ⟨y, List.mem_append_right _ hy, h1⟩
    · exact .inl h1
    · exact .inr ⟨k, List.mem_append_left _ (mem_visit_kids.mpr hk), h1⟩
  · rintro (rfl | ⟨y, hy, hd⟩)
    · exact ⟨z, List.mem_cons_self .., .refl⟩
    · rcases List.mem_append.mp hy with hy | hy
      · exact ⟨x, List.mem_cons_self .., Desc.head (mem_visit_kids.mp hy) (hcut.desc_sub hd)⟩
      · exact ⟨y, List.mem_cons_of_mem _ hy, hcut.desc_sub hd⟩

/-! ### fuel -/

theorem totalKids_congr {s s' : State} : ∀ n, (∀ i, i < n → s'.kids i = s.kids i) → totalKids s' n = totalKids s n := by
  intro n
  induction n with
  | zero => intro _; rfl
  | succ n ih =>
    intro h
    simp only [totalKids, ih (fun i hi => h i (Nat.lt_succ_of_lt hi)), h n (Nat.lt_succ_self n)]

/-- closing the set of `x < n` removes its entries from the count -/
theorem totalKids_cut {s s' : State} {x : Nat} (h : CutAt s s' x) : ∀ n, x < n →
    totalKids s' n + ((s.kids x).getD []).length = totalKids s n := by
  intro n
  induction n with
  | zero => intro hx; cases hx
  | succ n ih =>
    intro hx
    simp only [totalKids]
    by_cases e : x = n
    · subst e
      rw [totalKids_congr x (fun i hi => h.2 i (Nat.ne_of_lt hi)), h.1]
      cases s.kids x <;> simp
    · have hlt : x < n := by omega
      have := ih hlt
      rw [h.2 n (Ne.symm e)]
      omega

theorem totalKids_cut_ge {s s' : State} {x : Nat} (h : CutAt s s' x) (hx : s.n ≤ x)
    (hb : ∀ p ks c, s.kids p = some ks → c ∈ ks → p < s.n) : totalKids s' s.n = totalKids s s.n ∧ (s.kids x).getD [] = [] := by
  refine ⟨totalKids_congr _ (fun i hi => h.2 i (by omega)), ?_⟩
  cases hk : s.kids x with
  | none => rfl
  | some ks =>
    cases ks with
    | nil => rfl
    | cons c cs => have := hb x _ c hk (List.mem_cons_self ..); omega

/-- fuel bookkeeping of one iteration -/
theorem fuel_step (fixed : Bool) {s : State} (hinv : Inv s) {x : Nat} {rest : List Nat} {f : Nat}
    (hf : (x :: rest).length + totalKids s s.n ≤ f + 1) :
    ((visit fixed s x).2 ++ rest).length + totalKids (visit fixed s x).1 (visit fixed s x).1.n ≤ f := by
  obtain ⟨hn, _, _, _, hks, _, _⟩ := visit_spec fixed s x
  have hcut := visit_cut fixed s x
  rw [hn, List.length_append, hks]
  by_cases hx : x < s.n
  · have := totalKids_cut hcut s.n hx
    simp only [List.length_cons] at hf
    omega
  · obtain ⟨e1, e2⟩ := totalKids_cut_ge hcut (by omega) (fun p ks c hk hc => (hinv.bound p ks c hk hc).1)
    rw [e1, e2]
    simp only [List.length_cons, List.length_nil] at hf ⊢
    omega

/-- the loop, given enough fuel: closes exactly the reachable sets, detaches their members, sends the
kill signal to the reachable actors that satisfy the kill condition, touches nothing else -/
theorem loop_spec (fixed : Bool) : ∀ (f : Nat) (s : State) (pending : List Nat), Inv s →
    pending.length + totalKids s s.n ≤ f →
    let s' := loop fixed f s pending
    (∀ z, Reach s pending z → s'.kids z = none) ∧
    (∀ z, ¬ Reach s pending z → s'.kids z = s.kids z) ∧
    (∀ w z, Reach s pending w → child s w z → s'.sup z = none) ∧
    (∀ z, (¬ ∃ w, Reach s pending w ∧ child s w z) → s'.sup z = s.sup z) ∧
    (∀ z, s'.killed z = true ↔ s.killed z = true ∨ (Reach s pending z ∧ killCond fixed (s.status z) = true)) := by
  intro f
  induction f with
  | zero =>
    intro s pending _ hf
    have : pending = [] := List.length_eq_zero_iff.mp (by omega)
    subst this
    simp only [Tree.loop]
    have hno : ∀ z, ¬ Reach s [] z := by rintro z ⟨y, hy, _⟩; cases hy
    refine ⟨fun z hz => absurd hz (hno z), fun _ _ => by first | rfl | trivial, fun w z hw => absurd hw (hno w),
        fun _ _ => by first | rfl | trivial, ?_⟩
    intro z; constructor
    · exact .inl
    · rintro (h | ⟨h, _⟩)
      · exact h
      · exact absurd h (hno z)
  | succ f ih =>
    intro s pending hinv hf
    cases pending with
    | nil =>
      simp only [Tree.loop]
      have hno : ∀ z, ¬ Reach s [] z := by rintro z ⟨y, hy, _⟩; cases hy
      refine ⟨fun z hz => absurd hz (hno z), fun _ _ => by first | rfl | trivial, fun w z hw => absurd hw (hno w),
        fun _ _ => by first | rfl | trivial, ?_⟩
      intro z; constructor
      · exact .inl
      · rintro (h | ⟨h, _⟩)
        · exact h
        · exact absurd h (hno z)
    | cons x rest =>
      simp only [Tree.loop]
      obtain ⟨hn, hst, hkx, hky, hks, hsup, hkilled⟩ := visit_spec fixed s x
      have hcut := visit_cut fixed s x
      have hinv1 : Inv (visit fixed s x).1 := hinv.visit fixed x
      have hfuel := fuel_step fixed hinv (x := x) (rest := rest) (f := f) hf
      obtain ⟨A, B, C, D, E⟩ := ih (visit fixed s x).1 ((visit fixed s x).2 ++ rest) hinv1 hfuel
      have hreach := reach_step fixed s x rest
      refine ⟨?_, ?_, ?_, ?_, ?_⟩
      · -- closed
        intro z hz
        rcases (hreach z).mp hz with rfl | hz
        · exact loop_closed _ _ _ hkx
        · exact A z hz
      · intro z hz
        have hzx : z ≠ x := fun e => hz ((hreach z).mpr (.inl e))
        have hz1 : ¬ Reach (visit fixed s x).1 ((visit fixed s x).2 ++ rest) z := fun h => hz ((hreach z).mpr (.inr h))
        rw [B z hz1, hky z hzx]
      · -- detached
        intro w z hw hc
        by_cases hwx : w = x
        · -- a child of `x`: detached by this very visit, and never re-attached
          subst hwx
          have hz2 : z ∈ (visit fixed s w).2 := mem_visit_kids.mpr hc
          have hs : s.sup z = some w := (hinv.links z w).mpr hc
          have h1 : (visit fixed s w).1.sup z = none := by rw [hsup z]; simp [hz2, hs]
          -- afterwards `sup z` is either untouched or cleared
          by_cases hex : ∃ w', Reach (visit fixed s w).1 ((visit fixed s w).2 ++ rest) w' ∧ child (visit fixed s w).1 w' z
          · obtain ⟨w', hw', hc'⟩ := hex; exact C w' z hw' hc'
          · rw [D z hex]; exact h1
        · rcases (hreach w).mp hw with e | hw1
          · exact absurd e hwx
          · exact C w z hw1 (hcut.child_iff.mpr ⟨hwx, hc⟩)
      · intro z hz
        have h1 : ¬ ∃ w, Reach (visit fixed s x).1 ((visit fixed s x).2 ++ rest) w ∧ child (visit fixed s x).1 w z := by
          rintro ⟨w, hw, hc⟩
          exact hz ⟨w, (hreach w).mpr (.inr hw), (hcut.child_iff.mp hc).2⟩
        rw [D z h1, hsup z]
        have : ¬ z ∈ (visit fixed s x).2 := fun hm =>
          hz ⟨x, ⟨x, List.mem_cons_self .., .refl⟩, mem_visit_kids.mp hm⟩
        simp [this]
      · intro z
        rw [E z, hkilled z, hst]
        simp only [Bool.or_eq_true, Bool.and_eq_true, decide_eq_true_eq]
        constructor
        · rintro ((h | ⟨rfl, h⟩) | ⟨h1, h2⟩)
          · exact .inl h
          · exact .inr ⟨(hreach z).mpr (.inl rfl), h⟩
          · exact .inr ⟨(hreach z).mpr (.inr h1), h2⟩
        · rintro (h | ⟨h1, h2⟩)
          · exact .inl (.inl h)
          · rcases (hreach z).mp h1 with rfl | h1
            · exact .inl (.inr ⟨rfl, h2⟩)
            · exact .inr ⟨h1, h2⟩

theorem reach_single {s : State} {a z : Nat} : Reach s [a] z ↔ Desc s a z := by
  constructor
  · rintro ⟨y, hy, hd⟩; simp at hy; subst hy; exact hd
  · intro h; exact ⟨a, List.mem_cons_self .., h⟩

/-- (5) `terminate a`: visits exactly the descendants of `a`, for every shape (cycles included) -/
theorem terminate_spec (fixed : Bool) (s : State) (a : Nat) (h : Inv s) :
    let s' := terminate fixed s a
    (∀ z, Desc s a z → s'.kids z = none) ∧
    (∀ z, ¬ Desc s a z → s'.kids z = s.kids z) ∧
    (∀ w z, Desc s a w → child s w z → s'.sup z = none) ∧
    (∀ z, (¬ ∃ w, Desc s a w ∧ child s w z) → s'.sup z = s.sup z) ∧
    (∀ z, s'.killed z = true ↔ s.killed z = true ∨ (Desc s a z ∧ killCond fixed (s.status z) = true)) ∧
    s'.status = s.status ∧ s'.n = s.n := by
  have := loop_spec fixed (totalKids s s.n + 1) s [a] h (by simp; omega)
  simp only [reach_single] at this
  obtain ⟨A, B, C, D, E⟩ := this
  exact ⟨A, B, C, D, E, (loop_status _ _ _).1, (loop_status _ _ _).2⟩

end Tree
