import RactorModel.Lemmas.TreeRace

/-! The macro layer (`mstep`, what the E-LTS harness executes at quiescent points): every macro op is a
sequence of tree operations, `exitCore` really empties the kill set, and therefore the history clauses
`subtreeOk` / `gainOk` that the driver evaluates on the implementation hold of every macro run. -/

namespace Tree

/-! ### status only moves forward -/

theorem max_ge_left (a b : Status) : a.toNat ≤ (a.max b).toNat := (status_max_ge a b).2

theorem setStatus_status (s : State) (a : Nat) (st : Status) (z : Nat) :
    (setStatus s a st).status z = if z = a then (s.status a).max st else s.status z := by
  rfl

theorem status_mono_step (fixed : Bool) (s : State) (op : Op) (z : Nat) (hz : z < s.n) :
    (s.status z).toNat ≤ ((step fixed s op).status z).toNat := by
  cases op with
  | spawn =>
    simp only [Tree.step, Tree.spawn, upd_apply]
    split
    · next e => omega
    · exact Nat.le_refl _
  | link c p =>
    simp only [Tree.step]
    rcases link_cases s c p with ⟨e, _⟩ | ⟨ks, _, _, hcase⟩
    · rw [e]; exact Nat.le_refl _
    · rcases hcase with ⟨_, e⟩ | ⟨_, e⟩ | ⟨q, _, _, e⟩ <;> rw [e] <;> exact Nat.le_refl _
  | unlink c p => simp only [Tree.step]; rw [(unlink_frame s c p).2.1]; exact Nat.le_refl _
  | takeChildren p =>
    simp only [Tree.step]
    cases hk : s.kids p with
    | none => rw [takeChildren_none hk]; exact Nat.le_refl _
    | some ks => rw [takeChildren_some hk]; exact Nat.le_refl _
  | terminate a => simp only [Tree.step, Tree.terminate]; rw [(loop_status _ _ _).1]; exact Nat.le_refl _
  | exit a =>
    simp only [Tree.step]; rw [exit_status]
    split
    · cases (s.status z) <;> simp [Status.toNat]
    · exact Nat.le_refl _
  | setStatus a st =>
    simp only [Tree.step]
    split
    · exact Nat.le_refl _
    · rw [setStatus_status]; split
      · next e => subst e; exact max_ge_left _ _
      · exact Nat.le_refl _

theorem n_mono_step (fixed : Bool) (s : State) (op : Op) : s.n ≤ (step fixed s op).n := by
  cases op with
  | spawn => exact Nat.le_succ _
  | link c p => simp only [Tree.step]; rw [(link_other_n s c p)]; exact Nat.le_refl _
  | unlink c p => simp only [Tree.step]; rw [(unlink_frame s c p).2.2]; exact Nat.le_refl _
  | takeChildren p =>
    simp only [Tree.step]
    cases hk : s.kids p with
    | none => rw [takeChildren_none hk]; exact Nat.le_refl _
    | some ks => rw [takeChildren_some hk]; exact Nat.le_refl _
  | terminate a => simp only [Tree.step, Tree.terminate]; rw [(loop_status _ _ _).2]; exact Nat.le_refl _
  | exit a =>
    have : (exit fixed s a).n = s.n := by
      show (detachSelf (terminate fixed (setStatus s a .stopping) a) a).n = s.n
      rw [(detachSelf_frame _ _).2.2]
      exact (loop_status _ _ _).2
    simp only [Tree.step, this]; exact Nat.le_refl _
  | setStatus a st => simp only [Tree.step]; split <;> exact Nat.le_refl _

theorem status_mono_steps (fixed : Bool) (ops : List Op) (s : State) (z : Nat) (hz : z < s.n) :
    (s.status z).toNat ≤ ((steps fixed s ops).status z).toNat := by
  induction ops generalizing s with
  | nil => exact Nat.le_refl _
  | cons op ops ih =>
    exact Nat.le_trans (status_mono_step fixed s op z hz) (ih _ (Nat.lt_of_lt_of_le hz (n_mono_step fixed s op)))

/-- (4), over any number of operations -/
theorem no_gain_steps (fixed : Bool) (ops : List Op) {s : State} (h : Inv s) (z : Nat) (hzn : z < s.n)
    (hz : Status.draining.toNat ≤ (s.status z).toNat) :
    (∀ x, child (steps fixed s ops) z x → child s z x) ∧
    (∀ q, (steps fixed s ops).sup z = some q → s.sup z = some q) := by
  induction ops generalizing s with
  | nil => exact ⟨fun _ hx => hx, fun _ hq => hq⟩
  | cons op ops ih =>
    obtain ⟨a1, a2⟩ := no_gain_step fixed h op z hz
    obtain ⟨b1, b2⟩ := ih (h.step fixed op) (Nat.lt_of_lt_of_le hzn (n_mono_step fixed s op))
      (Nat.le_trans hz (status_mono_step fixed s op z hzn))
    exact ⟨fun x hx => a1 x (b1 x hx), fun q hq => a2 q (b2 q hq)⟩

end Tree

namespace Tree

/-! ### `settle`: everything that was sent the kill signal exits -/

def Pending (m : MState) (x : Nat) : Prop := m.t.killed x = true ∧ (m.act x).gone = false

def pendB (m : MState) (x : Nat) : Bool := m.t.killed x && !(m.act x).gone

theorem pendB_iff {m : MState} {x : Nat} : pendB m x = true ↔ Pending m x := by
  simp [pendB, Pending]

structure SInv (m : MState) : Prop where
  inv : Inv m.t
  gone_stopped : ∀ x, (m.act x).gone = true ↔ m.t.status x = .stopped
  pend_closed : ∀ x, Pending m x → m.t.kids x = none
  pend_lt : ∀ x, Pending m x → x < m.t.n
  ps : ∀ x, m.t.status x = .stopping → (m.act x).inPs = true

theorem exit_n (fixed : Bool) (s : State) (a : Nat) : (exit fixed s a).n = s.n := by
  show (detachSelf (terminate fixed (setStatus s a .stopping) a) a).n = s.n
  rw [(detachSelf_frame _ _).2.2]
  exact (loop_status _ _ _).2

theorem killCond_stopping (fixed : Bool) : killCond fixed .stopping = false := by
  cases fixed <;> decide

theorem max_stopping_of {st : Status} (h1 : st ≠ .stopped) : st.max .stopping = .stopping := by
  cases st <;> first | rfl | exact absurd rfl h1

/-- exiting an actor whose child set is already closed sends no new kill signal -/
theorem exit_closed_killed (fixed : Bool) {s : State} (h : Inv s) {x : Nat} (hk : s.kids x = none)
    (hst : s.status x ≠ .stopped) (z : Nat) : (exit fixed s x).killed z = s.killed z := by
  have := exit_killed fixed s x h z
  have hno : ¬ (Desc s x z ∧ killCond fixed ((setStatus s x .stopping).status z) = true) := by
    rintro ⟨hd, hc⟩
    have := desc_of_closed hk hd
    subst this
    rw [setStatus_status] at hc
    simp only [↓reduceIte, max_stopping_of hst, killCond_stopping] at hc
    cases hc
  cases hkz : s.killed z with
  | true => exact this.mpr (.inl hkz)
  | false =>
    cases hk' : (exit fixed s x).killed z with
    | false => rfl
    | true =>
      rcases this.mp hk' with h1 | h1
      · rw [hkz] at h1; cases h1
      · exact absurd h1 hno

/-- one iteration of `settle` -/
def settle1 (fixed : Bool) (m : MState) (x : Nat) : MState :=
  { m with t := exit fixed m.t x, act := upd m.act x { m.act x with gone := true, busy := false } }

theorem settle1_spec (fixed : Bool) {m : MState} (h : SInv m) {x : Nat} (hx : Pending m x) :
    SInv (settle1 fixed m x) ∧
    (∀ z, Pending (settle1 fixed m x) z ↔ Pending m z ∧ z ≠ x) ∧
    (∀ z, (settle1 fixed m x).t.status z = if z = x then .stopped else m.t.status z) ∧
    (settle1 fixed m x).t.killed = m.t.killed ∧ (settle1 fixed m x).t.n = m.t.n ∧
    (settle1 fixed m x).t = step fixed m.t (.exit x) ∧
    (∀ z, ((settle1 fixed m x).act z).inPs = (m.act z).inPs) := by
  have hkx := h.pend_closed x hx
  have hstx : m.t.status x ≠ .stopped := fun e => by
    have := (h.gone_stopped x).mpr e
    rw [hx.2] at this; cases this
  have hkilled : (settle1 fixed m x).t.killed = m.t.killed := by
    funext z; exact exit_closed_killed fixed h.inv hkx hstx z
  have hstatus : ∀ z, (settle1 fixed m x).t.status z = if z = x then .stopped else m.t.status z :=
    fun z => exit_status fixed m.t x z
  have hgone : ∀ z, ((settle1 fixed m x).act z).gone = if z = x then true else (m.act z).gone := by
    intro z; simp only [settle1, upd_apply]; split <;> rfl
  have hpend : ∀ z, Pending (settle1 fixed m x) z ↔ Pending m z ∧ z ≠ x := by
    intro z
    unfold Pending
    rw [hkilled, hgone z]
    by_cases e : z = x
    · subst e; simp
    · simp [e]
  have hinps : ∀ z, ((settle1 fixed m x).act z).inPs = (m.act z).inPs := by
    intro z; simp only [settle1, upd_apply]; split
    · next e => subst e; rfl
    · rfl
  refine ⟨?_, hpend, hstatus, hkilled, exit_n fixed m.t x, rfl, hinps⟩
  exact {
    inv := h.inv.exit fixed x
    gone_stopped := by
      intro z; rw [hgone z, hstatus z]
      by_cases e : z = x
      · simp [e]
      · simp only [e, ↓reduceIte]; exact h.gone_stopped z
    pend_closed := by
      intro z hz
      have hz' := (hpend z).mp hz
      have := h.pend_closed z hz'.1
      rcases (exit_mono fixed m.t x z).1 with e | e | ⟨ks, c, e, _⟩
      · exact e.trans this
      · exact e
      · rw [this] at e; cases e
    pend_lt := by
      intro z hz
      have := h.pend_lt z ((hpend z).mp hz).1
      show z < (exit fixed m.t x).n
      rw [exit_n]; exact this
    ps := by
      intro z; rw [hstatus z, hinps z]; split
      · intro e; cases e
      · exact h.ps z }

/-- removing one element that satisfies the predicate lowers the count by one -/
theorem countP_remove {l : List Nat} (hnd : l.Nodup) {p p' : Nat → Bool} {x : Nat} (hx : x ∈ l) (hpx : p x = true)
    (hp' : ∀ z, p' z = (p z && decide (z ≠ x))) : l.countP p' + 1 = l.countP p := by
  induction l with
  | nil => cases hx
  | cons y ys ih =>
    have hnd' := (List.nodup_cons.mp hnd)
    by_cases e : y = x
    · subst e
      have hrest : ys.countP p' = ys.countP p := by
        apply List.countP_congr
        intro z hz
        have : z ≠ y := fun e => hnd'.1 (e ▸ hz)
        simp [hp' z, this]
      simp [List.countP_cons, hpx, hp' y, hrest]
    · have hx' : x ∈ ys := by
        rcases List.mem_cons.mp hx with e' | e'
        · exact absurd e'.symm e
        · exact e'
      have := ih hnd'.2 hx'
      simp only [List.countP_cons, hp' y, e, ne_eq, not_false_eq_true, decide_true, Bool.and_true]
      omega

def pendCount (m : MState) : Nat := (List.range m.t.n).countP (pendB m)

theorem settle_spec (fixed : Bool) : ∀ (f : Nat) (m : MState), SInv m → pendCount m ≤ f →
    SInv (settle fixed f m) ∧ (∀ z, ¬ Pending (settle fixed f m) z) ∧
    (∀ z, (settle fixed f m).t.status z = if pendB m z then .stopped else m.t.status z) ∧
    (∀ z, ((settle fixed f m).act z).gone = true ↔ (m.act z).gone = true ∨ Pending m z) ∧
    (settle fixed f m).t.killed = m.t.killed ∧
    (∃ l : List Nat, (settle fixed f m).t = steps fixed m.t (l.map Op.exit)) ∧
    (∀ z, ((settle fixed f m).act z).inPs = (m.act z).inPs) := by
  intro f
  induction f with
  | zero =>
    intro m h hc
    have hnone : ∀ z, ¬ Pending m z := by
      intro z hz
      have hlt := h.pend_lt z hz
      have : 0 < pendCount m := List.countP_pos_iff.mpr ⟨z, List.mem_range.mpr hlt, pendB_iff.mpr hz⟩
      omega
    have hb : ∀ z, pendB m z = false := fun z => by
      cases hb : pendB m z with
      | false => rfl
      | true => exact absurd (pendB_iff.mp hb) (hnone z)
    refine ⟨h, hnone, fun z => by simp [settle, hb z], fun z => by simp [settle, hnone z], rfl, ⟨[], rfl⟩, fun _ => rfl⟩
  | succ f ih =>
    intro m h hc
    simp only [settle]
    cases hf : (List.range m.t.n).find? (fun x => m.t.killed x && !(m.act x).gone) with
    | none =>
      have hnone : ∀ z, ¬ Pending m z := by
        intro z hz
        have hlt := h.pend_lt z hz
        have := List.find?_eq_none.mp hf z (List.mem_range.mpr hlt)
        exact this (pendB_iff.mpr hz)
      have hb : ∀ z, pendB m z = false := fun z => by
        cases hb : pendB m z with
        | false => rfl
        | true => exact absurd (pendB_iff.mp hb) (hnone z)
      refine ⟨h, hnone, fun z => by simp [hb z], fun z => by simp [hnone z], by trivial, ⟨[], by trivial⟩, fun _ => by trivial⟩
    | some x =>
      simp only
      have hxm : x ∈ List.range m.t.n := List.mem_of_find?_eq_some hf
      have hxp : Pending m x := pendB_iff.mp (List.find?_some hf)
      obtain ⟨h1, hpend, hstatus, hkilled, hn, hstep, hinps1⟩ := settle1_spec fixed h hxp
      have hcount : pendCount (settle1 fixed m x) + 1 = pendCount m := by
        unfold pendCount
        rw [hn]
        apply countP_remove List.nodup_range hxm (pendB_iff.mpr hxp)
        intro z
        have := hpend z
        cases hb : pendB (settle1 fixed m x) z with
        | true =>
          have := (this.mp (pendB_iff.mp hb))
          simp [pendB_iff.mpr this.1, this.2]
        | false =>
          by_cases hz : Pending m z ∧ z ≠ x
          · have := pendB_iff.mpr (this.mpr hz); rw [hb] at this; cases this
          · by_cases hz1 : Pending m z
            · have : z = x := Classical.byContradiction fun e => hz ⟨hz1, e⟩
              simp [this]
            · have : pendB m z = false := by
                cases hb' : pendB m z with
                | false => rfl
                | true => exact absurd (pendB_iff.mp hb') hz1
              simp [this]
      obtain ⟨A, B, C, D, E, ⟨l, F⟩, G⟩ := ih (settle1 fixed m x) h1 (by omega)
      refine ⟨A, B, ?_, ?_, E.trans hkilled, ⟨x :: l, ?_⟩, fun z => (G z).trans (hinps1 z)⟩
      · intro z
        show (settle fixed f (settle1 fixed m x)).t.status z = _
        rw [C z, hstatus z]
        by_cases e : z = x
        · subst e; simp [pendB_iff.mpr hxp]
        · by_cases hz : Pending m z
          · simp [pendB_iff.mpr hz, pendB_iff.mpr ((hpend z).mpr ⟨hz, e⟩)]
          · have h1' : pendB (settle1 fixed m x) z = false := by
              cases hb : pendB (settle1 fixed m x) z with
              | false => rfl
              | true => exact absurd ((hpend z).mp (pendB_iff.mp hb)).1 hz
            have h2' : pendB m z = false := by
              cases hb : pendB m z with
              | false => rfl
              | true => exact absurd (pendB_iff.mp hb) hz
            simp [h1', h2', e]
      · intro z
        show ((settle fixed f (settle1 fixed m x)).act z).gone = true ↔ _
        rw [D z]
        have hg : ((settle1 fixed m x).act z).gone = if z = x then true else (m.act z).gone := by
          simp only [settle1, upd_apply]; split <;> rfl
        rw [hg, hpend z]
        by_cases e : z = x
        · subst e; simp [hxp]
        · simp [e]
      · show (settle fixed f (settle1 fixed m x)).t = _
        rw [F, hstep]; rfl

end Tree

namespace Tree

/-! ### the macro invariant and `exitCore` -/

/-- what holds at the quiescent points of a macro run -/
structure MI (m : MState) : Prop where
  inv : Inv m.t
  gone_stopped : ∀ x, (m.act x).gone = true ↔ m.t.status x = .stopped
  killed_gone : ∀ x, m.t.killed x = true → (m.act x).gone = true
  ps : ∀ x, m.t.status x = .stopping → (m.act x).inPs = true
  /-- an actor parked in `post_stop` (or beyond) has published at least `Stopping` -/
  psr : ∀ x, (m.act x).inPs = true → Status.stopping.toNat ≤ (m.t.status x).toNat
  fresh : ∀ x, m.t.n ≤ x → m.t.status x = .unstarted

theorem MI.init : MI {} :=
  { inv := Inv.init
    gone_stopped := by intro x; simp
    killed_gone := by intro x h; cases h
    ps := by intro x h; cases h
    psr := by intro x h; cases h
    fresh := fun _ _ => rfl }

/-- a proper descendant is linked, hence not stopped -/
theorem desc_proper_live {s : State} (h : Inv s) {a z : Nat} (hd : Desc s a z) (hza : z ≠ a) :
    s.status z ≠ .stopped ∧ z < s.n := by
  cases hd with
  | refl => exact absurd rfl hza
  | tail hw hc =>
    obtain ⟨ks, hk, hm⟩ := hc
    have hs := (h.links z _).mpr ⟨ks, hk, hm⟩
    refine ⟨fun e => ?_, (h.bound _ ks z hk hm).2⟩
    rw [(h.stopped z e).1] at hs; cases hs

theorem killCond_true_of {st : Status} (h1 : st ≠ .stopped) (h2 : st ≠ .stopping) : killCond true st = true := by
  cases st <;> first | rfl | exact absurd rfl h1 | exact absurd rfl h2

theorem killCond_true_ne {st : Status} (h : killCond true st = true) : st ≠ .stopping ∧ st ≠ .stopped := by
  cases st <;> simp [killCond, Status.toNat] at h ⊢

theorem exits_n (l : List Nat) : ∀ (s : State), (steps true s (l.map Op.exit)).n = s.n := by
  induction l with
  | nil => intro s; rfl
  | cons y ys ih => intro s; simp only [List.map_cons, steps, List.foldl_cons]; exact (ih _).trans (exit_n true s y)

/-- `exitCore a` at a quiescent point (kill condition `< Stopping`): `a` and exactly the actors linked beneath
it end up Stopped — except those that had already ended their message loop and sit in `post_stop`
(`Stopping`): they are detached, not killed, and stay where they are; the result is again a quiescent state -/
theorem exitCore_spec {m : MState} (h : MI m) {a : Nat} (han : a < m.t.n) (hag : (m.act a).gone = false) :
    MI (exitCore true m a) ∧
    (∀ z, Desc m.t a z → (exitCore true m a).t.status z =
        if z ≠ a ∧ m.t.status z = .stopping then .stopping else .stopped) ∧
    (∀ z, ¬ Desc m.t a z → (exitCore true m a).t.status z = m.t.status z) ∧
    (exitCore true m a).t.n = m.t.n ∧
    (∃ l : List Nat, (exitCore true m a).t = steps true m.t ((a :: l).map Op.exit)) := by
  -- the state in which `settle` starts
  let m0 : MState := { m with t := exit true m.t a, act := upd m.act a { m.act a with gone := true, busy := false } }
  have hm0 : exitCore true m a = settle true m.t.n m0 := rfl
  have hgone0 : ∀ z, (m0.act z).gone = if z = a then true else (m.act z).gone := by
    intro z; simp only [m0, upd_apply]; split <;> rfl
  have hinps0 : ∀ z, (m0.act z).inPs = (m.act z).inPs := by
    intro z; simp only [m0, upd_apply]; split
    · next e => subst e; rfl
    · rfl
  have hstatus0 : ∀ z, m0.t.status z = if z = a then .stopped else m.t.status z := fun z => exit_status true m.t a z
  have hpend0 : ∀ z, Pending m0 z ↔ z ≠ a ∧ Desc m.t a z ∧ m.t.status z ≠ .stopping := by
    intro z
    unfold Pending
    rw [hgone0 z]
    by_cases e : z = a
    · subst e; simp
    · simp only [e, ↓reduceIte, ne_eq, not_false_eq_true, true_and]
      have hk := exit_killed true m.t a h.inv z
      have hst : (setStatus m.t a .stopping).status z = m.t.status z := by rw [setStatus_status]; simp [e]
      constructor
      · rintro ⟨h1, h2⟩
        rcases hk.mp h1 with h3 | h3
        · have := h.killed_gone z h3; rw [h2] at this; cases this
        · rw [hst] at h3; exact ⟨h3.1, (killCond_true_ne h3.2).1⟩
      · rintro ⟨hd, hns⟩
        obtain ⟨hlive, _⟩ := desc_proper_live h.inv hd e
        refine ⟨hk.mpr (.inr ⟨hd, ?_⟩), ?_⟩
        · rw [hst]; exact killCond_true_of hlive hns
        · cases hg : (m.act z).gone with
          | false => rfl
          | true => exact absurd ((h.gone_stopped z).mp hg) hlive
  have hs0 : SInv m0 :=
    { inv := h.inv.exit true a
      gone_stopped := by
        intro z; rw [hgone0 z, hstatus0 z]
        by_cases e : z = a
        · simp [e]
        · simp only [e, ↓reduceIte]; exact h.gone_stopped z
      pend_closed := fun z hz => (exit_detaches true m.t a h.inv z ((hpend0 z).mp hz).2.1).1
      pend_lt := by
        intro z hz
        obtain ⟨e, hd, _⟩ := (hpend0 z).mp hz
        show z < (exit true m.t a).n
        rw [exit_n]; exact (desc_proper_live h.inv hd e).2
      ps := by
        intro z; rw [hstatus0 z, hinps0 z]; split
        · intro e; cases e
        · exact h.ps z }
  have hcount : pendCount m0 ≤ m.t.n := by
    unfold pendCount
    have : m0.t.n = m.t.n := exit_n true m.t a
    rw [this]
    exact Nat.le_trans (List.countP_le_length) (by simp)
  obtain ⟨A, B, C, D, E, ⟨l, F⟩, G⟩ := settle_spec true m.t.n m0 hs0 hcount
  rw [hm0]
  have hstatus : ∀ z, (settle true m.t.n m0).t.status z = if z = a then .stopped else
      if pendB m0 z then .stopped else m.t.status z := by
    intro z; rw [C z, hstatus0 z]
    by_cases e : z = a
    · subst e; simp
    · simp [e]
  have hn : (settle true m.t.n m0).t.n = m.t.n := by
    rw [F]; exact (exits_n l _).trans (exit_n true m.t a)
  refine ⟨?_, ?_, ?_, hn, l, ?_⟩
  · exact {
      inv := A.inv
      gone_stopped := A.gone_stopped
      killed_gone := by
        intro z hz
        cases hg : ((settle true m.t.n m0).act z).gone with
        | true => rfl
        | false => exact absurd ⟨hz, hg⟩ (B z)
      ps := A.ps
      psr := by
        intro z hz
        rw [G z, hinps0 z] at hz
        have := h.psr z hz
        rw [hstatus z]
        split
        · simp [Status.toNat]
        · split
          · simp [Status.toNat]
          · exact this
      fresh := by
        intro z hz
        rw [hn] at hz
        rw [hstatus z]
        have hza : z ≠ a := by omega
        have hnp : pendB m0 z = false := by
          cases hb : pendB m0 z with
          | false => rfl
          | true =>
            have := hs0.pend_lt z (pendB_iff.mp hb)
            have e : m0.t.n = m.t.n := exit_n true m.t a
            omega
        simp only [hza, ↓reduceIte, hnp, Bool.false_eq_true]
        exact h.fresh z hz }
  · intro z hd
    rw [hstatus z]
    by_cases e : z = a
    · simp [e]
    · by_cases hs : m.t.status z = .stopping
      · have hnp : pendB m0 z = false := by
          cases hb : pendB m0 z with
          | false => rfl
          | true => exact absurd hs ((hpend0 z).mp (pendB_iff.mp hb)).2.2
        simp [e, hs, hnp]
      · simp [e, hs, pendB_iff.mpr ((hpend0 z).mpr ⟨e, hd, hs⟩)]
  · intro z hd
    rw [hstatus z]
    have e : z ≠ a := fun e => hd (e ▸ .refl)
    have hnp : pendB m0 z = false := by
      cases hb : pendB m0 z with
      | false => rfl
      | true => exact absurd ((hpend0 z).mp (pendB_iff.mp hb)).2.1 hd
    simp [e, hnp]
  · rw [F]; rfl

end Tree

namespace Tree

/-! ### every macro op, and what the driver checks between two consecutive snapshots -/

/-- relation between two consecutive quiescent snapshots of a macro run -/
structure StepRel (prev cur : State) : Prop where
  steps : ∃ ops, cur = steps true prev ops
  sub : ∀ a, cur.status a = .stopped → prev.status a ≠ .stopped → ∀ x, child prev a x →
    Status.stopping.toNat ≤ (cur.status x).toNat

theorem StepRel.refl (s : State) : StepRel s s := ⟨⟨[], rfl⟩, fun _ h1 h2 => absurd h1 h2⟩

/-- ops after which nobody is newly stopped -/
theorem StepRel.of_steps {prev : State} (ops : List Op)
    (h : ∀ a, (Tree.steps true prev ops).status a = .stopped → prev.status a = .stopped) :
    StepRel prev (Tree.steps true prev ops) := ⟨⟨ops, rfl⟩, fun a h1 h2 => absurd (h a h1) h2⟩

theorem steps_append (fixed : Bool) (s : State) (l1 l2 : List Op) :
    steps fixed s (l1 ++ l2) = steps fixed (steps fixed s l1) l2 := by
  simp [steps, List.foldl_append]

theorem child_congr {s s' : State} (h : s'.kids = s.kids) {p c : Nat} : child s' p c ↔ child s p c := by
  unfold child; rw [h]

/-- an `exitCore` after some preparatory tree ops that erase no edge and stop nobody -/
theorem StepRel.of_exitCore {prev : State} {m' : MState} (h : MI m') {a : Nat} (han : a < m'.t.n)
    (hag : (m'.act a).gone = false) (ops0 : List Op) (he : m'.t = Tree.steps true prev ops0)
    (hk : ∀ z x, child prev z x → child m'.t z x) (hst : ∀ z, m'.t.status z = .stopped → prev.status z = .stopped) :
    StepRel prev (exitCore true m' a).t := by
  obtain ⟨_, hD, hN, _, l, hl⟩ := exitCore_spec h han hag
  refine ⟨⟨ops0 ++ (a :: l).map Op.exit, by rw [steps_append, ← he]; exact hl⟩, ?_⟩
  intro z h1 h2 x hx
  have hdz : Desc m'.t a z := by
    apply Classical.byContradiction; intro hnd
    rw [hN z hnd] at h1
    exact h2 (hst z h1)
  rw [hD x (.tail hdz (hk z x hx))]
  split <;> simp [Status.toNat]

/-- what the three Bool predicates of the driver need -/
theorem StepRel.checks {prev cur : State} (hp : Inv prev) (h : StepRel prev cur) :
    ok cur = true ∧ subtreeOk prev cur = true ∧ gainOk prev cur = true := by
  obtain ⟨ops, rfl⟩ := h.steps
  refine ⟨(hp.steps true ops).ok, ?_, ?_⟩
  · unfold subtreeOk
    rw [List.all_eq_true]
    intro a _
    by_cases hn : (Tree.steps true prev ops).status a = .stopped ∧ prev.status a ≠ .stopped
    · have : ((prev.kids a).getD []).all
          (fun x => decide (Status.stopping.toNat ≤ ((Tree.steps true prev ops).status x).toNat)) = true := by
        rw [List.all_eq_true]
        intro x hx
        have hc : child prev a x := by
          cases hk : prev.kids a with
          | none => rw [hk] at hx; cases hx
          | some ks => rw [hk] at hx; exact ⟨ks, hk, hx⟩
        simpa using h.sub a hn.1 hn.2 x hc
      rw [this]; simp
    · have : ((Tree.steps true prev ops).status a == .stopped && prev.status a != .stopped) = false := by
        simp only [Bool.and_eq_false_iff, beq_eq_false_iff_ne, ne_eq, bne_eq_false_iff_eq]
        by_cases h1 : (Tree.steps true prev ops).status a = .stopped
        · exact .inr (Classical.byContradiction fun h2 => hn ⟨h1, h2⟩)
        · exact .inl h1
      rw [this]; simp
  · unfold gainOk
    rw [List.all_eq_true]
    intro a ha
    have han : a < prev.n := List.mem_range.mp ha
    by_cases hd : (prev.status a).toNat < Status.draining.toNat
    · simp [hd]
    · obtain ⟨g1, g2⟩ := no_gain_steps true ops hp a han (by omega)
      have hk : kidsSubOk prev (Tree.steps true prev ops) a = true := by
        unfold kidsSubOk
        cases hk : (Tree.steps true prev ops).kids a with
        | none => rfl
        | some ks =>
          simp only [List.all_eq_true]
          intro c hc
          obtain ⟨ps, hps, hcp⟩ := g1 c ⟨ks, hk, hc⟩
          simp [hps, hcp]
      have hs : ((Tree.steps true prev ops).sup a == none || (Tree.steps true prev ops).sup a == prev.sup a) = true := by
        cases hsa : (Tree.steps true prev ops).sup a with
        | none => rfl
        | some q => simp [g2 q hsa]
      rw [hk, hs]; simp

theorem MI.act_congr {m : MState} (h : MI m) (act' : Nat → Act)
    (hg : ∀ x, (act' x).gone = (m.act x).gone) (hp : ∀ x, (act' x).inPs = (m.act x).inPs) :
    MI { m with act := act' } :=
  { inv := h.inv
    gone_stopped := fun x => by rw [hg x]; exact h.gone_stopped x
    killed_gone := fun x hx => by rw [hg x]; exact h.killed_gone x hx
    ps := fun x hx => by rw [hp x]; exact h.ps x hx
    psr := fun x hx => by rw [hp x] at hx; exact h.psr x hx
    fresh := h.fresh }

/-- an update of one actor's bookkeeping that touches neither `gone` nor `inPs` -/
theorem MI.upd_act {m : MState} (h : MI m) (a : Nat) (A : Act) (hg : A.gone = (m.act a).gone)
    (hp : A.inPs = (m.act a).inPs) : MI { m with act := upd m.act a A } := by
  apply h.act_congr
  · intro x; simp only [upd_apply]; split
    · next e => subst e; exact hg
    · rfl
  · intro x; simp only [upd_apply]; split
    · next e => subst e; exact hp
    · rfl

theorem MI.not_gone_fresh {m : MState} (h : MI m) {x : Nat} (hx : m.t.n ≤ x) : (m.act x).gone = false := by
  cases hg : (m.act x).gone with
  | false => rfl
  | true =>
    have := (h.gone_stopped x).mp hg
    rw [h.fresh x hx] at this; cases this

/-- a new cell, `Starting` -/
theorem MI.spawn {m : MState} (h : MI m) : MI { m with t := spawn m.t } :=
  { inv := h.inv.spawn
    gone_stopped := by
      intro x
      simp only [Tree.spawn, upd_apply]
      split
      · next e => subst e; simp [h.not_gone_fresh (Nat.le_refl _)]
      · exact h.gone_stopped x
    killed_gone := h.killed_gone
    ps := by
      intro x; simp only [Tree.spawn, upd_apply]; split
      · intro e; cases e
      · exact h.ps x
    psr := by
      intro x hx
      have := h.psr x hx
      simp only [Tree.spawn, upd_apply]; split
      · next e =>
        subst e
        rw [h.fresh _ (Nat.le_refl _)] at this
        simp [Status.toNat] at this
      · exact this
    fresh := by
      intro x hx
      simp only [Tree.spawn] at hx ⊢
      rw [upd_ne _ _ (by omega)]
      exact h.fresh x (by omega) }

/-- a status publication below `Stopping` on an actor that is still in its message loop -/
theorem MI.setStatus {m : MState} (h : MI m) {a : Nat} (st : Status) (han : a < m.t.n)
    (hlive : m.t.status a ≠ .stopped) (hns : m.t.status a ≠ .stopping) (hst : st ≠ .stopped ∧ st ≠ .stopping) :
    MI { m with t := setStatus m.t a st } := by
  have hne : (m.t.status a).max st ≠ .stopped ∧ (m.t.status a).max st ≠ .stopping := by
    unfold Status.max; split
    · exact hst
    · exact ⟨hlive, hns⟩
  exact {
    inv := h.inv.setStatus a st hst.1
    gone_stopped := by
      intro x; rw [setStatus_status]; split
      · next e =>
        subst e
        constructor
        · intro hg; exact absurd ((h.gone_stopped x).mp hg) hlive
        · intro e; exact absurd e hne.1
      · exact h.gone_stopped x
    killed_gone := h.killed_gone
    ps := by
      intro x; rw [setStatus_status]; split
      · intro e; exact absurd e hne.2
      · exact h.ps x
    psr := by
      intro x hx
      have := h.psr x hx
      rw [setStatus_status]; split
      · next e => subst e; exact Nat.le_trans this (max_ge_left _ _)
      · exact this
    fresh := by
      intro x hx
      rw [setStatus_status]
      have : x ≠ a := by simp only [Tree.setStatus] at hx; omega
      simp only [this, ↓reduceIte]
      exact h.fresh x hx }

theorem MI.link {m : MState} (h : MI m) (c p : Nat) : MI { m with t := (link m.t c p).1 } := by
  obtain ⟨_, _, _, hst, hkl, hn⟩ := link_other h.inv (c := c) (p := p) (z := 0)
  exact {
    inv := h.inv.link c p
    gone_stopped := by intro x; simp only [hst]; exact h.gone_stopped x
    killed_gone := by intro x; simp only [hkl]; exact h.killed_gone x
    ps := by intro x; simp only [hst]; exact h.ps x
    psr := by intro x; simp only [hst]; exact h.psr x
    fresh := by intro x hx; simp only [hst, hn] at hx ⊢; exact h.fresh x hx }

theorem MI.unlink {m : MState} (h : MI m) (c p : Nat) : MI { m with t := unlink m.t c p } := by
  obtain ⟨hkl, hst, hn⟩ := unlink_frame m.t c p
  exact {
    inv := h.inv.unlink c p
    gone_stopped := by intro x; simp only [hst]; exact h.gone_stopped x
    killed_gone := by intro x; simp only [hkl]; exact h.killed_gone x
    ps := by intro x; simp only [hst]; exact h.ps x
    psr := by intro x; simp only [hst]; exact h.psr x
    fresh := by intro x hx; simp only [hst, hn] at hx ⊢; exact h.fresh x hx }

theorem alive_iff {m : MState} {a : Nat} : m.alive a = true ↔ a < m.t.n ∧ (m.act a).gone = false := by
  simp [MState.alive]

theorem looping_iff {m : MState} {a : Nat} :
    m.looping a = true ↔ a < m.t.n ∧ (m.act a).gone = false ∧ (m.act a).inPs = false := by
  simp [MState.looping, MState.alive, and_assoc]

theorem MI.live_status {m : MState} (h : MI m) {a : Nat} (hg : (m.act a).gone = false) : m.t.status a ≠ .stopped :=
  fun e => by have := (h.gone_stopped a).mpr e; rw [hg] at this; cases this

theorem MI.loop_status {m : MState} (h : MI m) {a : Nat} (hp : (m.act a).inPs = false) : m.t.status a ≠ .stopping :=
  fun e => by have := h.ps a e; rw [hp] at this; cases this

/-- `exitCore` after preparatory ops -/
theorem exitCore_rel' {prev : State} {m' : MState} (h : MI m') {a : Nat} (hal : m'.alive a = true)
    (ops0 : List Op) (he : m'.t = Tree.steps true prev ops0)
    (hk : ∀ z x, child prev z x → child m'.t z x) (hst : ∀ z, m'.t.status z = .stopped → prev.status z = .stopped) :
    MI (exitCore true m' a) ∧ StepRel prev (exitCore true m' a).t := by
  obtain ⟨han, hag⟩ := alive_iff.mp hal
  exact ⟨(exitCore_spec h han hag).1, StepRel.of_exitCore h han hag ops0 he hk hst⟩

/-- `exitCore` with nothing before it -/
theorem exitCore_rel {m : MState} (h : MI m) {a : Nat} (hal : m.alive a = true) :
    MI (exitCore true m a) ∧ StepRel m.t (exitCore true m a).t :=
  exitCore_rel' h hal [] rfl (fun _ _ hx => hx) (fun _ hz => hz)

/-- the invariant only reads the tree and the bookkeeping -/
theorem MI.of_eq {m1 m2 : MState} (ht : m2.t = m1.t) (ha : m2.act = m1.act) (h : MI m1) : MI m2 :=
  { inv := ht ▸ h.inv
    gone_stopped := by rw [ht, ha]; exact h.gone_stopped
    killed_gone := by rw [ht, ha]; exact h.killed_gone
    ps := by rw [ht, ha]; exact h.ps
    psr := by rw [ht, ha]; exact h.psr
    fresh := by rw [ht]; exact h.fresh }

theorem exitM_rel' {prev : State} {m' : MState} (h : MI m') {a : Nat} (hal : m'.alive a = true) (w : Why)
    (ops0 : List Op) (he : m'.t = Tree.steps true prev ops0)
    (hk : ∀ z x, child prev z x → child m'.t z x) (hst : ∀ z, m'.t.status z = .stopped → prev.status z = .stopped) :
    MI (exitM true m' a w) ∧ StepRel prev (exitM true m' a w).t := by
  obtain ⟨h1, h2⟩ := exitCore_rel' h hal ops0 he hk hst
  exact ⟨MI.of_eq (m1 := exitCore true m' a) rfl rfl h1, h2⟩

theorem exitM_rel {m : MState} (h : MI m) {a : Nat} (hal : m.alive a = true) (w : Why) :
    MI (exitM true m a w) ∧ StepRel m.t (exitM true m a w).t :=
  exitM_rel' h hal w [] rfl (fun _ _ hx => hx) (fun _ hz => hz)

/-- a graceful exit after preparatory ops: either the whole exit, or (gate armed) the actor parks in
`post_stop`: `Stopping` is published, nothing else happens yet -/
theorem gexit_rel' {prev : State} {m' : MState} (h : MI m') {a : Nat} (hal : m'.alive a = true) (w : Why)
    (ops0 : List Op) (he : m'.t = Tree.steps true prev ops0)
    (hk : ∀ z x, child prev z x → child m'.t z x) (hst : ∀ z, m'.t.status z = .stopped → prev.status z = .stopped) :
    MI (gexit true m' a w) ∧ StepRel prev (gexit true m' a w).t := by
  unfold gexit
  split
  · obtain ⟨han, hag⟩ := alive_iff.mp hal
    have hlive := h.live_status hag
    have hmax : (m'.t.status a).max .stopping = .stopping := max_stopping_of hlive
    have hstat : ∀ z, (setStatus m'.t a .stopping).status z = if z = a then .stopping else m'.t.status z := by
      intro z; rw [setStatus_status, hmax]
    have hgone : ∀ z, (upd m'.act a { m'.act a with inPs := true, busy := false, why := w } z).gone = (m'.act z).gone := by
      intro z; simp only [upd_apply]; split
      · next e => subst e; rfl
      · rfl
    refine ⟨?_, ?_⟩
    · exact {
        inv := h.inv.setStatus a _ (by decide)
        gone_stopped := by
          intro z; rw [hgone z, hstat z]; split
          · next e => subst e; simp [hag]
          · exact h.gone_stopped z
        killed_gone := by intro z hz; rw [hgone z]; exact h.killed_gone z hz
        ps := by
          intro z; rw [hstat z]; simp only [upd_apply]; split
          · intro _; rfl
          · exact h.ps z
        psr := by
          intro z; rw [hstat z]; simp only [upd_apply]; split
          · intro _; simp [Status.toNat]
          · exact h.psr z
        fresh := by
          intro z hz
          rw [hstat z]
          have : z ≠ a := by simp only [Tree.setStatus] at hz; omega
          simp only [this, ↓reduceIte]
          exact h.fresh z hz }
    · refine ⟨⟨ops0 ++ [.setStatus a .stopping], by rw [steps_append, ← he]; rfl⟩, ?_⟩
      intro z h1 h2
      exfalso
      simp only at h1
      rw [hstat z] at h1
      split at h1
      · cases h1
      · exact h2 (hst z h1)
  · exact exitM_rel' h hal w ops0 he hk hst

theorem gexit_rel {m : MState} (h : MI m) {a : Nat} (hal : m.alive a = true) (w : Why) :
    MI (gexit true m a w) ∧ StepRel m.t (gexit true m a w).t :=
  gexit_rel' h hal w [] rfl (fun _ _ hx => hx) (fun _ hz => hz)

/-- every macro op leads from a quiescent state to a quiescent state, and the two snapshots are related -/
theorem mstep_rel {m : MState} (h : MI m) (op : MOp) :
    MI (mstep true m op).1 ∧ StepRel m.t (mstep true m op).1.t := by
  cases op with
  | spawn =>
    have h1 := h.spawn
    have hn : m.t.n < (Tree.spawn m.t).n := Nat.lt_succ_self _
    have hlive : (Tree.spawn m.t).status m.t.n ≠ .stopped := by simp [Tree.spawn]
    have hns : (Tree.spawn m.t).status m.t.n ≠ .stopping := by simp [Tree.spawn]
    refine ⟨MI.setStatus h1 .running hn hlive hns (by decide), ?_⟩
    show StepRel m.t (Tree.steps true m.t [.spawn, .setStatus m.t.n .running])
    apply StepRel.of_steps
    intro a ha
    have : Tree.steps true m.t [.spawn, .setStatus m.t.n .running] = setStatus (Tree.spawn m.t) m.t.n .running := rfl
    rw [this, setStatus_status] at ha
    split at ha
    · simp [Tree.spawn, Status.max, Status.toNat] at ha
    · next e => simpa [Tree.spawn, upd_ne _ _ e] using ha
  | spawnl p =>
    simp only [mstep]
    have h1 := h.spawn
    have hn : m.t.n < (Tree.spawn m.t).n := Nat.lt_succ_self _
    cases hr : (link (Tree.spawn m.t) m.t.n p).2 with
    | true =>
      simp only [↓reduceIte]
      have h2 : MI { m with t := (link (Tree.spawn m.t) m.t.n p).1 } := MI.link h1 m.t.n p
      obtain ⟨_, _, _, hst, _, hnn⟩ := link_other h1.inv (c := m.t.n) (p := p) (z := 0)
      have hlive : (link (Tree.spawn m.t) m.t.n p).1.status m.t.n ≠ .stopped := by
        rw [hst]; simp [Tree.spawn]
      have hns : (link (Tree.spawn m.t) m.t.n p).1.status m.t.n ≠ .stopping := by
        rw [hst]; simp [Tree.spawn]
      refine ⟨MI.setStatus h2 .running (by simp only [hnn]; exact hn) hlive hns (by decide), ?_⟩
      show StepRel m.t (Tree.steps true m.t [.spawn, .link m.t.n p, .setStatus m.t.n .running])
      apply StepRel.of_steps
      intro a ha
      have : Tree.steps true m.t [.spawn, .link m.t.n p, .setStatus m.t.n .running] =
          setStatus (link (Tree.spawn m.t) m.t.n p).1 m.t.n .running := rfl
      rw [this, setStatus_status, hst] at ha
      split at ha
      · simp [Tree.spawn, Status.max, Status.toNat] at ha
      · next e => simpa [Tree.spawn, upd_ne _ _ e] using ha
    | false =>
      simp only [Bool.false_eq_true, ↓reduceIte]
      -- a refused link changes nothing
      have hsame : (link (Tree.spawn m.t) m.t.n p).1 = Tree.spawn m.t := by
        rcases link_cases (Tree.spawn m.t) m.t.n p with ⟨e, _⟩ | ⟨ks, _, _, hcase⟩
        · rw [e]
        · rcases hcase with ⟨_, e⟩ | ⟨_, e⟩ | ⟨q, _, _, e⟩ <;> rw [e] at hr <;> cases hr
      rw [hsame]
      have hag : (m.act m.t.n).gone = false := h.not_gone_fresh (Nat.le_refl _)
      have hal : ({ m with t := Tree.spawn m.t } : MState).alive m.t.n = true := alive_iff.mpr ⟨hn, hag⟩
      apply exitCore_rel' h1 hal [.spawn] rfl (fun _ _ hx => hx)
      intro z hz
      simp only [Tree.spawn, upd_apply] at hz
      split at hz
      · cases hz
      · exact hz
  | spawnlt p fails =>
    simp only [mstep]
    have h1 := h.spawn
    have hn : m.t.n < (Tree.spawn m.t).n := Nat.lt_succ_self _
    have h2 : MI { m with t := (link (Tree.spawn m.t) m.t.n p).1 } := MI.link h1 m.t.n p
    obtain ⟨hch, _, _, hst, _, hnn⟩ := link_other h1.inv (c := m.t.n) (p := p) (z := 0)
    have hst' : (link (Tree.spawn m.t) m.t.n p).1.status = (Tree.spawn m.t).status := hst
    cases hr : (link (Tree.spawn m.t) m.t.n p).2 with
    | false => simp only [Bool.not_false, ↓reduceIte]; exact ⟨h, StepRel.refl _⟩
    | true =>
    simp only [Bool.not_true, Bool.false_eq_true, ↓reduceIte]
    by_cases hc : (!fails) = true
    · simp only [hc, ↓reduceIte]
      have hlive : (link (Tree.spawn m.t) m.t.n p).1.status m.t.n ≠ .stopped := by
        rw [hst']; simp [Tree.spawn]
      have hns : (link (Tree.spawn m.t) m.t.n p).1.status m.t.n ≠ .stopping := by
        rw [hst']; simp [Tree.spawn]
      refine ⟨MI.setStatus h2 .running (by simp only [hnn]; exact hn) hlive hns (by decide), ?_⟩
      show StepRel m.t (Tree.steps true m.t [.spawn, .link m.t.n p, .setStatus m.t.n .running])
      apply StepRel.of_steps
      intro a ha
      have : Tree.steps true m.t [.spawn, .link m.t.n p, .setStatus m.t.n .running] =
          setStatus (link (Tree.spawn m.t) m.t.n p).1 m.t.n .running := rfl
      rw [this, setStatus_status, hst'] at ha
      split at ha
      · simp [Tree.spawn, Status.max, Status.toNat] at ha
      · next e => simpa [Tree.spawn, upd_ne _ _ e] using ha
    · simp only [hc, Bool.false_eq_true, ↓reduceIte]
      have hag : (m.act m.t.n).gone = false := h.not_gone_fresh (Nat.le_refl _)
      have han' : m.t.n < (link (Tree.spawn m.t) m.t.n p).1.n := by rw [hnn]; exact hn
      have hal : ({ m with t := (link (Tree.spawn m.t) m.t.n p).1 } : MState).alive m.t.n = true :=
        alive_iff.mpr ⟨han', hag⟩
      apply exitCore_rel' h2 hal [.spawn, .link m.t.n p] rfl
      · -- the link only adds an edge: the new cell had no supervisor, so nothing is erased
        intro z x hx
        have hsup : (Tree.spawn m.t).sup m.t.n = none := by
          show m.t.sup m.t.n = none
          cases hs : m.t.sup m.t.n with
          | none => rfl
          | some q => exact absurd (h.inv.sup_lt hs).1 (Nat.lt_irrefl _)
        exact child_of_link_orphan h1.inv hsup hx
      · intro z hz
        simp only [hst'] at hz
        simp only [Tree.spawn, upd_apply] at hz
        split at hz
        · cases hz
        · exact hz
  | link c p =>
    refine ⟨MI.link h c p, ?_⟩
    show StepRel m.t (Tree.steps true m.t [.link c p])
    apply StepRel.of_steps
    intro a ha
    have : Tree.steps true m.t [.link c p] = (link m.t c p).1 := rfl
    rw [this, (link_other h.inv (c := c) (p := p) (z := 0)).2.2.2.1] at ha
    exact ha
  | unlink c p =>
    refine ⟨MI.unlink h c p, ?_⟩
    show StepRel m.t (Tree.steps true m.t [.unlink c p])
    apply StepRel.of_steps
    intro a ha
    have : Tree.steps true m.t [.unlink c p] = unlink m.t c p := rfl
    rw [this, (unlink_frame m.t c p).2.1] at ha
    exact ha
  | block a =>
    simp only [mstep]
    split
    · refine ⟨h.upd_act a _ ?_ ?_, StepRel.refl _⟩ <;> split <;> rfl
    · exact ⟨h, StepRel.refl _⟩
  | release a =>
    simp only [mstep]
    by_cases hc : (m.alive a && (m.act a).busy) = true
    · simp only [hc, ↓reduceIte]
      have hal : m.alive a = true := by simp only [Bool.and_eq_true] at hc; exact hc.1
      obtain ⟨han, hag⟩ := alive_iff.mp hal
      split
      · have hm' := h.upd_act a { m.act a with handled := (m.act a).handled + 1 } rfl rfl
        have hal' : ({ m with act := upd m.act a { m.act a with handled := (m.act a).handled + 1 } } : MState).alive a = true := by
          simp [MState.alive, han, hag]
        exact gexit_rel hm' hal' _
      · split
        · exact ⟨h.upd_act a _ rfl rfl, StepRel.refl _⟩
        · split
          · have hm' := h.upd_act a { m.act a with handled := (m.act a).handled + 1, busy := false } rfl rfl
            have hal' : ({ m with act := upd m.act a { m.act a with handled := (m.act a).handled + 1, busy := false } } : MState).alive a = true := by
              simp [MState.alive, han, hag]
            exact gexit_rel hm' hal' _
          · exact ⟨h.upd_act a _ rfl rfl, StepRel.refl _⟩
    · simp only [hc, Bool.false_eq_true, ↓reduceIte]
      exact ⟨h, StepRel.refl _⟩
  | drain a =>
    simp only [mstep]
    by_cases hlo : m.looping a = true
    · simp only [hlo, ↓reduceIte]
      obtain ⟨han, hag, hps⟩ := looping_iff.mp hlo
      have hlive := h.live_status hag
      have hns := h.loop_status hps
      have hm' : MI { m with t := setStatus m.t a .draining } := MI.setStatus h .draining han hlive hns (by decide)
      have hstop : ∀ z, (setStatus m.t a .draining).status z = .stopped → m.t.status z = .stopped := by
        intro z hz
        rw [setStatus_status] at hz
        split at hz
        · next e =>
          subst e
          exfalso
          unfold Status.max at hz
          split at hz
          · cases hz
          · exact hlive hz
        · exact hz
      split
      · refine ⟨hm', ?_⟩
        show StepRel m.t (Tree.steps true m.t [.setStatus a .draining])
        exact StepRel.of_steps _ hstop
      · have hal' : ({ m with t := setStatus m.t a .draining } : MState).alive a = true := by
          simp [MState.alive, han, hag, Tree.setStatus]
        exact gexit_rel' hm' hal' _ [.setStatus a .draining] rfl (fun _ _ hx => hx) hstop
    · simp only [hlo, Bool.false_eq_true, ↓reduceIte]
      exact ⟨h, StepRel.refl _⟩
  | stop a =>
    -- using up the stop port changes neither `gone` nor `inPs`
    have h0 : MI { m with act := upd m.act a { m.act a with stopSent := true } } := h.upd_act a _ rfl rfl
    have key : ∀ m0 : MState, MI m0 →
        MI (if m0.looping a then
              (if (m0.act a).busy then (({ m0 with act := upd m0.act a { m0.act a with stopReq := true } } : MState), Res.unit)
               else (gexit true m0 a .stopped, Res.unit))
            else (m0, Res.unit)).1 ∧
        StepRel m0.t (if m0.looping a then
              (if (m0.act a).busy then (({ m0 with act := upd m0.act a { m0.act a with stopReq := true } } : MState), Res.unit)
               else (gexit true m0 a .stopped, Res.unit))
            else (m0, Res.unit)).1.t := by
      intro m0 h
      by_cases hlo : m0.looping a = true
      · simp only [hlo, ↓reduceIte]
        obtain ⟨han, hag, _⟩ := looping_iff.mp hlo
        split
        · exact ⟨h.upd_act a _ rfl rfl, StepRel.refl _⟩
        · exact gexit_rel h (alive_iff.mpr ⟨han, hag⟩) _
      · simp only [hlo, Bool.false_eq_true, ↓reduceIte]
        exact ⟨h, StepRel.refl _⟩
    exact key _ h0
  | kill a =>
    simp only [mstep]
    by_cases hal : m.alive a = true
    · simp only [hal, ↓reduceIte]; exact exitM_rel h hal _
    · simp only [hal, Bool.false_eq_true, ↓reduceIte]; exact ⟨h, StepRel.refl _⟩
  | fail a =>
    simp only [mstep]
    by_cases hc : (m.looping a && !(m.act a).busy) = true
    · simp only [hc, ↓reduceIte]
      have hlo : m.looping a = true := by simp only [Bool.and_eq_true] at hc; exact hc.1
      obtain ⟨han, hag, _⟩ := looping_iff.mp hlo
      exact exitM_rel h (alive_iff.mpr ⟨han, hag⟩) _
    · simp only [hc, Bool.false_eq_true, ↓reduceIte]; exact ⟨h, StepRel.refl _⟩
  | abort a =>
    simp only [mstep]
    by_cases hal : m.alive a = true
    · simp only [hal, ↓reduceIte]; exact exitM_rel h hal _
    · simp only [hal, Bool.false_eq_true, ↓reduceIte]; exact ⟨h, StepRel.refl _⟩
  | hold a =>
    simp only [mstep]
    split
    · exact ⟨h.upd_act a _ rfl rfl, StepRel.refl _⟩
    · exact ⟨h, StepRel.refl _⟩
  | psrelease a =>
    simp only [mstep]
    by_cases hc : (m.alive a && (m.act a).inPs) = true
    · simp only [hc, ↓reduceIte]
      have hal : m.alive a = true := by simp only [Bool.and_eq_true] at hc; exact hc.1
      exact exitM_rel h hal _
    · simp only [hc, Bool.false_eq_true, ↓reduceIte]; exact ⟨h, StepRel.refl _⟩

theorem mrun_MI (ops : List MOp) : MI (mrun true {} ops) := by
  have : ∀ (ops : List MOp) (m : MState), MI m → MI (mrun true m ops) := by
    intro ops
    induction ops with
    | nil => intro m h; exact h
    | cons op ops ih => intro m h; exact ih _ (mstep_rel h op).1
  exact this ops {} MI.init

end Tree
