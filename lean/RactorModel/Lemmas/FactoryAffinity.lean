import RactorModel.Lemmas.FactoryFrame
import RactorModel.Lemmas.FactoryWid
import RactorModel.Lemmas.FactoryCountW

/-!
Affinity invariant of key-persistent routing (C14): at most one worker slot has a given key
pending (`pending_key_counts`), across every operation — routing, completion, expiry, shedding,
worker replacement, pool growth and shrinkage.  Slots are unique (`NodupW`).
-/

namespace Factory

def NodupW (pool : List WP) : Prop := (pool.map (·.wid)).Nodup

/-- number of slots that have key `k` pending -/
def pendCount (k : Nat) (pool : List WP) : Nat := pool.countP (·.hasPendingKey k)

def Aff (pool : List WP) : Prop := ∀ k, pendCount k pool ≤ 1

/-- the worker record lost pending keys at most -/
def PendSub (p' p : WP) : Prop := ∀ k, p'.hasPendingKey k = true → p.hasPendingKey k = true

/-- … or gained `key` only -/
def PendSubPlus (key : Nat) (p' p : WP) : Prop :=
  ∀ k, p'.hasPendingKey k = true → k = key ∨ p.hasPendingKey k = true

theorem PendSub.refl (p : WP) : PendSub p p := fun _ h => h
theorem PendSub.trans {a b c : WP} (h1 : PendSub a b) (h2 : PendSub b c) : PendSub a c := fun k h => h2 k (h1 k h)
theorem PendSub.plus {p' p : WP} (key : Nat) (h : PendSub p' p) : PendSubPlus key p' p := fun k hk => Or.inr (h k hk)

theorem hasPending_iff (p : WP) (k : Nat) : p.hasPendingKey k = true ↔ k ∈ p.pending := by
  simp [WP.hasPendingKey]

theorem pendSub_of_pending {p' p : WP} (h : ∀ k, k ∈ p'.pending → k ∈ p.pending) : PendSub p' p := by
  intro k hk
  rw [hasPending_iff] at hk ⊢
  exact h k hk

/-! ### `WorkerProperties` functions -/

theorem getNextNonExpired_pend {h : Option Nat} (mq : List Job) (pend : List Nat) (e : Env) :
    ∀ k, k ∈ (getNextNonExpired h mq pend e).2.2.1 → k ∈ pend := by
  induction mq generalizing pend e with
  | nil => intro k h; exact h
  | cons j rest ih =>
    unfold getNextNonExpired
    split
    · intro k h; exact h
    · intro k h
      exact List.mem_of_mem_erase (ih _ _ k h)

theorem getNext_pendSub (p : WP) (e : Env) : PendSub (p.getNext e).2.1 p :=
  pendSub_of_pending (getNextNonExpired_pend p.mq p.pending e)

theorem dispatchJob_pending (p : WP) (e : Env) (j : Job) : (p.dispatchJob e j).1.pending = p.pending := by
  unfold WP.dispatchJob; split <;> rfl

theorem dispatchJob_pendSub (p : WP) (e : Env) (j : Job) : PendSub (p.dispatchJob e j).1 p :=
  pendSub_of_pending (by rw [dispatchJob_pending]; exact fun _ h => h)

theorem untrack_pendSub (p : WP) (k : Nat) : PendSub (p.untrack k) p :=
  pendSub_of_pending (fun _ h => List.mem_of_mem_erase h)

theorem shedOldest_pendSub (limit fuel : Nat) (p : WP) (e : Env) : PendSub (shedOldest limit fuel p e).1 p := by
  induction fuel generalizing p e with
  | zero => exact PendSub.refl p
  | succ fuel ih =>
    unfold shedOldest
    split
    · have hg := getNext_pendSub p e
      cases hn : p.getNext e with
      | mk r pe =>
        obtain ⟨p', e'⟩ := pe
        rw [hn] at hg
        cases r with
        | none => simp only; exact (ih _ _).trans hg
        | some d => simp only; exact ((ih _ _).trans (untrack_pendSub _ _)).trans hg
    · exact PendSub.refl p

theorem enqueueAccepted_pendSub (p : WP) (e : Env) (j : Job) : PendSub (p.enqueueAccepted e j).1 p := by
  unfold WP.enqueueAccepted
  split
  · have hg := getNext_pendSub p e
    cases hn : p.getNext e with
    | mk r pe =>
      obtain ⟨p', e'⟩ := pe
      rw [hn] at hg
      cases r with
      | none => simp only; exact (dispatchJob_pendSub _ _ _).trans hg
      | some d =>
        simp only
        exact (dispatchJob_pendSub _ _ _).trans (PendSub.trans (pendSub_of_pending (fun _ h => h)) hg)
  · simp only
    split
    · exact (shedOldest_pendSub _ _ _ _).trans (pendSub_of_pending (fun _ h => h))
    · exact pendSub_of_pending (fun _ h => h)

theorem enqueueJob_pendSubPlus (p : WP) (e : Env) (j : Job) : PendSubPlus j.key (p.enqueueJob e j).1 p := by
  unfold WP.enqueueJob
  split
  · exact (PendSub.refl p).plus _
  · intro k hk
    have := enqueueAccepted_pendSub (p.track j.key) (e.accept j) { j with port := false } k hk
    rw [hasPending_iff] at this
    simp only [WP.track, List.mem_cons] at this
    rcases this with h | h
    · exact Or.inl h
    · exact Or.inr ((hasPending_iff p k).mpr h)

theorem workerComplete_pendSub (p : WP) (e : Env) (key : Nat) : PendSub (p.workerComplete e key).1 p := by
  unfold WP.workerComplete
  split
  · generalize hp0 : ({ p with curr := p.curr.filter (fun x => x.1 != key), pending := p.pending.erase key } : WP) = p0
    have h0 : PendSub p0 p := by
      subst hp0; exact pendSub_of_pending (fun _ h => List.mem_of_mem_erase h)
    have hg := getNext_pendSub p0 e
    cases hn : p0.getNext e with
    | mk r pe =>
      obtain ⟨p', e'⟩ := pe
      rw [hn] at hg
      cases r with
      | none => simp only [hn]; exact hg.trans h0
      | some d => simp only [hn]; exact ((dispatchJob_pendSub _ _ _).trans hg).trans h0
  · exact PendSub.refl p

theorem foldl_erase_sub (l : List (Nat × Nat)) (pend : List Nat) :
    ∀ k, k ∈ l.foldl (fun acc x => acc.erase x.1) pend → k ∈ pend := by
  induction l generalizing pend with
  | nil => intro k h; exact h
  | cons x xs ih => intro k h; exact List.mem_of_mem_erase (ih _ k h)

theorem replaceWorker_pendSub (p : WP) (e : Env) (naid : Nat) : PendSub (p.replaceWorker e naid).1 p := by
  unfold WP.replaceWorker
  simp only
  generalize hp0 : ({ p with curr := [], pending := p.curr.foldl (fun acc x => acc.erase x.1) p.pending, actor := naid } : WP) = p0
  have h0 : PendSub p0 p := by
    subst hp0; exact pendSub_of_pending (foldl_erase_sub p.curr p.pending)
  have hg := getNext_pendSub p0 e
  cases hn : p0.getNext e with
  | mk r pe =>
    obtain ⟨p', e'⟩ := pe
    rw [hn] at hg
    cases r with
    | none => simp only [hn]; exact hg.trans h0
    | some d => simp only [hn]; exact ((dispatchJob_pendSub _ _ _).trans hg).trans h0

/-! ### pool primitives -/

theorem pendCount_setW_le (k : Nat) (pool : List WP) (wid : Nat) (p p' : WP) (hg : getW pool wid = some p)
    (h : p'.hasPendingKey k = true → p.hasPendingKey k = true) :
    pendCount k (setW pool wid p') ≤ pendCount k pool := by
  induction pool with
  | nil => simp [getW] at hg
  | cons x xs ih =>
    unfold setW
    simp only [getW, List.find?_cons] at hg
    cases hx : x.wid == wid
    · simp only [hx] at hg
      have := ih hg
      simp only [Bool.false_eq_true, if_false, pendCount, List.countP_cons] at *
      omega
    · simp only [hx, Option.some.injEq] at hg
      subst hg
      simp only [if_true, pendCount, List.countP_cons]
      cases h' : p'.hasPendingKey k
      · simp
      · simp [h h']

theorem pendCount_setW_succ (k : Nat) (pool : List WP) (wid : Nat) (p' : WP) :
    pendCount k (setW pool wid p') ≤ pendCount k pool + 1 := by
  induction pool with
  | nil => simp [setW, pendCount]
  | cons x xs ih =>
    unfold setW
    split
    · simp only [pendCount, List.countP_cons]
      split <;> split <;> omega
    · simp only [pendCount, List.countP_cons] at *
      omega

theorem pendCount_removeW_le (k : Nat) (pool : List WP) (wid : Nat) :
    pendCount k (removeW pool wid) ≤ pendCount k pool := by
  induction pool with
  | nil => simp [removeW]
  | cons x xs ih =>
    unfold removeW
    split
    · simp only [pendCount, List.countP_cons]; omega
    · simp only [pendCount, List.countP_cons] at *; omega

theorem map_wid_setW (pool : List WP) (wid : Nat) (p' : WP) (hw : p'.wid = wid) :
    (setW pool wid p').map (·.wid) = pool.map (·.wid) := by
  induction pool with
  | nil => rfl
  | cons x xs ih =>
    unfold setW
    split
    · rename_i hx
      have : x.wid = wid := by simpa using hx
      simp [hw, this]
    · simp [ih]

theorem nodupW_setW {pool : List WP} {wid : Nat} {p' : WP} (hw : p'.wid = wid) (h : NodupW pool) :
    NodupW (setW pool wid p') := by
  unfold NodupW; rw [map_wid_setW pool wid p' hw]; exact h

theorem removeW_sublist (pool : List WP) (wid : Nat) : (removeW pool wid).Sublist pool := by
  induction pool with
  | nil => exact List.Sublist.refl _
  | cons x xs ih =>
    unfold removeW
    split
    · exact List.sublist_cons_self x xs
    · exact ih.cons₂ x

theorem nodupW_removeW {pool : List WP} (wid : Nat) (h : NodupW pool) : NodupW (removeW pool wid) :=
  List.Nodup.sublist ((removeW_sublist pool wid).map _) h

theorem getW_none_not_mem {pool : List WP} {wid : Nat} (h : getW pool wid = none) : wid ∉ pool.map (·.wid) := by
  intro hm
  obtain ⟨p, hp, hw⟩ := List.mem_map.mp hm
  have := List.find?_eq_none.mp h p hp
  simp [hw] at this

theorem nodupW_append_new {pool : List WP} {p : WP} (hn : getW pool p.wid = none) (h : NodupW pool) :
    NodupW (pool ++ [p]) := by
  unfold NodupW at *
  rw [List.map_append, List.nodup_append]
  refine ⟨h, by simp, ?_⟩
  intro a ha b hb
  simp only [List.map_cons, List.map_nil, List.mem_singleton] at hb
  subst hb
  intro hab
  subst hab
  exact getW_none_not_mem hn ha

theorem getW_of_mem_nodup {pool : List WP} {p : WP} (hp : p ∈ pool) (h : NodupW pool) :
    getW pool p.wid = some p := by
  induction pool with
  | nil => cases hp
  | cons x xs ih =>
    simp only [getW, List.find?_cons]
    cases hp with
    | head => simp
    | tail _ hmem =>
      have hnd : (x.wid :: xs.map (·.wid)).Nodup := h
      have hx : x.wid ≠ p.wid := by
        intro heq
        have : p.wid ∈ xs.map (·.wid) := List.mem_map.mpr ⟨p, hmem, rfl⟩
        rw [← heq] at this
        exact (List.nodup_cons.mp hnd).1 this
      have : (x.wid == p.wid) = false := beq_false_of_ne hx
      simp only [this]
      exact ih hmem (List.nodup_cons.mp hnd).2

end Factory

namespace Factory

/-! ### the factory -/

/-- at most one slot has the key pending: two slots with it are one slot -/
theorem pendCount_unique {pool : List WP} {k : Nat} (h : pendCount k pool ≤ 1) {p1 p2 : WP}
    (h1 : p1 ∈ pool) (h2 : p2 ∈ pool) (hk1 : p1.hasPendingKey k = true) (hk2 : p2.hasPendingKey k = true) : p1 = p2 := by
  induction pool with
  | nil => cases h1
  | cons x xs ih =>
    simp only [pendCount, List.countP_cons] at h ih
    cases h1 with
    | head =>
      cases h2 with
      | head => rfl
      | tail _ h2' =>
        have : 0 < xs.countP (·.hasPendingKey k) := List.countP_pos_iff.mpr ⟨p2, h2', hk2⟩
        simp only [hk1, if_true] at h; omega
    | tail _ h1' =>
      cases h2 with
      | head =>
        have : 0 < xs.countP (·.hasPendingKey k) := List.countP_pos_iff.mpr ⟨p1, h1', hk1⟩
        simp only [hk2, if_true] at h; omega
      | tail _ h2' =>
        exact ih (by split at h <;> omega) h1' h2'

/-- the routers that keep a key with the slot that has it pending: key-persistent, and (since the F13 fix) sticky -/
structure AffInv (w : W) : Prop where
  kp : w.cfg.router = .kp ∨ w.cfg.router = .sq
  nodup : NodupW w.pool
  aff : Aff w.pool

theorem AffInv.of_pool {w w' : W} (h : AffInv w) (hc : w'.cfg = w.cfg) (hp : w'.pool = w.pool) : AffInv w' :=
  ⟨by rw [hc]; exact h.kp, by rw [hp]; exact h.nodup, by rw [hp]; exact h.aff⟩

theorem AffInv.of_routerFrame {w w' : W} (h : AffInv w) (f : RouterFrame w w') : AffInv w' :=
  h.of_pool f.cfg f.pool

theorem kp_choose_spec (w : W) (j : Job) (hint : Option Nat) (wid : Nat) (hr : w.cfg.router = .kp ∨ w.cfg.router = .sq)
    (hn : NodupW w.pool) (haff : Aff w.pool)
    (h : (w.chooseTargetWorker j hint).1 = some wid) :
    (∃ p0, w.pool.find? (·.hasPendingKey j.key) = some p0 ∧ p0.wid = wid) ∨
    w.pool.find? (·.hasPendingKey j.key) = none := by
  unfold W.chooseTargetWorker at h
  rcases hr with hr | hr
  · simp only [hr] at h
    cases hf : w.pool.find? (·.hasPendingKey j.key) with
    | none => exact Or.inr rfl
    | some p0 =>
      simp only [hf, Option.some.injEq] at h
      exact Or.inl ⟨p0, rfl, h⟩
  · simp only [hr] at h
    cases hf : w.pool.find? (·.hasPendingKey j.key) with
    | none => exact Or.inr rfl
    | some p0 =>
      left
      refine ⟨p0, rfl, ?_⟩
      have hp0m : p0 ∈ w.pool := List.mem_of_find?_eq_some hf
      have hp0k : p0.hasPendingKey j.key = true := by have := List.find?_some hf; exact this
      split at h
      · -- the hinted slot has the key pending: it is the one slot that has
        rename_i hh
        simp only at h
        subst h
        unfold hintPending at hh
        simp only at hh
        cases hg : getW w.pool wid with
        | none => rw [hg] at hh; cases hh
        | some p =>
          rw [hg] at hh
          have hpm : p ∈ w.pool := List.mem_of_find?_eq_some hg
          have := pendCount_unique (haff j.key) hp0m hpm hp0k hh
          rw [this]
          have hw := List.find?_some hg
          simpa using hw
      · simp only [hf, Option.some.injEq] at h
        exact h

theorem pendCount_zero_of_find_none {pool : List WP} {k : Nat} (h : pool.find? (·.hasPendingKey k) = none) :
    pendCount k pool = 0 := by
  unfold pendCount
  rw [List.countP_eq_zero]
  intro p hp
  have := List.find?_eq_none.mp h p hp
  simpa using this

theorem affInv_routeInner (w : W) (j : Job) (hint : Option Nat) (h : AffInv w) : AffInv (w.routeInner j hint).2 := by
  unfold W.routeInner
  have hs := chooseTargetWorker_frame w j hint
  have hspec := kp_choose_spec w j hint
  cases hc : w.chooseTargetWorker j hint with
  | mk t w1 =>
    rw [hc] at hs hspec
    simp only at hs hspec ⊢
    have h1 : AffInv w1 := h.of_routerFrame hs
    cases t with
    | none => exact h1
    | some wid =>
      simp only
      cases hg : getW w1.pool wid with
      | none => exact h1
      | some p =>
        simp only
        have hwid : (p.enqueueJob w1.env j).1.wid = wid := by rw [enqueueJob_wid]; exact getW_wid hg
        have hplus := enqueueJob_pendSubPlus p w1.env j
        refine ⟨h1.kp, nodupW_setW hwid h1.nodup, ?_⟩
        intro k
        show pendCount k (setW w1.pool wid (p.enqueueJob w1.env j).1) ≤ 1
        by_cases hk : k = j.key
        · subst hk
          rcases hspec wid h.kp h.nodup h.aff rfl with ⟨p0, hf, hw0⟩ | hnone
          · -- the key is already pending somewhere: that slot is the target
            have hmem : p0 ∈ w1.pool := by rw [hs.pool]; exact List.mem_of_find?_eq_some hf
            have hget := getW_of_mem_nodup hmem h1.nodup
            rw [hw0, hg] at hget
            have hp0 : p.hasPendingKey j.key = true := by
              have := List.find?_some hf
              simp only [Option.some.injEq] at hget; rw [hget]; exact this
            exact Nat.le_trans (pendCount_setW_le _ _ _ p _ hg (fun _ => hp0)) (h1.aff _)
          · have h0 : pendCount j.key w1.pool = 0 := by rw [hs.pool]; exact pendCount_zero_of_find_none hnone
            have := pendCount_setW_succ j.key w1.pool wid (p.enqueueJob w1.env j).1
            omega
        · refine Nat.le_trans (pendCount_setW_le _ _ _ p _ hg ?_) (h1.aff _)
          intro hk'
          rcases hplus k hk' with h2 | h2
          · exact absurd h2 hk
          · exact h2

theorem affInv_routeLimited (w : W) (j : Job) (hint : Option Nat) (h : AffInv w) : AffInv (w.routeLimited j hint).2 := by
  unfold W.routeLimited
  split
  · exact affInv_routeInner w j hint h
  · rename_i c lb _
    simp only
    have h0 : AffInv { w with rl := some (c, (LeakyBucket.check c lb w.env.now).1) } := h.of_pool rfl rfl
    split
    · split
      · split
        · rename_i hh _
          exact h0.of_routerFrame (availChange_frame { w with rl := some (c, (LeakyBucket.check c lb w.env.now).1) } hh true)
        · exact h0
      · exact h0
    · have hi := affInv_routeInner _ j hint h0
      cases hr : W.routeInner { w with rl := some (c, (LeakyBucket.check c lb w.env.now).1) } j hint with
      | mk r w2 =>
        rw [hr] at hi
        simp only at hi ⊢
        split
        · exact hi.of_pool rfl rfl
        · exact hi

theorem affInv_routeMessage (w : W) (j : Job) (hint : Option Nat) (h : AffInv w) : AffInv (w.routeMessage j hint).2 := by
  unfold W.routeMessage
  have hi := affInv_routeLimited w j hint h
  cases hr : w.routeLimited j hint with
  | mk r w2 => rw [hr] at hi; exact hi.of_pool rfl rfl

theorem affInv_dropExpiredHead (fuel : Nat) (w : W) (h : AffInv w) : AffInv (W.dropExpiredHead fuel w) := by
  induction fuel generalizing w with
  | zero => exact h
  | succ fuel ih =>
    unfold W.dropExpiredHead
    split
    · split
      · split
        · exact ih _ (h.of_pool rfl rfl)
        · exact h
      · exact h
    · exact h

theorem affInv_routeLoop (hint : Option Nat) (fuel : Nat) (w : W) (h : AffInv w) : AffInv (W.routeLoop hint fuel w) := by
  induction fuel generalizing w with
  | zero => exact h
  | succ fuel ih =>
    unfold W.routeLoop
    split
    · exact h
    · rename_i j _
      have hs := chooseTargetWorker_frame w j hint
      cases hc : w.chooseTargetWorker j hint with
      | mk t w1 =>
        rw [hc] at hs
        simp only at hs ⊢
        have h1 : AffInv w1 := h.of_routerFrame hs
        cases t with
        | none => exact h1
        | some worker =>
          simp only
          cases hp : qPopFront w1.cfg w1.queue with
          | none => exact h1
          | some jq =>
            obtain ⟨j', q⟩ := jq
            simp only
            have hr := affInv_routeMessage { w1 with queue := q } j' (some worker) (h1.of_pool rfl rfl)
            cases hrm : W.routeMessage { w1 with queue := q } j' (some worker) with
            | mk r w2 =>
              rw [hrm] at hr
              cases r with
              | handled => exact hr
              | rateLimited => exact ih _ (hr.of_pool rfl rfl)
              | backlog => exact hr.of_pool rfl rfl

theorem affInv_tryRoute (w : W) (hint : Option Nat) (h : AffInv w) : AffInv (w.tryRouteNextActiveJob hint) := by
  unfold W.tryRouteNextActiveJob
  exact affInv_routeLoop _ _ _ (affInv_dropExpiredHead _ _ h)

theorem affInv_shedQueueOldest (limit fuel : Nat) (w : W) (h : AffInv w) : AffInv (W.shedQueueOldest limit fuel w) := by
  induction fuel generalizing w with
  | zero => exact h
  | succ fuel ih =>
    unfold W.shedQueueOldest
    split
    · split
      · exact ih _ (h.of_pool rfl rfl)
      · exact ih _ h
    · exact h

theorem affInv_maybeEnqueue (w : W) (j : Job) (h : AffInv w) : AffInv (w.maybeEnqueue j) := by
  unfold W.maybeEnqueue
  split
  · split
    · exact h.of_pool rfl rfl
    · exact h.of_pool rfl rfl
  · exact affInv_shedQueueOldest _ _ _ (h.of_pool rfl rfl)
  · exact h.of_pool rfl rfl

theorem pendCount_append_new (k : Nat) (pool : List WP) (p : WP) (hp : p.pending = []) :
    pendCount k (pool ++ [p]) = pendCount k pool := by
  simp [pendCount, List.countP_append, List.countP_cons, WP.hasPendingKey, hp]

theorem affInv_growOne (w : W) (wid : Nat) (h : AffInv w) : AffInv (w.growOne wid) := by
  unfold W.growOne
  split
  · rename_i p hg
    have h1 : AffInv { w with pool := setW w.pool wid { p with draining := false } } := by
      have hpw : p.wid = wid := getW_wid hg
      refine ⟨h.kp, nodupW_setW (p' := { p with draining := false }) hpw h.nodup, ?_⟩
      intro k
      show pendCount k (setW w.pool wid { p with draining := false }) ≤ 1
      exact Nat.le_trans (pendCount_setW_le k _ _ p _ hg (fun hk => hk)) (h.aff k)
    split
    · exact h1.of_routerFrame (availChange_frame _ _ _)
    · exact h1
  · rename_i hg
    refine AffInv.of_routerFrame ?_ (availChange_frame _ _ _)
    refine ⟨h.kp, nodupW_append_new (p := { wid := wid, actor := w.nextAid, disc := w.workerDiscard w.disc, handler := w.handler }) hg h.nodup, ?_⟩
    intro k
    simp only
    rw [pendCount_append_new k w.pool _ rfl]
    exact h.aff k

theorem affInv_foldl {f : W → Nat → W} (hf : ∀ w k, AffInv w → AffInv (f w k)) (l : List Nat) (w : W) (h : AffInv w) :
    AffInv (l.foldl f w) := by
  induction l generalizing w with
  | nil => exact h
  | cons a l ih => exact ih _ (hf _ _ h)

theorem affInv_growPool (w : W) (n : Nat) (h : AffInv w) : AffInv (w.growPool n) := by
  unfold W.growPool
  exact affInv_foldl (fun w k hw => affInv_growOne w _ hw) _ w h

theorem affInv_removeW (w : W) (wid : Nat) (h : AffInv w) (w' : W) (hc : w'.cfg = w.cfg)
    (hp : w'.pool = removeW w.pool wid) : AffInv w' :=
  ⟨by rw [hc]; exact h.kp, by rw [hp]; exact nodupW_removeW wid h.nodup,
   by rw [hp]; intro k; exact Nat.le_trans (pendCount_removeW_le k _ _) (h.aff k)⟩

theorem affInv_shrinkOne (w : W) (wid : Nat) (h : AffInv w) : AffInv (w.shrinkOne wid) := by
  unfold W.shrinkOne
  split
  · rename_i p hg
    split
    · have hpw : p.wid = wid := getW_wid hg
      refine ⟨h.kp, nodupW_setW (p' := { p with draining := true }) hpw h.nodup, ?_⟩
      intro k
      show pendCount k (setW w.pool wid { p with draining := true }) ≤ 1
      exact Nat.le_trans (pendCount_setW_le k _ _ p _ hg (fun hk => hk)) (h.aff k)
    · have h1 := h.of_routerFrame (availChange_frame w wid false)
      exact affInv_removeW _ wid h1 _ rfl rfl
  · exact h

theorem affInv_shrinkPool (w : W) (n : Nat) (h : AffInv w) : AffInv (w.shrinkPool n) := by
  unfold W.shrinkPool
  exact affInv_foldl (fun w k hw => affInv_shrinkOne w _ hw) _ w h

theorem affInv_flushAfterGrow (fuel : Nat) (w : W) (h : AffInv w) : AffInv (W.flushAfterGrow fuel w) := by
  induction fuel generalizing w with
  | zero => exact h
  | succ fuel ih =>
    unfold W.flushAfterGrow
    simp only
    split
    · exact h
    · split
      · exact affInv_tryRoute w none h
      · exact ih _ (affInv_tryRoute w none h)

theorem affInv_resizePool (w : W) (n : Nat) (h : AffInv w) : AffInv (w.resizePool n) := by
  unfold W.resizePool
  split
  · exact h
  · simp only
    split
    · exact affInv_flushAfterGrow _ _ ((affInv_growPool w _ h).of_pool rfl rfl)
    · split
      · exact (affInv_shrinkPool w _ h).of_pool rfl rfl
      · exact h.of_pool rfl rfl

theorem affInv_dispatch (w : W) (j : Job) (h : AffInv w) : AffInv (w.dispatch j) := by
  unfold W.dispatch
  split
  · exact h.of_pool rfl rfl
  · split
    · have hr := affInv_routeMessage w j none h
      cases hrm : w.routeMessage j none with
      | mk r w2 =>
        rw [hrm] at hr
        cases r with
        | handled => exact hr
        | rateLimited => exact hr.of_pool rfl rfl
        | backlog => exact affInv_maybeEnqueue w2 j hr
    · exact h.of_pool rfl rfl

theorem affInv_ite (c : Prop) [Decidable c] (a b : W) (ha : AffInv a) (hb : AffInv b) : AffInv (if c then a else b) := by
  split <;> assumption

theorem affInv_workerFinishedJob (w : W) (who key : Nat) (h : AffInv w) : AffInv (w.workerFinishedJob who key) := by
  unfold W.workerFinishedJob
  split
  · rename_i p hg
    have hsub := workerComplete_pendSub p w.env key
    have hwid : (p.workerComplete w.env key).1.wid = who := by rw [workerComplete_wid]; exact getW_wid hg
    cases hwc : p.workerComplete w.env key with
    | mk p' e' =>
      rw [hwc] at hsub hwid
      simp only at hsub hwid ⊢
      have h1 : AffInv { w with pool := setW w.pool who p', env := e' } := by
        refine ⟨h.kp, nodupW_setW hwid h.nodup, ?_⟩
        intro k
        exact Nat.le_trans (pendCount_setW_le k _ _ p _ hg (hsub k)) (h.aff k)
      split
      · split
        · exact affInv_removeW _ who h1 _ rfl rfl
        · exact h1
      · apply affInv_ite
        · exact (affInv_tryRoute _ _ h1).of_routerFrame (availChange_frame _ _ _)
        · exact affInv_tryRoute _ _ h1
  · exact affInv_tryRoute w _ h

theorem affInv_removeExpired (w : W) (h : AffInv w) : AffInv w.removeExpired := by
  unfold W.removeExpired
  split
  · exact h.of_pool rfl rfl
  · exact h

theorem affInv_calcRest (w : W) (h : AffInv w) : AffInv w.calcRest := by
  unfold W.calcRest
  exact (affInv_removeExpired w h).of_pool rfl rfl

theorem pendCount_map_disc (k : Nat) (pool : List WP) (d : Option (Nat × Mode)) :
    pendCount k (pool.map fun p => { p with disc := d }) = pendCount k pool := by
  simp [pendCount, List.countP_map, Function.comp_def, WP.hasPendingKey]

theorem affInv_setHandler (w : W) (hd : Option Nat) (h : AffInv w) : AffInv (w.setHandler hd) := by
  refine ⟨h.kp, ?_, ?_⟩
  · show NodupW (w.pool.map _)
    unfold NodupW
    rw [List.map_map]
    exact h.nodup
  · intro k
    show pendCount k (w.pool.map _) ≤ 1
    have : pendCount k (w.pool.map fun p => { p with handler := hd }) = pendCount k w.pool := by
      simp [pendCount, List.countP_map, Function.comp_def, WP.hasPendingKey]
    rw [this]; exact h.aff k

theorem affInv_updateSettings (w : W) (d : Option (Option (Nat × Mode))) (n : Option Nat) (h : AffInv w) :
    AffInv (w.updateSettings d n) := by
  unfold W.updateSettings
  have h1 : AffInv (match d with
      | some d => { w with pool := w.pool.map (fun p => { p with disc := w.workerDiscard d }), disc := d }
      | none => w) := by
    cases d with
    | none => exact h
    | some d =>
      refine ⟨h.kp, ?_, ?_⟩
      · show NodupW (w.pool.map _)
        unfold NodupW
        rw [List.map_map]
        exact h.nodup
      · intro k
        show pendCount k (w.pool.map _) ≤ 1
        rw [pendCount_map_disc]; exact h.aff k
  cases n with
  | none => exact h1
  | some n => exact affInv_resizePool _ n h1

theorem affInv_retire (w w' : W) (wid : Nat) (h : AffInv w) (hr : w.retireIdleDrainingWorker wid = some w') : AffInv w' := by
  unfold W.retireIdleDrainingWorker at hr
  split at hr
  · split at hr
    · simp only [Option.some.injEq] at hr
      subst hr
      exact affInv_removeW w wid h _ rfl rfl
    · simp at hr
  · simp at hr

theorem affInv_afterReplace (w : W) (wid : Nat) (h : AffInv w) : AffInv (w.afterReplace wid) := by
  unfold W.afterReplace
  cases hret : w.retireIdleDrainingWorker wid with
  | some w2 => exact affInv_retire w w2 wid h hret
  | none =>
    simp only
    apply affInv_ite
    · exact (affInv_tryRoute _ _ h).of_routerFrame (availChange_frame _ _ _)
    · exact affInv_tryRoute _ _ h

theorem affInv_handleSupervisorEvt (w : W) (who : Nat) (h : AffInv w) : AffInv (w.handleSupervisorEvt who) := by
  unfold W.handleSupervisorEvt
  split
  · exact h
  · rename_i wid _
    split
    · exact h
    · rename_i p hg
      simp only
      have hsub := replaceWorker_pendSub p (w.env.spawn wid w.nextAid) w.nextAid
      have hwid : (p.replaceWorker (w.env.spawn wid w.nextAid) w.nextAid).1.wid = wid := by
        rw [replaceWorker_wid]; exact getW_wid hg
      cases hrw : p.replaceWorker (w.env.spawn wid w.nextAid) w.nextAid with
      | mk p' e' =>
        rw [hrw] at hsub hwid
        simp only at hsub hwid ⊢
        apply affInv_afterReplace
        refine ⟨h.kp, nodupW_setW hwid h.nodup, ?_⟩
        intro k
        exact Nat.le_trans (pendCount_setW_le k _ _ p _ hg (hsub k)) (h.aff k)

theorem affInv_postStop (w : W) (h : AffInv w) : AffInv w.postStop := by
  unfold W.postStop
  simp only
  exact ⟨h.kp, List.nodup_nil, fun k => by simp [pendCount]⟩

theorem affInv_handleMsg (w : W) (m : FMsg) (h : AffInv w) : AffInv (w.handleMsg m) := by
  cases m with
  | dispatch j => exact affInv_dispatch w j h
  | finished who key => exact affInv_workerFinishedJob w who key h
  | adjust n => exact affInv_resizePool w n h
  | updateSettings d n => exact affInv_updateSettings w d n h
  | setHandler hd => exact affInv_setHandler w hd h
  | drainRequests => exact h.of_pool rfl rfl
  | calculate =>
    show AffInv (if w.cfg.hasCC && w.armed then { w with armed := false, blocked := true } else w.calcRest)
    split
    · exact h.of_pool rfl rfl
    · exact affInv_calcRest w h
  | getQueueDepth => exact h.of_pool rfl rfl
  | getNumActiveWorkers => exact h.of_pool rfl rfl
  | getAvailableCapacity => exact h.of_pool rfl rfl

theorem affInv_afterHandle (w : W) (h : AffInv w) : AffInv w.afterHandle := by
  unfold W.afterHandle
  split
  · exact h
  · have hs := isDrained_same w
    have hcfg : w.isDrained.2.cfg = w.cfg := by
      unfold W.isDrained
      split
      · rfl
      · rfl
      · split <;> rfl
    cases hd : w.isDrained with
    | mk d w2 =>
      rw [hd] at hs hcfg
      simp only at hs hcfg ⊢
      have h2 : AffInv w2 := h.of_pool hcfg hs.2.2.1
      split
      · exact h2.of_pool rfl rfl
      · exact h2

theorem affInv_loopStep (w w' : W) (h : AffInv w) (hl : w.loopStep = some w') : AffInv w' := by
  unfold W.loopStep at hl
  split at hl
  · simp at hl
  · split at hl
    · simp only [Option.some.injEq] at hl; subst hl; exact affInv_postStop w h
    · split at hl
      · simp only [Option.some.injEq] at hl; subst hl
        exact affInv_handleSupervisorEvt _ _ (h.of_pool rfl rfl)
      · split at hl
        · simp only [Option.some.injEq] at hl; subst hl
          exact affInv_afterHandle _ (affInv_handleMsg _ _ (h.of_pool rfl rfl))
        · simp at hl

theorem affInv_runQ (fuel : Nat) (w : W) (h : AffInv w) : AffInv (W.runQ fuel w) := by
  induction fuel generalizing w with
  | zero => exact h
  | succ fuel ih =>
    unfold W.runQ
    cases hl : w.loopStep with
    | some w' => simp only; exact ih _ (affInv_loopStep w w' h hl)
    | none =>
      simp only
      have hs : AffInv (W.tryFinishStop { w with env := w.env.settle }) := by
        unfold W.tryFinishStop
        split
        · exact h.of_pool rfl rfl
        · exact h.of_pool rfl rfl
      split
      · exact hs
      · exact ih _ hs

theorem affInv_send (w : W) (m : FMsg) (h : AffInv w) : AffInv (w.send m) := by
  unfold W.send; split
  · exact h
  · exact h.of_pool rfl rfl

theorem affInv_advanceTo (t fuel : Nat) (w : W) (h : AffInv w) : AffInv (W.advanceTo t fuel w) := by
  induction fuel generalizing w with
  | zero => exact h.of_pool rfl rfl
  | succ fuel ih =>
    unfold W.advanceTo
    split
    · simp only
      apply ih
      apply affInv_runQ
      apply affInv_send
      exact h.of_pool rfl rfl
    · exact h.of_pool rfl rfl

theorem affInv_finish (w : W) (aid : Nat) (ok : Bool) (h : AffInv w) : AffInv (w.finish aid ok) := by
  unfold W.finish
  cases ha : w.env.getActor aid with
  | none => exact h
  | some a =>
    simp only
    cases hr : a.running with
    | none => exact h
    | some j =>
      simp only
      split
      · exact h
      · split
        · exact h.of_pool rfl rfl
        · have h1 : AffInv (W.send { w with env := (w.env.emit (.finishOk aid)).emit (.handled aid j.id) } (.finished a.wid j.key)) :=
            affInv_send _ _ (h.of_pool rfl rfl)
          exact h1.of_pool rfl rfl

theorem affInv_applyOp (w : W) (op : Op) (h : AffInv w) : AffInv (w.applyOp op) := by
  cases op with
  | dispatch id key hash ttl acc =>
    simp only [W.applyOp]
    split
    · exact h
    · exact affInv_send _ _ (h.of_pool rfl rfl)
  | finish aid ok => exact affInv_finish w aid ok h
  | kill aid => exact h.of_pool rfl rfl
  | resize n => exact affInv_send _ _ (h.of_pool rfl rfl)
  | settings d n =>
    simp only [W.applyOp]
    apply affInv_send
    cases d with
    | none => cases n with
      | none => exact h
      | some n => exact h.of_pool rfl rfl
    | some d => cases n with
      | none => exact h.of_pool rfl rfl
      | some n => exact h.of_pool rfl rfl
  | drain => exact affInv_send _ _ (h.of_pool rfl rfl)
  | setHandler hd => exact affInv_send _ _ (h.of_pool rfl rfl)
  | advance => exact h
  | block => exact h.of_pool rfl rfl
  | release n =>
    simp only [W.applyOp]
    split
    · apply affInv_afterHandle
      apply affInv_calcRest
      split
      · exact affInv_resizePool _ _ (h.of_pool rfl rfl)
      · exact h.of_pool rfl rfl
    · exact h
  | nop => exact h

theorem affInv_ask (w : W) (m : FMsg) (h : AffInv w) : AffInv (w.ask m) := by
  unfold W.ask
  split
  · exact h.of_pool rfl rfl
  · simp only
    have h1 := affInv_runQ RUN_FUEL _ (affInv_send w m h)
    split
    · exact h1.of_pool rfl rfl
    · exact h1

theorem affInv_queries (w : W) (h : AffInv w) : AffInv w.queries := by
  unfold W.queries
  split
  · exact h.of_pool rfl rfl
  · exact affInv_ask _ _ (affInv_ask _ _ (affInv_ask _ _ (h.of_pool rfl rfl)))

theorem affInv_stepOp (w : W) (op : Op) (t0 tq te : Nat) (h : AffInv w) : AffInv (w.stepOp op t0 tq te) := by
  unfold W.stepOp
  simp only
  generalize hw1 : W.advanceTo t0 (advanceFuel w t0) w = w1
  have h1 : AffInv w1 := by rw [← hw1]; exact affInv_advanceTo _ _ _ h
  generalize hw2 : W.runQ RUN_FUEL (w1.applyOp op) = w2
  have h2 : AffInv w2 := by rw [← hw2]; exact affInv_runQ _ _ (affInv_applyOp _ _ h1)
  generalize hw3 : W.advanceTo tq (advanceFuel w2 tq) w2 = w3
  have h3 : AffInv w3 := by rw [← hw3]; exact affInv_advanceTo _ _ _ h2
  generalize hw4 : w3.queries = w4
  have h4 : AffInv w4 := by rw [← hw4]; exact affInv_queries _ h3
  generalize hw5 : W.advanceTo te (advanceFuel w4 te) w4 = w5
  have h5 : AffInv w5 := by rw [← hw5]; exact affInv_advanceTo _ _ _ h4
  exact h5.of_pool rfl rfl

theorem affInv_runSteps (w : W) (steps : List Step) (h : AffInv w) : AffInv (w.runSteps steps) := by
  induction steps generalizing w with
  | nil => exact h
  | cons s rest ih => exact ih _ (affInv_stepOp w s.op s.t0 s.tq s.te h)

theorem affInv_init (c : CaseCfg) (hr : c.cfg.router = .kp ∨ c.cfg.router = .sq) : AffInv (init c) := by
  unfold init
  simp only
  refine AffInv.of_pool (w := W.growPool _ c.n) ?_ rfl rfl
  apply affInv_growPool
  exact ⟨hr, List.nodup_nil, fun k => by simp [pendCount]⟩

end Factory
