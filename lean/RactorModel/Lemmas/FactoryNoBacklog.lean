import RactorModel.Lemmas.FactoryLimitRun
import RactorModel.Lemmas.FactoryShape

/-! Worker-queueing routers (key-persistent, round-robin, custom hash) never leave a job in the factory queue
while the pool has workers: the factory queue is used only while `pool_size = 0`, and the flush at the end of a
growing `resize_pool` empties it (the F3 fix). Over every run. -/

namespace Factory

/-- the requested pool size is untouched (only `resize_pool` sets it) -/
structure PSz (w w' : W) : Prop where
  poolSize : w'.poolSize = w.poolSize

theorem PSz.refl (w : W) : PSz w w := ⟨rfl⟩
theorem PSz.trans {a b c : W} (h1 : PSz a b) (h2 : PSz b c) : PSz a c :=
  ⟨h2.poolSize.trans h1.poolSize⟩

theorem psz_availChange (w : W) (wid : Nat) (b : Bool) : PSz w (w.availChange wid b) := by
  unfold W.availChange; split
  · split <;> exact ⟨rfl⟩
  · exact ⟨rfl⟩

theorem psz_choose (w : W) (j : Job) (hint : Option Nat) : PSz w (w.chooseTargetWorker j hint).2 := by
  unfold W.chooseTargetWorker
  split
  · split
    · exact ⟨rfl⟩
    · split
      · exact ⟨rfl⟩
      · split <;> exact ⟨rfl⟩
  · split <;> exact ⟨rfl⟩
  · split
    · exact ⟨rfl⟩
    · split
      · exact ⟨rfl⟩
      · split <;> exact ⟨rfl⟩
  · split
    · exact ⟨rfl⟩
    · split <;> exact ⟨rfl⟩
  · split <;> exact ⟨rfl⟩

theorem psz_routeInner (w : W) (j : Job) (hint : Option Nat) : PSz w (w.routeInner j hint).2 := by
  unfold W.routeInner
  have hs := psz_choose w j hint
  cases hc : w.chooseTargetWorker j hint with
  | mk t w1 =>
    rw [hc] at hs
    simp only at hs ⊢
    cases t with
    | none => exact hs
    | some wid =>
      simp only
      cases hg : getW w1.pool wid with
      | none => exact hs
      | some p => exact hs.trans ⟨rfl⟩

theorem psz_routeLimited (w : W) (j : Job) (hint : Option Nat) : PSz w (w.routeLimited j hint).2 := by
  unfold W.routeLimited
  split
  · exact psz_routeInner w j hint
  · rename_i c lb _
    simp only
    have h0 : PSz w { w with rl := some (c, (LeakyBucket.check c lb w.env.now).1) } := ⟨rfl⟩
    split
    · split
      · split
        · rename_i hh _
          exact h0.trans (psz_availChange _ hh true)
        · exact h0
      · exact h0
    · have hi := psz_routeInner { w with rl := some (c, (LeakyBucket.check c lb w.env.now).1) } j hint
      cases hr : W.routeInner { w with rl := some (c, (LeakyBucket.check c lb w.env.now).1) } j hint with
      | mk r w2 =>
        rw [hr] at hi
        simp only at hi ⊢
        split
        · exact h0.trans (hi.trans ⟨rfl⟩)
        · exact h0.trans hi

theorem psz_routeMessage (w : W) (j : Job) (hint : Option Nat) : PSz w (w.routeMessage j hint).2 := by
  unfold W.routeMessage
  have hi := psz_routeLimited w j hint
  cases hr : w.routeLimited j hint with
  | mk r w2 => rw [hr] at hi; exact hi.trans ⟨rfl⟩

theorem psz_dropExpiredHead (fuel : Nat) (w : W) : PSz w (W.dropExpiredHead fuel w) := by
  induction fuel generalizing w with
  | zero => exact PSz.refl w
  | succ fuel ih =>
    unfold W.dropExpiredHead
    split
    · split
      · split
        · refine PSz.trans ?_ (ih _)
          exact ⟨rfl⟩
        · exact PSz.refl w
      · exact PSz.refl w
    · exact PSz.refl w

theorem psz_routeLoop (hint : Option Nat) (fuel : Nat) (w : W) : PSz w (W.routeLoop hint fuel w) := by
  induction fuel generalizing w with
  | zero => exact PSz.refl w
  | succ fuel ih =>
    unfold W.routeLoop
    split
    · exact PSz.refl w
    · rename_i j _
      have hs := psz_choose w j hint
      cases hc : w.chooseTargetWorker j hint with
      | mk t w1 =>
        rw [hc] at hs
        simp only at hs ⊢
        cases t with
        | none => exact hs
        | some worker =>
          simp only
          cases hp : qPopFront w1.cfg w1.queue with
          | none => exact hs
          | some jq =>
            obtain ⟨j', q⟩ := jq
            simp only
            have h1 : PSz w { w1 with queue := q } := hs.trans ⟨rfl⟩
            have hr := psz_routeMessage { w1 with queue := q } j' (some worker)
            cases hrm : W.routeMessage { w1 with queue := q } j' (some worker) with
            | mk r w2 =>
              rw [hrm] at hr
              cases r with
              | handled => exact h1.trans hr
              | rateLimited =>
                simp only
                refine (h1.trans hr).trans (PSz.trans ?_ (ih _))
                exact ⟨rfl⟩
              | backlog =>
                simp only
                exact (h1.trans hr).trans ⟨rfl⟩

theorem psz_tryRoute (w : W) (hint : Option Nat) : PSz w (w.tryRouteNextActiveJob hint) := by
  unfold W.tryRouteNextActiveJob
  exact (psz_dropExpiredHead _ w).trans (psz_routeLoop _ _ _)

theorem psz_shedQueueOldest (limit fuel : Nat) (w : W) : PSz w (W.shedQueueOldest limit fuel w) := by
  induction fuel generalizing w with
  | zero => exact PSz.refl w
  | succ fuel ih =>
    unfold W.shedQueueOldest
    split
    · split
      · refine PSz.trans ?_ (ih _)
        exact ⟨rfl⟩
      · exact ih w
    · exact PSz.refl w

theorem psz_maybeEnqueue (w : W) (j : Job) : PSz w (w.maybeEnqueue j) := by
  unfold W.maybeEnqueue
  split
  · split <;> exact ⟨rfl⟩
  · dsimp only
    refine PSz.trans ?_ (psz_shedQueueOldest _ _ _)
    exact ⟨rfl⟩
  · exact ⟨rfl⟩

theorem psz_growOne (w : W) (wid : Nat) : PSz w (w.growOne wid) := by
  unfold W.growOne
  split
  · dsimp only
    split
    · apply PSz.trans _ (psz_availChange _ _ _)
      exact ⟨rfl⟩
    · exact ⟨rfl⟩
  · dsimp only
    apply PSz.trans _ (psz_availChange _ _ _)
    exact ⟨rfl⟩

theorem psz_foldl {f : W → Nat → W} (hf : ∀ w k, PSz w (f w k)) (l : List Nat) (w : W) : PSz w (l.foldl f w) := by
  induction l generalizing w with
  | nil => exact PSz.refl w
  | cons a l ih => exact (hf w a).trans (ih _)

theorem psz_growPool (w : W) (n : Nat) : PSz w (w.growPool n) := by
  unfold W.growPool; exact psz_foldl (fun w k => psz_growOne w _) _ w

theorem psz_shrinkOne (w : W) (wid : Nat) : PSz w (w.shrinkOne wid) := by
  unfold W.shrinkOne
  split
  · split
    · exact ⟨rfl⟩
    · exact (psz_availChange w wid false).trans ⟨rfl⟩
  · exact PSz.refl w

theorem psz_shrinkPool (w : W) (n : Nat) : PSz w (w.shrinkPool n) := by
  unfold W.shrinkPool; exact psz_foldl (fun w k => psz_shrinkOne w _) _ w

theorem psz_flushAfterGrow (fuel : Nat) (w : W) : PSz w (W.flushAfterGrow fuel w) := by
  induction fuel generalizing w with
  | zero => exact PSz.refl w
  | succ fuel ih =>
    unfold W.flushAfterGrow
    simp only
    split
    · exact PSz.refl w
    · split
      · exact psz_tryRoute w none
      · exact (psz_tryRoute w none).trans (ih _)

theorem psz_dispatch (w : W) (j : Job) : PSz w (w.dispatch j) := by
  unfold W.dispatch
  split
  · exact ⟨rfl⟩
  · split
    · have hr := psz_routeMessage w j none
      cases hrm : w.routeMessage j none with
      | mk r w2 =>
        rw [hrm] at hr
        cases r with
        | handled => exact hr
        | rateLimited => exact hr.trans ⟨rfl⟩
        | backlog => exact hr.trans (psz_maybeEnqueue w2 j)
    · exact ⟨rfl⟩

theorem psz_ite (c : Prop) [Decidable c] (w a b : W) (ha : PSz w a) (hb : PSz w b) : PSz w (if c then a else b) := by
  split <;> assumption

theorem psz_workerFinishedJob (w : W) (who key : Nat) : PSz w (w.workerFinishedJob who key) := by
  unfold W.workerFinishedJob
  split
  · rename_i p _
    cases hwc : p.workerComplete w.env key with
    | mk p' e' =>
      simp only
      have h1 : PSz w { w with pool := setW w.pool who p', env := e' } := ⟨rfl⟩
      split
      · split
        · exact ⟨rfl⟩
        · exact h1
      · apply psz_ite
        · exact (h1.trans (psz_tryRoute _ _)).trans (psz_availChange _ _ _)
        · exact h1.trans (psz_tryRoute _ _)
  · exact psz_tryRoute w _

theorem psz_removeExpired (w : W) : PSz w w.removeExpired := by
  unfold W.removeExpired
  split
  · exact ⟨rfl⟩
  · exact PSz.refl w

theorem psz_calcRest (w : W) : PSz w w.calcRest := by
  unfold W.calcRest
  exact (psz_removeExpired w).trans ⟨rfl⟩

theorem psz_afterReplace (w : W) (wid : Nat) : PSz w (w.afterReplace wid) := by
  unfold W.afterReplace
  cases hret : w.retireIdleDrainingWorker wid with
  | some w2 =>
    simp only
    unfold W.retireIdleDrainingWorker at hret
    split at hret
    · split at hret
      · simp only [Option.some.injEq] at hret; subst hret
        exact ⟨rfl⟩
      · simp at hret
    · simp at hret
  | none =>
    simp only
    apply psz_ite
    · exact (psz_tryRoute _ _).trans (psz_availChange _ _ _)
    · exact psz_tryRoute _ _

theorem psz_handleSupervisorEvt (w : W) (who : Nat) : PSz w (w.handleSupervisorEvt who) := by
  unfold W.handleSupervisorEvt
  split
  · exact PSz.refl w
  · rename_i wid _
    split
    · exact PSz.refl w
    · rename_i p _
      simp only
      cases hrw : p.replaceWorker (w.env.spawn wid w.nextAid) w.nextAid with
      | mk p' e' =>
        simp only
        refine PSz.trans ?_ (psz_afterReplace _ wid)
        exact ⟨rfl⟩



/-! ## a target always exists -/

/-- with workers in the pool, a worker-queueing router asked without a hint always names a slot of the pool -/
theorem choose_some_of_pool (w : W) (j : Job) (hq : isFactoryQueueing w.cfg.router = false) (hs : ShapeInv w)
    (hn : w.poolSize ≠ 0) : ∃ x, (w.chooseTargetWorker j none).1 = some x ∧ hasW w.pool x = true := by
  have hpos : 0 < w.poolSize := Nat.pos_of_ne_zero hn
  have hz : (w.poolSize == 0) = false := by simpa using hn
  unfold W.chooseTargetWorker
  cases hr : w.cfg.router with
  | kp =>
    simp only
    cases hf : w.pool.find? (·.hasPendingKey j.key) with
    | some p => exact ⟨p.wid, rfl, find_hasW hf⟩
    | none =>
      simp only [Option.filter, hz, Bool.false_eq_true, if_false]
      have hw := hs.full (j.hash % w.poolSize) (Nat.mod_lt _ hpos)
      simp only [hw, if_true]
      exact ⟨_, rfl, hw⟩
  | q => rw [hr] at hq; cases hq
  | sq => rw [hr] at hq; cases hq
  | rr =>
    simp only [hz, Bool.false_eq_true, if_false, hintAvailable, hintLast, Bool.or_self]
    have hw := hs.full (rrNext w.last w.poolSize) (rrNext_lt _ _ hpos)
    simp only [hw, if_true]
    exact ⟨_, rfl, hw⟩
  | cu =>
    simp only [hz, Bool.false_eq_true, if_false]
    have hw := hs.full (chooseCustom (customHash w.cfg.table) j.key w.poolSize) (Nat.mod_lt _ hpos)
    simp only [hw, if_true]
    exact ⟨_, rfl, hw⟩

theorem routeInner_none_handled (w : W) (j : Job) (hq : isFactoryQueueing w.cfg.router = false) (hs : ShapeInv w)
    (hn : w.poolSize ≠ 0) : (w.routeInner j none).1 = .handled := by
  obtain ⟨x, hx, hw⟩ := choose_some_of_pool w j hq hs hn
  have hf := chooseTargetWorker_frame w j none
  unfold W.routeInner
  cases hc : w.chooseTargetWorker j none with
  | mk t w1 =>
    rw [hc] at hx hf
    simp only at hx hf ⊢
    subst hx
    simp only
    obtain ⟨p, hg⟩ := hasW_getW (pool := w1.pool) (wid := x) (by rw [hf.pool]; exact hw)
    rw [hg]

theorem routeMessage_none_not_backlog (w : W) (j : Job) (hq : isFactoryQueueing w.cfg.router = false) (hs : ShapeInv w)
    (hn : w.poolSize ≠ 0) : (w.routeMessage j none).1 ≠ .backlog := by
  unfold W.routeMessage W.routeLimited
  cases hrl : w.rl with
  | none =>
    simp only
    have h := routeInner_none_handled w j hq hs hn
    cases hri : w.routeInner j none with
    | mk r w2 => rw [hri] at h; simp only at h ⊢; rw [h]; exact fun hc => by cases hc
  | some cl =>
    obtain ⟨c, lb⟩ := cl
    simp only
    split
    · exact fun hc => by cases hc
    · have h := routeInner_none_handled ({ w with rl := some (c, (LeakyBucket.check c lb w.env.now).1) } : W) j hq hs hn
      cases hri : W.routeInner { w with rl := some (c, (LeakyBucket.check c lb w.env.now).1) } j none with
      | mk r w2 =>
        rw [hri] at h
        simp only at h ⊢
        subst h
        simp only [beq_self_eq_true, if_true]
        exact fun hc => by cases hc

/-! ## the flush empties the queue -/

theorem sublist_length_lt_of {α : Type} {a b : List α} (h : a.Sublist b) : a.length ≤ b.length := h.length_le

/-- one `try_route_next_active_job` takes at least one job out of a non-empty queue -/
theorem tryRoute_progress (w : W) (hq : isFactoryQueueing w.cfg.router = false) (hs : ShapeInv w) (hn : w.poolSize ≠ 0)
    (hne : w.queue ≠ []) : (w.tryRouteNextActiveJob none).queue.length < w.queue.length := by
  unfold W.tryRouteNextActiveJob
  have hd := qsub_dropExpiredHead (w.queue.length + 1) w
  generalize hw1 : W.dropExpiredHead (w.queue.length + 1) w = w1 at hd
  have hs1 : ShapeInv w1 := by rw [← hw1]; exact shapeInv_dropExpiredHead _ _ hs
  have hps1 : w1.poolSize = w.poolSize := by rw [← hw1]; exact dropExpiredHead_poolSize _ _
  have hle := hd.queue.length_le
  by_cases hlt : w1.queue.length < w.queue.length
  · exact Nat.lt_of_le_of_lt (qsub_routeLoop none _ w1).queue.length_le hlt
  · have heq : w1.queue.length = w.queue.length := by omega
    have hne1 : w1.queue ≠ [] := by
      intro hc; rw [hc] at heq; exact hne (List.eq_nil_of_length_eq_zero heq.symm)
    show (W.routeLoop none (w1.queue.length + 1) w1).queue.length < w.queue.length
    unfold W.routeLoop
    cases hpk : qPeek w1.cfg w1.queue with
    | none => exact absurd (qPeek_none_nil hpk) hne1
    | some j =>
      simp only
      obtain ⟨x, hx, _⟩ := choose_some_of_pool w1 j (by rw [hd.cfg]; exact hq) hs1 (by rw [hps1]; exact hn)
      have hf := chooseTargetWorker_frame w1 j none
      cases hc : w1.chooseTargetWorker j none with
      | mk t w2 =>
        rw [hc] at hx hf
        simp only at hx hf ⊢
        subst hx
        simp only
        cases hp : qPopFront w2.cfg w2.queue with
        | none =>
          exfalso
          have := qPopFront_none hp
          rw [hf.queue] at this; exact hne1 this
        | some jq =>
          obtain ⟨j', q⟩ := jq
          simp only
          have hlen := popByPrio_length (show popByPrio w2.cfg prioUp w2.queue = some (j', q) from hp)
          rw [hf.queue] at hlen
          have hrf := routeMessage_frame ({ w2 with queue := q } : W) j' (some x)
          cases hrm : W.routeMessage { w2 with queue := q } j' (some x) with
          | mk r w3 =>
            rw [hrm] at hrf
            simp only at hrf
            have hq3 : w3.queue = q := hrf.queue
            cases r with
            | handled => simp only; rw [hq3]; omega
            | rateLimited =>
              simp only
              generalize hw4 : ({ w3 with env := (w3.env.discard w3.handler .rateLimited j').reject j' } : W) = w4
              have hq4 : w4.queue = q := by subst hw4; exact hq3
              have := (qsub_routeLoop none w1.queue.length w4).queue.length_le
              rw [hq4] at this
              omega
            | backlog =>
              simp only
              show w3.queue.length < w.queue.length
              rw [hq3]; omega

theorem flush_empties (fuel : Nat) (w : W) (hq : isFactoryQueueing w.cfg.router = false) (hs : ShapeInv w)
    (hn : w.poolSize ≠ 0) (hlen : w.queue.length < fuel) : (W.flushAfterGrow fuel w).queue = [] := by
  induction fuel generalizing w with
  | zero => omega
  | succ fuel ih =>
    unfold W.flushAfterGrow
    simp only
    split
    · rename_i h0
      exact List.eq_nil_of_length_eq_zero (by simpa using h0)
    · rename_i h0
      have hne : w.queue ≠ [] := by
        intro hc; rw [hc] at h0; simp at h0
      have hp := tryRoute_progress w hq hs hn hne
      split
      · omega
      · apply ih
        · have := (qsub_tryRoute w none).cfg; rw [this]; exact hq
        · exact shapeInv_tryRoute w none hs
        · rw [tryRoute_poolSize]; exact hn
        · omega

/-! ## the invariant -/

/-- worker-queueing router: jobs wait in the factory queue only while the pool has no workers at all -/
structure NB (w : W) : Prop where
  router : isFactoryQueueing w.cfg.router = false
  shape : ShapeInv w
  empty : w.queue ≠ [] → w.poolSize = 0

theorem NB.frames {w w' : W} (h : NB w) (q : QSub w w') (p : PSz w w') (s : ShapeInv w') : NB w' := by
  refine ⟨by rw [q.cfg]; exact h.router, s, ?_⟩
  intro hne
  rw [p.poolSize]
  apply h.empty
  intro hc
  have := q.queue
  rw [hc] at this
  exact hne (List.eq_nil_of_sublist_nil this)

theorem nb_resizePool (w : W) (n : Nat) (h : NB w) : NB (w.resizePool n) := by
  have hs := shapeInv_resizePool w n h.shape
  have hcfg := (qsub_resizePool w n).cfg
  refine ⟨by rw [hcfg]; exact h.router, hs, ?_⟩
  by_cases hn0 : n = 0
  · subst hn0
    have : w.resizePool 0 = w := by unfold W.resizePool; simp
    rw [this]; exact h.empty
  · -- afterwards the pool has workers, so the queue must be empty
    intro hne
    exfalso
    apply hne
    unfold W.resizePool
    have hz : (n == 0) = false := by simpa using hn0
    simp only [hz, Bool.false_eq_true, if_false]
    by_cases hcur : w.poolSize = 0
    · -- growth from an empty pool: the flush takes the whole backlog
      have hgt : min GLOBAL_WORKER_POOL_MAXIMUM n > w.poolSize := by
        rw [hcur]; unfold GLOBAL_WORKER_POOL_MAXIMUM; omega
      simp only [hgt, if_true]
      have hg := growPool_shape w (min GLOBAL_WORKER_POOL_MAXIMUM n - w.poolSize) h.shape
      have hgq := qsub_growPool w (min GLOBAL_WORKER_POOL_MAXIMUM n - w.poolSize)
      apply flush_empties
      · show isFactoryQueueing (w.growPool _).cfg.router = false
        rw [hgq.cfg]; exact h.router
      · show Shape (min GLOBAL_WORKER_POOL_MAXIMUM n) _
        have he : w.poolSize + (min GLOBAL_WORKER_POOL_MAXIMUM n - w.poolSize) = min GLOBAL_WORKER_POOL_MAXIMUM n := by omega
        have := hg.1; rw [he] at this; exact this
      · show min GLOBAL_WORKER_POOL_MAXIMUM n ≠ 0
        unfold GLOBAL_WORKER_POOL_MAXIMUM; omega
      · exact Nat.lt_succ_self _
    · -- the pool had workers: nothing was waiting
      have hq0 : w.queue = [] := by
        apply Classical.byContradiction
        intro hc; exact hcur (h.empty hc)
      split
      · have hgq := qsub_growPool w (min GLOBAL_WORKER_POOL_MAXIMUM n - w.poolSize)
        have hq1 : (w.growPool (min GLOBAL_WORKER_POOL_MAXIMUM n - w.poolSize)).queue = [] := by
          have := hgq.queue; rw [hq0] at this; exact List.eq_nil_of_sublist_nil this
        unfold W.flushAfterGrow
        simp only [hq1, List.length_nil, beq_self_eq_true, if_true]
      · split
        · have hsq := qsub_shrinkPool w (w.poolSize - min GLOBAL_WORKER_POOL_MAXIMUM n)
          have := hsq.queue; rw [hq0] at this
          exact List.eq_nil_of_sublist_nil this
        · exact hq0

theorem nb_dispatch (w : W) (j : Job) (h : NB w) : NB (w.dispatch j) := by
  unfold W.dispatch
  split
  · exact ⟨h.router, h.shape.of_pool rfl rfl, h.empty⟩
  · split
    · have hf := routeMessage_frame w j none
      have hnb := routeMessage_none_not_backlog w j h.router h.shape
      have hs2 := shapeInv_routeMessage w j none h.shape
      cases hrm : w.routeMessage j none with
      | mk r w2 =>
        rw [hrm] at hf hnb hs2
        simp only at hf hnb hs2 ⊢
        have h2 : NB w2 := ⟨by rw [hf.cfg]; exact h.router, hs2, by rw [hf.queue, hf.poolSize]; exact h.empty⟩
        cases r with
        | handled => exact h2
        | rateLimited => exact ⟨h2.router, h2.shape.of_pool rfl rfl, h2.empty⟩
        | backlog =>
          -- only with an empty pool
          have hp0 : w.poolSize = 0 := by
            apply Classical.byContradiction
            intro hc; exact hnb hc rfl
          have hme := maybeEnqueue_fields w2 j
          refine ⟨by rw [hme.2.1]; exact h2.router, shapeInv_maybeEnqueue w2 j h2.shape, ?_⟩
          intro _
          rw [(psz_maybeEnqueue w2 j).poolSize, hf.poolSize]; exact hp0
    · exact ⟨h.router, h.shape.of_pool rfl rfl, h.empty⟩


theorem nb_same {w w' : W} (h : NB w) (h1 : w'.cfg = w.cfg) (h2 : w'.queue = w.queue) (h3 : w'.poolSize = w.poolSize)
    (h4 : w'.pool = w.pool) : NB w' :=
  ⟨by rw [h1]; exact h.router, h.shape.of_pool h3 h4, by rw [h2, h3]; exact h.empty⟩

theorem nb_updateSettings (w : W) (d : Option (Option (Nat × Mode))) (n : Option Nat) (h : NB w) : NB (w.updateSettings d n) := by
  have h1 : NB (w.updateSettings d none) := by
    have hs1 := shapeInv_updateSettings w d none h.shape
    cases d with
    | none => exact h
    | some d => exact ⟨h.router, hs1, h.empty⟩
  cases n with
  | none => exact h1
  | some n =>
    have : w.updateSettings d (some n) = (w.updateSettings d none).resizePool n := by
      unfold W.updateSettings; rfl
    rw [this]
    exact nb_resizePool _ n h1

theorem nb_handleMsg (w : W) (m : FMsg) (h : NB w) : NB (w.handleMsg m) := by
  cases m with
  | dispatch j => exact nb_dispatch w j h
  | finished who key =>
    exact h.frames (qsub_workerFinishedJob w who key) (psz_workerFinishedJob w who key) (shapeInv_workerFinishedJob w who key h.shape)
  | adjust n => exact nb_resizePool w n h
  | updateSettings d n => exact nb_updateSettings w d n h
  | setHandler hd => exact ⟨h.router, shapeInv_setHandler w hd h.shape, h.empty⟩
  | drainRequests => exact nb_same h rfl rfl rfl rfl
  | calculate =>
    show NB (if w.cfg.hasCC && w.armed then { w with armed := false, blocked := true } else w.calcRest)
    split
    · exact nb_same h rfl rfl rfl rfl
    · exact h.frames (qsub_calcRest w) (psz_calcRest w) (shapeInv_calcRest w h.shape)
  | getQueueDepth => exact nb_same h rfl rfl rfl rfl
  | getNumActiveWorkers => exact nb_same h rfl rfl rfl rfl
  | getAvailableCapacity => exact nb_same h rfl rfl rfl rfl

theorem nb_afterHandle (w : W) (h : NB w) : NB w.afterHandle := by
  refine h.frames (qsub_afterHandle w) ⟨?_⟩ (shapeInv_afterHandle w h.shape)
  unfold W.afterHandle
  split
  · rfl
  · have := isDrained_poolSize w
    cases hd : w.isDrained with
    | mk d w2 =>
      rw [hd] at this
      simp only at this ⊢
      split
      · exact this
      · exact this

theorem nb_loopStep (w w' : W) (h : NB w) (hl : w.loopStep = some w') : NB w' := by
  have hs := shapeInv_loopStep w w' h.shape hl
  unfold W.loopStep at hl
  split at hl
  · simp at hl
  · split at hl
    · simp only [Option.some.injEq] at hl; subst hl
      exact ⟨h.router, hs, fun hne => absurd rfl hne⟩
    · split at hl
      · rename_i who rest _
        simp only [Option.some.injEq] at hl; subst hl
        have h1 : NB ({ w with env := { w.env with sup := rest } } : W) := nb_same h rfl rfl rfl rfl
        exact h1.frames (qsub_handleSupervisorEvt _ who) (psz_handleSupervisorEvt _ who) hs
      · split at hl
        · rename_i m rest _
          simp only [Option.some.injEq] at hl; subst hl
          have h1 : NB ({ w with inbox := rest } : W) := nb_same h rfl rfl rfl rfl
          exact nb_afterHandle _ (nb_handleMsg _ m h1)
        · simp at hl

theorem nb_runQ (fuel : Nat) (w : W) (h : NB w) : NB (W.runQ fuel w) := by
  induction fuel generalizing w with
  | zero => exact h
  | succ fuel ih =>
    unfold W.runQ
    cases hl : w.loopStep with
    | some w' => simp only; exact ih _ (nb_loopStep w w' h hl)
    | none =>
      simp only
      have hs : NB (W.tryFinishStop { w with env := w.env.settle }) := by
        unfold W.tryFinishStop
        split
        · exact nb_same h rfl rfl rfl rfl
        · exact nb_same h rfl rfl rfl rfl
      split
      · exact hs
      · exact ih _ hs

theorem nb_send (w : W) (m : FMsg) (h : NB w) : NB (w.send m) := by
  unfold W.send; split
  · exact h
  · exact nb_same h rfl rfl rfl rfl

theorem nb_advanceTo (t fuel : Nat) (w : W) (h : NB w) : NB (W.advanceTo t fuel w) := by
  induction fuel generalizing w with
  | zero => exact nb_same h rfl rfl rfl rfl
  | succ fuel ih =>
    unfold W.advanceTo
    split
    · simp only
      apply ih
      apply nb_runQ
      apply nb_send
      exact nb_same h rfl rfl rfl rfl
    · exact nb_same h rfl rfl rfl rfl

theorem nb_finish (w : W) (aid : Nat) (ok : Bool) (h : NB w) : NB (w.finish aid ok) := by
  unfold W.finish
  cases ha : w.env.getActor aid with
  | none => exact h
  | some a =>
    simp only
    cases hr : a.running with
    | none => exact h
    | some j =>
      simp only
      split
      · exact h
      · split
        · exact nb_same h rfl rfl rfl rfl
        · have h1 : NB (W.send { w with env := (w.env.emit (.finishOk aid)).emit (.handled aid j.id) } (.finished a.wid j.key)) :=
            nb_send _ _ (nb_same h rfl rfl rfl rfl)
          exact nb_same h1 rfl rfl rfl rfl

theorem nb_applyOp (w : W) (op : Op) (h : NB w) : NB (w.applyOp op) := by
  cases op with
  | dispatch id key hash ttl acc =>
    simp only [W.applyOp]
    split
    · exact h
    · exact nb_send _ _ (nb_same h rfl rfl rfl rfl)
  | finish aid ok => exact nb_finish w aid ok h
  | kill aid => exact nb_same h rfl rfl rfl rfl
  | resize n => exact nb_send _ _ (nb_same h rfl rfl rfl rfl)
  | settings d n =>
    simp only [W.applyOp]
    apply nb_send
    cases d with
    | none => cases n with
      | none => exact h
      | some n => exact nb_same h rfl rfl rfl rfl
    | some d => cases n with
      | none => exact nb_same h rfl rfl rfl rfl
      | some n => exact nb_same h rfl rfl rfl rfl
  | drain => exact nb_send _ _ (nb_same h rfl rfl rfl rfl)
  | setHandler hd => exact nb_send _ _ (nb_same h rfl rfl rfl rfl)
  | advance => exact h
  | block => exact nb_same h rfl rfl rfl rfl
  | release n =>
    simp only [W.applyOp]
    split
    · have h0 : NB ({ w.emit (.released n) with blocked := false } : W) := nb_same h rfl rfl rfl rfl
      have h1 : NB (if ({ w.emit (.released n) with blocked := false } : W).poolSize != n
          then ({ w.emit (.released n) with blocked := false } : W).resizePool n
          else ({ w.emit (.released n) with blocked := false } : W)) := by
        split
        · exact nb_resizePool _ n h0
        · exact h0
      generalize (if ({ w.emit (.released n) with blocked := false } : W).poolSize != n
          then ({ w.emit (.released n) with blocked := false } : W).resizePool n
          else ({ w.emit (.released n) with blocked := false } : W)) = w1 at h1
      exact nb_afterHandle _ (h1.frames (qsub_calcRest w1) (psz_calcRest w1) (shapeInv_calcRest w1 h1.shape))
    · exact h
  | nop => exact h

theorem nb_ask (w : W) (m : FMsg) (h : NB w) : NB (w.ask m) := by
  unfold W.ask
  split
  · exact nb_same h rfl rfl rfl rfl
  · simp only
    have h1 := nb_runQ RUN_FUEL _ (nb_send w m h)
    split
    · exact nb_same h1 rfl rfl rfl rfl
    · exact h1

theorem nb_queries (w : W) (h : NB w) : NB w.queries := by
  unfold W.queries
  split
  · exact nb_same h rfl rfl rfl rfl
  · exact nb_ask _ _ (nb_ask _ _ (nb_ask _ _ (nb_same h rfl rfl rfl rfl)))

theorem nb_stepOp (w : W) (op : Op) (t0 tq te : Nat) (h : NB w) : NB (w.stepOp op t0 tq te) := by
  unfold W.stepOp
  simp only
  generalize hw1 : W.advanceTo t0 (advanceFuel w t0) w = w1
  have h1 : NB w1 := by rw [← hw1]; exact nb_advanceTo _ _ _ h
  generalize hw2 : W.runQ RUN_FUEL (w1.applyOp op) = w2
  have h2 : NB w2 := by rw [← hw2]; exact nb_runQ _ _ (nb_applyOp _ _ h1)
  generalize hw3 : W.advanceTo tq (advanceFuel w2 tq) w2 = w3
  have h3 : NB w3 := by rw [← hw3]; exact nb_advanceTo _ _ _ h2
  generalize hw4 : w3.queries = w4
  have h4 : NB w4 := by rw [← hw4]; exact nb_queries _ h3
  generalize hw5 : W.advanceTo te (advanceFuel w4 te) w4 = w5
  have h5 : NB w5 := by rw [← hw5]; exact nb_advanceTo _ _ _ h4
  exact nb_same h5 rfl rfl rfl rfl

theorem nb_runSteps (w : W) (steps : List Step) (h : NB w) : NB (w.runSteps steps) := by
  induction steps generalizing w with
  | nil => exact h
  | cons s rest ih => exact ih _ (nb_stepOp w s.op s.t0 s.tq s.te h)

theorem nb_init (c : CaseCfg) (hq : isFactoryQueueing c.cfg.router = false) : NB (init c) := by
  obtain ⟨_, f2, _, f4⟩ := init_fields c
  exact ⟨by rw [f4]; exact hq, shapeInv_init c, fun hne => absurd f2 hne⟩

/-- worker-queueing routers never leave a backlog while the pool has workers -/
theorem no_backlog_run (c : CaseCfg) (hq : isFactoryQueueing c.cfg.router = false) (steps : List Step) :
    ((init c).runSteps steps).queue ≠ [] → ((init c).runSteps steps).poolSize = 0 :=
  (nb_runSteps _ steps (nb_init c hq)).empty

end Factory
