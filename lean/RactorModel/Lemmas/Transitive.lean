import RactorModel.Model.Session
import RactorModel.Lemmas.Session

/-! Helper lemmas for the transitive dial (C17, round 4): which steps of `Session.handle` emit a
`connect` effect. -/

namespace Session
open Auth

section
variable {C D : Type} [DecidableEq D] (H : C → Nat → D)

/-- the address dialled by this effect, if it is a transitive `connect` -/
def connectOf : Effect D → Option String
  | .connect a => some a
  | _ => none

def NoConnect (eff : List (Effect D)) : Prop := ∀ e ∈ eff, connectOf e = none

omit [DecidableEq D] in
theorem NoConnect.append {a b : List (Effect D)} (ha : NoConnect a) (hb : NoConnect b) : NoConnect (a ++ b) := by
  intro e he
  rcases List.mem_append.mp he with h | h
  · exact ha e h
  · exact hb e h

omit [DecidableEq D] in
theorem spawnMissing_noConnect (ps : List Nat) : ∀ st : SState D, NoConnect (spawnMissing st ps).2 := by
  induction ps with
  | nil => intro st e he; simp [spawnMissing] at he
  | cons p ps ih =>
    intro st
    unfold spawnMissing
    split
    · exact ih st
    · intro e he
      simp only [List.mem_cons] at he
      rcases he with rfl | he
      · rfl
      · exact ih _ e he

omit [DecidableEq D] in
theorem terminateAll_noConnect (ps : List Nat) : ∀ st : SState D, NoConnect (terminateAll st ps).2 := by
  induction ps with
  | nil => intro st e he; simp [terminateAll] at he
  | cons p ps ih =>
    intro st
    unfold terminateAll
    split
    · intro e he
      simp only [List.mem_cons] at he
      rcases he with rfl | he
      · rfl
      · exact ih _ e he
    · exact ih st

omit [DecidableEq D] in
theorem handleNode_noConnect (st : SState D) (env : Env) (n : NodeMsg) : NoConnect (handleNode st env n).2 := by
  intro e he
  unfold handleNode at he
  split at he
  · simp at he
  · cases n <;> simp only at he
    · split at he <;> simp at he; subst he; rfl
    · split at he <;> simp at he; subst he; rfl
    · split at he <;> simp at he; subst he; rfl
    · simp at he

omit [DecidableEq D] in
theorem afterAuthenticated_noConnect (cfg : Cfg C) (st : SState D) (env : Env) :
    NoConnect (afterAuthenticated cfg st env).2 := by
  intro e he
  simp only [afterAuthenticated, List.mem_append, List.mem_cons, List.mem_map, List.mem_filter] at he
  rcases he with (((he | he) | he) | he) | he
  · rcases he with rfl | he
    · rfl
    · simp at he
  · split at he <;> simp at he; subst he; rfl
  · split at he <;> simp at he; subst he; rfl
  · obtain ⟨g, _, rfl⟩ := he; rfl
  · rcases he with rfl | he
    · rfl
    · simp at he

/-- a gated-free list has no `connect` (`connect` is gated) -/
theorem NoGated.noConnect {eff : List (Effect D)} (h : NoGated eff) : NoConnect eff := by
  intro e he
  have := h e he
  cases e <;> simp [Effect.gated] at this <;> rfl

/-- `handle_control`: the ONLY place a `connect` comes from — a `NodeSessions` frame, in transitive
mode, on an authenticated session; the address is the connection string of a listed peer that is
neither this node (by name or by connection string) nor a peer `GetSessions` already lists (by
name or by connection string). -/
theorem handleControl_connect (cfg : Cfg C) (st : SState D) (env : Env) (c : CtlMsg) (addr : String)
    (h : Effect.connect addr ∈ (handleControl (D := D) cfg st env c).2) :
    st.auth.isOk = true ∧ cfg.transitive = true ∧
    ∃ peers, c = .nodeSessions peers ∧ ∃ p ∈ peers, p.2 = addr ∧
      p.1 ≠ cfg.thisName ∧ p.2 ≠ cfg.thisConn ∧
      ∀ ss, env.sessions = some ss → ∀ s ∈ ss, p.1 ≠ s.1 ∧ p.1 ≠ s.2 ∧ p.2 ≠ s.1 ∧ p.2 ≠ s.2 := by
  unfold handleControl at h
  split at h
  · simp at h
  · rename_i hok
    have hok' : st.auth.isOk = true := by simpa using hok
    cases c with
    | ready =>
      simp only at h
      split at h <;> simp at h
    | spawn pids => exact absurd (spawnMissing_noConnect pids st _ h) (by simp [connectOf])
    | terminate pids => exact absurd (terminateAll_noConnect pids st _ h) (by simp [connectOf])
    | ping => simp at h
    | pong => simp at h
    | pgJoin scope group pids =>
      simp only [List.mem_append] at h
      rcases h with h | h
      · exact absurd (spawnMissing_noConnect pids st _ h) (by simp [connectOf])
      · split at h <;> simp at h
    | pgLeave scope group pids =>
      simp only at h
      split at h <;> simp at h
    | enumerate name conn =>
      simp only at h
      split at h <;> simp at h
    | empty => simp at h
    | nodeSessions peers =>
      simp only at h
      split at h
      · rename_i htr
        refine ⟨hok', htr, peers, rfl, ?_⟩
        simp only [List.mem_append, List.mem_cons, List.mem_map, List.mem_filter] at h
        rcases h with (h | h) | ⟨p, ⟨hp, hcond⟩, hpa⟩
        · simp at h
        · simp at h
        · simp only [Effect.connect.injEq] at hpa
          refine ⟨p, hp, hpa, ?_⟩
          simp only [Bool.not_eq_true', Bool.or_eq_false_iff, beq_eq_false_iff_ne, ne_eq] at hcond
          obtain ⟨⟨⟨h1, h2⟩, h3⟩, h4⟩ := hcond
          refine ⟨h3, h4, ?_⟩
          intro ss hss s hs
          rw [hss] at h1 h2
          simp only [List.contains_eq_mem, List.mem_flatMap, decide_eq_false_iff_not, not_exists, not_and] at h1 h2
          have a := h1 s hs
          have b := h2 s hs
          simp only [List.mem_cons, List.not_mem_nil, or_false, not_or] at a b
          exact ⟨a.1, a.2, b.1, b.2⟩
      · simp at h

theorem handleAuth_noConnect (cfg : Cfg C) (st : SState D) (env : Env) (m : Msg D) :
    NoConnect (handleAuth H cfg st env m).2 := by
  by_cases hok : st.auth.isOk = true
  · intro e he; simp [handleAuth, hok] at he
  · exact NoGated.noConnect (handleAuth_spec H cfg st env m (by simpa using hok)).1

theorem onAuthFrame_noConnect (cfg : Cfg C) (st : SState D) (env : Env) (m : Msg D) :
    NoConnect (onAuthFrame H cfg st env m).2 := by
  unfold onAuthFrame
  simp only
  split
  · split
    · apply NoConnect.append
      · apply NoConnect.append
        · apply NoConnect.append (handleAuth_noConnect H cfg st env m)
          intro e he; simp at he; rcases he with rfl | rfl <;> rfl
        · exact afterAuthenticated_noConnect cfg _ env
      · intro e he
        split at he <;> simp at he
        subst he; rfl
    · apply NoConnect.append
      · apply NoConnect.append (handleAuth_noConnect H cfg st env m)
        intro e he; simp at he; rcases he with rfl | rfl <;> rfl
      · intro e he; simp at he; subst he; rfl
  · exact handleAuth_noConnect H cfg st env m

/-- (transitive dial, one step of the session) A `connect` effect is emitted only by an
AUTHENTICATED session in `Transitive` mode handling a `NodeSessions` frame, and only for a listed
peer that is not this node and not already among the sessions `GetSessions` lists. -/
theorem handle_connect (cfg : Cfg C) (st : SState D) (env : Env) (i : In D) (addr : String)
    (h : Effect.connect addr ∈ (handle H cfg st env i).2) :
    st.auth.isOk = true ∧ cfg.transitive = true ∧
    ∃ peers, i = .frame (.control (.nodeSessions peers)) ∧ ∃ p ∈ peers, p.2 = addr ∧
      p.1 ≠ cfg.thisName ∧ p.2 ≠ cfg.thisConn ∧
      ∀ ss, env.sessions = some ss → ∀ s ∈ ss, p.1 ≠ s.1 ∧ p.1 ≠ s.2 ∧ p.2 ≠ s.1 ∧ p.2 ≠ s.2 := by
  unfold handle at h
  split at h
  · simp at h
  · cases i with
    | pidSpawn pid rem => simp only at h; split at h <;> simp at h
    | pidTerminate pid rem => simp only at h; split at h <;> simp at h
    | pgChanged join scope group pids => simp only at h; split at h <;> simp at h
    | frame f =>
      simp only at h
      split at h
      · simp at h
      · cases f with
        | auth m => exact absurd (onAuthFrame_noConnect H cfg st env m _ h) (by simp [connectOf])
        | node n => exact absurd (handleNode_noConnect st env n _ h) (by simp [connectOf])
        | control c =>
          obtain ⟨h1, h2, peers, rfl, h3⟩ := handleControl_connect cfg st env c addr h
          exact ⟨h1, h2, peers, rfl, h3⟩
        | empty => simp at h

end
end Session
