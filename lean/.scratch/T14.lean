import RactorModel.Lemmas.GenRouting
namespace C14
section XlateTie
open Generated.Routing GenRouting

theorem generated_hash_with_max_eq_model (sip : Option Nat → Nat) (h : Nat → Nat → Nat) (key n : Nat) :
    hash_with_max sip h key n = sip (some key) % n := rfl

/-- key-persistent router: pending-key worker (first in pool order), else a valid hint, else
`hash % pool_size`; `sip (some key)` is the job's `DefaultHasher` value. The router has no state. -/
theorem generated_key_persistent_choice_eq_model (sip : Option Nat → Nat) (h : Nat → Nat → Nat)
    (w : Factory.W) (j : Factory.Job) (hint : Option Nat)
    (hr : w.cfg.router = .kp) (hh : sip (some j.key) = j.hash) :
    (KeyPersistentRouting.choose_target_worker sip h ⟨⟩ j w.poolSize hint w.pool).2
      = (w.chooseTargetWorker j hint).1 ∧ (w.chooseTargetWorker j hint).2 = w := by
  unfold KeyPersistentRouting.choose_target_worker Factory.W.chooseTargetWorker
  simp only [hr, hash_with_max, hh, findSome_pairs' w.pool (fun x => x.hasPendingKey j.key)]
  cases hp : w.pool.find? (fun x => x.hasPendingKey j.key) with
  | some p => simp
  | none =>
    simp only [Option.map_none]
    cases hf : Option.filter (fun x => Factory.hasW w.pool x) hint with
    | some x =>
      have hx : Factory.hasW w.pool x = true := by
        have := Option.filter_eq_some_iff.mp hf
        exact this.2
      simp [hx]
    | none =>
      by_cases h0 : w.poolSize = 0 <;> simp [h0]

/-- round-robin router: next slot after `last_worker` (wrapping at `pool_size`), stored back. -/
theorem generated_round_robin_choice_eq_model (sip : Option Nat → Nat) (h : Nat → Nat → Nat)
    (w : Factory.W) (j : Factory.Job) (hint : Option Nat)
    (hr : w.cfg.router = .rr) (hl : w.last + 1 < 2 ^ 64) :
    let r := RoundRobinRouting.choose_target_worker sip h ⟨w.last⟩ j w.poolSize hint w.pool
    (r.2, r.1.last_worker) = ((w.chooseTargetWorker j hint).1, (w.chooseTargetWorker j hint).2.last) := by
  have hadd : Rust.wAdd 64 w.last 1 = w.last + 1 := by unfold Rust.wAdd; omega
  unfold RoundRobinRouting.choose_target_worker Factory.W.chooseTargetWorker
  simp only [hr, hintAvailable_eq, hadd, Factory.rrNext]
  by_cases h0 : w.poolSize = 0
  · simp [h0]
  · cases hb : Option.bind hint (fun x => Factory.getW w.pool x) with
    | none => simp [h0]
    | some p =>
      cases ha : p.isAvailable
      · simp [h0, ha]
      · simp [h0, ha]

/-- custom router: `hasher.hash(key, pool_size) % pool_size`. The router has no state. -/
theorem generated_custom_choice_eq_model (sip : Option Nat → Nat)
    (w : Factory.W) (j : Factory.Job) (hint : Option Nat) (hr : w.cfg.router = .cu) :
    (CustomRouting.choose_target_worker sip (Factory.customHash w.cfg.table) ⟨()⟩ j w.poolSize hint w.pool).2
      = (w.chooseTargetWorker j hint).1 ∧ (w.chooseTargetWorker j hint).2 = w := by
  unfold CustomRouting.choose_target_worker Factory.W.chooseTargetWorker
  simp only [hr, Factory.chooseCustom]
  by_cases h0 : w.poolSize = 0
  · simp [h0]
  · simp only [h0, decide_false, Bool.false_eq_true, ↓reduceIte, beq_iff_eq, and_true]
    first | rfl | (split <;> simp_all)
end XlateTie
end C14
