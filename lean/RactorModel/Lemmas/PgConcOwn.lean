import RactorModel.Lemmas.PgConcView

/-! The regions of an actor's OWN exit, on the view: how the per-actor invariant moves from phase to phase. -/

namespace Pg.Conc
open AList Pg Pg.Fine

variable {a : Nat} {v v' : View}

/-- a region that changes none of `a`'s relations (possibly publishing `Stopping`) -/
structure SameA (a : Nat) (v v' : View) : Prop where
  m : ∀ k, v'.M k a ↔ v.M k a
  l : ∀ k, v'.L k a ↔ v.L k a
  w : ∀ s, v'.W s a ↔ v.W s a
  rm : ∀ k, v'.RM a k ↔ v.RM a k
  rg : ∀ k, v'.RG a k ↔ v.RG a k
  rw : ∀ s, v'.RW a s ↔ v.RW a s
  d : v.D a → v'.D a
  sg : ∀ k, v.SG a k → v'.SG a k
  sw : ∀ s, v.SW a s → v'.SW a s

theorem sameA_of_vtrans_empty (t : VTrans v v' {}) : SameA a v v' :=
  ⟨fun k => by rw [t.m]; simp, fun k => by rw [t.l]; simp, fun s => by rw [t.w]; simp,
   fun k => by rw [t.rm]; simp, fun k => by rw [t.rg]; simp, fun s => by rw [t.rw]; simp, t.d a, t.sg a, t.sw a⟩

theorem vinv_mark (s : SameA a v v') (hd : v'.D a) (h : VInv a v .live) : VInv a v' .marked := by
  refine ⟨fun k hk => (s.m k).mpr (h.rM k ((s.rm k).mp hk)),
    fun k hk => (h.rL k ((s.rg k).mp hk)).elim (fun z => Or.inl ((s.l k).mpr z)) (fun z => Or.inr (s.sg k z)),
    fun x hx => (h.rW x ((s.rw x).mp hx)).elim (fun z => Or.inl ((s.w x).mpr z)) (fun z => Or.inr (s.sw x z)),
    fun _ => hd, ?_, ?_, ?_, (fun hp => by cases hp),
    (fun hp => by cases hp), (fun hp => by cases hp)⟩
  · intro k hk; exact (s.rm k).mpr (h.fM k ((s.m k).mp hk))
  · intro k hk; exact (s.rg k).mpr (h.fL k ((s.l k).mp hk))
  · intro x hx; exact (s.rw x).mpr (h.fW x ((s.w x).mp hx))

theorem vinv_demTake (t : VTrans v v' (demonTakeEff a)) (gk : List Key) (wk : List Nat)
    (hgk : ∀ k, v.RG a k → k ∈ gk) (hwk : ∀ s, v.RW a s → s ∈ wk) (h : VInv a v .marked) :
    VInv a v' (.demon gk wk) := by
  have hM : ∀ k, v'.M k a ↔ v.M k a := fun k => by rw [t.m]; simp [demonTakeEff]
  have hL : ∀ k, v'.L k a ↔ v.L k a := fun k => by rw [t.l]; simp [demonTakeEff]
  have hW : ∀ s, v'.W s a ↔ v.W s a := fun s => by rw [t.w]; simp [demonTakeEff]
  have hRM : ∀ k, v'.RM a k ↔ v.RM a k := fun k => by rw [t.rm]; simp [demonTakeEff]
  have hRG : ∀ k, ¬ v'.RG a k := fun k => by rw [t.rg]; simp [demonTakeEff]
  have hRW : ∀ s, ¬ v'.RW a s := fun s => by rw [t.rw]; simp [demonTakeEff]
  refine ⟨fun k hk => (hM k).mpr (h.rM k ((hRM k).mp hk)), fun k hk => absurd hk (hRG k),
    fun s hs => absurd hs (hRW s), fun _ => t.d a (h.dead (by simp)), ?_, ?_, ?_, fun _ => ⟨hRG, hRW⟩,
    (fun hp => by cases hp), (fun hp => by cases hp)⟩
  · intro k hk; exact (hRM k).mpr (h.fM k ((hM k).mp hk))
  · intro k hk; exact hgk k (h.fL k ((hL k).mp hk))
  · intro s hs; exact hwk s (h.fW s ((hW s).mp hs))

theorem vinv_demKey (k0 : Key) (t : VTrans v v' (demonKeyEff a k0)) (gk : List Key) (wk : List Nat)
    (h : VInv a v (.demon gk wk)) : VInv a v' (.demon (del k0 gk) wk) := by
  have hM : ∀ k, v'.M k a ↔ v.M k a := fun k => by rw [t.m]; simp [demonKeyEff]
  have hL : ∀ k, v'.L k a ↔ v.L k a ∧ k ≠ k0 := fun k => by rw [t.l]; simp [demonKeyEff]
  have hW : ∀ s, v'.W s a ↔ v.W s a := fun s => by rw [t.w]; simp [demonKeyEff]
  have hRM : ∀ k, v'.RM a k ↔ v.RM a k := fun k => by rw [t.rm]; simp [demonKeyEff]
  have hRG : ∀ k, v'.RG a k ↔ v.RG a k := fun k => by rw [t.rg]; simp [demonKeyEff]
  have hRW : ∀ s, v'.RW a s ↔ v.RW a s := fun s => by rw [t.rw]; simp [demonKeyEff]
  have dr := h.drG trivial
  refine ⟨fun k hk => (hM k).mpr (h.rM k ((hRM k).mp hk)), fun k hk => absurd ((hRG k).mp hk) (dr.1 k),
    fun s hs => absurd ((hRW s).mp hs) (dr.2 s), fun _ => t.d a (h.dead (by simp)), ?_, ?_, ?_,
    fun _ => ⟨fun k hk => dr.1 k ((hRG k).mp hk), fun s hs => dr.2 s ((hRW s).mp hs)⟩,
    (fun hp => by cases hp), (fun hp => by cases hp)⟩
  · intro k hk; exact (hRM k).mpr (h.fM k ((hM k).mp hk))
  · intro k hk
    have := (hL k).mp hk
    exact mem_del.mpr ⟨h.fL k this.1, this.2⟩
  · intro s hs; exact h.fW s ((hW s).mp hs)

theorem vinv_demWKey (s0 : Nat) (t : VTrans v v' (demonWKeyEff a s0)) (gk : List Key) (wk : List Nat)
    (h : VInv a v (.demon gk wk)) : VInv a v' (.demon gk (del s0 wk)) := by
  have hM : ∀ k, v'.M k a ↔ v.M k a := fun k => by rw [t.m]; simp [demonWKeyEff]
  have hL : ∀ k, v'.L k a ↔ v.L k a := fun k => by rw [t.l]; simp [demonWKeyEff]
  have hW : ∀ s, v'.W s a ↔ v.W s a ∧ s ≠ s0 := fun s => by rw [t.w]; simp [demonWKeyEff]
  have hRM : ∀ k, v'.RM a k ↔ v.RM a k := fun k => by rw [t.rm]; simp [demonWKeyEff]
  have hRG : ∀ k, v'.RG a k ↔ v.RG a k := fun k => by rw [t.rg]; simp [demonWKeyEff]
  have hRW : ∀ s, v'.RW a s ↔ v.RW a s := fun s => by rw [t.rw]; simp [demonWKeyEff]
  have dr := h.drG trivial
  refine ⟨fun k hk => (hM k).mpr (h.rM k ((hRM k).mp hk)), fun k hk => absurd ((hRG k).mp hk) (dr.1 k),
    fun s hs => absurd ((hRW s).mp hs) (dr.2 s), fun _ => t.d a (h.dead (by simp)), ?_, ?_, ?_,
    fun _ => ⟨fun k hk => dr.1 k ((hRG k).mp hk), fun s hs => dr.2 s ((hRW s).mp hs)⟩,
    (fun hp => by cases hp), (fun hp => by cases hp)⟩
  · intro k hk; exact (hRM k).mpr (h.fM k ((hM k).mp hk))
  · intro k hk; exact h.fL k ((hL k).mp hk)
  · intro s hs
    have := (hW s).mp hs
    exact mem_del.mpr ⟨h.fW s this.1, this.2⟩

theorem vinv_demDone (h : VInv a v (.demon [] [])) : VInv a v .demonDone := by
  refine ⟨h.rM, h.rL, h.rW, fun _ => h.dead (by simp), h.fM, ?_, ?_, fun _ => h.drG trivial,
    (fun hp => by cases hp), (fun hp => by cases hp)⟩
  · intro k hk; have := h.fL k hk; cases this
  · intro s hs; have := h.fW s hs; cases this

theorem vinv_take (t : VTrans v v' (takeMemEff a)) (mk : List Key) (hmk : ∀ k, v.RM a k → k ∈ mk)
    (h : VInv a v .demonDone) : VInv a v' (.leaving mk []) := by
  have hM : ∀ k, v'.M k a ↔ v.M k a := fun k => by rw [t.m]; simp [takeMemEff]
  have hL : ∀ k, v'.L k a ↔ v.L k a := fun k => by rw [t.l]; simp [takeMemEff]
  have hW : ∀ s, v'.W s a ↔ v.W s a := fun s => by rw [t.w]; simp [takeMemEff]
  have hRM : ∀ k, ¬ v'.RM a k := fun k => by rw [t.rm]; simp [takeMemEff]
  have hRG : ∀ k, v'.RG a k ↔ v.RG a k := fun k => by rw [t.rg]; simp [takeMemEff]
  have hRW : ∀ s, v'.RW a s ↔ v.RW a s := fun s => by rw [t.rw]; simp [takeMemEff]
  have dr := h.drG trivial
  refine ⟨fun k hk => absurd hk (hRM k), fun k hk => absurd ((hRG k).mp hk) (dr.1 k),
    fun s hs => absurd ((hRW s).mp hs) (dr.2 s), fun _ => t.d a (h.dead (by simp)), ?_, ?_, ?_,
    fun _ => ⟨fun k hk => dr.1 k ((hRG k).mp hk), fun s hs => dr.2 s ((hRW s).mp hs)⟩, fun _ => hRM,
    (fun hp => by cases hp)⟩
  · intro k hk; exact hmk k (h.fM k ((hM k).mp hk))
  · intro k hk; exact h.fL k ((hL k).mp hk)
  · intro s hs; exact h.fW s ((hW s).mp hs)

theorem vinv_lvKey (k0 : Key) (t : VTrans v v' (leaveKeyEff a k0)) (mk : List Key) (rm rm' : List (Key × List Nat))
    (h : VInv a v (.leaving mk rm)) : VInv a v' (.leaving (del k0 mk) rm') := by
  have hM : ∀ k, v'.M k a ↔ v.M k a ∧ k ≠ k0 := fun k => by rw [t.m]; simp [leaveKeyEff]
  have hL : ∀ k, v'.L k a ↔ v.L k a := fun k => by rw [t.l]; simp [leaveKeyEff]
  have hW : ∀ s, v'.W s a ↔ v.W s a := fun s => by rw [t.w]; simp [leaveKeyEff]
  have hRM : ∀ k, v'.RM a k ↔ v.RM a k := fun k => by rw [t.rm]; simp [leaveKeyEff]
  have hRG : ∀ k, v'.RG a k ↔ v.RG a k := fun k => by rw [t.rg]; simp [leaveKeyEff]
  have hRW : ∀ s, v'.RW a s ↔ v.RW a s := fun s => by rw [t.rw]; simp [leaveKeyEff]
  have dr := h.drG trivial
  have dm := h.drM trivial
  refine ⟨fun k hk => absurd ((hRM k).mp hk) (dm k), fun k hk => absurd ((hRG k).mp hk) (dr.1 k),
    fun s hs => absurd ((hRW s).mp hs) (dr.2 s), fun _ => t.d a (h.dead (by simp)), ?_, ?_, ?_,
    fun _ => ⟨fun k hk => dr.1 k ((hRG k).mp hk), fun s hs => dr.2 s ((hRW s).mp hs)⟩,
    fun _ k hk => dm k ((hRM k).mp hk), (fun hp => by cases hp)⟩
  · intro k hk
    have := (hM k).mp hk
    exact mem_del.mpr ⟨h.fM k this.1, this.2⟩
  · intro k hk; exact h.fL k ((hL k).mp hk)
  · intro s hs; exact h.fW s ((hW s).mp hs)

theorem vinv_finish (s : SameA a v v') (rm : List (Key × List Nat)) (h : VInv a v (.leaving [] rm)) :
    VInv a v' .done := by
  have dr := h.drG trivial
  have dm := h.drM trivial
  refine ⟨fun k hk => absurd ((s.rm k).mp hk) (dm k), fun k hk => absurd ((s.rg k).mp hk) (dr.1 k),
    fun x hx => absurd ((s.rw x).mp hx) (dr.2 x), fun _ => s.d (h.dead (by simp)), ?_, ?_, ?_,
    fun _ => ⟨fun k hk => dr.1 k ((s.rg k).mp hk), fun x hx => dr.2 x ((s.rw x).mp hx)⟩,
    fun _ k hk => dm k ((s.rm k).mp hk), (fun hp => by cases hp)⟩
  · intro k hk; have := h.fM k ((s.m k).mp hk); cases this
  · intro k hk; exact h.fL k ((s.l k).mp hk)
  · intro x hx; exact h.fW x ((s.w x).mp hx)

end Pg.Conc
