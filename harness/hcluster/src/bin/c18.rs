//! C18 correspondence harness (E-PURE): drives the real `elect_sessions` and the real
//! `NodeServerState` bookkeeping through `ractor_cluster::node::verif_hooks` and records
//! ops + observations for the Lean `Election` model.
//!
//! usage: c18 --seed S --cases N --out DIR [--exhaustive 0|1]

use hutil::{show_u64s, Args, Log, Rng, Stats};
use ractor_cluster::node::verif_hooks::{elect, NodeStateProbe};

fn names(rng: &mut Rng) -> (String, String) {
    // names whose byte order exercises prefix / case / host differences
    let pool = [
        "a@host", "b@host", "a@hosu", "aa@host", "A@host", "b@a", "node1@x", "node10@x", "node2@x", "z@h", "é@h",
        "a@host.", "a", "b",
    ];
    let a = rng.pick(&pool).to_string();
    let mut b = rng.pick(&pool).to_string();
    if rng.chance(1, 20) {
        b = a.clone(); // equal names: the Ordering::Equal arm
    }
    (a, b)
}

fn cand_str(c: &[(u64, bool, u64)]) -> String {
    if c.is_empty() {
        return "-".into();
    }
    c.iter().map(|(i, s, n)| format!("{i}:{s}:{n}")).collect::<Vec<_>>().join(",")
}

fn gen_cands(rng: &mut Rng, max: u64) -> Vec<(u64, bool, u64)> {
    let n = rng.range(0, max);
    let mode = rng.below(4); // 0 mixed, 1 all server, 2 all client, 3 mixed with heavy nonce ties
    let mut ids: Vec<u64> = (1..=40).collect();
    rng.shuffle(&mut ids);
    (0..n)
        .map(|k| {
            let srv = match mode {
                1 => true,
                2 => false,
                _ => rng.chance(1, 2),
            };
            let nonce = if mode == 3 { rng.range(0, 1) * 7 } else { *rng.pick(&[0, 0, 1, 2, 3, 7, 7, u64::MAX]) };
            (ids[k as usize], srv, nonce)
        })
        .collect()
}

fn do_elect(log: &mut Log, st: &mut Stats, this: &str, peer: &str, c: &[(u64, bool, u64)]) {
    let r = elect(this, peer, c);
    st.bump("elect");
    st.bump(&format!("elect_len_{}", c.len().min(6)));
    if r.len() > 1 {
        st.bump("elect_result_multi");
    }
    log.rec(format!("elect {this} {peer} {}", cand_str(c)), show_u64s(&r));
}

/// One physical connection: (a_init, nonce, idA, idB)
fn do_world(log: &mut Log, st: &mut Stats, a: &str, b: &str, conns: &[(bool, u64, u64, u64)]) {
    let va: Vec<_> = conns.iter().map(|(ai, n, ia, _)| (*ia, !*ai, *n)).collect();
    let vb: Vec<_> = conns.iter().map(|(ai, n, _, ib)| (*ib, *ai, *n)).collect();
    let ea = elect(a, b, &va);
    let eb = elect(b, a, &vb);
    st.bump("world");
    let both = conns.iter().any(|c| c.0) && conns.iter().any(|c| !c.0);
    if both {
        st.bump("world_both_directions");
    }
    let cs = conns.iter().map(|(ai, n, ia, ib)| format!("{ai}:{n}:{ia}:{ib}")).collect::<Vec<_>>().join(",");
    log.rec(format!("world {a} {b} {cs}"), format!("{} | {}", show_u64s(&ea), show_u64s(&eb)));
}

fn gen_world(rng: &mut Rng, max: u64) -> Vec<(bool, u64, u64, u64)> {
    let n = rng.range(1, max);
    let mut ia: Vec<u64> = (1..=30).collect();
    let mut ib: Vec<u64> = (31..=60).collect();
    rng.shuffle(&mut ia);
    rng.shuffle(&mut ib);
    let mode = rng.below(3);
    (0..n as usize)
        .map(|k| {
            let ai = match mode {
                1 => true,
                2 => false,
                _ => rng.chance(1, 2),
            };
            (ai, *rng.pick(&[0, 0, 5, 5, 9, 11]), ia[k], ib[k])
        })
        .collect()
}

async fn ns_case(log: &mut Log, st: &mut Stats, rng: &mut Rng) {
    let peers = ["p@h", "q@h", "a@a", "zz@h"];
    let this = *rng.pick(&["m@h", "p@h", "b@b"]);
    let mut probe = NodeStateProbe::new(this).await;
    log.rec(format!("ns {this}"), "ok");
    let mut pids: Vec<u64> = Vec::new();
    let steps = rng.range(5, 40);
    for _ in 0..steps {
        let k = rng.below(100);
        if pids.is_empty() || k < 18 {
            let srv = rng.chance(1, 2);
            let pid = probe.open(srv).await;
            pids.push(pid);
            st.bump("ns_open");
            log.rec(format!("open {srv} {pid}"), "ok");
            continue;
        }
        let pid = if rng.chance(1, 25) { 999_999 } else { *rng.pick(&pids) };
        let npeers = if rng.chance(3, 4) { 2 } else { 4 };
        let peer = *rng.pick(&peers[..npeers]);
        let nonce = *rng.pick(&[0u64, 0, 3, 3, 8]);
        match k {
            18..=37 => {
                let r = probe.register(pid, peer, nonce);
                st.bump("ns_register");
                log.rec(format!("register {pid} {peer} {nonce}"), r.to_string());
            }
            38..=52 => {
                st.bump("ns_checkc");
                log.rec(format!("checkc {pid}"), probe.check_candidate(pid));
            }
            53..=62 => {
                st.bump("ns_checks");
                log.rec(format!("checks {peer} {nonce}"), probe.check_session(peer, nonce));
            }
            63..=80 => {
                st.bump("ns_commit");
                let obs = match probe.commit(pid) {
                    None => "none".to_string(),
                    Some((s, mut l)) => {
                        l.sort_unstable();
                        if !l.is_empty() {
                            st.bump("ns_commit_with_losers");
                        }
                        format!("{s} {}", show_u64s(&l))
                    }
                };
                log.rec(format!("commit {pid}"), obs);
            }
            81..=90 => {
                st.bump("ns_elected");
                log.rec(format!("elected {pid}"), probe.is_elected(pid).to_string());
            }
            91..=95 => {
                st.bump("ns_close");
                // the REAL supervision handler of the NodeServer (exit or failure of the session)
                let failed = rng.chance(1, 3);
                let known = probe.session_exit(pid, failed).await;
                pids.retain(|p| *p != pid);
                log.rec(format!("{} {pid}", if failed { "closef" } else { "close" }), if known { "ok" } else { "unknown" });
                log.rec("residue", show_residue(&probe));
            }
            _ => {
                st.bump("ns_visible");
                log.rec("visible", show_u64s(&probe.visible()));
            }
        }
    }
    probe.shutdown();
}

fn show_residue(p: &NodeStateProbe) -> String {
    let (ns, ids, auth) = p.residue();
    format!("ns={} ids={} auth={}", show_u64s(&ns), show_u64s(&ids), show_u64s(&auth))
}

/// register + `check_candidate` + `commit_authenticated` + `is_elected` + the session's own
/// `CheckSession` of a session that (re)connects
fn fresh_obs(p: &mut NodeStateProbe, pid: u64, peer: &str, nonce: u64) -> String {
    let r = p.register(pid, peer, nonce);
    let c = p.check_candidate(pid);
    let commit = match p.commit(pid) {
        None => "none".to_string(),
        Some((s, mut l)) => {
            l.sort_unstable();
            format!("{s} {}", show_u64s(&l))
        }
    };
    format!("{r} | {c} | {commit} | {} {}", p.is_elected(pid), p.check_session(peer, nonce))
}

/// Session death and reconnection on one node: sessions to a peer (and to a bystander peer) are
/// opened, registered and authenticated; then EVERY session of the peer exits or fails (the real
/// supervision handler); the bookkeeping must not mention them any more, and a fresh session of
/// the same peer (then more of them) is accepted and elected as on a node that never saw the peer.
async fn ns_reconnect(log: &mut Log, st: &mut Stats, rng: &mut Rng) {
    let this = *rng.pick(&["m@h", "b@b", "a@a"]);
    let peer = *rng.pick(&["p@h", "a@z", "zz@h"]);
    let other = "other@h";
    let mut probe = NodeStateProbe::new(this).await;
    log.rec(format!("ns {this}"), "ok");
    st.bump("reconnect_case");
    let mut old: Vec<u64> = Vec::new();
    for _ in 0..rng.range(1, 4) {
        let srv = rng.chance(1, 2);
        let pid = probe.open(srv).await;
        log.rec(format!("open {srv} {pid}"), "ok");
        let nonce = *rng.pick(&[0u64, 4, 9]);
        // some sessions die before they registered / authenticated
        match rng.below(5) {
            0 => {}
            1 => {
                let r = probe.register(pid, peer, nonce);
                log.rec(format!("register {pid} {peer} {nonce}"), r.to_string());
            }
            _ => log.rec(format!("fresh {pid} {peer} {nonce}"), fresh_obs(&mut probe, pid, peer, nonce)),
        }
        old.push(pid);
    }
    // a bystander peer whose session must be left alone
    let by = probe.open(true).await;
    log.rec(format!("open true {by}"), "ok");
    log.rec(format!("fresh {by} {other} 5"), fresh_obs(&mut probe, by, other, 5));
    rng.shuffle(&mut old);
    for pid in &old {
        let failed = rng.chance(1, 2);
        let known = probe.session_exit(*pid, failed).await;
        st.bump(if failed { "reconnect_failed_exit" } else { "reconnect_exit" });
        log.rec(format!("{} {pid}", if failed { "closef" } else { "close" }), if known { "ok" } else { "unknown" });
        log.rec("residue", show_residue(&probe));
    }
    log.rec("visible", show_u64s(&probe.visible()));
    // the peer comes back
    let mut fresh: Vec<u64> = Vec::new();
    for _ in 0..rng.range(1, 3) {
        let srv = rng.chance(1, 2);
        let pid = probe.open(srv).await;
        log.rec(format!("open {srv} {pid}"), "ok");
        let nonce = *rng.pick(&[0u64, 3, 4, 9]);
        log.rec(format!("fresh {pid} {peer} {nonce}"), fresh_obs(&mut probe, pid, peer, nonce));
        fresh.push(pid);
        log.rec("visible", show_u64s(&probe.visible()));
    }
    for q in fresh.iter().chain([by].iter()) {
        log.rec(format!("elected {q}"), probe.is_elected(*q).to_string());
    }
    log.rec("residue", show_residue(&probe));
    probe.shutdown();
}

/// Realistic duplicate-connection flow on one node: several sessions to the same peer are
/// opened, registered and authenticated in a random order (with an unauthenticated
/// name-spoofing session thrown in), querying ready/visible state after each commit.
async fn ns_flow(log: &mut Log, st: &mut Stats, rng: &mut Rng) {
    let this = *rng.pick(&["m@h", "b@b", "a@a"]);
    let peer = *rng.pick(&["p@h", "a@z", "zz@h"]);
    let mut probe = NodeStateProbe::new(this).await;
    log.rec(format!("ns {this}"), "ok");
    let n = rng.range(2, 5);
    let dir_mode = rng.below(3);
    let mut pids = Vec::new();
    for _ in 0..n {
        let srv = match dir_mode {
            0 => true,
            1 => false,
            _ => rng.chance(1, 2),
        };
        let pid = probe.open(srv).await;
        log.rec(format!("open {srv} {pid}"), "ok");
        pids.push(pid);
    }
    let mut order = pids.clone();
    rng.shuffle(&mut order);
    let mut nonces: std::collections::HashMap<u64, u64> = Default::default();
    for pid in &order {
        let nonce = *rng.pick(&[0u64, 0, 4, 4, 9]);
        nonces.insert(*pid, nonce);
        let r = probe.register(*pid, peer, nonce);
        log.rec(format!("register {pid} {peer} {nonce}"), r.to_string());
        log.rec(format!("checkc {pid}"), probe.check_candidate(*pid));
    }
    // a spoofer: claims the same name, never authenticates
    let spoof_srv = rng.chance(1, 2);
    let spoof = probe.open(spoof_srv).await;
    log.rec(format!("open {spoof_srv} {spoof}"), "ok");
    let spoof_nonce = *rng.pick(&[0u64, 1]);
    let r = probe.register(spoof, peer, spoof_nonce);
    log.rec(format!("register {spoof} {peer} {spoof_nonce}"), r.to_string());
    rng.shuffle(&mut order);
    for pid in &order {
        if rng.chance(1, 6) {
            continue;
        }
        st.bump("flow_commit");
        let mut to_close: Vec<u64> = Vec::new();
        let obs = match probe.commit(*pid) {
            None => "none".to_string(),
            Some((s, mut l)) => {
                l.sort_unstable();
                if !l.is_empty() {
                    st.bump("ns_commit_with_losers");
                }
                to_close = l.clone();
                format!("{s} {}", show_u64s(&l))
            }
        };
        log.rec(format!("commit {pid}"), obs);
        // the session's own post-authentication CheckSession (it stops itself on a losing reply)
        st.bump("postauth");
        log.rec(
            format!("postauth {pid}"),
            format!("{} {}", probe.is_elected(*pid), probe.check_session(peer, nonces[pid])),
        );
        for x in &to_close {
            if rng.chance(1, 2) {
                // the handler stops losers; their exit removes them from the state
                let known = probe.session_exit(*x, false).await;
                log.rec(format!("close {x}"), if known { "ok" } else { "unknown" });
                log.rec("residue", show_residue(&probe));
            }
        }
        log.rec("visible", show_u64s(&probe.visible()));
        for q in &pids {
            log.rec(format!("elected {q}"), probe.is_elected(*q).to_string());
        }
        log.rec(format!("checkc {spoof}"), probe.check_candidate(spoof));
    }
    probe.shutdown();
}

/// Two real `NodeServerState`s (node A, node B) joined by several connections; sessions
/// authenticate, are probed (`check_candidate`) and notice the other end's close in a random
/// order — the steps of `Model/Handshake.lean`. After the random prefix the run is completed
/// (everything still open authenticates, every close is noticed) and `hend` reports what each
/// node is left with.
/// ops: `hs <nameA> <nameB> <aInit:nonce:idA:idB,…>`, `hauthA|hauthB|hpreA|hpreB|hseeA|hseeB <id>`, `hend`
/// observation: `OA[open ids] OB[open ids] VA[listed ids] VB[listed ids]`
struct HsLink {
    ida: u64,
    idb: u64,
    nonce: u64,
    open_a: bool,
    open_b: bool,
    auth_a: bool,
    auth_b: bool,
}

struct HsWorld {
    ls: Vec<HsLink>,
    pa: NodeStateProbe,
    pb: NodeStateProbe,
    name_a: String,
    name_b: String,
}

/// kinds 6/7 (`hpsA`/`hpsB`): the pre-authentication check as the SESSION performs it —
/// `CheckSession` with the peer's name and this connection's nonce (`check_session`), which looks
/// the candidate up by (name, nonce) first and answers `NoOtherConnection` when that is ambiguous
const HS_KINDS: [&str; 8] = ["hauthA", "hauthB", "hpreA", "hpreB", "hseeA", "hseeB", "hpsA", "hpsB"];

impl HsWorld {
    /// returns the world and the `hs` op line describing it (with the real pids)
    async fn new(a: &str, b: &str, conns: &[(bool, u64)]) -> (Self, String) {
        let mut pa = NodeStateProbe::new(a).await;
        let mut pb = NodeStateProbe::new(b).await;
        let mut ls = Vec::new();
        let mut desc = Vec::new();
        for (a_init, nonce) in conns {
            let ida = pa.open(!*a_init).await;
            let idb = pb.open(*a_init).await;
            pa.register(ida, b, *nonce);
            pb.register(idb, a, *nonce);
            desc.push(format!("{a_init}:{nonce}:{ida}:{idb}"));
            ls.push(HsLink { ida, idb, nonce: *nonce, open_a: true, open_b: true, auth_a: false, auth_b: false });
        }
        (Self { ls, pa, pb, name_a: a.to_string(), name_b: b.to_string() }, format!("hs {a} {b} {}", desc.join(",")))
    }

    /// a connection dialled while the run is under way (also after a link is up): a fresh,
    /// registered, not yet authenticated session on both nodes. op `hdial <aInit:nonce:idA:idB>`
    async fn dial(&mut self, a: &str, b: &str, a_init: bool, nonce: u64) -> String {
        let ida = self.pa.open(!a_init).await;
        let idb = self.pb.open(a_init).await;
        self.pa.register(ida, b, nonce);
        self.pb.register(idb, a, nonce);
        self.ls.push(HsLink { ida, idb, nonce, open_a: true, open_b: true, auth_a: false, auth_b: false });
        format!("hdial {a_init}:{nonce}:{ida}:{idb}")
    }

    /// one end of connection `i` goes away for a reason outside the election (transport failure,
    /// the session gave up): the session exits, the NodeServer forgets it. op `hfailA|hfailB <id>`
    async fn fail(&mut self, on_a: bool, i: usize, failed: bool) -> String {
        let id = if on_a { self.ls[i].ida } else { self.ls[i].idb };
        let open = if on_a { self.ls[i].open_a } else { self.ls[i].open_b };
        if open {
            // through the REAL supervision handler of the NodeServer (ActorTerminated / ActorFailed)
            if on_a {
                self.pa.session_exit(id, failed).await;
                self.ls[i].open_a = false;
            } else {
                self.pb.session_exit(id, failed).await;
                self.ls[i].open_b = false;
            }
        }
        format!("{} {id}", if on_a { "hfailA" } else { "hfailB" })
    }

    fn obs(&self) -> String {
        let mut oa: Vec<u64> = self.ls.iter().filter(|l| l.open_a).map(|l| l.ida).collect();
        let mut ob: Vec<u64> = self.ls.iter().filter(|l| l.open_b).map(|l| l.idb).collect();
        oa.sort_unstable();
        ob.sort_unstable();
        format!(
            "OA[{}] OB[{}] VA[{}] VB[{}]",
            show_u64s(&oa),
            show_u64s(&ob),
            show_u64s(&self.pa.visible()),
            show_u64s(&self.pb.visible())
        )
    }

    /// kind: 0 authA 1 authB 2 preA 3 preB 4 seeA 5 seeB; returns the op line
    fn exec(&mut self, kind: usize, i: usize, st: &mut Stats) -> String {
        let on_a = kind % 2 == 0;
        let l = &self.ls[i];
        let id = if on_a { l.ida } else { l.idb };
        let (open, auth, other_open) =
            if on_a { (l.open_a, l.auth_a, l.open_b) } else { (l.open_b, l.auth_b, l.open_a) };
        let p = if on_a { &mut self.pa } else { &mut self.pb };
        let mut closed: Vec<u64> = Vec::new();
        match kind {
            0 | 1 => {
                if open && !auth {
                    if on_a {
                        self.ls[i].auth_a = true
                    } else {
                        self.ls[i].auth_b = true
                    }
                    if let Some((_, losers)) = p.commit(id) {
                        if !losers.is_empty() {
                            st.bump("hs_commit_with_losers");
                        }
                        // the handler stops the losers; their exit removes them from the state
                        closed = losers;
                    }
                }
            }
            2 | 3 => {
                if open && !auth && p.check_candidate(id) == "otherContinues" {
                    st.bump("hs_pre_closed");
                    closed.push(id);
                }
            }
            6 | 7 => {
                let peer = if on_a { self.name_b.clone() } else { self.name_a.clone() };
                let nonce = self.ls[i].nonce;
                if open && !auth {
                    let r = p.check_session(&peer, nonce);
                    st.bump(&format!("hs_checks_{r}"));
                    if r == "otherContinues" || r == "duplicate" {
                        st.bump("hs_pre_closed");
                        closed.push(id);
                    }
                }
            }
            _ => {
                if open && !other_open {
                    closed.push(id);
                }
            }
        }
        for x in closed {
            p.close(x);
            for l in self.ls.iter_mut() {
                if on_a && l.ida == x {
                    l.open_a = false
                }
                if !on_a && l.idb == x {
                    l.open_b = false
                }
            }
        }
        format!("{} {id}", HS_KINDS[kind])
    }

    /// steps that are still due: pending authentications and unnoticed closes
    fn due(&self) -> Vec<(usize, usize)> {
        let mut todo = Vec::new();
        for (i, l) in self.ls.iter().enumerate() {
            if l.open_a && !l.auth_a {
                todo.push((0, i))
            }
            if l.open_b && !l.auth_b {
                todo.push((1, i))
            }
            if l.open_a && !l.open_b {
                todo.push((4, i))
            }
            if l.open_b && !l.open_a {
                todo.push((5, i))
            }
        }
        todo
    }

    fn shutdown(self) {
        self.pa.shutdown();
        self.pb.shutdown();
    }
}

async fn hs_case(log: &mut Log, st: &mut Stats, rng: &mut Rng) {
    let (a, mut b) = names(rng);
    if a == b {
        b.push('x');
    }
    let n = rng.range(1, 5) as usize;
    let dir_mode = rng.below(4);
    let conns: Vec<(bool, u64)> = (0..n)
        .map(|_| {
            let a_init = match dir_mode {
                0 => true,
                1 => false,
                _ => rng.chance(1, 2),
            };
            (a_init, *rng.pick(&[0u64, 0, 3, 3, 5, 8]))
        })
        .collect();
    let (mut w, line) = HsWorld::new(&a, &b, &conns).await;
    st.bump("hs");
    st.bump(&format!("hs_conns_{n}"));
    log.rec(line, "ok");
    let steps = rng.range(0, 5 * n as u64);
    for _ in 0..steps {
        let i = rng.below(n as u64) as usize;
        let kind = *rng.pick(&[0usize, 0, 0, 1, 1, 1, 2, 3, 6, 6, 7, 7, 4, 4, 5, 5]);
        let op = w.exec(kind, i, st);
        st.bump("hs_step");
        log.rec(op, w.obs());
    }
    // completion: everything still open authenticates, every close is noticed
    loop {
        let todo = w.due();
        if todo.is_empty() {
            break;
        }
        let (kind, i) = *rng.pick(&todo);
        let op = w.exec(kind, i, st);
        st.bump("hs_step");
        log.rec(op, w.obs());
    }
    log.rec("hend", w.obs());
    // round 4: the run goes on — late / repeated dials (the link above is up and at rest), and, in
    // one case in three, ends of connections going away at arbitrary moments
    if rng.chance(2, 3) {
        let with_failures = rng.chance(1, 3);
        st.bump(if with_failures { "hs_late_with_failures" } else { "hs_late_dials" });
        for _ in 0..rng.range(1, 3) {
            let a_init = rng.chance(1, 2);
            let op = w.dial(&a, &b, a_init, *rng.pick(&[0u64, 0, 1, 3, 5, 8])).await;
            st.bump("hs_late_dial");
            log.rec(op, w.obs());
            let m = w.ls.len();
            for _ in 0..rng.range(0, 6) {
                let i = rng.below(m as u64) as usize;
                if with_failures && rng.chance(1, 4) {
                    let op = w.fail(rng.chance(1, 2), i, rng.chance(1, 2)).await;
                    st.bump("hs_fail");
                    log.rec(op, w.obs());
                } else {
                    let kind = *rng.pick(&[0usize, 0, 0, 1, 1, 1, 2, 3, 6, 6, 7, 7, 4, 4, 5, 5]);
                    let op = w.exec(kind, i, st);
                    st.bump("hs_step");
                    log.rec(op, w.obs());
                }
            }
        }
        loop {
            let todo = w.due();
            if todo.is_empty() {
                break;
            }
            let (kind, i) = *rng.pick(&todo);
            let op = w.exec(kind, i, st);
            st.bump("hs_step");
            log.rec(op, w.obs());
        }
        log.rec("hend", w.obs());
    }
    w.shutdown();
}

/// Paired experiment for the non-interference clause: the same duplicate-connection flow is
/// run on two real `NodeServerState`s, one of which additionally holds an UNAUTHENTICATED
/// session claiming the peer's name (any direction / nonce, inserted at a random moment).
/// Every answer given to the genuine sessions must be identical in both runs.
/// op `ni <what> <idx>`; impl `<answer with spoofer> | <answer without>`, pids shown as
/// creation indices so that the two runs are comparable.
async fn ns_noninterference(log: &mut Log, st: &mut Stats, rng: &mut Rng) {
    let this = *rng.pick(&["m@h", "b@b", "a@a"]);
    let peer = *rng.pick(&["p@h", "a@z", "zz@h"]);
    let mut p1 = NodeStateProbe::new(this).await;
    let mut p2 = NodeStateProbe::new(this).await;
    let n = rng.range(2, 5) as usize;
    let spoof_at = rng.below(n as u64 + 1) as usize;
    let dir_mode = rng.below(3);
    let (mut ids1, mut ids2) = (Vec::new(), Vec::new());
    let mut spoof = None;
    for i in 0..=n {
        if i == spoof_at {
            let sp = p1.open(rng.chance(1, 2)).await;
            p1.register(sp, peer, *rng.pick(&[0u64, 1, 4]));
            spoof = Some(sp);
        }
        if i == n {
            break;
        }
        let srv = match dir_mode {
            0 => true,
            1 => false,
            _ => rng.chance(1, 2),
        };
        ids1.push(p1.open(srv).await);
        ids2.push(p2.open(srv).await);
    }
    let idx = |ids: &Vec<u64>, l: &Vec<u64>| {
        let mut v: Vec<u64> = l.iter().map(|p| ids.iter().position(|q| q == p).map(|x| x as u64).unwrap_or(999)).collect();
        v.sort_unstable();
        show_u64s(&v)
    };
    log.rec(format!("ni begin {this} {peer} n={n} spoof_at={spoof_at}"), "ok");
    let mut nonces: Vec<u64> = Vec::new();
    for i in 0..n {
        let nonce = *rng.pick(&[0u64, 0, 4, 4, 9]);
        nonces.push(nonce);
        p1.register(ids1[i], peer, nonce);
        p2.register(ids2[i], peer, nonce);
        log.rec(format!("ni checkc {i}"), format!("{} | {}", p1.check_candidate(ids1[i]), p2.check_candidate(ids2[i])));
    }
    let mut order: Vec<usize> = (0..n).collect();
    rng.shuffle(&mut order);
    for i in order {
        st.bump("ni_commit");
        let show = |r: Option<(bool, Vec<u64>)>, ids: &Vec<u64>| match r {
            None => "none".to_string(),
            Some((s, l)) => format!("{s} {}", idx(ids, &l)),
        };
        let r1 = show(p1.commit(ids1[i]), &ids1);
        let r2 = show(p2.commit(ids2[i]), &ids2);
        log.rec(format!("ni commit {i}"), format!("{r1} | {r2}"));
        let v1: Vec<u64> = p1.visible().into_iter().filter(|p| Some(*p) != spoof).collect();
        log.rec("ni visible".to_string(), format!("{} | {}", idx(&ids1, &v1), idx(&ids2, &p2.visible())));
        for j in 0..n {
            log.rec(format!("ni elected {j}"), format!("{} | {}", p1.is_elected(ids1[j]), p2.is_elected(ids2[j])));
            log.rec(format!("ni checkc {j}"), format!("{} | {}", p1.check_candidate(ids1[j]), p2.check_candidate(ids2[j])));
            // what the SESSIONS call (`CheckSession` with their own name + nonce): a spoofer sharing
            // (name, nonce) makes the query ambiguous -> the reply may change, but only to `noOther`
            let (c1, c2) = (p1.check_session(peer, nonces[j]), p2.check_session(peer, nonces[j]));
            if c1 != c2 {
                st.bump("ni_checks_flipped_by_spoofer");
            }
            log.rec(format!("ni checks {j}"), format!("{c1} | {c2}"));
        }
    }
    p1.shutdown();
    p2.shutdown();
}

fn exhaustive(log: &mut Log, st: &mut Stats) {
    // every candidate list of length ≤ 3 over nonce ∈ {0,1,2}, both flags, both name orders
    // and the equal-name case, ids = a permutation-representative set {1,2,3} in every order.
    let ids_perm: [&[u64]; 6] = [&[1, 2, 3], &[1, 3, 2], &[2, 1, 3], &[2, 3, 1], &[3, 1, 2], &[3, 2, 1]];
    let names = [("a@h", "b@h"), ("b@h", "a@h"), ("a@h", "a@h")];
    for len in 0..=3usize {
        let combos = 6u64.pow(len as u32);
        for code in 0..combos {
            let mut c = code;
            let mut base = Vec::new();
            for _ in 0..len {
                let v = c % 6;
                c /= 6;
                base.push((v % 2 == 1, v / 2));
            }
            for perm in ids_perm.iter() {
                let cands: Vec<_> = base.iter().enumerate().map(|(k, (s, n))| (perm[k], *s, *n)).collect();
                for (t, p) in names {
                    do_elect(log, st, t, p, &cands);
                }
                if len < 3 {
                    break;
                }
            }
        }
    }
    st.bump("exhaustive_done");
}

/// Re-execute a recorded op file (corpus entry or the segment of a replay file) on the real
/// code. Actor pids differ from run to run, so recorded pids are remapped through the
/// `open` ops; the op lines written to the log carry the NEW pids.
async fn replay_ops(log: &mut Log, st: &mut Stats, path: &str) {
    let text = std::fs::read_to_string(path).unwrap_or_default();
    let mut probe: Option<NodeStateProbe> = None;
    let mut hs: Option<HsWorld> = None;
    let mut hs_old: Vec<(u64, u64)> = Vec::new();
    let mut hs_names: (String, String) = (String::new(), String::new());
    let mut map: std::collections::HashMap<u64, u64> = Default::default();
    let mut regs: std::collections::HashMap<u64, (String, u64)> = Default::default();
    let m = |map: &std::collections::HashMap<u64, u64>, p: &str| -> u64 {
        let v: u64 = p.parse().unwrap_or(0);
        *map.get(&v).unwrap_or(&v)
    };
    for line in text.lines() {
        let w: Vec<&str> = line.split_whitespace().collect();
        st.bump("replayed_ops");
        match w.as_slice() {
            ["elect", this, peer, cs] => {
                let c: Vec<(u64, bool, u64)> = if *cs == "-" {
                    vec![]
                } else {
                    cs.split(',')
                        .filter_map(|x| {
                            let f: Vec<&str> = x.split(':').collect();
                            Some((f.first()?.parse().ok()?, f.get(1)? == &"true", f.get(2)?.parse().ok()?))
                        })
                        .collect()
                };
                do_elect(log, st, this, peer, &c);
            }
            ["world", a, b, cs] => {
                let c: Vec<(bool, u64, u64, u64)> = cs
                    .split(',')
                    .filter_map(|x| {
                        let f: Vec<&str> = x.split(':').collect();
                        Some((f.first()? == &"true", f.get(1)?.parse().ok()?, f.get(2)?.parse().ok()?, f.get(3)?.parse().ok()?))
                    })
                    .collect();
                do_world(log, st, a, b, &c);
            }
            ["hs", a, b, cs] => {
                if let Some(w) = hs.take() {
                    w.shutdown();
                }
                let parsed: Vec<(bool, u64, u64, u64)> = cs
                    .split(',')
                    .filter_map(|x| {
                        let f: Vec<&str> = x.split(':').collect();
                        Some((f.first()? == &"true", f.get(1)?.parse().ok()?, f.get(2)?.parse().ok()?, f.get(3)?.parse().ok()?))
                    })
                    .collect();
                let conns: Vec<(bool, u64)> = parsed.iter().map(|c| (c.0, c.1)).collect();
                let (w, line) = HsWorld::new(a, b, &conns).await;
                hs_old = parsed.iter().map(|c| (c.2, c.3)).collect();
                hs_names = (a.to_string(), b.to_string());
                log.rec(line, "ok");
                hs = Some(w);
            }
            [k, old] if HS_KINDS.contains(k) => {
                if let Some(w) = hs.as_mut() {
                    let kind = HS_KINDS.iter().position(|x| x == k).unwrap();
                    let old: u64 = old.parse().unwrap_or(0);
                    let idx = hs_old.iter().position(|(ia, ib)| if kind % 2 == 0 { *ia == old } else { *ib == old });
                    if let Some(i) = idx {
                        let op = w.exec(kind, i, st);
                        log.rec(op, w.obs());
                    }
                }
            }
            ["hdial", c] => {
                if let Some(w) = hs.as_mut() {
                    let f: Vec<&str> = c.split(':').collect();
                    if let (Some(ai), Some(n), Some(ia), Some(ib)) =
                        (f.first(), f.get(1).and_then(|x| x.parse::<u64>().ok()), f.get(2).and_then(|x| x.parse::<u64>().ok()), f.get(3).and_then(|x| x.parse::<u64>().ok()))
                    {
                        let (na, nb) = hs_names.clone();
                        let op = w.dial(&na, &nb, *ai == "true", n).await;
                        hs_old.push((ia, ib));
                        log.rec(op, w.obs());
                    }
                }
            }
            [k, old] if *k == "hfailA" || *k == "hfailB" => {
                if let Some(w) = hs.as_mut() {
                    let on_a = *k == "hfailA";
                    let old: u64 = old.parse().unwrap_or(0);
                    if let Some(i) = hs_old.iter().position(|(ia, ib)| if on_a { *ia == old } else { *ib == old }) {
                        let op = w.fail(on_a, i, false).await;
                        log.rec(op, w.obs());
                    }
                }
            }
            ["hend"] => {
                if let Some(w) = hs.as_mut() {
                    // a shrunk prefix may have lost its completion: complete it deterministically
                    loop {
                        let todo = w.due();
                        let Some((kind, i)) = todo.first().copied() else { break };
                        let op = w.exec(kind, i, st);
                        log.rec(op, w.obs());
                    }
                    log.rec("hend", w.obs());
                }
            }
            ["ns", this] => {
                if let Some(p) = probe.take() {
                    p.shutdown();
                }
                probe = Some(NodeStateProbe::new(this).await);
                map.clear();
                log.rec(line, "ok");
            }
            _ => {
                let Some(p) = probe.as_mut() else {
                    log.rec(line, "no-state");
                    continue;
                };
                match w.as_slice() {
                    ["open", srv, old] => {
                        let pid = p.open(*srv == "true").await;
                        map.insert(old.parse().unwrap_or(0), pid);
                        log.rec(format!("open {srv} {pid}"), "ok");
                    }
                    ["register", pid, peer, nonce] => {
                        let pid = m(&map, pid);
                        let r = p.register(pid, peer, nonce.parse().unwrap_or(0));
                        if r {
                            regs.insert(pid, (peer.to_string(), nonce.parse().unwrap_or(0)));
                        }
                        log.rec(format!("register {pid} {peer} {nonce}"), r.to_string());
                    }
                    ["checkc", pid] => {
                        let pid = m(&map, pid);
                        log.rec(format!("checkc {pid}"), p.check_candidate(pid));
                    }
                    ["checks", peer, nonce] => {
                        log.rec(line, p.check_session(peer, nonce.parse().unwrap_or(0)));
                    }
                    ["commit", pid] => {
                        let pid = m(&map, pid);
                        let obs = match p.commit(pid) {
                            None => "none".to_string(),
                            Some((s, mut l)) => {
                                l.sort_unstable();
                                format!("{s} {}", show_u64s(&l))
                            }
                        };
                        log.rec(format!("commit {pid}"), obs);
                    }
                    ["elected", pid] => {
                        let pid = m(&map, pid);
                        log.rec(format!("elected {pid}"), p.is_elected(pid).to_string());
                    }
                    ["postauth", pid] => {
                        let pid = m(&map, pid);
                        let (peer, nonce) = regs.get(&pid).cloned().unwrap_or_default();
                        log.rec(format!("postauth {pid}"), format!("{} {}", p.is_elected(pid), p.check_session(&peer, nonce)));
                    }
                    [kind @ ("close" | "closef"), pid] => {
                        let pid = m(&map, pid);
                        let known = p.session_exit(pid, *kind == "closef").await;
                        log.rec(format!("{kind} {pid}"), if known { "ok" } else { "unknown" });
                    }
                    ["residue"] => log.rec("residue", show_residue(p)),
                    ["fresh", pid, peer, nonce] => {
                        let pid = m(&map, pid);
                        let nonce: u64 = nonce.parse().unwrap_or(0);
                        let obs = fresh_obs(p, pid, peer, nonce);
                        regs.insert(pid, (peer.to_string(), nonce));
                        log.rec(format!("fresh {pid} {peer} {nonce}"), obs);
                    }
                    ["visible"] => log.rec("visible", show_u64s(&p.visible())),
                    _ => log.rec(line, "unsupported-in-replay"),
                }
            }
        }
    }
    if let Some(p) = probe.take() {
        p.shutdown();
    }
    if let Some(w) = hs.take() {
        w.shutdown();
    }
}

#[tokio::main(flavor = "current_thread")]
async fn main() {
    let args = Args::parse();
    let seed = args.u64("seed", 1);
    let cases = args.u64("cases", 300);
    let out = args.str("out", "/tmp/c18");
    let mut rng = Rng::new(seed);
    let mut log = Log::create(std::path::Path::new(&out)).unwrap();
    let mut st = Stats::default();

    // corpus / replay files first: `--replay-ops f1,f2,…`; with `--only-replay 1` nothing else runs
    for f in args.str("replay-ops", "").split(',').filter(|f| !f.is_empty()) {
        replay_ops(&mut log, &mut st, f).await;
    }
    if args.u64("only-replay", 0) == 1 {
        st.add("lines", log.lines);
        st.write_json(&std::path::Path::new(&out).join("stats.json"));
        log.finish();
        return;
    }

    // corpus-style fixed cases first (the repo's own unit-test vectors)
    do_elect(&mut log, &mut st, "a@host", "b@host", &[(2, true, 7), (1, false, 19)]);
    do_elect(&mut log, &mut st, "b@host", "a@host", &[(3, false, 7), (4, true, 19)]);
    do_elect(&mut log, &mut st, "b@host", "a@host", &[(6, true, 0), (5, true, 0)]);
    do_elect(&mut log, &mut st, "a@host", "b@host", &[(21, false, 41), (22, false, 41)]);

    if args.u64("exhaustive", 1) == 1 {
        exhaustive(&mut log, &mut st);
    }
    for _ in 0..cases {
        let (a, b) = names(&mut rng);
        let c = gen_cands(&mut rng, 7);
        do_elect(&mut log, &mut st, &a, &b, &c);
        // and the same multiset in another order
        let mut c2 = c.clone();
        rng.shuffle(&mut c2);
        do_elect(&mut log, &mut st, &a, &b, &c2);
    }
    for _ in 0..cases {
        let (a, mut b) = names(&mut rng);
        if a == b {
            b.push('x');
        }
        let w = gen_world(&mut rng, 6);
        do_world(&mut log, &mut st, &a, &b, &w);
    }
    for _ in 0..(cases / 4).max(5) {
        ns_case(&mut log, &mut st, &mut rng).await;
        ns_flow(&mut log, &mut st, &mut rng).await;
        ns_noninterference(&mut log, &mut st, &mut rng).await;
        ns_reconnect(&mut log, &mut st, &mut rng).await;
    }
    for _ in 0..cases {
        hs_case(&mut log, &mut st, &mut rng).await;
    }
    st.add("lines", log.lines);
    st.write_json(&std::path::Path::new(&out).join("stats.json"));
    log.finish();
}
