/-!
# Codec — executable model of ractor's wire decoding (C19)

Line-by-line transcription (over `List UInt8` / `Nat`) of

* `ractor/src/serialization.rs`      `BytesConvertable` impls (integers big-endian, floats as
  their IEEE bit pattern, `bool`, `char`, `String`, `()`, `Vec<u8>`, `Vec<numeric>`,
  `Vec<bool>`, `Vec<char>`); a decoder returning `none` stands for a panicking `from_bytes`;
* `ractor_cluster_derive/src/codegen.rs`  `pack_args` / `unpack_arg` / the generated
  `serialize` / `deserialize` (`u64` BE length prefix per data field, positional, the reply
  port is not on the wire, `__ptr == __args.len()` at the end, `catch_unwind` around converters);
* `ractor_cluster/src/net/session.rs`  `encode_network_message`, `read_u64` (tokio),
  `checked_frame_length`, `read_n_bytes` (chunked), `read_network_message`,
  `SessionReader::handle` (stop at the first error);
* `ractor/src/factory/job.rs`  `JobOptions::{into_bytes,from_bytes}`, `Job::{serialize_meta,
  deserialize_meta}`;
* `ractor/src/actor.rs` `handle_message`: an undecodable serialized message is dropped.

Core Lean only.
-/

namespace Codec

abbrev Bytes := List UInt8

/-! ## Big-endian integers (`to_be_bytes` / `from_be_bytes`) -/

/-- `x.to_be_bytes()` for an `n`-byte integer: most significant byte first. For `x ≥ 256ⁿ`
this is the encoding of `x mod 256ⁿ` (Rust's `as uN` truncation). -/
def encodeBE : Nat → Nat → Bytes
  | 0, _ => []
  | n + 1, x => UInt8.ofNat (x / 256 ^ n) :: encodeBE n x

/-- The number denoted by a big-endian byte string. -/
def beVal (bs : Bytes) : Nat := bs.foldl (fun acc b => acc * 256 + b.toNat) 0

/-- `from_bytes` of the numeric types: `bytes[..N]` panics (→ `none`) on short input, trailing
bytes are ignored. -/
def decodeBE (n : Nat) (bs : Bytes) : Option Nat :=
  if bs.length < n then none else some (beVal (bs.take n))

/-! ## `BytesConvertable` for the built-in types -/

/-- Wire types. Signed integers and floats are carried as the unsigned bit pattern of their
width (`uint w`), `char` as its scalar value. -/
inductive Ty where
  | uint (w : Nat)
  | bool
  | char
  | str
  | unit
  | bytes            -- Vec<u8>
  | vecUint (w : Nat)
  | vecBool
  | vecChar
  deriving Repr, DecidableEq

inductive Val where
  | nat (n : Nat)
  | bool (b : Bool)
  | unit
  | bytes (l : Bytes)      -- Vec<u8>, and String as its UTF-8 bytes
  | nats (l : List Nat)
  | bools (l : List Bool)
  deriving Repr, DecidableEq

/-- Unicode scalar values (`char::from_u32(u).is_some()`). -/
def isScalar (n : Nat) : Bool := n < 0xD800 || (0xE000 ≤ n && n < 0x110000)

def isCont (b : UInt8) : Bool := 0x80 ≤ b && b ≤ 0xBF

/-- Well-formed UTF-8 (Unicode table 3-7), i.e. `String::from_utf8(bytes).is_ok()`. -/
def utf8Valid : Bytes → Bool
  | [] => true
  | b0 :: rest =>
    if b0 < 0x80 then utf8Valid rest else
    match rest with
    | [] => false
    | b1 :: r1 =>
      if 0xC2 ≤ b0 && b0 ≤ 0xDF then isCont b1 && utf8Valid r1 else
      match r1 with
      | [] => false
      | b2 :: r2 =>
        if b0 == 0xE0 then (0xA0 ≤ b1 && b1 ≤ 0xBF) && isCont b2 && utf8Valid r2
        else if (0xE1 ≤ b0 && b0 ≤ 0xEC) || b0 == 0xEE || b0 == 0xEF then
          isCont b1 && isCont b2 && utf8Valid r2
        else if b0 == 0xED then (0x80 ≤ b1 && b1 ≤ 0x9F) && isCont b2 && utf8Valid r2
        else
        match r2 with
        | [] => false
        | b3 :: r3 =>
          if b0 == 0xF0 then (0x90 ≤ b1 && b1 ≤ 0xBF) && isCont b2 && isCont b3 && utf8Valid r3
          else if 0xF1 ≤ b0 && b0 ≤ 0xF3 then isCont b1 && isCont b2 && isCont b3 && utf8Valid r3
          else if b0 == 0xF4 then (0x80 ≤ b1 && b1 ≤ 0x8F) && isCont b2 && isCont b3 && utf8Valid r3
          else false

def boolByte (b : Bool) : UInt8 := if b then 1 else 0

/-- `Vec<numeric>::from_bytes`: `len / w` elements read at offsets `k·w`, trailing bytes ignored. -/
def decodeVecBE (w : Nat) : Nat → Bytes → List Nat
  | 0, _ => []
  | k + 1, bs => beVal (bs.take w) :: decodeVecBE w k (bs.drop w)

def decodeVec (w : Nat) (bs : Bytes) : List Nat := decodeVecBE w (bs.length / w) bs

/-- `into_bytes`. -/
def encode : Ty → Val → Bytes
  | .uint w, .nat n => encodeBE w n
  | .bool, .bool b => [boolByte b]
  | .char, .nat n => encodeBE 4 n
  | .str, .bytes l => l
  | .unit, _ => []
  | .bytes, .bytes l => l
  | .vecUint w, .nats l => l.flatMap (encodeBE w)
  | .vecBool, .bools l => l.map boolByte
  | .vecChar, .nats l => l.flatMap (encodeBE 4)
  | _, _ => []

/-- `from_bytes`; `none` = the real function panics. -/
def decode : Ty → Bytes → Option Val
  | .uint w, bs => (decodeBE w bs).map .nat
  | .bool, bs => match bs with
    | [] => none
    | b :: _ => some (.bool (b == 1))
  | .char, bs => match decodeBE 4 bs with
    | some n => if isScalar n then some (.nat n) else none
    | none => none
  | .str, bs => if utf8Valid bs then some (.bytes bs) else none
  | .unit, _ => some .unit
  | .bytes, bs => some (.bytes bs)
  | .vecUint w, bs => some (.nats (decodeVec w bs))
  | .vecBool, bs => some (.bools (bs.map (· == 1)))
  | .vecChar, bs =>
    let ns := decodeVec 4 bs
    if ns.all isScalar then some (.nats ns) else none

/-- The values of a type (range of its Rust counterpart). -/
def wf : Ty → Val → Bool
  | .uint w, .nat n => decide (n < 256 ^ w)
  | .bool, .bool _ => true
  | .char, .nat n => isScalar n
  | .str, .bytes l => utf8Valid l
  | .unit, .unit => true
  | .bytes, .bytes _ => true
  | .vecUint w, .nats l => decide (0 < w) && l.all (fun n => decide (n < 256 ^ w))
  | .vecBool, .bools _ => true
  | .vecChar, .nats l => l.all isScalar
  | _, _ => false

/-! ## Derived cluster enums: argument packing -/

/-- `usize`/`u64` arithmetic is checked (`checked_add`, `try_from`); 64-bit target. -/
def wordLimit : Nat := 2 ^ 64

/-- `pack_args` for one field: `u64` BE length, then the bytes (`Err` if the length does
not fit a `u64` or the addition overflows). -/
def packField (f : Bytes) : Option Bytes :=
  if f.length + 8 < wordLimit then some (encodeBE 8 f.length ++ f) else none

def pack : List Bytes → Option Bytes
  | [] => some []
  | f :: fs =>
    match packField f, pack fs with
    | some a, some rest => some (a ++ rest)
    | _, _ => none

/-- `unpack_arg`: one field starting at `ptr`; returns the field bytes and the new `ptr`. -/
def unpackArg (args : Bytes) (ptr : Nat) : Option (Bytes × Nat) :=
  let lenEnd := ptr + 8
  if wordLimit ≤ lenEnd then none                    -- checked_add
  else if args.length < lenEnd then none             -- args.get(ptr..len_end)
  else
    let len := beVal ((args.drop ptr).take 8)
    let dataEnd := lenEnd + len
    if wordLimit ≤ dataEnd then none                 -- checked_add
    else if args.length < dataEnd then none          -- args.get(len_end..data_end)
    else some ((args.drop lenEnd).take len, dataEnd)

/-- `n` consecutive `unpack_arg`s from `ptr`. -/
def unpackFrom (args : Bytes) : Nat → Nat → Option (List Bytes × Nat)
  | 0, ptr => some ([], ptr)
  | n + 1, ptr =>
    match unpackArg args ptr with
    | none => none
    | some (f, ptr') =>
      match unpackFrom args n ptr' with
      | none => none
      | some (fs, p) => some (f :: fs, p)

/-- The generated decoder body for a variant with `n` data fields: all fields, then
`__ptr == __args.len()`. (`n = 0`: `__args.is_empty()`.) -/
def unpack (n : Nat) (args : Bytes) : Option (List Bytes) :=
  match unpackFrom args n 0 with
  | some (fs, p) => if p = args.length then some fs else none
  | none => none

/-- Field bytes to values with the per-field converters (each under `catch_unwind`). -/
def decodeFields : List Ty → List Bytes → Option (List Val)
  | [], [] => some []
  | t :: ts, f :: fs =>
    match decode t f, decodeFields ts fs with
    | some v, some vs => some (v :: vs)
    | _, _ => none
  | _, _ => none

def unpackTyped (sig : List Ty) (args : Bytes) : Option (List Val) :=
  match unpack sig.length args with
  | some fs => decodeFields sig fs
  | none => none

def encodeFields : List Ty → List Val → List Bytes
  | t :: ts, v :: vs => encode t v :: encodeFields ts vs
  | _, _ => []

def wfFields : List Ty → List Val → Bool
  | [], [] => true
  | t :: ts, v :: vs => wf t v && wfFields ts vs
  | _, _ => false

/-! ### whole messages -/

inductive Kind where | cast | call
  deriving Repr, DecidableEq

/-- One variant of a derived enum: wire tag, cast / call (`#[rpc]`), data field types in
declaration order (the reply port, wherever it stands, is not a data field). -/
structure Variant where
  tag : String
  kind : Kind
  fields : List Ty
  deriving Repr

/-- `SerializedMessage` without the reply channel itself. -/
inductive SMsg where
  | cast (variant : String) (args : Bytes)
  | call (variant : String) (args : Bytes)
  | callReply
  deriving Repr, DecidableEq

def findVariant (vs : List Variant) (k : Kind) (tag : String) : Option Variant :=
  vs.find? (fun v => v.kind == k && v.tag == tag)

/-- Generated `deserialize`: variant lookup among the arms of the same kind, unknown ⇒ `Err`. -/
def deserialize (vs : List Variant) : SMsg → Option (String × List Val)
  | .cast tag args => match findVariant vs .cast tag with
    | some v => (unpackTyped v.fields args).map (fun vals => (tag, vals))
    | none => none
  | .call tag args => match findVariant vs .call tag with
    | some v => (unpackTyped v.fields args).map (fun vals => (tag, vals))
    | none => none
  | .callReply => none

/-- Generated `serialize`. -/
def serialize (v : Variant) (vals : List Val) : Option SMsg :=
  match pack (encodeFields v.fields vals) with
  | some args => some (match v.kind with | .cast => .cast v.tag args | .call => .call v.tag args)
  | none => none

/-- `handle_message` for a serialized message: an undecodable payload is dropped, the
actor (abstracted to the list of messages it handled) is unchanged. -/
def actorStep (vs : List Variant) (handled : List (String × List Val)) (m : SMsg) :
    List (String × List Val) :=
  match deserialize vs m with
  | some d => handled ++ [d]
  | none => handled

/-- What `TActor::Msg::from_boxed` did with a serialized message (under `catch_unwind`). -/
inductive Decoded where
  | ok (d : String × List Val)
  | err
  | panic
  deriving Repr

/-- the actor as `handle_message` sees it: the messages `handle` was called with, whether the
message loop goes on (`handle_message` returned `Ok`), and how many reply ports of `Call`s were
dropped unanswered (their callers observe a closed port — an absence, never a value) -/
structure ActorSt where
  handled : List (String × List Val) := []
  running : Bool := true
  droppedPorts : Nat := 0
  deriving Repr

def SMsg.isCall : SMsg → Bool
  | .call _ _ => true
  | _ => false

/-- `Actor::handle_message`, serialized branch (`actor.rs`): `catch_unwind(from_boxed)`;
`Ok(Ok(msg))` ⇒ `handle(msg)` (the probe's `handle` records the message and, for a call, lets the
port go); `Ok(Err(_))` and `Err(_)` (a panicking decoder) ⇒ the message — with its reply port — is
dropped and `Ok(())` is returned: state and message loop are untouched. -/
def handleMessage (st : ActorSt) (m : SMsg) : Decoded → ActorSt
  | .ok d => { st with handled := st.handled ++ [d], droppedPorts := st.droppedPorts + (if m.isCall then 1 else 0) }
  | .err => { st with droppedPorts := st.droppedPorts + (if m.isCall then 1 else 0) }
  | .panic => { st with droppedPorts := st.droppedPorts + (if m.isCall then 1 else 0) }

/-- the generated decoder as `from_boxed` sees it: a panic inside a field conversion is already
caught by the generated code (`unpack_arg`) and reported as `Err` -/
def decodedOf (vs : List Variant) (m : SMsg) : Decoded :=
  match deserialize vs m with
  | some d => .ok d
  | none => .err

/-! ### the message loop around `handle_message` (wave 2): failure is a real branch

`Actor::process_message` / `handle_message` (ractor/src/actor.rs, feature `cluster`):

* `msg.serialized_msg.is_some()`: `catch_unwind(from_boxed(msg))` — `Ok(Ok(m))` ⇒ `handle(m)`;
  `Ok(Err(_))` and `Err(_)` ⇒ `return Ok(())`: the loop goes on;
* otherwise (a LOCAL message): `from_boxed(msg)?` — an `Err` is returned by `handle_message`, a
  panic unwinds: either way the message loop ends with `ActorErr::Failed` (the actor fails);
* `handle(..)` returning `Err` or panicking ends the loop as well.

So in this model `running` CAN become false, and the theorem that undecodable serialized messages
never do that is a statement about one branch of two. -/

/-- what `handle` did with a decoded message -/
inductive HRes where
  | ok
  | err
  | panic
  deriving Repr, DecidableEq

/-- one message taken from the mailbox -/
structure Inbox where
  /-- `serialized_msg.is_some()` -/
  serialized : Bool
  msg : SMsg
  /-- what `from_boxed` does with it -/
  dec : Decoded
  /-- what `handle` would do with the decoded message -/
  hres : HRes

def dropPort (st : ActorSt) (m : SMsg) : ActorSt :=
  { st with droppedPorts := st.droppedPorts + (if m.isCall then 1 else 0) }

/-- one round of the message loop -/
def processMessage (st : ActorSt) (x : Inbox) : ActorSt :=
  if !st.running then st
  else
    match x.dec with
    | .ok d =>
      let st := { dropPort st x.msg with handled := st.handled ++ [d] }
      match x.hres with
      | .ok => st
      | _ => { st with running := false }          -- `handle` failed: `ActorErr::Failed`
    | _ =>
      if x.serialized then dropPort st x.msg       -- `return Ok(())`
      else { dropPort st x.msg with running := false }   -- `from_boxed(msg)?` / unwinding

def messageLoop (st : ActorSt) (xs : List Inbox) : ActorSt := xs.foldl processMessage st

def Inbox.decoded (x : Inbox) : Option (String × List Val) :=
  match x.dec with
  | .ok d => some d
  | _ => none

/-! ## Frames -/

/-- `FRAME_READ_CHUNK_SIZE` -/
def chunkSize : Nat := 8 * 1024
/-- `DEFAULT_MAX_INBOUND_FRAME_SIZE` -/
def defaultMaxFrame : Nat := 16 * 1024 * 1024
/-- `isize::MAX` on the 64-bit target. -/
def isizeMax : Nat := 2 ^ 63 - 1

/-- `encode_network_message`, the payload being the protobuf encoding. -/
def encodeFrame (payload : Bytes) : Bytes := encodeBE 8 payload.length ++ payload

inductive FrameErr where
  | eof          -- ErrorKind::UnexpectedEof  → reader stops with "channel_closed"
  | tooLarge     -- "exceeds configured limit"
  | unalloc      -- "could not be allocated by a Vec"
  | undecodable  -- "invalid cluster protobuf frame"
  /-- any other `tokio::io::Error` of the transport (`?` on `read_u64` / `read`): reader stops with "frame_read_error" -/
  | io
  deriving Repr, DecidableEq

/-- `checked_frame_length` -/
def checkedFrameLength (len max : Nat) : Except FrameErr Nat :=
  if len > max then .error .tooLarge
  else if len > isizeMax then .error .unalloc
  else .ok len

/-- The transport: what is still to arrive, as the pieces in which it arrives. One
`poll_read` with room for `k > 0` bytes returns at most `k` bytes of the first non-empty
piece; no piece left = EOF (`[]`). -/
def readChunk (k : Nat) : List Bytes → Bytes × List Bytes
  | [] => ([], [])
  | c :: cs =>
    if c.isEmpty then readChunk k cs
    else (c.take k, if c.length ≤ k then cs else c.drop k :: cs)

/-- One read request as seen by the transport: room offered, bytes delivered, length of the
receive buffer of the current frame after appending them. -/
structure ReadEv where
  req : Nat
  got : Nat
  bufAfter : Nat
  deriving Repr, DecidableEq

/-- The loop shared by tokio's `read_u64` (`cs = need = 8`) and `read_n_bytes`
(`cs = FRAME_READ_CHUNK_SIZE`): while `buf.len() < need`, request
`min (need - buf.len()) cs` bytes; `0` bytes ⇒ `UnexpectedEof`. `fuel ≥ need - buf.length`
suffices because every successful read adds a byte. -/
def readLoop (cs need : Nat) : Nat → Bytes → List Bytes → List ReadEv →
    Option Bytes × List Bytes × List ReadEv
  | 0, buf, chunks, tr => (if buf.length < need then none else some buf, chunks, tr)
  | fuel + 1, buf, chunks, tr =>
    if buf.length < need then
      let k := min (need - buf.length) cs
      let (got, chunks') := readChunk k chunks
      if got.isEmpty then (none, chunks', tr ++ [⟨k, 0, buf.length⟩])
      else readLoop cs need fuel (buf ++ got) chunks' (tr ++ [⟨k, got.length, buf.length + got.length⟩])
    else (some buf, chunks, tr)

/-- `read_n_bytes(stream, len)`; `read_u64` is `readN 8 8`. -/
def readN (cs need : Nat) (chunks : List Bytes) : Option Bytes × List Bytes × List ReadEv :=
  readLoop cs need need [] chunks []

/-- Outcome of one `read_network_message`. -/
inductive FrameRes (Msg : Type) where
  | ok (m : Msg)
  | err (e : FrameErr)
  deriving Repr, DecidableEq

/-- `read_network_message(stream, max)`; `dec` is prost's `NetworkMessage::decode`. -/
def readFrame {Msg : Type} (dec : Bytes → Option Msg) (max : Nat) (chunks : List Bytes) :
    FrameRes Msg × List Bytes × List ReadEv :=
  match readN 8 8 chunks with
  | (none, chunks', tr) => (.err .eof, chunks', tr)
  | (some hdr, chunks', tr) =>
    match checkedFrameLength (beVal hdr) max with
    | .error e => (.err e, chunks', tr)
    | .ok len =>
      match readN chunkSize len chunks' with
      | (none, chunks'', tr') => (.err .eof, chunks'', tr ++ tr')
      | (some payload, chunks'', tr') =>
        match dec payload with
        | some m => (.ok m, chunks'', tr ++ tr')
        | none => (.err .undecodable, chunks'', tr ++ tr')

/-- Everything a `SessionReader` does with a stream: frames are read until the first error
(EOF included), after which the reader stops. Result: the outcomes in order, what is left
unread in the transport, all read requests. -/
def readFramesLoop {Msg : Type} (dec : Bytes → Option Msg) (max : Nat) :
    Nat → List Bytes → List (FrameRes Msg) × List Bytes × List ReadEv
  | 0, chunks => ([], chunks, [])
  | fuel + 1, chunks =>
    match readFrame dec max chunks with
    | (.err e, chunks', tr) => ([.err e], chunks', tr)
    | (.ok m, chunks', tr) =>
      let (rs, left, tr') := readFramesLoop dec max fuel chunks'
      (.ok m :: rs, left, tr ++ tr')

def streamLen (chunks : List Bytes) : Nat := chunks.flatten.length

/-- Every frame consumes at least its 8 header bytes, so `streamLen + 1` rounds reach the
terminating error. -/
def readFrames {Msg : Type} (dec : Bytes → Option Msg) (max : Nat) (chunks : List Bytes) :
    List (FrameRes Msg) × List Bytes × List ReadEv :=
  readFramesLoop dec max (streamLen chunks + 1) chunks

/-- A transport that fails: the pieces `chunks` arrive and then, instead of EOF, the next read
returns an I/O error (`ConnectionReset`, …) when `endIo`. Every `?` of `read_u64` / `read_n_bytes`
propagates it at exactly the point where an exhausted transport would have produced
`UnexpectedEof`, so the reader's life is `readFrames` with the final `eof` replaced by `io`. -/
def ioEnd {Msg : Type} (endIo : Bool) : FrameRes Msg → FrameRes Msg
  | .err .eof => if endIo then .err .io else .err .eof
  | r => r

def readFramesIo {Msg : Type} (dec : Bytes → Option Msg) (max : Nat) (chunks : List Bytes) (endIo : Bool) :
    List (FrameRes Msg) × List Bytes × List ReadEv :=
  let r := readFrames dec max chunks
  (r.1.map (ioEnd endIo), r.2)

/-- the stop reason `SessionReader::handle` gives for an error -/
def stopReason : FrameErr → String
  | .eof => "channel_closed"
  | _ => "frame_read_error"

/-- Reference semantics of one frame on the unfragmented stream: outcome and bytes consumed. -/
def parseOne {Msg : Type} (dec : Bytes → Option Msg) (max : Nat) (s : Bytes) : FrameRes Msg × Nat :=
  if s.length < 8 then (.err .eof, s.length)
  else
    match checkedFrameLength (beVal (s.take 8)) max with
    | .error e => (.err e, 8)
    | .ok len =>
      if s.length < 8 + len then (.err .eof, s.length)
      else
        match dec ((s.drop 8).take len) with
        | none => (.err .undecodable, 8 + len)
        | some m => (.ok m, 8 + len)

/-- Reference semantics on the unfragmented stream: outcomes and number of bytes consumed. -/
def parseFrames {Msg : Type} (dec : Bytes → Option Msg) (max : Nat) :
    Nat → Bytes → List (FrameRes Msg) × Nat
  | 0, _ => ([], 0)
  | fuel + 1, s =>
    match parseOne dec max s with
    | (.err e, n) => ([.err e], n)
    | (.ok m, n) =>
      let (rs, k) := parseFrames dec max fuel (s.drop n)
      (.ok m :: rs, n + k)

/-- Outcomes and bytes consumed, the transport-independent part of `readFrames`. -/
def framesObs {Msg : Type} (dec : Bytes → Option Msg) (max : Nat) (chunks : List Bytes) :
    List (FrameRes Msg) × Nat :=
  let r := readFrames dec max chunks
  (r.1, streamLen chunks - streamLen r.2.1)

/-- The read discipline of one `read_u64` / `read_n_bytes` call, checked event by event starting
with `b` bytes in the buffer: every request is at most the chunk size and at most what is
still missing (`need - b`), the transport delivers at most what was asked, and the buffer
holds exactly the bytes received so far. -/
def traceOk (cs need : Nat) : Nat → List ReadEv → Bool
  | _, [] => true
  | b, e :: es =>
    decide (e.req ≤ cs) && decide (e.req + b ≤ need) && decide (e.got ≤ e.req) &&
      decide (e.bufAfter = b + e.got) && traceOk cs need e.bufAfter es

/-- Largest read request of a trace. -/
def maxReq (tr : List ReadEv) : Nat := tr.foldl (fun a e => Nat.max a e.req) 0

/-- Outcome of a complete, admissible frame with payload `p`. -/
def okOf {Msg : Type} (dec : Bytes → Option Msg) (p : Bytes) : FrameRes Msg :=
  match dec p with
  | some m => .ok m
  | none => .err .undecodable

/-! ## Job metadata -/

/-- `JobOptions` as far as the wire is concerned: submit time (ns since the epoch), ttl (ns). -/
structure JobMeta where
  submit : Nat
  ttl : Option Nat
  key : Bytes
  deriving Repr, DecidableEq

/-- `Job::serialize_meta`: 8 bytes submit time (`as u64`), 8 bytes ttl (`as u64`, `None` ↦ 0),
then the key's bytes. -/
def encodeMeta (m : JobMeta) : Bytes :=
  encodeBE 8 m.submit ++ encodeBE 8 (m.ttl.getD 0) ++ m.key

/-- `Job::deserialize_meta` (+ `JobOptions::from_bytes` on the 16-byte prefix): no metadata
or fewer than 16 bytes ⇒ `Err`; ttl `0` ↦ `None`; the rest is the key's bytes. -/
def decodeMeta : Option Bytes → Option JobMeta
  | none => none
  | some bs =>
    if bs.length < 16 then none
    else
      let t := beVal ((bs.drop 8).take 8)
      some ⟨beVal (bs.take 8), if t > 0 then some t else none, bs.drop 16⟩

/-- The metadata values that survive the wire unchanged. -/
def metaOk (m : JobMeta) : Bool :=
  decide (m.submit < 2 ^ 64) && (match m.ttl with | none => true | some t => decide (0 < t ∧ t < 2 ^ 64))

/-! ### `Job<TKey, TMsg>` as a message (`factory/job.rs`, `cluster` feature) -/

/-- `Job::deserialize`: `CallReply` ⇒ `Err`; otherwise `deserialize_meta(metadata)` — `None` or
fewer than 16 bytes ⇒ `Err`, the key is `TKey::from_bytes(meta[16..])` (called unguarded: `none`
of the key decoder stands for its panic, which `handle_message`'s `catch_unwind` contains), the
options are the first 16 bytes — and then the inner message `TMsg::deserialize` of the same
variant / args with `metadata: None`. Result: key, options, inner message. -/
def decodeJob (kty : Ty) (vs : List Variant) (m : SMsg) (md : Option Bytes) :
    Option (Val × JobMeta × String × List Val) :=
  match m with
  | .callReply => none
  | m =>
    match decodeMeta md with
    | none => none
    | some jm =>
      match decode kty jm.key with
      | none => none
      | some k => (deserialize vs m).map fun d => (k, jm, d.1, d.2)

/-- `Job::serialize`: `serialize_meta` (16 option bytes, then the key's bytes) and the inner
message's serialization, whose metadata slot receives the job metadata. -/
def encodeJob (kty : Ty) (key : Val) (submit : Nat) (ttl : Option Nat) (v : Variant) (vals : List Val) :
    Option (SMsg × Bytes) :=
  (serialize v vals).map fun sm => (sm, encodeMeta ⟨submit, ttl, encode kty key⟩)

/-! ### where the reply port stands (`parse.rs` `reply_port_index`, `codegen.rs` `build_ordered_bindings`) -/

/-- `build_ordered_bindings(data_fields, port, port_index)`: the pattern / constructor argument
list of a tuple-style `#[rpc]` variant — the data bindings in declaration order with the port
binding inserted at `port_index` (the loop `for i in 0..total { if i == port_index {port} else
{data[data_idx++]} }` as a structural recursion). -/
def orderedBindings {α : Type} (port : α) : List α → Nat → List α
  | data, 0 => port :: data
  | [], _ + 1 => []            -- unreachable: the port index is an index into all fields
  | d :: ds, k + 1 => d :: orderedBindings port ds k

/-- `parse_rpc_variant`: the data fields are all fields except the one at `port_index` -/
def dataFieldsOf {α : Type} (all : List α) (portIdx : Nat) : List α := all.eraseIdx portIdx

/-- the two reply bridges of an `#[rpc]` variant (`gen_deserialize_port` on the callee's node:
typed value ↦ `into_bytes`; `gen_serialize_port` on the caller's node: bytes ↦ `from_bytes` under
`catch_unwind`, a panic ⇒ nothing is sent to the caller) composed: what the caller receives for the
value `v : rt` the real actor answered. -/
def replyBridge (rt : Ty) (v : Val) : Option Val := decode rt (encode rt v)

/-! ## The run-time oracle (`C19.ok`), evaluated on the implementation's observations -/

/-- What the harness reports for one stream: outcomes and consumed bytes when the stream
arrives in one piece and when it arrives in the generated pieces; read statistics of the
fragmented run. -/
structure FrameObs (Msg : Type) where
  whole : List (FrameRes Msg) × Nat
  split : List (FrameRes Msg) × Nat
  maxReq : Nat
  panicked : Bool

def isErr {Msg : Type} : FrameRes Msg → Bool
  | .err _ => true
  | .ok _ => false

/-- Shape of a reader's life: successes, then exactly one error, then nothing. -/
def stopsAtFirstError {Msg : Type} : List (FrameRes Msg) → Bool
  | [] => false
  | [r] => isErr r
  | r :: rs => !isErr r && stopsAtFirstError rs

/-- Bytes a run may have consumed before reporting `tooLarge`/`unalloc` as its last outcome:
the complete earlier frames plus exactly the 8 header bytes — computed from the stream itself. -/
def rejectPoint (max : Nat) : Nat → Bytes → Option Nat
  | 0, _ => none
  | fuel + 1, s =>
    if s.length < 8 then none
    else
      let len := beVal (s.take 8)
      if len > max || len > isizeMax then some 8
      else if s.length < 8 + len then none
      else (rejectPoint max fuel (s.drop (8 + len))).map (· + 8 + len)

def lastIsReject {Msg : Type} (rs : List (FrameRes Msg)) : Bool :=
  match rs.getLast? with
  | some (.err .tooLarge) => true
  | some (.err .unalloc) => true
  | _ => false

/-- Every frame reported as decoded was within the limits: walk the stream header by header
along the reported successes. -/
def withinLimit {Msg : Type} (max : Nat) : List (FrameRes Msg) → Bytes → Bool
  | .ok _ :: rs, s =>
    let len := beVal (s.take 8)
    decide (8 ≤ s.length) && decide (len ≤ max) && decide (len ≤ isizeMax) && decide (8 + len ≤ s.length) &&
      withinLimit max rs (s.drop (8 + len))
  | _, _ => true

/-- The property clauses of C19 for one stream, as a decidable predicate on observations. The
result is the list of violated clause names (empty = ok). -/
def framesOk {Msg : Type} [DecidableEq Msg] (max : Nat) (stream : Bytes) (o : FrameObs Msg) :
    List String :=
  (if o.panicked then ["frame-total"] else []) ++
  (if o.whole == o.split then [] else ["frame-fragmentation"]) ++
  (if stopsAtFirstError o.split.1 && stopsAtFirstError o.whole.1 then [] else ["frame-stop-at-error"]) ++
  (if o.maxReq ≤ chunkSize then [] else ["frame-bounded-read"]) ++
  (if withinLimit max o.split.1 stream && withinLimit max o.whole.1 stream then [] else ["frame-limit"]) ++
  (if o.split.2 ≤ stream.length && o.whole.2 ≤ stream.length then [] else ["frame-consumed"]) ++
  (if lastIsReject o.split.1 then
     (if rejectPoint max (stream.length + 1) stream == some o.split.2 then [] else ["frame-reject-before-payload"])
   else []) ++
  (if lastIsReject o.whole.1 then
     (if rejectPoint max (stream.length + 1) stream == some o.whole.2 then [] else ["frame-reject-before-payload"])
   else [])

end Codec
