import RactorModel.Lemmas.PgConcAcc

/-!
The per-actor invariant of `Pg.Conc` (forward ⊆ reverse weakened exactly by the phase of the
actor's own exit; reverse ⊆ forward never weakened; what an exit has drained stays drained) and
its preservation by every region of every thread.
-/

namespace Pg.Conc
open AList Pg Pg.Fine

/-- what the exit of `a` has drained from the reverse index stays drained -/
def drained (a : Nat) (st : State) : Phase → Prop
  | .live | .marked => True
  | .demon _ _ | .demonDone => relGmon st a = [] ∧ relWmon st a = []
  | .leaving _ _ | .done => relGmon st a = [] ∧ relWmon st a = [] ∧ relMem st a = []

def Clean (a : Nat) (st : State) : Prop := noM a st ∧ noL a st ∧ noW a st

/-- the invariant about one actor, by the phase of its exit -/
structure AInv (a : Nat) (st : State) (ph : Phase) : Prop where
  z : ZInv a ⟨st, ph⟩
  r : r2f a st
  dr : drained a st ph
  /-- an actor that was already stopping when the run began (no exit to step) owns nothing -/
  old : ph = .live → a ∈ st.dead → Clean a st

structure Env (a : Nat) (st st' : State) : Prop where
  ok : EnvOK a st st'
  r : EnvR a st st'
  /-- the region does not publish `Stopping` for `a` -/
  db : a ∈ st'.dead → a ∈ st.dead

theorem env_of_trans {a : Nat} {st st' : State} {e : Eff} (t : Trans st st' e) (wb : WB a st e)
    (db : a ∈ st'.dead → a ∈ st.dead) : Env a st st' :=
  ⟨envOK_of_trans t wb, envR_of_trans t wb, db⟩

theorem env_of_same {a : Nat} {st st' : State} (h : Same st st') (db : a ∈ st'.dead → a ∈ st.dead) : Env a st st' :=
  env_of_trans (trans_of_same h) (wb_empty a st) db

theorem env_refl (a : Nat) (st : State) : Env a st st := env_of_same (same_refl st) id

theorem nil_of_sub_nil {α : Type} {l l' : List α} (h : ∀ x, x ∈ l' → x ∈ l) (e : l = []) : l' = [] := by
  apply List.eq_nil_iff_forall_not_mem.mpr
  intro x hx; have := h x hx; rw [e] at this; cases this

theorem dead_of_zinv {a : Nat} {st : State} {ph : Phase} (h : ZInv a ⟨st, ph⟩) (hp : ph ≠ .live) : a ∈ st.dead := by
  cases ph with
  | live => exact absurd rfl hp
  | marked => exact h.1
  | demon _ _ => exact h.1
  | demonDone => exact h.1
  | leaving _ _ => exact h.1
  | done => exact h.1

/-- a region that is not part of `a`'s own exit keeps `a`'s invariant -/
theorem ainv_env {a : Nat} {st st' : State} {ph : Phase} (e : Env a st st') (h : AInv a st ph) : AInv a st' ph := by
  refine ⟨zinv_env ph e.ok h.z, e.r.r2f h.r, ?_, ?_⟩
  · cases ph with
    | live => trivial
    | marked => trivial
    | demon gk wk =>
      have hd := h.z.1
      exact ⟨nil_of_sub_nil (e.r.shrinkRG hd) h.dr.1, nil_of_sub_nil (e.r.shrinkRW hd) h.dr.2⟩
    | demonDone =>
      have hd := h.z.1
      exact ⟨nil_of_sub_nil (e.r.shrinkRG hd) h.dr.1, nil_of_sub_nil (e.r.shrinkRW hd) h.dr.2⟩
    | leaving mk rm =>
      have hd := h.z.1
      exact ⟨nil_of_sub_nil (e.r.shrinkRG hd) h.dr.1, nil_of_sub_nil (e.r.shrinkRW hd) h.dr.2.1,
        nil_of_sub_nil (e.r.shrinkRM hd) h.dr.2.2⟩
    | done =>
      have hd := h.z.1
      exact ⟨nil_of_sub_nil (e.r.shrinkRG hd) h.dr.1, nil_of_sub_nil (e.r.shrinkRW hd) h.dr.2.1,
        nil_of_sub_nil (e.r.shrinkRM hd) h.dr.2.2⟩
  · intro hp hd'
    obtain ⟨c1, c2, c3⟩ := h.old hp (e.db hd')
    have hd := e.db hd'
    exact ⟨fun k hk => c1 k (e.ok.shrinkM hd k hk), fun k hk => c2 k (e.ok.shrinkL hd k hk),
      fun s hs => c3 s (e.ok.shrinkW hd s hs)⟩

/-! ### every region of a caller thread is an environment step for every actor -/

theorem joinEntry_empty (st : State) (s g : Nat) (as : List Nat) (h : as.filter (alive st) = []) :
    (joinEntry st s g as).1 = touchGroup st (s, g) := by
  simp [joinEntry, h, touchGroup]

theorem joinEntry_nonempty (st : State) (s g : Nat) (as : List Nat) (h : as.filter (alive st) ≠ []) :
    (joinEntry st s g as).1 = (join st s g as).1 := by
  simp [joinEntry, h]

theorem leaveEntry_none (st : State) (s g : Nat) (as : List Nat) (h : get st.map (s, g) = none) :
    (leaveEntry st s g as).1 = st := by
  simp [leaveEntry, h]

theorem leaveEntry_some (st : State) (s g : Nat) (as : List Nat) {gs : GS} (h : get st.map (s, g) = some gs) :
    (leaveEntry st s g as).1 = (leave st s g as).1 := by
  simp [leaveEntry, h]

theorem env_call (a : Nat) (st : State) (pc : Pc) : Env a st (callStep st pc).1 := by
  cases pc with
  | join s g as => exact env_refl a st
  | joinFiltered s g as =>
    show Env a st (joinEntry st s g as).1
    by_cases h : as.filter (alive st) = []
    · rw [joinEntry_empty st s g as h]; exact env_of_same (same_touchGroup st _) id
    · rw [joinEntry_nonempty st s g as h]
      exact env_of_trans (trans_join st s g as) (wb_join a st s g as) (by rw [join_dead]; exact id)
  | joinEntered s g as p => exact env_of_same (same_joinCleanup st s g as) id
  | notify p => exact env_refl a st
  | leave s g as =>
    show Env a st (leaveEntry st s g as).1
    cases h : get st.map (s, g) with
    | none => rw [leaveEntry_none st s g as h]; exact env_refl a st
    | some gs =>
      rw [leaveEntry_some st s g as h]
      exact env_of_trans (trans_leave st s g as h) (wb_leave a st s g as) (by rw [leave_dead st s g as h]; exact id)
  | monitor g b => exact env_of_same (same_relCreate st b) id
  | monitorRel g b =>
    show Env a st (monitorEntry st g b)
    unfold monitorEntry
    by_cases hd : b ∈ st.dead
    · have : alive st b = false := by simp [alive, hd]
      rw [this]; exact env_of_same (same_touchGroup st _) id
    · have : alive st b = true := alive_iff.mpr hd
      rw [this]
      exact env_of_trans (trans_monitor_alive st g b hd) (wb_monitor a st g b hd)
        (by rw [monitor_alive_state st g b hd]; exact id)
  | monitorRecheck g b =>
    refine env_of_same (same_monitorRecheck st g b) ?_
    show a ∈ (monitorRecheck st g b).dead → _
    unfold monitorRecheck; split <;> exact id
  | monitorScope s b => exact env_of_same (same_relCreate st b) id
  | monitorScopeRel s b =>
    show Env a st (monitorScopeEntry st s b)
    unfold monitorScopeEntry
    by_cases hd : b ∈ st.dead
    · have : alive st b = false := by simp [alive, hd]
      rw [this]; exact env_of_same (same_touchWorld st _) id
    · have : alive st b = true := alive_iff.mpr hd
      rw [this]
      exact env_of_trans (trans_monitorScope_alive st s b hd) (wb_monitorScope a st s b hd)
        (by rw [monitorScope_alive_state st s b hd]; exact id)
  | monitorScopeRecheck s b =>
    refine env_of_same (same_monitorScopeRecheck st s b) ?_
    show a ∈ (monitorScopeRecheck st s b).dead → _
    unfold monitorScopeRecheck; split <;> exact id
  | demonitor g b => exact env_of_trans (trans_demonitor st g b) (wb_demonitor a st g b) id
  | demonitorScope s b => exact env_of_trans (trans_demonitorScope st s b) (wb_demonitorScope a st s b) id
  | done => exact env_refl a st

/-! ### a region of the exit of another actor is an environment step -/

theorem env_exreg {a b : Nat} (hab : b ≠ a) (st : State) (ph : Phase) (r : ExReg) :
    Env a st (fstep b ⟨st, ph⟩ r.toFOp).st := by
  cases r with
  | mark =>
    cases ph with
    | live =>
      refine env_of_same (same_markDead st b) ?_
      intro h
      have : a = b ∨ a ∈ st.dead := by
        have h' : a ∈ (markDead st b).dead := h
        simpa [markDead] using h'
      rcases this with e | e
      · exact absurd e.symm hab
      · exact e
    | _ => exact env_refl a st
  | demTake =>
    cases ph with
    | marked => exact env_of_trans (trans_demonTake st b) (wb_demonTake hab st) id
    | _ => exact env_refl a st
  | demKey k =>
    cases ph with
    | demon gk wk =>
      simp only [ExReg.toFOp, fstep]
      split
      · exact env_of_trans (trans_demonKey st b k) (wb_demonKey hab st k) id
      · exact env_refl a st
    | _ => exact env_refl a st
  | demWKey s =>
    cases ph with
    | demon gk wk =>
      simp only [ExReg.toFOp, fstep]
      split
      · exact env_of_trans (trans_demonWKey st b s) (wb_demonWKey hab st s) id
      · exact env_refl a st
    | _ => exact env_refl a st
  | demDone =>
    cases ph with
    | demon gk wk =>
      cases gk with
      | nil => cases wk <;> exact env_refl a st
      | cons _ _ => exact env_refl a st
    | _ => exact env_refl a st
  | take =>
    cases ph with
    | demonDone => exact env_of_trans (trans_takeMem st b) (wb_takeMem hab st) id
    | _ => exact env_refl a st
  | lvKey k =>
    cases ph with
    | leaving mk rm =>
      simp only [ExReg.toFOp, fstep]
      split
      · refine env_of_trans (trans_leaveKey st b k) (wb_leaveKey hab st k) ?_
        rw [(leaveKey_acc st b k).2.2.2]; exact id
      · exact env_refl a st
    | _ => exact env_refl a st
  | finish =>
    cases ph with
    | leaving mk rm =>
      cases mk with
      | nil => exact env_of_same (same_finishLeave st b rm) id
      | cons _ _ => exact env_refl a st
    | _ => exact env_refl a st

/-! ### the regions of `a`'s own exit -/

theorem r2f_trans {a : Nat} {st st' : State} {e : Eff} (t : Trans st st' e) (h : r2f a st)
    (cm : ∀ k, k ∈ relMem st a → e.delM k a → e.delRM a k)
    (cl : ∀ k, k ∈ relGmon st a → e.delL k a → e.delRG a k)
    (cw : ∀ s, s ∈ relWmon st a → e.delW s a → e.delRW a s) : r2f a st' := by
  refine ⟨?_, ?_, ?_⟩
  · intro k hk
    rw [t.rm] at hk; rw [t.m]
    rcases hk with ⟨x, y⟩ | x
    · exact Or.inl ⟨h.1 k x, fun z => y (cm k x z)⟩
    · exact Or.inr x
  · intro k hk
    rw [t.rg] at hk; rw [t.l]
    rcases hk with ⟨x, y⟩ | x
    · exact Or.inl ⟨h.2.1 k x, fun z => y (cl k x z)⟩
    · exact Or.inr x
  · intro s hs
    rw [t.rw] at hs; rw [t.w]
    rcases hs with ⟨x, y⟩ | x
    · exact Or.inl ⟨h.2.2 s x, fun z => y (cw s x z)⟩
    · exact Or.inr x

theorem sub_rm {a : Nat} {st st' : State} {e : Eff} (t : Trans st st' e) (na : ∀ k, ¬ e.addM k a) :
    ∀ k, k ∈ relMem st' a → k ∈ relMem st a := by
  intro k hk; rw [t.rm] at hk
  rcases hk with ⟨x, _⟩ | x
  · exact x
  · exact absurd x (na k)

theorem sub_rg {a : Nat} {st st' : State} {e : Eff} (t : Trans st st' e) (na : ∀ k, ¬ e.addL k a) :
    ∀ k, k ∈ relGmon st' a → k ∈ relGmon st a := by
  intro k hk; rw [t.rg] at hk
  rcases hk with ⟨x, _⟩ | x
  · exact x
  · exact absurd x (na k)

theorem sub_rw {a : Nat} {st st' : State} {e : Eff} (t : Trans st st' e) (na : ∀ s, ¬ e.addW s a) :
    ∀ s, s ∈ relWmon st' a → s ∈ relWmon st a := by
  intro s hs; rw [t.rw] at hs
  rcases hs with ⟨x, _⟩ | x
  · exact x
  · exact absurd x (na s)

theorem not_mem_of_nil {α : Type} {l : List α} (e : l = []) (x : α) : x ∉ l := by rw [e]; exact List.not_mem_nil

theorem ainv_own {a : Nat} {st : State} {ph : Phase} (h : AInv a st ph) (r : ExReg)
    (hg : ¬ (r = .mark ∧ a ∈ st.dead)) :
    AInv a (fstep a ⟨st, ph⟩ r.toFOp).st (fstep a ⟨st, ph⟩ r.toFOp).ph := by
  have hz := zinv_fstep h.z r.toFOp
  cases r with
  | mark =>
    cases ph with
    | live => exact ⟨hz, h.r, trivial, fun hp => by cases hp⟩
    | _ => exact h
  | demTake =>
    cases ph with
    | marked =>
      have t := trans_demonTake st a
      refine ⟨hz, r2f_trans t h.r (by simp [demonTakeEff]) (by simp [demonTakeEff]) (by simp [demonTakeEff]), ?_,
        fun hp => by cases hp⟩
      refine ⟨List.eq_nil_iff_forall_not_mem.mpr ?_, List.eq_nil_iff_forall_not_mem.mpr ?_⟩
      · intro k hk; replace hk : k ∈ relGmon (demonTake st a) a := hk; rw [t.rg] at hk; simp [demonTakeEff] at hk
      · intro s hs; replace hs : s ∈ relWmon (demonTake st a) a := hs; rw [t.rw] at hs; simp [demonTakeEff] at hs
    | _ => exact h
  | demKey k =>
    cases ph with
    | demon gk wk =>
      simp only [ExReg.toFOp, fstep] at hz ⊢
      split
      · next c =>
        rw [if_pos c] at hz
        have t := trans_demonKey st a k
        refine ⟨hz, r2f_trans t h.r (by simp [demonKeyEff])
          (fun k' hk' => absurd hk' (not_mem_of_nil h.dr.1 k')) (by simp [demonKeyEff]), ?_, fun hp => by cases hp⟩
        exact ⟨nil_of_sub_nil (sub_rg t (by simp [demonKeyEff])) h.dr.1,
          nil_of_sub_nil (sub_rw t (by simp [demonKeyEff])) h.dr.2⟩
      · exact h
    | _ => exact h
  | demWKey s =>
    cases ph with
    | demon gk wk =>
      simp only [ExReg.toFOp, fstep] at hz ⊢
      split
      · next c =>
        rw [if_pos c] at hz
        have t := trans_demonWKey st a s
        refine ⟨hz, r2f_trans t h.r (by simp [demonWKeyEff]) (by simp [demonWKeyEff])
          (fun s' hs' => absurd hs' (not_mem_of_nil h.dr.2 s')), ?_, fun hp => by cases hp⟩
        exact ⟨nil_of_sub_nil (sub_rg t (by simp [demonWKeyEff])) h.dr.1,
          nil_of_sub_nil (sub_rw t (by simp [demonWKeyEff])) h.dr.2⟩
      · exact h
    | _ => exact h
  | demDone =>
    cases ph with
    | demon gk wk =>
      cases gk with
      | nil =>
        cases wk with
        | nil => exact ⟨hz, h.r, h.dr, fun hp => by cases hp⟩
        | cons _ _ => exact h
      | cons _ _ => exact h
    | _ => exact h
  | take =>
    cases ph with
    | demonDone =>
      have t := trans_takeMem st a
      refine ⟨hz, r2f_trans t h.r (by simp [takeMemEff]) (by simp [takeMemEff]) (by simp [takeMemEff]), ?_,
        fun hp => by cases hp⟩
      refine ⟨nil_of_sub_nil (sub_rg t (by simp [takeMemEff])) h.dr.1,
        nil_of_sub_nil (sub_rw t (by simp [takeMemEff])) h.dr.2, List.eq_nil_iff_forall_not_mem.mpr ?_⟩
      intro k hk; replace hk : k ∈ relMem (takeMem st a) a := hk; rw [t.rm] at hk; simp [takeMemEff] at hk
    | _ => exact h
  | lvKey k =>
    cases ph with
    | leaving mk rm =>
      simp only [ExReg.toFOp, fstep] at hz ⊢
      split
      · next c =>
        rw [if_pos c] at hz
        have t := trans_leaveKey st a k
        refine ⟨hz, r2f_trans t h.r (fun k' hk' => absurd hk' (not_mem_of_nil h.dr.2.2 k'))
          (by simp [leaveKeyEff]) (by simp [leaveKeyEff]), ?_, fun hp => by cases hp⟩
        exact ⟨nil_of_sub_nil (sub_rg t (by simp [leaveKeyEff])) h.dr.1,
          nil_of_sub_nil (sub_rw t (by simp [leaveKeyEff])) h.dr.2.1,
          nil_of_sub_nil (sub_rm t (by simp [leaveKeyEff])) h.dr.2.2⟩
      · exact h
    | _ => exact h
  | finish =>
    cases ph with
    | leaving mk rm =>
      cases mk with
      | nil =>
        have t := trans_of_same (same_finishLeave st a rm)
        refine ⟨hz, r2f_trans t h.r (by simp) (by simp) (by simp), ?_, fun hp => by cases hp⟩
        exact ⟨nil_of_sub_nil (sub_rg t (by simp)) h.dr.1, nil_of_sub_nil (sub_rw t (by simp)) h.dr.2.1,
          nil_of_sub_nil (sub_rm t (by simp)) h.dr.2.2⟩
      | cons _ _ => exact h
    | _ => exact h

end Pg.Conc
